//! Programs around threaded globals that live INSIDE A NAMESPACE next to a local variable of the same leaf name, and the
//! scope oracle of the emitted Metal module.
//!
//! The Metal back end passes static / groupshared / extern globals on as reference parameters under their LEAF name
//! (`Counters::total` ↦ `thread int& total`).  `NameMap::build` therefore reserves the generated name of every function /
//! global that some function body uses, whatever namespace it lives in, so that the local-variable pass renames a local
//! `total` to `total_0`.  Seeded mutant C02-7 reserved only names of the root scope ("a namespaced symbol is always printed
//! qualified"): the local keeps its name and captures the parameter — in a nested block the emitted Metal silently reads /
//! writes / passes the LOCAL, in the outermost block (or as a parameter) the parameter name is declared twice.
//!
//! * global class: `static` (read and written; both evaluators run it), `groupshared`, `extern` (a constant buffer) — the typed
//!   evaluator has neither of the last two: judged by the scope oracle alone
//! * namespace form: one namespace, nested `A::B`, reopened (global in the first part, functions in the second)
//! * use: `direct` (`N::g` in the function that has the local), `callee` (only through functions of the namespace),
//!   `both`
//! * where the local of the same leaf name lives: block of an `if`, body of a `for`, the `for` variable itself, the outermost
//!   block, a parameter, a block nested two levels deep after a direct use
//! * `two`: a second global of the same leaf name in another namespace used by the same function
#![allow(dead_code)]
use super::sx::Sx;
use crate::util::Rng;

pub const CLASSES: [&str; 3] = ["static", "groupshared", "extern"];
pub const NSFORMS: [&str; 3] = ["one", "nested", "reopened"];
pub const USES: [&str; 3] = ["direct", "callee", "both"];
pub const LOCS: [&str; 6] = ["if", "forbody", "forvar", "outer", "param", "deep"];
pub const LEAVES: [&str; 4] = ["total", "slot", "h", "count"];

#[derive(Clone, Copy, Debug)]
pub struct Shape {
    pub cls: u64,
    pub ns: u64,
    pub uses: u64,
    pub loc: u64,
    pub two: bool,
    pub leaf: u64,
    /// 0 int, 1 uint, 2 float
    pub ty: u64,
}

fn tyname(ty: u64) -> &'static str {
    ["int", "uint", "float"][ty as usize % 3]
}

fn lit(ty: u64, v: u64) -> String {
    match ty % 3 {
        0 => format!("{}", v),
        1 => format!("{}u", v),
        _ => format!("{}.0f", v),
    }
}

/// (source, tag for the input distribution)
pub fn program(s: &Shape, rng: &mut Rng) -> (String, String) {
    let cls = CLASSES[s.cls as usize % 3];
    let t = if cls == "extern" { "int" } else { tyname(s.ty) };
    let ty = if cls == "extern" { 0 } else { s.ty };
    let g = LEAVES[s.leaf as usize % LEAVES.len()];
    let uses = USES[s.uses as usize % 3];
    let loc = LOCS[s.loc as usize % LOCS.len()];
    let (open, reopen, close, q) = match NSFORMS[s.ns as usize % 3] {
        "one" => ("namespace N\n{\n", "", "}\n", "N::"),
        "nested" => ("namespace A\n{\nnamespace B\n{\n", "", "}\n}\n", "A::B::"),
        _ => ("namespace N\n{\n", "}\nnamespace N\n{\n", "}\n", "N::"),
    };
    let init = 100 + rng.below(50);
    let mut src = String::new();
    if cls == "extern" {
        src.push_str("struct CbS\n{\n    int4 v;\n};\n");
    }
    src.push_str(open);
    match cls {
        "static" => src.push_str(&format!("static {} {} = {};\n", t, g, lit(ty, init))),
        "groupshared" => src.push_str(&format!("groupshared {} {};\n", t, g)),
        _ => src.push_str(&format!("ConstantBuffer<CbS> {};\n", g)),
    }
    src.push_str(reopen);
    let gval = if cls == "extern" { format!("{}.v.y", g) } else { g.to_string() };
    src.push_str(&format!("{} read()\n{{\n    return {};\n}}\n", t, gval));
    if cls != "extern" {
        src.push_str(&format!("void bump({} by)\n{{\n    {} += by;\n}}\n", t, g));
    } else {
        src.push_str(&format!("{} pick({} by)\n{{\n    return {}.v.x + by;\n}}\n", t, t, g));
    }
    src.push_str(close);
    if s.two {
        src.push_str(&format!("namespace M\n{{\nstatic {} {} = {};\n{} read()\n{{\n    return {};\n}}\n}}\n", t, g, lit(ty, 7), t, g));
    }
    let qg = format!("{}{}", q, g);
    let qgval = if cls == "extern" { format!("{}.v.y", qg) } else { qg.clone() };
    // what the function does with the local's value `x`: write it into the global / hand it to a callee that does
    let write = |x: &str| -> String {
        let direct = if cls == "extern" { format!("result += {}.v.x + {};", qg, x) } else { format!("{} += {};", qg, x) };
        let callee = if cls == "extern" { format!("result += {}pick({});", q, x) } else { format!("{}bump({});", q, x) };
        match uses {
            "direct" => direct,
            "callee" => callee,
            _ => format!("{} {}", direct, callee),
        }
    };
    let read = match uses {
        "direct" => qgval.clone(),
        "callee" => format!("{}read()", q),
        _ => format!("{} + {}read()", qgval, q),
    };
    let bound = if ty % 3 == 2 { format!("{}", lit(ty, 3)) } else { format!("(n & {})", lit(ty, 3)) };
    let one = lit(ty, 1);
    let two = lit(ty, 2);
    let mut params = format!("{} n", t);
    let mut body: Vec<String> = vec![format!("{} result = {};", t, lit(ty, 0))];
    match loc {
        "if" => {
            body.push(format!("if (n > {})", lit(ty, 0)));
            body.push("{".into());
            body.push(format!("    {} {} = n * {} + {};", t, g, two, one));
            body.push(format!("    {}", write(g)));
            body.push(format!("    result += {};", g));
            body.push("}".into());
        }
        "forbody" => {
            body.push(format!("for ({} i = {}; i < {}; ++i)", t, lit(ty, 0), bound));
            body.push("{".into());
            body.push(format!("    {} {} = i * {} + {};", t, g, two, one));
            body.push(format!("    {}", write(g)));
            body.push(format!("    result += {};", g));
            body.push("}".into());
        }
        "forvar" => {
            body.push(format!("for ({} {} = {}; {} < {}; ++{})", t, g, lit(ty, 0), g, bound, g));
            body.push("{".into());
            body.push(format!("    {}", write(&format!("({} + {})", g, one))));
            body.push(format!("    result += {};", g));
            body.push("}".into());
        }
        "outer" => {
            body.push(format!("{} {} = n * {} + {};", t, g, two, one));
            body.push(write(g));
            body.push(format!("result += {};", g));
        }
        "param" => {
            params = format!("{} n, {} {}", t, t, g);
            body.push(write(g));
            body.push(format!("result += {} + n;", g));
        }
        _ => {
            body.push(write(&one));
            body.push("{".into());
            body.push(format!("    if (n > {})", lit(ty, 0)));
            body.push("    {".into());
            body.push(format!("        {} {} = n + {};", t, g, two));
            body.push(format!("        {}", write(g)));
            body.push(format!("        result += {};", g));
            body.push("    }".into());
            body.push(format!("    result += {};", read));
            body.push("}".into());
        }
    }
    let extra = if s.two { format!(" + M::{} + M::read()", g) } else { String::new() };
    body.push(format!("return result * {} + {}{};", lit(ty, 1000), read, extra));
    let text: String = body.iter().map(|l| format!("    {}\n", l)).collect();
    src.push_str(&format!("{} f({})\n{{\n{}}}\n", t, params, text));
    // a caller above it: the global travels through a function that never names it
    let call = if loc == "param" { format!("f(n, n + {})", one) } else { "f(n)".to_string() };
    src.push_str(&format!("{} top({} n)\n{{\n    {} r = {};\n    return r + {};\n}}\n", t, t, t, call, call));
    let tag = format!("n:ns:{}:{}:{}:{}{}", cls, NSFORMS[s.ns as usize % 3], uses, loc, if s.two { ":two" } else { "" });
    (src, tag)
}

/// the enumerated part: class x use x place of the local (the namespace form, leaf name and scalar type rotate), then the
/// programs with two globals of one leaf name
pub fn enumerated_len() -> u64 {
    (CLASSES.len() * USES.len() * LOCS.len()) as u64 + 6
}

pub fn shape_at(idx: u64) -> Shape {
    let base = (CLASSES.len() * USES.len() * LOCS.len()) as u64;
    if idx >= base {
        let k = idx - base;
        return Shape { cls: 0, ns: k % 3, uses: k % 3, loc: [0, 3][(k / 3) as usize % 2], two: true, leaf: 2, ty: 0 };
    }
    let loc = idx % LOCS.len() as u64;
    let uses = (idx / LOCS.len() as u64) % 3;
    let cls = (idx / (LOCS.len() * USES.len()) as u64) % 3;
    Shape { cls, ns: (idx + idx / 6) % 3, uses, loc, two: false, leaf: idx % LEAVES.len() as u64, ty: if idx % 7 == 3 { 1 } else if idx % 11 == 5 { 2 } else { 0 } }
}

pub fn random_shape(rng: &mut Rng) -> Shape {
    Shape {
        cls: if rng.chance(1, 2) { 0 } else { 1 + rng.below(2) },
        ns: rng.below(3),
        uses: rng.below(3),
        loc: rng.below(LOCS.len() as u64),
        two: rng.chance(1, 8),
        leaf: rng.below(LEAVES.len() as u64),
        ty: if rng.chance(2, 3) { 0 } else { 1 + rng.below(2) },
    }
}

pub fn ns_program(idx: u64, rng: &mut Rng) -> (String, String) {
    let s = if idx < enumerated_len() { shape_at(idx) } else { random_shape(rng) };
    program(&s, rng)
}

// ------------------------------------------------------------------------------------------------ scope oracle

/// two globals of the same leaf name (in different namespaces) needed by one function: both parameters get the leaf name
pub const C_SAME_LEAF: &str = "threaded-globals-share-a-leaf-name";

fn last_component(name: &str) -> &str {
    name.rsplit("::").next().unwrap_or(name)
}

fn local_names(s: &Sx, out: &mut Vec<String>) {
    if let Sx::L(items) = s {
        if matches!(s.head(), "var" | "decl") {
            for d in s.args() {
                if d.head() == "d" && !d.args().is_empty() {
                    out.push(d.args()[0].atom().to_string());
                }
            }
        }
        for i in items {
            local_names(i, out);
        }
    }
}

/// Scope oracle on the emitted module, independent of both evaluators and of the Lean model.  A parameter that carries a
/// global (a reference parameter named like the leaf of a global of the program) must be visible wherever the body names the
/// global, so inside that function (1) no other parameter and (2) no local declaration (block, for initialiser, any depth) may
/// have its name.  Result: (emitted function name — None inside a method, message).  Two REFERENCE parameters of one name
/// that stand for two globals of the program with that leaf name are the described class `C_SAME_LEAF`.
pub fn scope_failures(items: &[Sx], global_names: &[String]) -> Vec<(Option<String>, String)> {
    let mut out = Vec::new();
    fn visit(s: &Sx, top: Option<String>, global_names: &[String], out: &mut Vec<(Option<String>, String)>) {
        if let Sx::L(items) = s {
            if s.head() == "fn" && s.args().len() >= 4 && s.args()[2].head() == "params" {
                let fname = s.args()[0].atom().to_string();
                // (is reference, name)
                let ps: Vec<(bool, String)> = s.args()[2]
                    .args()
                    .iter()
                    .filter_map(|p| match p.head() {
                        "val" if p.args().len() >= 2 => Some((false, p.args()[1].atom().to_string())),
                        "ref" if p.args().len() >= 3 => Some((true, p.args()[2].atom().to_string())),
                        _ => None,
                    })
                    .collect();
                let mut locals = Vec::new();
                local_names(&s.args()[3], &mut locals);
                let mut seen: Vec<&str> = Vec::new();
                for (is_ref, name) in &ps {
                    if !*is_ref || seen.contains(&name.as_str()) {
                        continue;
                    }
                    let carried: Vec<&String> = global_names.iter().filter(|g| last_component(g) == name).collect();
                    if carried.is_empty() {
                        continue;
                    }
                    seen.push(name.as_str());
                    let same: Vec<&(bool, String)> = ps.iter().filter(|(_, n)| n == name).collect();
                    let what = carried.iter().map(|g| g.as_str()).collect::<Vec<_>>().join(" / ");
                    if same.len() > 1 {
                        if same.iter().all(|(r, _)| *r) && carried.len() >= same.len() {
                            out.push((top.clone(), format!("class:{} ## emitted function {} declares {} reference parameters named {} (globals {}): {}", C_SAME_LEAF, fname, same.len(), name, what, s.args()[2].show())));
                        } else {
                            out.push((top.clone(), format!("emitted function {} declares the name {} of the parameter that carries global {} a second time in its parameter list: {}", fname, name, what, s.args()[2].show())));
                        }
                    }
                    if locals.iter().any(|l| l == name) {
                        out.push((top.clone(), format!("emitted function {} declares a local variable {} although its parameter {} carries global {}: uses of the global in the scope of the local are captured", fname, name, name, what)));
                    }
                }
            }
            if matches!(s.head(), "struct" | "method") {
                for i in items {
                    visit(i, None, global_names, out);
                }
            }
        }
    }
    for i in items {
        let top = if i.head() == "fn" { Some(i.args()[0].atom().to_string()) } else { None };
        visit(i, top, global_names, &mut out);
    }
    out
}

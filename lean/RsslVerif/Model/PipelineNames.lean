import RsslVerif.Model.PipelineTyper
import RsslVerif.Model.Names
/-!
# The name the HLSL exporter reports for a stage's entry function

`hlsl/src/ast_generate.rs` reports `context.get_function_name(stage.entry_point)` = `NameMap::get_name_leaf` of the
entry function: the *generated* name, not the source name.  The name map (`Model/Names.lean`, C15's subject) is built
from the whole module - every non-intrinsic, non-template function of the registry, used or not, defined before or after
the Pipeline block - so a second function of the same name **anywhere in the file** turns an entry `f` into `f_k`.

The scope of a function in the name map is the *namespace* it is registered in (`Context::register_function` stores
`get_current_namespace()`): a struct is not a scope there, so a method `S::f` and a free function `f` of the same
namespace are one group (observed: method `ms_0` as mesh entry + helper `void ms_0()` after the block -> `ms_0_0`).

Core Lean only (linked into rsslmodel_c17).
-/
namespace RsslVerif.Model.PipelineNames
open RsslVerif.Model.PipelineTyper RsslVerif.Model

/-- the symbols of a file other than its functions, as `NameMap::build` pushes them: (scope, source name) -/
structure Others where
  /-- namespace registry: (parent, name) by id -/
  nss : List (Option Nat × String)
  structs : List (Option Nat × String)
  globals : List (Option Nat × String)
  deriving Repr, Inhabited

/-- `shape` = signature letter followed by the flags `M` (method of a struct) and `N` (inside the first namespace) -/
def inNamespace (f : FnDecl) : Bool := (f.shape.drop 1).toString.toList.contains 'N'

/-- the namespace a registry entry is registered in: a method is registered in the namespace of its struct -/
def fnScope (f : FnDecl) : Option Nat := if inNamespace f then some 0 else none

def number (k : Names.Kind) : List (Option Nat × String) → Nat → List Names.Entry
  | [], _ => []
  | (sc, n) :: r, i => { sym := ⟨k, i⟩, scope := sc, name := n } :: number k r (i + 1)

/-- functions in registry order; the id is the registry index; templates get no name (none is instantiated here) -/
def fnEntries : List FnDecl → Nat → List Names.Entry
  | [], _ => []
  | f :: r, i =>
    if f.isTemplate then fnEntries r (i + 1)
    else { sym := ⟨.func, i⟩, scope := fnScope f, name := f.name } :: fnEntries r (i + 1)

/-- push order of `build`: namespaces (separately), structs, (no enums), globals, functions.  `used` / `locals` only
    influence the names of local variables. -/
def nameInput (o : Others) (reg : List FnDecl) : Names.Input :=
  { nss := o.nss, entries := number .struct o.structs 0 ++ number .global o.globals 0 ++ fnEntries reg 0,
    used := [], locals := [] }

/-- `get_name_leaf(NameSymbol::Function(id))` of the map built for the whole module; the panics of `build` /
    `get_name_leaf` are explicit -/
def entryName (reserved : List String) (o : Others) (reg : List FnDecl) (i : Nat) : Except String String :=
  match Names.build reserved (nameInput o reg) with
  | .error e => .error e
  | .ok names =>
    match Names.lookup names ⟨.func, i⟩ with
    | some n => .ok n.name
    | none => .error "panic:No name for symbol"

end RsslVerif.Model.PipelineNames

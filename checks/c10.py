"""C10 — lexing is lossless and numeric literals are exact."""
import re

T = "RsslVerif.Thm.C10."
NUMERIC = ("Int:", "IntU32:", "IntU64:", "IntS64:", "Float:", "Float16:", "Float32:", "Float64:")


KEY_NO_INTEGER_DIGITS = ("lexer.rs token_intermediate: a floating literal without integer digits (.5) is not one token: "
                         "literal_float is tried only on a leading digit, so it is read as Period followed by the digits")
KEY_UPPER_HEX_PREFIX = ("lexer.rs literal_int: the hexadecimal prefix 0X (upper case X) is not recognised: "
                        "0X1F is read as the integer 0 followed by the identifier X1F")


def _text(req):
    f = req.split("\t")
    try:
        return bytes.fromhex(f[2])
    except Exception:
        return b""


def nontrivial(req, obs):
    if req.startswith("C10.emit") or req.startswith("C10.fmt"):
        return not obs.startswith("!") and obs != ""
    if req.startswith("C10.pp"):
        # tokens from at least two files (an included file, a define or a `##` result)
        m = re.search(r" from=(\S+)", obs)
        return bool(m) and m.group(1).count(",") >= 1
    if req.startswith("C10.loc"):
        return obs.count(",") >= 3
    if req.startswith("C10.diag"):
        return obs != "ok" and ": error: " in obs
    # at least three tokens, or a numeric literal
    return obs.count(";") >= 2 or any(k in obs for k in NUMERIC)


def finding_key(req, obs, detail):
    """known defects are keyed by call site, everything else by the exact request"""
    d = detail or ""
    # the one single-precision value whose shortest decimal (7.038531e-26) lies so close to the midpoint of two
    # singles that its nearest double IS that midpoint: read back through the double it becomes the neighbour
    # (repaired by 265a080; the record is `fixed`, so a return of the defect is named by this key and is a VIOLATION)
    if re.search(r"\b[19]5ae43fd\b", d) and re.search(r"\b15ae43fe\b", d) and "07038531" in d and \
            (d.startswith("FAIL:emit Float") or d.startswith("FAIL:fmt Float")):
        return "formatter.rs format_literal: single 0x15ae43fd printed with f32 Display digits (7.038531e-26) reads back as 0x15ae43fe"
    # C10.num: the two spelling families of the C numeral grammar that rssl's dispatcher does not read as one literal
    if req.startswith("C10.num"):
        if re.match(r"FAIL:numeral \.\d\S* is the one literal Float\S* (\d+) \d+ but was read as Period \1 \d+;", d):
            return KEY_NO_INTEGER_DIGITS
        if re.match(r"FAIL:numeral 0X[0-9a-fA-F]+[uUlL]{0,2} is the one literal Int\S* (\d+) \d+ but was read as Int:0 \1 \d+;Id:58", d) or \
                re.match(r"FAIL:numeral 0X[0-9a-fA-F]+[uUlL]{0,2} does not fit the type its suffix names \(IntegerLiteralTooLarge at "
                         r"\d+ expected\) but was read as (.*;)?Int:0 \d+ \d+;Id:58", d):
            return KEY_UPPER_HEX_PREFIX
    if re.match(r"FAIL:panic (\S*/)?formatter/src/formatter\.rs:\d+: invalid msl$", d):
        return "panic formatter/src/formatter.rs fn write_infinity_f64: invalid msl"
    if "as_ptr_range" in d:
        # which `end_of_stream()` produced the `&[]`: find the start of the failing token
        ends = re.findall(r" (\d+)(?:;| !|$)", obs.split(" !")[0] + ";") if obs.split(" !")[0] else []
        pos = int(ends[-1]) if ends else 0
        rest = _text(req)[pos:]
        site = "block_comment" if rest.startswith(b"/*") else "digits_hex" if rest.startswith(b"0x") else "other"
        return "panic lexer.rs TokenStream::next debug_assert(rest is a subslice): end_of_stream() from " + site
    m = re.match(r"FAIL:int (\S+?)([lL]) denotes (\d+) but the token holds (-\d+)$", d)
    if m:
        written, held = int(m.group(3)), int(m.group(4))
        if 2 ** 63 <= written < 2 ** 64 and held == written - 2 ** 64:
            body = m.group(1)
            base = "hex" if body.startswith("0x") else "octal" if len(body) > 1 and body.startswith("0") else "decimal"
            return "lexer.rs literal_%s_int: `value as i64` wraps a literal >= 2^63 with suffix l to a negative value" % base
    m = re.match(r"FAIL:emit IntU32 literal (\S+?)[uU] printed as (\d+)u$", d)
    if m:
        body = m.group(1)
        written = int(body, 16) if body.startswith("0x") else int(body, 8) if len(body) > 1 and body[0] == "0" and body[1] in "01234567" else int(body)
        if written >= 2 ** 32 and int(m.group(2)) == written % 2 ** 32:
            return "typer/expressions.rs: IntUnsigned32 literal >= 2^32 truncated by `*i as u32`"
    if re.match(r"FAIL:emit Float64 literal \S+ printed as integer literal \d+L$", d):
        return "formatter.rs format_literal: whole-valued Float64 printed without '.0'"
    if re.match(r"FAIL:emit literal \S+[hH] printed as \d+h which is not a numeric literal$", d):
        return "formatter.rs format_literal: whole-valued Float16 printed without '.0'"
    return req


def shrink(req):
    f = req.split("\t")
    if f[0] != "C10.lex":
        return
    try:
        text = bytes.fromhex(f[2]).decode()
    except Exception:
        return
    n = len(text)
    size = max(n // 2, 1)
    while size >= 1:
        for i in range(0, n, size):
            cand = text[:i] + text[i + size:]
            if cand != text:
                yield "\t".join([f[0], f[1], cand.encode().hex()])
        size //= 2
    if f[1] != "t1i0b0":
        yield "\t".join([f[0], "t1i0b0", f[2]])


def search(ctx):
    """candidate inputs once an obligation has broken: every text up to length 3 over a small alphabet that
    reaches every sub-lexer, and the numeric boundary spellings"""
    alphabet = ["a", "1", "0", ".", "e", "x", "u", "l", "f", "+", "-", "=", "<", ">", "/", "*", "\\", "\n", "\r", " ", "\"", "#"]
    out = []

    def add(t):
        out.append("C10.lex\tt1i0b0\t" + t.encode().hex())

    for a in alphabet:
        add(a)
        for b in alphabet:
            add(a + b)
            for c in alphabet:
                add(a + b + c)
    for v in [2 ** 31, 2 ** 32, 2 ** 63 - 1, 2 ** 63, 2 ** 64 - 1, 2 ** 64, 2 ** 64 + 1, 10 * 2 ** 64]:
        for d in (-1, 0, 1):
            for sfx in ["", "u", "l", "ul", "lu"]:
                add("%d%s" % (v + d, sfx))
                add("0x%x%s" % (v + d, sfx))
                add("0%o%s" % (v + d, sfx))
    for t in ["0.0031308", "0.055", "0.1", "1e23", "8.5e-324", "2.4703282292062327e-324", "2.4703282292062328e-324",
              "1.7976931348623158e308", "1.7976931348623159e308", "3.4028235677973366e38f", "1.00000005960464478f",
              "9007199254740993.0", "9007199254740993.0f", "16777217.0f", "1e400", "1e-400", "1.#INF", "0.#INF"]:
        add(t)
    # one numeral, one token: every shape of the exponent part and the suffix on short digit strings
    for whole in ["0", "1", "25"]:
        for frac in ["", ".", ".5"]:
            for ex in ["", "e5", "E5", "e+2", "E+2", "e-2", "E-2"]:
                if frac == "" and ex == "":
                    continue
                for sfx in ["", "f", "F", "h", "H", "l", "L"]:
                    for dl in ["", ";"]:
                        out.append("C10.num\t%s\td%s" % ((whole + frac + ex + sfx).encode().hex(), dl.encode().hex()))
    # printing: every arm of format_literal / generate_literal on both generators
    lits = ["0", "7", "0x10", "017", "4294967295u", "1u", "0.5", "0.5f", "0.5h", "0.5L", "2.0", "2.0f", "2.0h", "2.0L",
            "1e30", "1e30f", "1e30h", "1e30L", "0.0", "0.0f", "1.#INF", "1.#INFf", "1.#INFh", "1.#INFL",
            "3.4028235e38f", "9223372036854775808.0", "9223372036854775808.0f", "7.038530691851209e-26f", "1e-45f"]
    for tgt in ("dx", "msl", "vk"):
        for ctx in ("stmt", "neg", "init", "incl", "def"):
            for l in lits:
                out.append("C10.emit\t%s.%s\t%s" % (tgt, ctx, l))
        for l in ["5", "0x10u", "017", "2147483647", "2147483648"]:
            for ctx in ("arr", "enumv", "enumcast", "targ", "initneg", "paste", "case", "attr", "unroll", "larr", "garr", "parr",
                        "arr2", "index", "enum2", "pattr", "caseneg", "tdarr", "gsarr"):
                out.append("C10.emit\t%s.%s\t%s" % (tgt, ctx, l))
        # declaration / statement forms (wave 6)
        for ctx in ("ret", "callarg", "defarg", "defarg2", "protoarg", "method", "nsinit", "arrinit", "arrinit2", "local", "localc",
                    "gvar", "binop", "tern", "ctor", "swz", "assign", "forinit", "pgvar", "plocal", "retneg", "defargneg",
                    "arrinitneg", "callargneg", "ifc", "whilec", "forstep", "plus", "comma", "swzbare"):
            for l in ["7", "0x10u", "0.1", "0.1f", "0.1h", "0.1L", "2.0", "2.0f", "1.#INF", "1.#INFf", "1e39", "3.4028235e38f",
                      "7.038530691851209e-26f", "16777217.0"]:
                out.append("C10.emit\t%s.%s\t%s" % (tgt, ctx, l))
        # cross-kind forms: an untyped literal folded into half / float / double
        for ctx in ("xhlocal", "xhret", "xhdefarg", "xhinit", "xflocal", "xfcallarg", "xfarrinit", "xfbinop", "xdlocal", "xdinit"):
            for l in ["7", "017", "0x10", "16777217", "2147483647", "0.1", "1.5", "1e39", "1.#INF", "3.4028234663852886e38", "1e-46",
                      "7.038530691851209e-26", "1.0000000596046448"]:
                out.append("C10.emit\t%s.%s\t%s" % (tgt, ctx, l))
    return out


SPEC = {
    "id": "C10",
    "gens": ["LexTables", "LitFormatTables", "SourceMapTables"],
    "lean_modules": ["RsslVerif.Thm.C10", "RsslVerif.Lemmas.LexNumeral", "RsslVerif.Lemmas.LexNumeralInt"],
    "theorems": [T + n for n in [
        "token_progress", "token_error_in_input", "token_no_panic", "spans_tile", "reemit_reproduces_input",
        "error_pos_in_range", "tokens_before_error_tile", "lexing_terminates", "read_never_panics",
        "literalIntWith_closed", "int_value_exact", "int_overflow_rejected", "int_rejected_only_when_too_large",
        "literalInt_radix", "token_numeric_dispatch", "numeric_dispatch_as_modelled", "numeral_is_one_token", "numeral_first_token_span", "numeral_int_is_one_token_partial",
        "float_parts_shape_as_modelled", "lex_float_nearest", "nearest64_total", "nearest64_correct", "nearest64_zero",
        "nearest_correct_partial", "nearest_correct", "nearest_monotone", "nearest64_monotone",
        "nearest_exact_on_representable",
        "literal_tables_as_modelled", "literal_fold_as_modelled", "msl_double_literal_rejected", "emit_int_exact", "emit_value_exact", "emit_whole_value_exact",
        "emit_infinity_exact", "emit_negative_exact", "emit_f32_double_rounding_repaired",
        "multi_file_spans_in_file", "multi_file_error_in_file"]],
    "harness": "c10",
    "nontrivial": nontrivial,
    "finding_key": finding_key,
    "shrink": shrink,
    "search": search,
    "level_text": "Proof: the lexer model (token_intermediate with every sub-lexer, TokenStream::next/read_to_end) is "
                  "proved, for every byte string, to produce tokens whose spans tile the file in order with no empty "
                  "token except the synthetic final endline, so that the slices re-emit the file; every diagnostic "
                  "offset lies in [0,|file|]; every step consumes at least one byte; no panic site is reachable in "
                  "debug or release builds. Multi-file: for a SourceManager holding any files before and after, every "
                  "token location and every lexer diagnostic of a file decodes to that file itself at an offset <= its "
                  "size and is printed with its name and its own line/column (multi_file_spans_in_file, "
                  "multi_file_error_in_file; entry, included, <define> and <scratch space> files alike). Integer "
                  "literals (full): an accepted literal denotes exactly the positional value of its maximal digit run, "
                  "which fits the payload type; a run >= 2^64, or >= 2^63 with suffix l, or >= 2^32 with suffix u, is "
                  "rejected with IntegerLiteralTooLarge at its first digit, and only then. Float literals (full): token "
                  "bits = narrowOnce(suffix, nearest64(decimal text)), and nearest64 / nearestRat (exact Nat arithmetic) "
                  "are proved to be IEEE 754 round-to-nearest-ties-to-even, total, exact on representable values and "
                  "monotone. One numeral, one token (maximal munch): every numeral of the decimal floating grammar "
                  "digits '.' digits* [exp] [suffix] | digits exp [suffix], exp = (e|E)[+|-]digits, suffix = h H f F l L "
                  "(inductive Numeral, unbounded digit counts, leading zeros, no fraction digits), followed by any text "
                  "that does not continue it, is read by token_intermediate as exactly one token consuming exactly the "
                  "numeral: the float literal of its suffix' kind with nearest64 of its digits and exponent "
                  "(numeral_is_one_token, numeral_first_token_span; full for that grammar; `.5`-style numerals are a "
                  "known finding, #INF is covered by the run only); decimal integer numerals with all 13 suffix "
                  "spellings likewise (numeral_int_is_one_token_partial: octal and hexadecimal numerals are covered by "
                  "the run only). The digit arm of token_intermediate is re-extracted every run and must be exactly "
                  "`literal_float, else literal_int on OtherTokenBytes` (numeric_dispatch_as_modelled). Output (full, one stated assumption): format_literal is modelled arm by arm (arms, guards, "
                  "format strings, write_infinity_*, generate_literal of both generators and parse_literal re-extracted "
                  "every run); the printed text of an integer literal lexes back to the same kind and value "
                  "(emit_int_exact); of a finite float of any kind to the same kind and bits (emit_value_exact) assuming "
                  "only that Rust's Display writes plain decimal digits, a '.' exactly for non-integers, whose nearest "
                  "double is the value — assumed of doubles only (the untyped and L kinds; for a single, of the value "
                  "as a double) and of whole singles above 2^63: for every other single format_literal itself tests "
                  "whether its Display digits read back through the double (f32_digits_round_twice, fix 265a080; the "
                  "guard is modelled with nearest64 / narrow32 and its source text is pinned) and otherwise prints the "
                  "digits of the same value as a double, which narrows back exactly (narrow32_widen, proved for zero, "
                  "subnormal and normal singles); whole values up to 2^63 (printed through `as i64`) and "
                  "+inf (1.#INF) need no assumption (emit_whole_value_exact, emit_infinity_exact). Metal has no double: the "
                  "Metal generate_literal (all 15 arms of both generators pinned with their results) builds no Float64 "
                  "literal but returns UnsupportedDouble, and format_literal fails only at write_infinity_f64's "
                  "`invalid msl` site, which needs exactly that node (msl_double_literal_rejected; after fix 9824ce3); "
                  "an integer constant no literal can carry is IntLiteralOutOfRange in both generators (6017bad). Between parse_literal "
                  "and generate_literal the payload of a literal is rewritten in one place only, the typer's folding of an untyped "
                  "literal into the scalar type its context names (casting.rs): its 14 arms are re-extracted every run and are "
                  "each a single `as` cast of the payload, `v as f32` for float/half = the one narrowing (literal_fold_as_modelled, "
                  "shape obligation; which declaration and statement forms lead there is covered by the emit stream only). The assumptions are "
                  "checked bit for bit on every generated value and, in the thorough tier, on all 2^31 non-negative "
                  "singles: the Display digits of exactly one single, 0x15ae43fd, do not read back through the double; "
                  "since fix 265a080 format_literal prints it as 0.00000000000000000000000007038530691851209f, which "
                  "reads back as 0x15ae43fd (emit_f32_double_rounding_repaired, the positive form of the former "
                  "negation witness; both kinds, targets and signs; the sweep runs the real formatter on every such "
                  "single). Rust's parse::<f64> / `as f32` / `as f64` are compared bit "
                  "for bit with the reference and with an independent big-integer oracle on every run.",
    "rule": "requests = (flags, UTF-8 text) lexed token by token with the real TokenStream (and read_to_end, and unlex, and "
            "the diagnostic printed through MessagePrinter); every fixed spelling of every token kind alone, ordered pairs "
            "of operators/trivia/odd bytes glued, random token soups of 1-10 items with arbitrary trivia, both line "
            "endings and splices, every decimal exponent -345..325 in every spelling of the exponent part, and a numeric "
            "stream (integers of 3 bases up to 25 digits with 13 suffix spellings, boundary biased; decimal floats up to "
            "20+ significant digits, exponents -330..310 and far beyond, biased to halfway points, subnormals, overflow; "
            "a dense fast-path boundary family); C10.num: one numeral of the C numeral grammar (built structurally: "
            "4 integer prefix classes x 13 suffix spellings x boundary / random bodies up to 25 digits; floats with or "
            "without integer digits, leading zeros, with or without point / fraction digits, exponent letter e|E x sign "
            "none|+|- x digits, #INF, suffix none|h|H|f|F|l|L — a systematic product of 7.3 k numerals every run plus "
            "10 k (thorough 300 k) random ones) followed by one of 37 followers and optionally preceded by one of 26 "
            "texts: an independent scanner decides from the spelling which ONE token it is (kind, exact value by the "
            "big-integer reference) and the real lexer must return exactly that token with exactly the numeral's span, or "
            "IntegerLiteralTooLarge at its first digit when it does not fit; C10.emit: literals (random bit patterns of every float kind spelled "
            "exactly, all integer spellings) x targets dx/vk/msl x 12 original contexts (statement, unary minus, typed "
            "initialisers, array size, enum value, enum cast, template argument, macro from an included file, define "
            "passed to compile, ## paste) and 53 declaration / statement forms (wave 6: return, call argument, default "
            "argument on a definition / second of two / on prototype and definition / on a method, constant in a namespace, "
            "array initialiser of 2 and 3, local, const local, mutable global, operand, ternary arm, vector constructor, "
            "swizzled literal with and without parentheses, assignment, for initialiser / bound / step, if / while condition, "
            "unary plus, comma, case label, numthreads on a function and on the entry point of a pipeline (pipeline mode; "
            "Metal's max_total_threads_per_threadgroup), unroll count, array size of a local / global / parameter / second "
            "dimension / typedef / groupshared array, index, enumerator followed by an implicit one, global and local of an "
            "entry point, and the negated literal in return / default argument / array initialiser / call argument / case "
            "label; 10 cross-kind forms: an untyped integer or float literal as local / return value / default argument / "
            "constant / call argument / array element / operand of type half, float or double — the value folded into that "
            "type: integers exactly, floats narrowed once) through rssl::compile, printed literal re-read by an exact reference (an untyped float in a context "
            "that names float may be printed as the single it narrows to once); C10.fmt: "
            "rssl_formatter on an AST literal of random bits (8 kinds x 2 targets, both signs, infinities, whole values "
            "around 2^63, subnormals, the neighbourhood of 0x15ae43fd), printed text lexed by the real lexer, "
            "model-compared; C10.sweep32: Display of every 61st (thorough: every) single read back through the double, "
            "and the real formatter on each single for which that is not the value (both single kinds, targets, signs): "
            "its text must lex back to the value; C10.pp: generated 1-3 file programs with "
            "defines, object/function macros, ## pastes, conditionals (#if/#ifdef/#ifndef/#elif/#else with constants, operators, "
            "literals of three bases, defined X / defined(X)), unknown directives inside skipped blocks, \"name\" and <name> "
            "includes, spaced directives, null directives, #pragma once / warning through the real preprocessor: every "
            "token's span decodes to one file, is a token of that file's own tiling, a probe diagnostic at both ends "
            "renders inside the file; C10.loc: the location decoder on those managers (model-compared); C10.diag: "
            "programs with one injected error at one of 19 slots (entry file, two headers, macro bodies, define, paste, default "
            "argument, method body, namespace constant, case label, array size, attribute argument, template body) "
            "x 7 error kinds through preprocess+parse+type check: every printed position inside a loaded file; "
            "non-trivial = at least three tokens or a numeric literal (lex), a printed literal (emit/fmt), tokens from "
            "two or more files (pp), a located diagnostic (diag)",
    "trusted_base": [
        "Lean 4.33 kernel; axioms propext / Classical.choice / Quot.sound only (audited by #print axioms)",
        "tools/gens/c10.py (LexTables: Token variants, is_whitespace, LexerErrorReason, any_word arms, choose lists, "
        "symbol_single / symbol_op_or_op_equals instances, int_type / float_type arms) — re-run on /repo every time",
        "hand-written Model/Lexer.lean mirrors lexer.rs; tied to the code by the correspondence run, and for the digit "
        "arm of token_intermediate and calculate_float64_from_parts also by shape obligations (numeric_dispatch_as_modelled, "
        "float_parts_shape_as_modelled)",
        "harness/src/c10_num.rs: the numeral grammar (C integer / floating constants + HLSL's h suffix and #INF) as the "
        "harness reads it: our reading of which texts are ONE numeric literal",
        "Rust str::parse::<f64> and `f64 as f32` are trusted to be correctly rounded; the run compares them bit for bit "
        "with Spec/Dec2Bin.lean (exact Nat arithmetic) and with the harness' independent big-integer bisection",
        "Spec/Dec2Bin.lean and Spec/Lexer.lean: our reading of 'nearest double' and 'spans tile the file'",
        "tools/gens/c10.py LitFormatTables (arms of format_literal, write_infinity_*, generate_literal hlsl/msl with "
        "every result, parse_literal) pinned by literal_tables_as_modelled; hand-written Model/LitFormat.lean mirrors format_literal "
        "and is compared with rssl_formatter on every C10.fmt case",
        "tools/gens/c10.py LitFormatTables.literalFoldArms (the two literal-folding matches of typer/src/casting.rs) pinned by "
        "literal_fold_as_modelled; that Rust's `as` casts are the conversions their names say is trusted and compared with the "
        "exact reference narrowing on every C10.emit case",
        "Model/SourceMap.lean + Gen.SourceMapTables (C14's model of text/src/location.rs), compared with the real "
        "SourceManager on every C10.loc case",
        "Rust's Display for f64/f32 (shortest round-trip digits): the hypotheses of emit_value_exact (plain digits, '.' iff "
        "fractional; for doubles — also a single's value as a double — and whole singles above 2^63 the value read back "
        "through the double), checked bit for bit by the harness — the read-back exhaustive over all singles in the "
        "thorough tier; `f32 as f64` is exact (compared with the harness' exact widening on every C10.fmt case)",
    ],
    "assumptions": [
        "files are shorter than 2^32 bytes (SourceManager::add_file asserts it), so `as u32` on offsets is exact",
        "the input is valid UTF-8 (TokenStream::new takes &str)",
        "numerals are those of the C grammar: `1f` / `1h` (HLSL accepts them; rssl reads Int 1, Id f), `08`, `0189` are "
        "not numerals and are not judged; `.5` and `0X1F` are numerals and are the two known findings of C10.num",
        "output clause: the emitted text is read with the literal grammar of rssl itself (nearest double, narrowed once "
        "for f/h); what DXC or the Metal compiler make of a literal is outside the property; MSL names INFINITY / FLT_MAX "
        "stand for their values",
        "covered by the correspondence run and its oracle only (no Lean model of parser / typer / generators, the driver answers "
        "`unsupported` for C10.emit, C10.pp, C10.diag): which declaration and statement forms carry a literal from parse_literal "
        "to generate_literal unchanged (the 53 forms of wave 6 incl. default arguments, prototypes, methods, namespaces, "
        "pipeline entry points, attributes, array sizes); the functions on that path that rewrite a literal's payload "
        "(parse_literal, casting.rs folding, generate_literal, format_literal) are pinned arm by arm",
        "a default argument written on a function PROTOTYPE only is lost in the emitted text: known finding of C04 / C01 / C05, "
        "not re-listed here; the C10 stream writes the default on the definition (and on both)",
        "not applicable in rssl (rejected by the front end, checked in wave 6): default template arguments on functions, struct "
        "templates in the generators, enum-typed template arguments from a cast literal, bit-field widths",
        "literals that the typer converts (an untyped literal initialising a float, an int literal outside int as a "
        "template argument) are compared after that conversion (C13's domain); NaN and i64::MIN have no literal and are "
        "not reachable from source",
    ],
}

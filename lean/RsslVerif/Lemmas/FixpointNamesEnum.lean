import RsslVerif.Lemmas.FixpointNamesWF
/-!
# An enum value named like a namespace of the scope that contains the enum is refused (fix fe5dd8d)

Until fix fe5dd8d `namespace A {} enum E { A };` passed `register_enum_value` and ran into `assert_eq!(symbols.len(), 1)`
of `end_enum` (the model predicted `g1:panic`, known finding `names:panic/enum-value-named-like-a-namespace-of-its-scope`).
Now `register_enum_value` refuses the value.  This file proves it for the descriptor machine: in every state the machine
can reach, for every enum with such a value — whatever else the enum and the program declare — `exec` records a refusal,
the refusal stays, and the verdict of the compilation is never "all uses resolved".
-/
namespace RsslVerif.Lemmas.FixpointNames
open RsslVerif.Model.FixpointNames

/-- scope `i` of the table has a namespace / enum-scope symbol called `v` -/
def HasScopeSym (T : Table) (i : Nat) (v : String) : Prop :=
  ∃ sc, T[i]? = some sc ∧ (sc.symsOf v).any isScopeSym = true

theorem hasScopeSym_append {T : Table} {i : Nat} {v : String} (h : HasScopeSym T i v) (sc : Scope) :
    HasScopeSym (T ++ [sc]) i v := by
  obtain ⟨s, hs, ha⟩ := h
  exact ⟨s, by rw [List.getElem?_append_left (lt_of_valid hs)]; exact hs, ha⟩

theorem hasScopeSym_addSym {T : Table} {i : Nat} {v : String} (h : HasScopeSym T i v) (j : Nat) (n : String) (s : Sym) :
    HasScopeSym (addSym T j n s) i v := by
  obtain ⟨sc, hs, ha⟩ := h
  unfold addSym
  by_cases hij : i = j
  · refine ⟨{ sc with syms := pushSym n s sc.syms }, by rw [modifyAt_getElem?, if_pos hij, hs]; rfl, ?_⟩
    simp only [Scope.symsOf, assoc_pushSym]
    split
    · rename_i hvn
      subst hvn
      simp only [Option.getD_some, List.any_append]
      simp only [Scope.symsOf] at ha
      simp [ha]
    · exact ha
  · exact ⟨sc, by rw [modifyAt_getElem?, if_neg hij]; exact hs, ha⟩

theorem enumValueRefused_of_hasScopeSym {T : Table} {parent es : Nat} {v : String} (h : HasScopeSym T parent v)
    (hes : es < T.length) : ∃ why, enumValueRefused T parent es v = some (some why) := by
  obtain ⟨ps, hps, ha⟩ := h
  obtain ⟨esc, hesc⟩ := valid_of_lt hes
  unfold enumValueRefused
  rw [hesc, hps]
  simp only
  split
  · exact ⟨_, rfl⟩
  · split
    · exact ⟨_, rfl⟩
    · exact ⟨_, rfl⟩
    · exact ⟨_, rfl⟩
    · exact ⟨_, rfl⟩
    · rw [if_pos ha]; exact ⟨_, rfl⟩

theorem enumValueRefused_ne_none {T : Table} {parent es : Nat} (v : String) (hp : parent < T.length) (hes : es < T.length) :
    enumValueRefused T parent es v ≠ none := by
  obtain ⟨ps, hps⟩ := valid_of_lt hp
  obtain ⟨esc, hesc⟩ := valid_of_lt hes
  unfold enumValueRefused
  rw [hesc, hps]
  simp only
  split
  · simp
  · split
    · simp
    · simp
    · simp
    · simp
    · split <;> simp

/-- the values are registered in order; a value named like a namespace of the parent scope is reached unless an earlier one
    is refused -/
theorem firstRefusal_of_mem {vals : List String} {v : String} (hv : v ∈ vals) :
    ∀ {T : Table} {parent es : Nat} (id : Nat), HasScopeSym T parent v → es < T.length →
      ∃ why, firstRefusal T parent es vals id = some (some why) := by
  induction vals with
  | nil => cases hv
  | cons w r ih =>
    intro T parent es id h hes
    have hp : parent < T.length := by obtain ⟨_, hs, _⟩ := h; exact lt_of_valid hs
    simp only [firstRefusal]
    rcases List.mem_cons.mp hv with hvw | hvr
    · subst hvw
      obtain ⟨why, hw⟩ := enumValueRefused_of_hasScopeSym h hes
      rw [hw]; exact ⟨why, rfl⟩
    · cases hw : enumValueRefused T parent es w with
      | none => exact absurd hw (enumValueRefused_ne_none w hp hes)
      | some o =>
        cases o with
        | some why => exact ⟨why, rfl⟩
        | none =>
          simp only
          exact ih hvr (id + 1) (hasScopeSym_addSym (hasScopeSym_addSym h _ _ _) _ _ _)
            (by rw [addSym_length, addSym_length]; exact hes)

/-- **an enum one of whose values is named like a namespace (or enum scope) of the current scope is refused**, in every
    state; the refusal carries the number of uses in front of the enum unless an earlier declaration was refused already -/
theorem exec_en_refused (st : St) (n : String) {vals : List String} {v : String} (hv : v ∈ vals)
    (hns : HasScopeSym st.T st.cur v) :
    ∃ why, (exec st (.en n vals)).refused = st.refused.orElse fun _ => some (st.uses.length, why) := by
  have h0 : HasScopeSym (addSym (addSym (st.T ++ [({ parent := some st.cur } : Scope)]) st.cur n (.scope st.T.length)) st.cur n
      (.ty st.nextId)) st.cur v :=
    hasScopeSym_addSym (hasScopeSym_addSym (hasScopeSym_append hns _) _ _ _) _ _ _
  obtain ⟨why, hw⟩ := firstRefusal_of_mem hv (es := st.T.length) (st.nextId + 1) h0
    (by rw [addSym_length, addSym_length]; simp)
  refine ⟨why, ?_⟩
  simp only [exec, hw, Option.map_some]

theorem exec_refused_isSome {st : St} (h : st.refused.isSome) (i : Instr) : (exec st i).refused.isSome := by
  cases i with
  | ns n => simp only [exec]; split <;> exact h
  | «end» => simp only [exec]; split <;> exact h
  | gv n => exact h
  | fn n p => exact h
  | st n => exact h
  | en n vals =>
    simp only [exec]
    split
    · exact h
    · obtain ⟨x, hx⟩ := Option.isSome_iff_exists.mp h
      simp [hx]
  | td n p => exact h
  | lv n =>
    simp only [exec]
    split
    · exact h
    · split <;> exact h
  | bl => exact h
  | use k p => exact h

theorem foldl_refused_isSome (is : List Instr) : ∀ st : St, st.refused.isSome → (is.foldl exec st).refused.isSome := by
  induction is with
  | nil => intro st h; exact h
  | cons i r ih => intro st h; exact ih _ (exec_refused_isSome h i)

/-- a compilation with a refused declaration never ends with "every use resolved" -/
theorem verdictOf_of_refused {st : St} (h : st.refused.isSome) (xs : List String) : verdictOf st ≠ .resolved xs := by
  obtain ⟨⟨k, why⟩, hx⟩ := Option.isSome_iff_exists.mp h
  unfold verdictOf
  rw [hx]
  simp only
  split <;> simp_all

/-- **whole programs**: a descriptor that — after any prefix `pre` — declares an enum with a value named like a namespace /
    enum scope of the scope the enum stands in is not accepted, whatever follows (`rest`) -/
theorem run_en_refused (pre rest : List Instr) (n : String) {vals : List String} {v : String} (hv : v ∈ vals)
    (hns : HasScopeSym (run pre).T (run pre).cur v) (xs : List String) :
    verdictOf (run (pre ++ .en n vals :: rest)) ≠ .resolved xs := by
  apply verdictOf_of_refused
  unfold run
  rw [List.foldl_append, List.foldl_cons]
  apply foldl_refused_isSome
  obtain ⟨why, hw⟩ := exec_en_refused (run pre) n hv hns
  unfold run at hw
  rw [hw]
  cases (List.foldl exec {} pre).refused <;> simp

end RsslVerif.Lemmas.FixpointNames

import RsslVerif.Model.MacroLite
/-!
# What C18 means (independent of how the model computes)

* "the input does not test the macros `S`": no identifier of `S` occurs as a token of the text, of an `#if`/`#elif`
  condition (this covers `defined X`), of a macro body defined by the file or handed in by the user, and none is
  named by `#define`, `#undef`, `#ifdef`, `#ifndef`.
* "two define lists differ only in the values of `S`": same length, same names position by position, same body
  wherever the name is outside `S`.
-/
namespace RsslVerif.Spec.Targets
open RsslVerif.Model.MacroLite

/-- no token of `ts` is an identifier in `S` -/
def Clean (S : List String) (ts : List Tok) : Prop := ∀ s, Tok.id s ∈ ts → s ∉ S

/-- a line of the file does not mention any name of `S` -/
def LineClean (S : List String) : Line → Prop
  | .text ts => Clean S ts
  | .define n b => n ∉ S ∧ Clean S b
  | .undef n => n ∉ S
  | .ifdef _ n => n ∉ S
  | .if_ c => Clean S c
  | .elif c => Clean S c
  | .else_ => True
  | .endif => True

def LinesClean (S : List String) (ls : List Line) : Prop := ∀ l ∈ ls, LineClean S l

/-- the bodies of the macros outside `S` do not mention `S` -/
def TableClean (S : List String) (ms : Table) : Prop := ∀ m ∈ ms, m.name ∉ S → Clean S m.body

/-- two macro tables that differ at most in the bodies of the macros named in `S` -/
inductive TableRel (S : List String) : Table → Table → Prop
  | nil : TableRel S [] []
  | cons {m m' : Macro} {ms ms' : Table} : m.name = m'.name → (m.name ∉ S → m.body = m'.body) →
      TableRel S ms ms' → TableRel S (m :: ms) (m' :: ms')

end RsslVerif.Spec.Targets

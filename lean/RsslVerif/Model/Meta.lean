import RsslVerif.Model.Slots
import RsslVerif.Gen.MetaTables
import RsslVerif.Gen.CompileTables
/-!
# Model of the reflection metadata builders and of the binding annotation printers

Mirrors, on top of `Model.Slots.assign` (= `Module::assign_api_bindings`, C06):

* `hlsl/src/ast_generate.rs`: `analyse_bindings`, `GenerateContext::register_binding`,
  `generate_inline_constant_buffers`, `generate_register_annotation`, `generate_vk_binding_annotation`,
  the annotation part of `generate_global_variable` / `generate_constant_buffer`;
* `msl/src/generator/pipeline.rs`: `analyse_bindings`, `PipelineBindingLayout::register_binding/finish`,
  the `is_used` marking, the per-group stable sort, `[[id(n)]]` members and `[[buffer(i)]]` parameters of
  `generate_pipeline` (after `rssl_ir::simplify_cbuffers`, which turns every cbuffer into a
  `ConstantBuffer<T>` global carrying the cbuffer's api binding);
* `src/compile.rs` `build_pipeline`: the stage records.

Both the metadata entry and the printed annotation of a declaration are functions of the *same*
`Option Binding` (= `GlobalVariable.api_slot` / `ConstantBuffer.api_binding`).
Panics / asserts of the Rust code are explicit `Except.error`.
-/
namespace RsslVerif.Model.Meta
open RsslVerif.Gen.SlotTables RsslVerif.Gen.MetaTables RsslVerif.Gen.CompileTables RsslVerif.Model.Slots

inductive Storage where | extern | static | groupshared
  deriving DecidableEq, Repr, Inhabited

/-- the array layer of a global's type (after the outer modifier) -/
inductive Arr where
  | no
  | sized (n : Nat)
  | unsized
  deriving DecidableEq, Repr, Inhabited

/-- Root definitions as the metadata builders see them. `kind` = object kind left after peeling
    modifier / one array layer (sized or unsized) / modifier; `none` = not an object. -/
inductive MDecl where
  | other
  | cbuffer (name : String) (set : Option Nat)
  | global (name : String) (set : Option Nat) (staticSampler : Bool) (kind : Option ObjKind) (arr : Arr)
      (bindless : Bool) (storage : Storage)
  deriving DecidableEq, Repr, Inhabited

/-- what `assign_api_bindings` looks at: it leaves every global alone whose storage class is not `Extern`
    (`kind = none` in C06's model), and it does not peel unsized arrays: such a global is "not an object" -/
def MDecl.toSlot : MDecl → Decl
  | .other => .other
  | .cbuffer _ s => .cbuffer s
  | .global _ s ss k arr _ st =>
    if st ≠ .extern then .global s ss none none else
    match arr with
    | .no => .global s ss k none
    | .sized n => .global s ss k (some n)
    | .unsized => .global s ss none none

def MDecl.name : MDecl → String
  | .other => ""
  | .cbuffer n _ => n
  | .global n _ _ _ _ _ _ => n

/-- `DescriptorBinding` (static sampler parameters are not modelled, only their presence) -/
structure Entry where
  name : String
  loc : Loc
  descType : DescT
  count : Option Nat
  bindless : Bool
  used : Bool
  staticSampler : Bool
  deriving DecidableEq, Repr, Inhabited

/-- `BindGroup` -/
structure Group where
  bindings : List Entry
  inlineConstants : Option (Nat × Nat)
  deriving DecidableEq, Repr, Inhabited

def Group.empty : Group := { bindings := [], inlineConstants := none }

/-- `descriptor_count`: array length, `Some(1)` without an array layer, `None` for an unsized array -/
def countOf : Arr → Option Nat
  | .no => some 1
  | .sized n => some n
  | .unsized => none

/-- the `let descriptor_type = match type_layer {..}` of either `analyse_bindings` -/
def descOf (tbl : ObjKind → Option DescT) (nonObj : DescT) : Option ObjKind → Except String DescT
  | none => .ok nonObj
  | some k =>
    match tbl k with
    | some d => .ok d
    | none => .error "UnsupportedObjectType"

/-- One call of hlsl `analyse_bindings`: the registration it performs, if any. -/
def hlslEvent : MDecl → Option Binding → Except String (Option (Nat × Entry))
  | .other, _ => .ok none
  | .cbuffer _ _, none => .ok none
  | .cbuffer n _, some b =>
    .ok (some (b.set, { name := n, loc := b.loc, descType := .ConstantBuffer, count := some 1,
                        bindless := false, used := true, staticSampler := false }))
  | .global n _ ss k arr bl _, ob =>
    match descOf hlslDescType hlslNonObjectDescType k with
    | .error e => .error e
    | .ok dt =>
      match ob with
      | none => .ok none
      | some b =>
        .ok (some (b.set, { name := n, loc := b.loc, descType := dt, count := countOf arr,
                            bindless := bl, used := true, staticSampler := ss }))

/-- One call of msl `analyse_bindings` (after simplify_cbuffers) + the later `is_used` marking.
    A bind group without an argument buffer struct name is refused (`UnsupportedBindGroupIndex`). -/
def mslEvent (used : Bool) : MDecl → Option Binding → Except String (Option (Nat × Entry))
  | .other, _ => .ok none
  | .cbuffer _ _, none => .ok none
  | .cbuffer n _, some b =>
    match mslDescType .ConstantBuffer with
    | none => .error "UnsupportedObjectType"
    | some dt =>
      if b.set ≥ argumentBufferNames.length then .error "UnsupportedBindGroupIndex" else
      .ok (some (b.set, { name := n, loc := b.loc, descType := dt, count := some 1,
                          bindless := false, used := used, staticSampler := false }))
  | .global n _ _ k arr bl _, ob =>
    match descOf mslDescType mslNonObjectDescType k with
    | .error e => .error e
    | .ok dt =>
      match ob with
      | none => .ok none
      | some b =>
        if b.set ≥ argumentBufferNames.length then .error "UnsupportedBindGroupIndex" else
        .ok (some (b.set, { name := n, loc := b.loc, descType := dt, count := countOf arr,
                            bindless := bl, used := used, staticSampler := false }))

/-- the loop `for decl in root_definitions { analyse_bindings(decl) }`; `i` = position of the declaration -/
def events (ev : Nat → MDecl → Option Binding → Except String (Option (Nat × Entry))) :
    Nat → List MDecl → List (Option Binding) → Except String (List (Nat × Entry))
  | i, d :: ds, b :: bs =>
    match ev i d b with
    | .error e => .error e
    | .ok o =>
      match events ev (i + 1) ds bs with
      | .error e => .error e
      | .ok r => .ok (match o with | none => r | some x => x :: r)
  | _, _, _ => .ok []

/-- `register_binding`: resize the group vector up to `g` and push at the end of group `g` -/
def addAt : Nat → Entry → List Group → List Group
  | 0, e, [] => [{ bindings := [e], inlineConstants := none }]
  | 0, e, g :: gs => { g with bindings := g.bindings ++ [e] } :: gs
  | n + 1, e, [] => Group.empty :: addAt n e []
  | n + 1, e, g :: gs => g :: addAt n e gs

def registerAll : List (Nat × Entry) → List Group → List Group
  | [], gs => gs
  | (g, e) :: r, gs => registerAll r (addAt g e gs)

/-- bytes of the `[[vk::offset]]` members `generate_inline_constant_buffers` finds in a group -/
def inlineFound (g : Group) : Nat :=
  (g.bindings.filter fun e => match e.loc with | .inline _ => true | .index _ => false).length * 8

/-- one iteration of `generate_inline_constant_buffers` on the metadata (asserts are errors) -/
def setInline : List Group → InlineBuf → Except String (List Group)
  | gs, b =>
    match gs[b.set]? with
    | none => .error "index out of bounds: bind_groups[buffer.set]"
    | some g =>
      if (g.bindings.any fun e => match e.loc with | .inline o => !(o + 8 ≤ b.sizeInBytes) | .index _ => false) then
        .error "assertion failed: offset + 8 <= buffer.size_in_bytes"
      else if inlineFound g ≠ b.sizeInBytes then .error "assertion failed: buffer.size_in_bytes == found_size"
      else if g.inlineConstants.isSome then .error "assertion failed: bind_group.inline_constants == None"
      else .ok (gs.set b.set { g with inlineConstants := some (b.apiLocation, b.sizeInBytes) })

def setInlines : List Group → List InlineBuf → Except String (List Group)
  | gs, [] => .ok gs
  | gs, b :: bs =>
    match setInline gs b with
    | .error e => .error e
    | .ok gs' => setInlines gs' bs

/-- `PipelineDescription` of the HLSL exporter -/
def hlslMeta (p : Params) (dflt : Nat) (ds : List MDecl) : Except String (List Group) :=
  match assign p dflt (ds.map MDecl.toSlot) with
  | .error e => .error e
  | .ok res =>
    match events (fun _ => hlslEvent) 0 ds res.bindings with
    | .error e => .error e
    | .ok evs => setInlines (registerAll evs []) res.inlineBufs

/-- stable insertion sort of a group's entries by index (`sort_by` on `ApiLocation::Index`) -/
def locIndex : Loc → Option Nat
  | .index i => some i
  | .inline _ => none

def insertEntry (e : Entry) (k : Nat) : List (Nat × Entry) → List (Nat × Entry)
  | [] => [(k, e)]
  | (k', x) :: xs => if k ≤ k' then (k, e) :: (k', x) :: xs else (k', x) :: insertEntry e k xs

def sortKeyed : List (Nat × Entry) → List (Nat × Entry)
  | [] => []
  | (k, e) :: xs => insertEntry e k (sortKeyed xs)

/-- keys of a group, or `none` when some entry is an inline constant (the comparator panics) -/
def keyed : List Entry → Option (List (Nat × Entry))
  | [] => some []
  | e :: es =>
    match locIndex e.loc, keyed es with
    | some k, some r => some ((k, e) :: r)
    | _, _ => none

def sortGroup (g : Group) : Except String Group :=
  match keyed g.bindings with
  | none => if g.bindings.length ≤ 1 then .ok g else .error "panic: inline constant in an argument buffer"
  | some ks => .ok { g with bindings := (sortKeyed ks).map (·.2) }

def sortGroups : List Group → Except String (List Group)
  | [] => .ok []
  | g :: gs =>
    match sortGroup g, sortGroups gs with
    | .ok g', .ok gs' => .ok (g' :: gs')
    | .error e, _ => .error e
    | _, .error e => .error e

/-- `PipelineDescription` of the MSL exporter; `usedAt i` = the declaration at position `i` is among the
    required globals of some stage entry point of the selected pipeline -/
def mslMeta (p : Params) (dflt : Nat) (usedAt : Nat → Bool) (ds : List MDecl) : Except String (List Group) :=
  match assign p dflt (ds.map MDecl.toSlot) with
  | .error e => .error e
  | .ok res =>
    match events (fun i => mslEvent (usedAt i)) 0 ds res.bindings with
    | .error e => .error e
    | .ok evs =>
      let gs := registerAll evs []
      if gs.length > argumentBufferNames.length then .error "index out of bounds: ARGUMENT_BUFFER_NAMES[i]"
      else sortGroups gs

/-- Metal `generate_pipeline`, the arguments of a stage's entry function: every global the stage entry point requires
    whose storage class is `Extern` (a static sampler is remapped to `Static`) is passed as `set<i>.<name>`, `i` looked
    up in the map built from the argument buffers — i.e. from the globals `analyse_bindings` registered.  `true` = the
    declaration is such an argument (a cbuffer is an extern `ConstantBuffer<T>` global after `simplify_cbuffers`). -/
def isStageArgument : MDecl → Bool
  | .other => false
  | .cbuffer _ _ => true
  | .global _ _ ss _ _ _ st => st == .extern && !ss

/-- some global a stage entry point of the pipeline requires is an argument without a place in an argument buffer
    (no api slot, so never registered): since fix "an entry point that uses a global without a binding slot is an
    error on Metal" the export is refused with `UnboundGlobal` (it used to panic on `unwrap()`) -/
def mslUnbound (usedAt : Nat → Bool) : Nat → List MDecl → List (Option Binding) → Bool
  | i, d :: ds, b :: bs => (usedAt i && isStageArgument d && b.isNone) || mslUnbound usedAt (i + 1) ds bs
  | _, _, _ => false

/-- the MSL exporter's `generate_pipeline` as far as the description goes: the binding analysis (its errors come
    first), then — only when a pipeline is exported, there are no stages otherwise — the entry functions' arguments -/
def mslExport (p : Params) (dflt : Nat) (usedAt : Nat → Bool) (hasPipeline : Bool) (ds : List MDecl) :
    Except String (List Group) :=
  match mslMeta p dflt usedAt ds with
  | .error e => .error e
  | .ok gs =>
    match assign p dflt (ds.map MDecl.toSlot) with
    | .error e => .error e
    | .ok res => if hasPipeline && mslUnbound usedAt 0 ds res.bindings then .error "UnboundGlobal" else .ok gs

/-! ## Printed annotations -/

inductive Annot where
  /-- ` : register(t3, space1)` -/
  | reg (r : RegT) (index : Nat) (space : Nat)
  /-- `[[vk::binding(3, 1)]]` -/
  | vk (index : Nat) (set : Nat)
  /-- `[[vk::offset(8)]] uint64_t name;` inside `struct InlineDescriptor<set>` -/
  | offset (bytes : Nat) (set : Nat)
  /-- `[[id(3)]]` member of `struct ArgumentBuffer<set>` -/
  | id (index : Nat) (set : Nat)
  deriving DecidableEq, Repr, Inhabited

def digits (n : Nat) : List Char := Nat.toDigits 10 n

/-- text of `format_register_annotation` for `Register { slot: Some(..), space: if set != 0 {Some(set)} }` -/
def printReg (r : RegT) (index space : Nat) : List Char :=
  regOpen.toList ++ [regLetter r] ++ digits index ++
    (if space ≠ 0 then regSep.toList ++ regSpace.toList ++ digits space else []) ++ regClose.toList

/-- text of `format_attribute` for `[[vk::binding(index)]]` / `[[vk::binding(index, set)]]` -/
def printVk (index set : Nat) : List Char :=
  "[[vk::binding(".toList ++ digits index ++ (if set ≠ 0 then ", ".toList ++ digits set else []) ++ ")]]".toList

def printOffset (bytes : Nat) : List Char := "[[vk::offset(".toList ++ digits bytes ++ ")]]".toList

def printId (index : Nat) : List Char := "[[id(".toList ++ digits index ++ ")]]".toList

def printBuffer (i : Nat) : List Char := "[[buffer(".toList ++ digits i ++ ")]]".toList

def inlineStructName (set : Nat) : List Char := "InlineDescriptor".toList ++ digits set

def inlineGlobalName (set : Nat) : List Char := "g_inlineDescriptor".toList ++ digits set

/-- (enclosing struct name or empty, annotation text) -/
def Annot.print : Annot → List Char × List Char
  | .reg r i s => ([], printReg r i s)
  | .vk i s => ([], printVk i s)
  | .offset o s => (inlineStructName s, printOffset o)
  | .id i s => ((argumentBufferNames.getD s "").toList, printId i)

/-- `generate_register_annotation` -/
def regAnnot : Option Binding → Except String (Option Annot)
  | none => .ok none
  | some b =>
    match b.slotType with
    | none => .error "panic: HLSL generator requires register types in api binding metadata"
    | some r =>
      match b.loc with
      | .index i => .ok (some (.reg r i b.set))
      | .inline _ => .error "panic: generate_register_annotation did not expect an inline constant"

/-- `generate_vk_binding_annotation` -/
def vkAnnot : Option Binding → Except String (Option Annot)
  | none => .ok none
  | some b =>
    if b.slotType ≠ none then .error "assertion failed: slot.slot_type == None" else
    match b.loc with
    | .index i => .ok (some (.vk i b.set))
    | .inline _ => .error "panic: generate_register_annotation did not expect an inline constant"

/-- `flags.requires_vk_binding` -/
def requiresVk (p : Params) : Bool := !p.requireSlotType || p.supportBufferAddress

/-- storage class after `assign_api_bindings` (inline-constant globals become `static`) -/
def storageAfter (s : Storage) : Option Binding → Storage
  | some { loc := .inline _, .. } => .static
  | _ => s

/-- the binding annotation the HLSL exporter prints for one root definition -/
def hlslAnnot (p : Params) : MDecl → Option Binding → Except String (Option Annot)
  | .other, _ => .ok none
  | .cbuffer _ _, ob => if requiresVk p then vkAnnot ob else regAnnot ob
  | .global _ _ _ _ _ _ st, ob =>
    match ob with
    | some { set := g, loc := .inline o, .. } =>
      -- `static const uint64_t name = g_inlineDescriptor<g>.name;` + the `[[vk::offset(o)]]` member
      .ok (some (.offset o g))
    | _ =>
      if storageAfter st ob == .extern then (if requiresVk p then vkAnnot ob else regAnnot ob) else .ok none

/-- the `[[id(n)]]` member the MSL exporter prints for one root definition -/
def mslAnnot : MDecl → Option Binding → Except String (Option Annot)
  | .other, _ => .ok none
  | _, none => .ok none
  | _, some b =>
    match b.loc with
    | .index i => .ok (some (.id i b.set))
    | .inline _ => .error "panic: inline constant in an argument buffer"

def annots (an : MDecl → Option Binding → Except String (Option Annot)) :
    List MDecl → List (Option Binding) → Except String (List (String × Annot))
  | d :: ds, b :: bs =>
    match an d b with
    | .error e => .error e
    | .ok o =>
      match annots an ds bs with
      | .error e => .error e
      | .ok r => .ok (match o with | none => r | some a => (d.name, a) :: r)
  | _, _ => .ok []

/-! ## Stage records (`build_pipeline`) -/

structure FuncDef where
  /-- source name (`function_registry.get_function_name`) -/
  name : String
  /-- name the exporter prints for it (`NameMap`, C15) -/
  emitted : String
  /-- evaluated `[numthreads(x, y, z)]` attributes of the function, in source order (since fix "a function
      attribute can be given only once" the front end accepts at most one: `MetaFront.parseFunctionAttributes`) -/
  attrs : List (Nat × Nat × Nat)
  deriving DecidableEq, Repr, Inhabited

structure StageDef where
  stage : Stage
  entry : Nat
  deriving DecidableEq, Repr, Inhabited

structure StageOut where
  stage : Stage
  entryPoint : String
  threadGroupSize : Option (Nat × Nat × Nat)
  deriving DecidableEq, Repr, Inhabited

/-- the loop `for attribute in attributes { if let NumThreads(x, y, z) = attribute { thread_group_size = Some(..) } }`
    of `add_stage`: the last attribute wins -/
def lastNumThreads : List (Nat × Nat × Nat) → Option (Nat × Nat × Nat)
  | [] => none
  | [t] => some t
  | _ :: t :: r => lastNumThreads (t :: r)

/-- `typer/pipelines.rs add_stage` + `build_pipeline`: the reported stage.  HLSL reports the name the
    exporter generated for the entry function (`ExportedSource::entry_point_names`), Metal the fixed name
    of the generated entry function for that stage. -/
def reportStage (msl : Bool) (funcs : List FuncDef) (s : StageDef) : Option StageOut :=
  match funcs[s.entry]? with
  | none => none
  | some f =>
    some { stage := s.stage, entryPoint := if msl then mslEntryName s.stage else f.emitted,
           threadGroupSize := lastNumThreads f.attrs }

/-- what the emitted source defines for the stage: the function's name and the values of its thread group
    size attributes — HLSL prints every `[numthreads(x, y, z)]` of the entry function, Metal one
    `[[max_total_threads_per_threadgroup(x * y * z)]]` per attribute on the generated entry function -/
def emittedStage (msl : Bool) (funcs : List FuncDef) (s : StageDef) : Option (String × List (Nat × Nat × Nat)) :=
  match funcs[s.entry]? with
  | none => none
  | some f => some (if msl then mslEmittedEntryName s.stage else f.emitted, f.attrs)

end RsslVerif.Model.Meta

import RsslVerif.Model.FixpointSlots
import RsslVerif.Lemmas.MetaText
set_option linter.unusedSimpArgs false
/-!
Lemmas for C04 `slots_stable_reread`: one step of the allocator on the re-read declaration.
-/
namespace RsslVerif.Lemmas.FixpointSlots
open RsslVerif.Gen.SlotTables RsslVerif.Gen.MetaTables RsslVerif.Model.Slots RsslVerif.Model.Meta RsslVerif.Spec.Meta
open RsslVerif.Model.FixpointSlots RsslVerif.Lemmas.Meta

/-- DirectX flavour of `AssignBindingsParams`: register types required, no buffer addresses -/
def DxParams (p : Params) : Prop := p.requireSlotType = true ∧ p.supportBufferAddress = false

/-- the printed `register(..)` annotation, read back character by character, names the group of the binding -/
theorem rereadSet_reg (r : RegT) (i s : Nat) : (rereadSet (Annot.reg r i s).print).getD 0 = s := by
  have h := readAnnot_print (.reg r i s) (by intro _ _ h; cases h)
  simp only [rereadSet, h]
  by_cases hs : s = 0 <;> simp [hs]

/-- the allocator reads the explicit group only through `set.getD default` -/
theorem step_withSet (p : Params) (dflt dflt' : Nat) (st : State) (d : Decl) (s s' : Option Nat)
    (h : s.getD dflt = s'.getD dflt') : step p dflt st (withSet d s) = step p dflt' st (withSet d s') := by
  cases d <;> simp [withSet, step, h]

theorem withSet_self (d : Decl) : ∃ s, withSet d s = d := by
  cases d with
  | other => exact ⟨none, rfl⟩
  | cbuffer s => exact ⟨s, rfl⟩
  | global s ss k l => exact ⟨s, rfl⟩

/-- **one step**: on the re-read declaration, with default group 0, the allocator does what it did on the original -/
theorem step_second {p : Params} (hp : DxParams p) (dflt : Nat) (st st' : State) (d : Decl) (ob : Option Binding)
    (h : step p dflt st d = .ok (st', ob)) : step p 0 st (secondDecl d ob) = .ok (st', ob) := by
  obtain ⟨hreq, hba⟩ := hp
  cases d with
  | other => simp [step] at h; obtain ⟨rfl, rfl⟩ := h; simp [secondDecl, regAnnot, withSet, step]
  | cbuffer s =>
    simp [step, hreq] at h
    obtain ⟨rfl, rfl⟩ := h
    simp only [secondDecl, regAnnot, withSet]
    have := rereadSet_reg .B (st.used.get (s.getD dflt)) (s.getD dflt)
    simp [step, hreq, Counter.bump, this]
  | global s ss k l =>
    simp only [step] at h
    split at h
    · simp at h; obtain ⟨rfl, rfl⟩ := h
      rename_i hss
      simp [secondDecl, regAnnot, withSet, step, hss]
    · rename_i hss
      split at h
      · simp at h; obtain ⟨rfl, rfl⟩ := h
        simp [secondDecl, regAnnot, withSet, step, hss]
      · rename_i k'
        -- since fix 774c0b4: `match registerType k` comes first; a kind without a register class is left unbound
        split at h
        · rename_i hr
          simp at h; obtain ⟨rfl, rfl⟩ := h
          simp [secondDecl, regAnnot, withSet, step, hss, hr]
        · rename_i r hr
          simp [hba, hreq] at h
          obtain ⟨rfl, rfl⟩ := h
          simp only [secondDecl, regAnnot, withSet]
          have := rereadSet_reg r (st.used.get (s.getD dflt)) (s.getD dflt)
          simp [step, hss, hba, hreq, hr, Counter.bump, this]

theorem run_second {p : Params} (hp : DxParams p) (dflt : Nat) : ∀ (ds : List Decl) (st st' : State)
    (bs : List (Option Binding)), run p dflt st ds = .ok (st', bs) → run p 0 st (secondDecls ds bs) = .ok (st', bs)
  | [], st, st', bs, h => by
    simp [run] at h; obtain ⟨rfl, rfl⟩ := h; simp [secondDecls, run]
  | d :: ds, st, st', bs, h => by
    simp only [run] at h
    split at h
    · simp at h
    · rename_i st1 b hstep
      split at h
      · simp at h
      · rename_i st2 bs' hrun
        simp at h; obtain ⟨rfl, rfl⟩ := h
        simp only [secondDecls, run, step_second hp dflt st st1 d b hstep, run_second hp dflt ds st1 st2 bs' hrun]

end RsslVerif.Lemmas.FixpointSlots

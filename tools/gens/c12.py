"""C12 translator plugin: the small literal tables the macro/include model depends on.

Gen.MacroTables
  keywords          lexer.rs `any_word`: every spelling that does *not* lex as `Token::Id` (so that the model
                    knows when a pasted identifier stops being an identifier)
  directives        preprocess.rs `preprocess_command`: the directive names of the outer `match command_name`
  definingDirectives / the arms that change the macro list (contain `macros.retain` / `macros.push`)
  pragmas           the names handled inside the "pragma" arm
  whitespaceTokens  tokens.rs `Token::is_whitespace`
  compileDefines    compile.rs: the (name, value) pairs pushed before `args.defines`, per target, and the fact
                    that user defines are appended after them (order matters: first entry of a name wins)
  initialDefinesUseDefinePath  preprocess.rs `preprocess_initial_file`: each API define is the located text
                    "name value" sent through Macro::parse + retain + push (the 9f7cdb8 fix)
  argsShareDisabled preprocess.rs `apply_single_macro`: macro arguments are expanded by
                    `apply_macros_internal(.., macro_disabled, ..)` (the d00f5aa fix), not by `apply_macros`
  searchPositions   every `MacroSearchPosition { next_pos, early_function_pos, last_macro_function_index }` literal of
                    `apply_macros_internal` / `apply_single_macro` (where the scan resumes after each operation), the
                    definitions of `new_end` / `tokens_added`, and the conditions of `find_single_macro` that consult
                    the three fields
  userArmStatements / bodyAlwaysRescanned  the statement sequence of the `FoundMacro::User` arm from the substitution of the
                    replacement list to `tokens.splice`: disable, rescan (`apply_macros_internal` on the substituted list),
                    enable -- with no conditional statement in between (seeded mutant C12-3 guarded the rescan)
"""
import re


def register(gen, T):
    from rustsrc import ExtractError, fn_body, impl_fn_body, first_match, match_arms, lean_str, normws, split_top

    @gen("MacroTables")
    def macro_tables():
        lexer = T.src("preprocess/src/lexer.rs")
        pre = T.src("preprocess/src/preprocess.rs")
        tokens = T.src("text/src/tokens.rs")
        comp = T.src("src/compile.rs")
        out = [T.header("MacroTables", ["preprocess/src/lexer.rs", "preprocess/src/preprocess.rs",
                                        "text/src/tokens.rs", "src/compile.rs"])]

        # --- keywords ---------------------------------------------------------------------------
        body = fn_body(lexer, "any_word")
        _, arms_text, _ = first_match(body, r'id\.0\.as_str\(\)')
        kws = []
        saw_default = False
        for pats, guard, result in match_arms(arms_text):
            if guard is not None:
                raise ExtractError("any_word: guard unsupported")
            if pats == ['_']:
                if result != "Token::Id(id)":
                    raise ExtractError(f"any_word: default arm is {result!r}")
                saw_default = True
                continue
            for p in pats:
                m = re.fullmatch(r'"([A-Za-z_0-9]+)"', p)
                if not m:
                    raise ExtractError(f"any_word: pattern {p!r} unsupported")
                kws.append(m.group(1))
        if not saw_default or not kws:
            raise ExtractError("any_word: table not found")
        out.append("/-- spellings that `any_word` turns into something other than `Token::Id` -/\n")
        out.append("def keywords : List String := " + T.lean_list(lean_str(k) for k in kws) + "\n\n")

        # --- directive names ----------------------------------------------------------------------
        pc = fn_body(pre, "preprocess_command")
        _, arms_text, _ = first_match(pc, r'^command_name$')
        names, defining = [], []
        pragma_arm = None
        for pats, guard, result in match_arms(arms_text):
            for p in pats:
                m = re.fullmatch(r'"([a-z]+)"', p)
                if m:
                    names.append(m.group(1))
                    if "macros.retain" in result or "macros.push" in result:
                        defining.append(m.group(1))
                    if m.group(1) == "pragma":
                        pragma_arm = result
                elif p != '_':
                    raise ExtractError(f"preprocess_command: pattern {p!r} unsupported")
        if not names or pragma_arm is None:
            raise ExtractError("preprocess_command: directive table not found")
        out.append("/-- directive names handled by `preprocess_command` -/\n")
        out.append("def directives : List String := " + T.lean_list(lean_str(k) for k in names) + "\n\n")
        out.append("/-- the directives whose arm edits the macro list (`macros.retain` / `macros.push`) -/\n")
        out.append("def definingDirectives : List String := " + T.lean_list(lean_str(k) for k in defining) + "\n\n")
        # the define arm must remove an existing macro of the same name before pushing
        define_arm = [r for ps, g, r in match_arms(arms_text) if ps == ['"define"']]
        undef_arm = [r for ps, g, r in match_arms(arms_text) if ps == ['"undef"']]
        if len(define_arm) != 1 or len(undef_arm) != 1:
            raise ExtractError("define/undef arms not found")
        d = normws(define_arm[0])
        retain_then_push = bool(re.search(r'macros\.retain\(\|m\| m\.name != macro_def\.name\); macros\.push\(macro_def\);', d))
        u = normws(undef_arm[0])
        undef_retains = bool(re.search(r'macros\.retain\(\|m\| m\.name != \*s\);', u))
        out.append(f"/-- `#define`: `macros.retain(|m| m.name != new.name); macros.push(new)` -/\n"
                   f"def defineRetainsThenPushes : Bool := {'true' if retain_then_push else 'false'}\n\n")
        out.append(f"/-- `#undef`: `macros.retain(|m| m.name != name)` -/\n"
                   f"def undefRetains : Bool := {'true' if undef_retains else 'false'}\n\n")
        _, parms, _ = first_match(pragma_arm, r's\.as_str\(\)')
        pragmas = []
        for pats, guard, result in match_arms(parms):
            for p in pats:
                m = re.fullmatch(r'"([a-z]+)"', p)
                if m:
                    pragmas.append(m.group(1))
        out.append("def pragmas : List String := " + T.lean_list(lean_str(k) for k in pragmas) + "\n\n")

        # --- whitespace tokens ----------------------------------------------------------------------
        iw = fn_body(tokens, "is_whitespace")
        ws = re.findall(r'Token::([A-Za-z]+)', iw)
        if 'matches!' not in iw or not ws:
            raise ExtractError("is_whitespace: matches! list not found")
        out.append("/-- `Token::is_whitespace` -/\n")
        out.append("def whitespaceTokens : List String := " + T.lean_list(lean_str(k) for k in ws) + "\n\n")

        # --- the argument expansion call (the d00f5aa fix) --------------------------------------------
        asm = fn_body(pre, "apply_single_macro")
        m = re.search(r'let\s+args\s*=\s*args\.into_iter\(\)\.try_fold', asm)
        if not m:
            raise ExtractError("apply_single_macro: argument expansion not found")
        seg = normws(asm[m.end():m.end() + 400])
        shares = bool(re.search(r'apply_macros_internal\( arg\.to_vec\(\), macro_defs, macro_disabled, false,', seg))
        out.append("/-- macro arguments are expanded with the *current* `macro_disabled` vector -/\n")
        out.append(f"def argsShareDisabled : Bool := {'true' if shares else 'false'}\n\n")

        # --- where the scan resumes: the MacroSearchPosition literals -----------------------------------
        from rustsrc import matching as _matching
        def search_positions(body, what):
            res = []
            for mm in re.finditer(r'MacroSearchPosition\s*\{', body):
                j = mm.end() - 1
                e = _matching(body, j)
                fields = {}
                for part in split_top(body[j + 1:e], ','):
                    part = part.strip()
                    if not part:
                        continue
                    k, _, v = part.partition(':')
                    fields[k.strip()] = normws(v)
                if sorted(fields) != ['early_function_pos', 'last_macro_function_index', 'next_pos']:
                    raise ExtractError(f"{what}: MacroSearchPosition literal with fields {sorted(fields)}")
                res.append([fields['next_pos'], fields['early_function_pos'], fields['last_macro_function_index']])
            return res
        ami = fn_body(pre, "apply_macros_internal")
        sp = search_positions(ami, "apply_macros_internal") + search_positions(asm, "apply_single_macro")
        if len(sp) != 5:
            raise ExtractError(f"expected 5 MacroSearchPosition literals (start, User, Defined, Concat, None), found {len(sp)}")
        out.append("/-- `[next_pos, early_function_pos, last_macro_function_index]` of every `MacroSearchPosition` literal: the\n"
                   "start of `apply_macros_internal`, then the arms `User`, `Defined`, `Concat`, `None` of `apply_single_macro` -/\n")
        out.append("def searchPositions : List (List String) :=\n  " +
                   T.lean_list(T.lean_list(lean_str(x) for x in row) for row in sp) + "\n\n")
        asm_n = normws(asm)
        lets = []
        for name in ("tokens_added", "new_end", "end"):
            m2 = re.search(r'let ' + name + r' = ([^;]+);', asm_n)
            if not m2:
                raise ExtractError(f"apply_single_macro: `let {name}` not found")
            lets.append(m2.group(1).strip())
        out.append("/-- `let tokens_added = ..; let new_end = ..; let end = ..;` in the `User` arm -/\n")
        out.append("def userArmLets : List String := " + T.lean_list(lean_str(x) for x in lets) + "\n\n")
        # --- the User arm between substitution and splice: the rescan of the substituted body is unconditional ------
        um = re.search(r'FoundMacro::User\(macro_index, pos\)\s*=>\s*\{', asm)
        if not um:
            raise ExtractError("apply_single_macro: the `FoundMacro::User` arm not found")
        ub = um.end() - 1
        arm = asm[ub + 1:_matching(asm, ub)]
        stmts = [normws(x) for x in split_top(arm, ';') if x.strip()]
        # a block statement (`for .. { .. }`, `if .. { .. }`) is not terminated by `;`: cut it off the statement that follows
        flat = []
        for st in stmts:
            while True:
                mb = re.match(r'(for|if|while|loop|match)\b', st)
                if not mb:
                    break
                jb = st.find('{')
                if jb < 0:
                    break
                eb = _matching(st, jb)
                # `if .. {..} else {..}` chains
                rest = st[eb + 1:].lstrip()
                while rest.startswith('else'):
                    jb2 = st.find('{', eb + 1)
                    eb = _matching(st, jb2)
                    rest = st[eb + 1:].lstrip()
                flat.append(normws(st[:eb + 1]))
                st = rest
                if not st:
                    break
            if st:
                flat.append(st)
        try:
            i_sub = next(i for i, st in enumerate(flat) if st.startswith('let mut output = Vec::with_capacity('))
            i_spl = next(i for i, st in enumerate(flat) if st.startswith('tokens.splice(pos..end, output)'))
        except StopIteration:
            raise ExtractError("apply_single_macro: substitution / splice statements of the `User` arm not found")
        seq = flat[i_sub:i_spl + 1]
        out.append("/-- the statements of the `User` arm of `apply_single_macro` from the substitution of the replacement list to the\n"
                   "splice, in order (block statements whole) -/\n")
        out.append("def userArmStatements : List String :=\n  " + T.lean_list(lean_str(x) for x in seq) + "\n\n")
        rescan = "let output = apply_macros_internal(output, macro_defs, macro_disabled, false, source_manager)?"
        plain = [st for st in seq if not st.startswith('assert!(')]
        always = (rescan in seq
                  and all(not re.match(r'(if|match|while|loop)\b', st) for st in seq)
                  and sum(1 for st in seq if 'apply_macros_internal' in st) == 1
                  and len(plain) >= 5
                  and plain[1].startswith('for token in &macro_def.tokens {')
                  and plain[2] == 'macro_disabled[macro_index] = true'
                  and plain[3] == rescan
                  and plain[4] == 'macro_disabled[macro_index] = false')
        out.append("/-- between substitution and splice there is no conditional statement: the substituted replacement list is handed to\n"
                   "`apply_macros_internal` (macro disabled before, enabled after) on every path -/\n")
        out.append(f"def bodyAlwaysRescanned : Bool := {'true' if always else 'false'}\n\n")

        # --- the Concat arm: both operands of `##` are spelled by `unlex` (source text), nothing is rendered per token kind ---
        cm = re.search(r'FoundMacro::Concat\(left_token_pos, right_token_pos\)\s*=>\s*\{', asm)
        if not cm:
            raise ExtractError("apply_single_macro: the `FoundMacro::Concat` arm not found")
        cb = cm.end() - 1
        carm = asm[cb + 1:_matching(asm, cb)]
        cstm = [normws(x) for x in split_top(carm, ';') if x.strip()]
        try:
            i_l = next(i for i, st in enumerate(cstm) if st.startswith('let left_string ='))
            i_f = next(i for i, st in enumerate(cstm) if st.startswith('let file_id ='))
        except StopIteration:
            raise ExtractError("apply_single_macro: `let left_string` / `let file_id` of the `Concat` arm not found")
        cseq = [re.sub(r'\s*,\s*\)', ')', re.sub(r'\(\s+', '(', st)) for st in cstm[i_l:i_f + 1]]
        out.append("/-- the statements of the `Concat` arm of `apply_single_macro` from the spelling of the operands to the registration\n"
                   "of the joined text as a scratch file, in order -/\n")
        out.append("def concatArmSpelling : List String :=\n  " + T.lean_list(lean_str(x) for x in cseq) + "\n\n")
        uses_source = (cseq == [
            'let left_string = unlex(std::slice::from_ref(left_token), source_manager)',
            'let right_string = unlex(std::slice::from_ref(right_token), source_manager)',
            'let new_fragment = format!("{left_string}{right_string}")',
            'let file_id = source_manager.add_file(FileName("<scratch space>".to_string()), new_fragment)']
            and 'let left_token = &tokens[left_token_pos]' in cstm and 'let right_token = &tokens[right_token_pos]' in cstm
            and not re.search(r'\bmatch\b|\bif let\b', ' ; '.join(cstm[:i_f])))
        # `unlex` itself must spell a token from the source text under its span, not from the token's payload
        unl = normws(fn_body(T.src("preprocess/src/unlexer.rs"), "unlex"))
        unlex_by_span = bool(re.search(r'source_manager', unl)) and not re.search(r'Token::LiteralInt|to_string\(\)', unl)
        out.append("/-- `##` joins the SOURCE SPELLINGS of its operands: both go through `unlex` (the text under the token's span), are\n"
                   "joined by `format!`, and the joined text is what is lexed; there is no `match` on the token kind before that,\n"
                   "and `unlex` does not render a literal from its value -/\n")
        out.append(f"def concatUsesSourceSpelling : Bool := {'true' if uses_source and unlex_by_span else 'false'}\n\n")

        fsm = normws(fn_body(pre, "find_single_macro"))
        uses = []
        for pat in (r'let mut i = (search_pos\.[a-z_]+);',
                    r'if (search_pos\.last_macro_function_index == macro_index && i < search_pos\.next_pos) \{ continue; \}',
                    r'if (activate_pos < search_pos\.next_pos) \{ continue; \}',
                    r'(activate_pos = tokens\.len\(\) - trimmed\.len\(\));',
                    r'let (trimmed = trim_whitespace_[a-z_]*start\(&tokens\[i \+ 1\.\.\]\));',
                    r'while (pos\.next_pos < tokens\.len\(\)) \{'):
            src_text = normws(ami) if pat.startswith('while') else fsm
            m2 = re.search(pat, src_text)
            if not m2:
                raise ExtractError(f"find_single_macro / apply_macros_internal: pattern {pat!r} not found")
            uses.append(m2.group(1))
        out.append("/-- the places where `find_single_macro` / the loop of `apply_macros_internal` consult the search position -/\n")
        out.append("def searchPositionUses : List String := " + T.lean_list(lean_str(x) for x in uses) + "\n\n")

        # --- which white space is skipped where (fix f08088c: an invocation may continue on the next line) ----
        def trim_condition(fname):
            b = normws(fn_body(pre, fname))
            m3 = re.fullmatch(r'while let Some\(\(PreprocessToken\(tok, _\), rest\)\) = tokens\.(split_first|split_last)\(\) \{ '
                              r'if (.+?) \{ tokens = rest; \} else \{ break; \} \} tokens', b)
            if not m3:
                raise ExtractError(f"{fname}: not the expected trimming loop")
            return [fname, m3.group(1), m3.group(2)]
        trims = [trim_condition(f) for f in ("trim_whitespace_start", "trim_whitespace_end",
                                             "trim_whitespace_and_endlines_start")]
        out.append("/-- the trimming loops: `[function, end it works on, condition under which a token is removed]` -/\n")
        out.append("def trimLoops : List (List String) :=\n  " +
                   T.lean_list(T.lean_list(lean_str(x) for x in row) for row in trims) + "\n\n")
        sma = normws(fn_body(pre, "split_macro_args"))
        m3 = re.search(r'let (remaining = trim_whitespace_[a-z_]*start\(remaining\));', sma)
        if not m3:
            raise ExtractError("split_macro_args: the trim before the opening parenthesis not found")
        arg_trims = sorted(set(re.findall(r'let (arg = [a-z_]+\(&remaining\[\.\.pos\]\));', sma)))
        if not arg_trims:
            raise ExtractError("split_macro_args: the trimming of the arguments not found")
        m4 = re.search(r'if macro_def\.num_params == 0 \{ if (!\(.+?\)) \{ return Err\(PreprocessError::'
                       r'MacroExpectsDifferentNumberOfArguments\); \} \} else if (args\.len\(\) as u64 != macro_def\.num_params) \{',
                       asm_n)
        if not m4:
            raise ExtractError("apply_single_macro: the arity checks not found")
        out.append("/-- `split_macro_args`: how the `(` is reached and how each argument is trimmed; `apply_single_macro`: the two\n"
                   "arity tests (macro without parameters / with parameters) -/\n")
        out.append("def argumentReading : List String := " +
                   T.lean_list(lean_str(x) for x in [m3.group(1)] + arg_trims + [m4.group(1), m4.group(2)]) + "\n\n")


        # --- the nesting limit of #include (fix 6b8d369) ---------------------------------------------------
        mm = re.search(r'const MAX_INCLUDE_DEPTH: u32 = (\d+);', pre)
        if not mm:
            raise ExtractError("MAX_INCLUDE_DEPTH not found")
        inc_arm = [r for ps, g, r in match_arms(arms_text) if ps == ['"include"']]
        if len(inc_arm) != 1:
            raise ExtractError("include arm not found")
        ia = normws(inc_arm[0])
        i_check = ia.find("if file_loader.include_depth >= MAX_INCLUDE_DEPTH { return Err(PreprocessError::IncludeDepthExceeded(command_location)); }")
        i_load = ia.find("file_loader.load(&file_name, Some(file_id))")
        i_inc = ia.find("file_loader.include_depth += 1; let result = preprocess_included_file(")
        i_dec = ia.find("file_loader.include_depth -= 1;")
        shape_ok = 0 <= i_check < i_load < i_inc < i_dec and "include_depth: 0," in normws(pre)
        out.append("/-- `MAX_INCLUDE_DEPTH`: an `#include` at nesting depth `>=` this is rejected -/\n")
        out.append(f"def maxIncludeDepth : Nat := {mm.group(1)}\n\n")
        out.append("/-- the depth starts at 0, is tested before the file is loaded, and is raised by one around the recursive call -/\n")
        out.append(f"def includeDepthCheckedBeforeLoad : Bool := {'true' if shape_ok else 'false'}\n\n")

        # --- FileLoader::load: which key identifies a file (fix d66a6d7) --------------------------------------
        fl = normws(impl_fn_body(pre, r"FileLoader", "load"))
        identity = []
        for pat in (r'let id = match (self\.file_name_remap\.get\(file_name\)) \{ Some\(id\) => \*id, None => \{',
                    r'let file_data = (self\.include_handler\.load\(file_name, parent_name\))\?;',
                    r'let id = match (self\.real_name_remap\.get\(&file_data\.real_name\)) \{ Some\(id\) => \*id, None => \{',
                    r'(self\.real_name_remap\.insert\(real_name, id\));',
                    r'(self\.file_name_remap\.insert\(file_name\.to_string\(\), id\));',
                    r'if (self\.pragma_once_files\.contains\(&id\)) \{ Ok\(InputFile \{ file_id: id, contents: String::new\(\), \}\) \}',
                    r'let contents = (self\.source_manager\.get_contents\(id\));'):
            m5 = re.search(pat, fl)
            if not m5:
                raise ExtractError(f"FileLoader::load: pattern {pat!r} not found")
            identity.append(m5.group(1))
        mo = normws(impl_fn_body(pre, r"FileLoader", "mark_as_pragma_once"))
        if mo != "self.pragma_once_files.insert(file_id);":
            raise ExtractError(f"mark_as_pragma_once: body is {mo!r}")
        identity.append(mo.rstrip(';'))
        out.append("/-- `FileLoader::load` / `mark_as_pragma_once`: the id of a file is looked up by include name (cache), then by the\n"
                   "real name the handler reports; the once-set holds ids; contents come from the source manager -/\n")
        out.append("def fileIdentity : List String := " + T.lean_list(lean_str(x) for x in identity) + "\n\n")

        # --- wave 5: the line state machine and the arms that reject a directive -------------------------------
        pif_body = fn_body(pre, "preprocess_included_file")
        _, ls_arms, _ = first_match(pif_body, r'\(&next\.0, &command_state\)')
        line_arms = []
        for pats, guard, result in match_arms(ls_arms):
            head = " | ".join(pats) + (" if " + normws(guard) if guard is not None else "")
            res = normws(result)
            # the two short arms in full (a line end outside a directive / every other token goes to active_tokens)
            line_arms.append(head + (" => " + res if len(res) < 90 else ""))
        out.append("/-- the arms of `match (&next.0, &command_state)` in `preprocess_included_file` (pattern and guard; the short arms\n"
                   "in full): `Line` / `stepLine` of the model read a file as the lines this machine delimits -/\n")
        out.append("def lineStateArms : List String :=\n  " + T.lean_list(lean_str(x) for x in line_arms) + "\n\n")
        pcn = normws(fn_body(pre, "preprocess_command"))
        m7 = re.search(r'let file_name = match command \{ (.*?) \};', pcn)
        if not m7:
            raise ExtractError("include arm: `let file_name = match command` not found")
        out.append("/-- the operand of `#include`: one string literal or one header name (the same string is taken out of both),\n"
                   "anything else is `InvalidInclude` -/\n")
        out.append("def includeOperand : String := " + lean_str(m7.group(1)) + "\n\n")
        rejecting = []
        for pat in (r'(_ if skip => return Ok\(\(\)\), _ => return Err\(PreprocessError::UnknownCommand\(command_location\)\),) \};',
                    r'"warning" => \{ Ok\(\(\)\) \} (_ => Err\(PreprocessError::UnknownPragma\(ext\.get_location\(\)\)\),) \}',
                    r'\} (else \{ Err\(PreprocessError::UnknownPragma\( pragma_command\.first\(\)\.get_location\(\), \)\) \})',
                    r'(_ if skip => Ok\(\(\)\), _ => Err\(PreprocessError::UnknownCommand\(command_location\)\),) \}$'):
            m8 = re.search(pat, pcn)
            if not m8:
                raise ExtractError(f"preprocess_command: rejecting arm {pat!r} not found")
            rejecting.append(m8.group(1))
        out.append("/-- where `preprocess_command` rejects a directive whatever the state (`Line.rejected`): a line that does not begin\n"
                   "with a name, a pragma with an unknown / missing name, an unknown directive name -/\n")
        out.append("def rejectingArms : List String :=\n  " + T.lean_list(lean_str(x) for x in rejecting) + "\n\n")

        # the API define that contains a line end is rejected before Macro::parse (fix 3c81ed5)
        pif0 = normws(fn_body(pre, "preprocess_initial_file"))
        m6 = re.search(r'if (tokens\.iter\(\)\.any\(\|t\| t\.0 == Token::Endline\)) \{ return Err\(PreprocessError::InvalidDefine\('
                       r'SourceLocation::UNKNOWN\)\); \} let macro_def = Macro::parse\(&tokens\)\?;', pif0)
        out.append("/-- an API define whose tokens contain `Token::Endline` is `InvalidDefine`, tested right before `Macro::parse` -/\n")
        out.append(f"def apiDefineLineBreakRejected : Bool := {'true' if m6 else 'false'}\n\n")

        # initial defines go through the `#define` path: each (name, value) becomes the located text "name value",
        # is lexed without a trailing line end, parsed by Macro::parse, and replaces an earlier macro of that name
        pif = normws(fn_body(pre, "preprocess_initial_file"))
        as_define = (bool(re.search(r'format!\("\{name\} \{value\}"\)', pif))
                     and bool(re.search(r'TokenStream::new\(contents, location\) \.suppress_trailing_endline\(\) \.read_to_end\(\)', pif))
                     and bool(re.search(r'let macro_def = Macro::parse\(&tokens\)\?; macros\.retain\(\|m\| m\.name != macro_def\.name\); '
                                        r'macros\.push\(macro_def\);', pif))
                     and "SourceLocation::UNKNOWN)" not in pif.split("for (name, value) in initial_defines")[1].split("Macro::parse")[0].replace(
                         "InvalidDefine(SourceLocation::UNKNOWN)", ""))
        out.append("/-- API-level defines: the located text `name value` goes through `Macro::parse`, `retain`, `push` -/\n")
        out.append(f"def initialDefinesUseDefinePath : Bool := {'true' if as_define else 'false'}\n\n")

        # --- compile.rs initial defines ------------------------------------------------------------------
        cb = fn_body(comp, "compile")
        i0 = cb.index("let mut defines")
        i1 = cb.index("defines.extend(args.defines)")
        seg = cb[i0:i1]
        entries = []
        for m in re.finditer(r'defines\.push\(\(', seg):
            j = m.end() - 1
            from rustsrc import matching
            e = matching(seg, j)
            parts = [normws(x) for x in split_top(seg[j + 1:e], ',') if x.strip()]
            if len(parts) != 2:
                raise ExtractError(f"compile: defines.push with {len(parts)} parts")
            nm = re.fullmatch(r'"([A-Za-z_0-9]+)"', parts[0])
            if not nm:
                raise ExtractError(f"compile: define name {parts[0]!r}")
            v = parts[1]
            lit = re.fullmatch(r'"([^"]*)"', v)
            if lit:
                entries.append((nm.group(1), None, lit.group(1), lit.group(1)))
                continue
            cm = re.fullmatch(r'if matches!\(args\.target, ([A-Za-z:| ]+)\) \{ "([^"]*)" \} else \{ "([^"]*)" \}', v)
            if not cm:
                raise ExtractError(f"compile: define value {v!r} unsupported")
            targets = re.findall(r'Target::([A-Za-z]+)', cm.group(1))
            entries.append((nm.group(1), targets, cm.group(2), cm.group(3)))
        if not entries:
            raise ExtractError("compile: no initial defines found")
        out.append("inductive Target where | HlslForDirectX | HlslForVulkan | Msl | MetalBytecode\n"
                   "  deriving DecidableEq, Repr, Inhabited\n\n")
        out.append("/-- the defines `compile()` puts in front of the user's `args.defines` -/\n")
        out.append("def compileDefines (t : Target) : List (String × String) :=\n  [")
        items = []
        for name, targets, a, b in entries:
            if targets is None:
                items.append(f"({lean_str(name)}, {lean_str(a)})")
            else:
                cond = T.lean_list("." + x for x in targets) + ".contains t"
                items.append(f"({lean_str(name)}, if {cond} then {lean_str(a)} else {lean_str(b)})")
        out.append(",\n   ".join(items) + "]\n\n")
        out.append("/-- user defines come after the built-in ones (`defines.extend(args.defines)`) -/\n")
        out.append("def userDefinesAppended : Bool := true\n")
        out.append(T.footer("MacroTables"))
        return "".join(out)

//! C04.fix `dfn:<seed>` — DECLARATION FORMS of functions (and the exporter features no other stream writes).
//!
//! Why (round 6): a default argument given on a function PROTOTYPE only is lost in the emitted HLSL — no generator wrote
//! prototypes with default arguments.  The exporter prints a prototype (`RootDefinition::FunctionDeclaration`) from the
//! parameter list of the DEFINITION (`FunctionImplementation.params`, hlsl/src/ast_generate.rs generate_function_inner),
//! while the front end takes the signature (number of parameters without a default) from the FIRST declaration.  This stream
//! varies every dimension of that pairing.
//!
//! Program shape (all choices from the seed):
//!   header      `static const float K0 / int KI0`, helper `hv()`, `struct S { int a; float w; }`
//!   2..5 functions, each with
//!     place      root | `namespace N` | `namespace N { namespace M` — prototype and definition in SEPARATE (reopened) blocks
//!     parameters 1..4: int / uint / float / float2 / S / int[2], `out` / `inout` on leading ones, other names on the prototype
//!     form       definition only | prototype + definition | prototype twice + definition | definition + later prototype |
//!                prototype + definition + prototype | prototype never defined (in 1 program of 40; never called: the exporter refuses)
//!     defaults   trailing parameters, count on the prototype and count on the definition chosen independently:
//!                none / both the same / both with DIFFERENT values / prototype only / definition only / more on one side
//!     default expressions: literals of every suffix, negative literals, constant expressions, casts, `K0` / `KI0`
//!                (declared in front of everything), a call `hv()`, vector constructors, and — definition side only — a
//!                constant `KM<i>` declared BETWEEN the prototype and the definition
//!   overloads    1 program in 3: two functions share a name (different first parameter type)
//!   `early()`    calls every function whose first declaration is a prototype BEFORE its definition (forward declared),
//!                mutual recursion `even` / `odd` through a prototype (1 in 3)
//!   `late()`     calls every function after all definitions
//!   calls        pass between (parameters − defaults of the FIRST declaration) and all arguments (what the front end admits)
//!   struct TS    methods with defaults, a method that calls a method defined later in the struct, a method that calls a
//!                forward-declared free function
//!   template     `template<typename T> T tw(T x, T y = 1)` called with and without the default (1 in 3)
//!   extras       2..6 snippets of exporter features that no other stream writes (parameter interpolation modifiers, precise,
//!                row_major / column_major / snorm / unorm / volatile, statement attributes, WaveSize / outputtopology,
//!                SV_Depth* semantics, sizeof, enum-typed constants, infinities, 4-component swizzles, rarely used intrinsics)
//!
//! Out of the language (hand-checked on the pinned compiler, so not generated): a method declared in a struct and defined
//! outside (`int S::m(int x) {..}`: failed to parse source; a method prototype alone: hlsl generate FunctionNotDefined), a
//! qualified definition `float N::g(..) {..}` (parse error), a prototype of a function template (the prototype and the
//! definition are two templates: `ambiguous call`).
//!
//! Classification of a failure (`classify`, works on the SOURCE TEXT alone, so it serves `text:` reproducers too; independent
//! of the compiler and of the Lean model): the source is scanned for function declarators outside of bodies; for every function
//! (name, number of parameters) the declarations are listed in order with the default expression of every parameter.
//!   * `[dfn: prototype-default-dropped]` — the second generation is refused with `no matching function for call to F(..n
//!     arguments..)` and the source has a function F (the printed name may carry the `_k` suffix of an overload) whose FIRST
//!     declaration is a prototype with more defaults than its definition, n lying between the two;
//!   * `[dfn: definition-default-printed-on-earlier-prototype]` — the second generation is refused with `'X' was not
//!     declared in this scope` on a prototype line, and in the source X is declared after a prototype of a function and in
//!     front of its definition, whose default expressions mention X.
//! Both are the same root cause (the emitted prototype carries the parameter list of the definition).  Any other failure keeps
//! the request as its key and is a violation.

use crate::util::*;

#[derive(Clone, Copy, PartialEq, Eq, Debug)]
enum PT {
    Int,
    UInt,
    Float,
    Float2,
    St,
    Arr,
}

impl PT {
    fn decl(self, name: &str) -> String {
        match self {
            PT::Int => format!("int {}", name),
            PT::UInt => format!("uint {}", name),
            PT::Float => format!("float {}", name),
            PT::Float2 => format!("float2 {}", name),
            PT::St => format!("S {}", name),
            PT::Arr => format!("int {}[2]", name),
        }
    }
    fn local(self) -> &'static str {
        match self {
            PT::Int => "li",
            PT::UInt => "lu",
            PT::Float => "lf",
            PT::Float2 => "lf2",
            PT::St => "ls",
            PT::Arr => "la",
        }
    }
    /// read of a parameter as a float
    fn read(self, name: &str) -> String {
        match self {
            PT::Int | PT::UInt => format!("(float){}", name),
            PT::Float => name.to_string(),
            PT::Float2 => format!("{}.x", name),
            PT::St => format!("{}.w", name),
            PT::Arr => format!("(float){}[1]", name),
        }
    }
}

#[derive(Clone, Copy, PartialEq, Eq, Debug)]
enum Md {
    In,
    Out,
    InOut,
}

#[derive(Clone, Copy, PartialEq, Eq, Debug)]
enum Form {
    Def,
    ProtoDef,
    ProtoProtoDef,
    DefProto,
    ProtoDefProto,
    ProtoOnly,
}

impl Form {
    fn proto_first(self) -> bool {
        matches!(self, Form::ProtoDef | Form::ProtoProtoDef | Form::ProtoDefProto | Form::ProtoOnly)
    }
}

struct Func {
    name: String,
    ns: Vec<&'static str>,
    ret: PT, // Int / Float only; `void` when is_void
    is_void: bool,
    params: Vec<(PT, Md)>,
    form: Form,
    /// default expression per parameter on the prototype(s) / on the definition
    proto_defaults: Vec<Option<String>>,
    def_defaults: Vec<Option<String>>,
    rename_on_proto: bool,
    idx: usize,
}

impl Func {
    fn path(&self) -> String {
        let mut s = String::new();
        for n in &self.ns {
            s.push_str(n);
            s.push_str("::");
        }
        s.push_str(&self.name);
        s
    }
    fn first_defaults(&self) -> usize {
        let d = if self.form.proto_first() { &self.proto_defaults } else { &self.def_defaults };
        d.iter().filter(|x| x.is_some()).count()
    }
    fn header(&self, proto: bool) -> String {
        let defaults = if proto { &self.proto_defaults } else { &self.def_defaults };
        let mut ps = Vec::new();
        for (i, (t, m)) in self.params.iter().enumerate() {
            let name = if proto && self.rename_on_proto { format!("q{}", i) } else { format!("p{}", i) };
            let md = match m {
                Md::In => "",
                Md::Out => "out ",
                Md::InOut => "inout ",
            };
            let mut s = format!("{}{}", md, t.decl(&name));
            if let Some(d) = &defaults[i] {
                s.push_str(" = ");
                s.push_str(d);
            }
            ps.push(s);
        }
        let ret = if self.is_void { "void" } else if self.ret == PT::Int { "int" } else { "float" };
        format!("{} {}({})", ret, self.name, ps.join(", "))
    }
    fn wrap(&self, inner: &str) -> String {
        let mut s = String::new();
        for n in &self.ns {
            s.push_str(&format!("namespace {} {{ ", n));
        }
        s.push_str(inner);
        for _ in &self.ns {
            s.push_str(" }");
        }
        s.push('\n');
        s
    }
    fn proto(&self) -> String {
        self.wrap(&format!("{};", self.header(true)))
    }
    fn def(&self) -> String {
        let mut body = String::new();
        let mut sum = format!("{}.0f", 100 + self.idx);
        for (i, (t, m)) in self.params.iter().enumerate() {
            let n = format!("p{}", i);
            match m {
                Md::Out => {
                    // an out parameter is written first
                    body.push_str(&match t {
                        PT::Int => format!("{} = {}; ", n, 7 + i),
                        PT::UInt => format!("{} = {}u; ", n, 7 + i),
                        PT::Float => format!("{} = {}.5f; ", n, i),
                        PT::Float2 => format!("{} = float2(1.0f, 2.0f); ", n),
                        PT::St => format!("{}.a = 1; {}.w = 2.0f; ", n, n),
                        PT::Arr => format!("{}[0] = 1; {}[1] = 2; ", n, n),
                    });
                }
                Md::InOut => {
                    body.push_str(&match t {
                        PT::Int => format!("{} += 1; ", n),
                        PT::UInt => format!("{} += 1u; ", n),
                        PT::Float => format!("{} *= 2.0f; ", n),
                        PT::Float2 => format!("{}.y += 1.0f; ", n),
                        PT::St => format!("{}.a += 1; ", n),
                        PT::Arr => format!("{}[0] += 1; ", n),
                    });
                }
                Md::In => {}
            }
            sum.push_str(" + ");
            sum.push_str(&t.read(&n));
        }
        if self.is_void {
            body.push_str(&format!("float r_ = {}; ", sum));
        } else if self.ret == PT::Int {
            body.push_str(&format!("return (int)({}); ", sum));
        } else {
            body.push_str(&format!("return {}; ", sum));
        }
        self.wrap(&format!("{} {{ {}}}", self.header(false), body))
    }
    /// a call statement with `nargs` arguments, from the root scope
    fn call(&self, nargs: usize, rng: &mut Rng, typed_only: bool) -> String {
        let mut args = Vec::new();
        for (t, m) in self.params.iter().take(nargs) {
            let a = if *m != Md::In || typed_only || rng.chance(1, 2) {
                t.local().to_string()
            } else {
                match t {
                    PT::Int => ["3", "-2", "li + 1", "(int)lf"][rng.below(4) as usize].to_string(),
                    PT::UInt => ["3u", "lu + 1u", "(uint)li", "7"][rng.below(4) as usize].to_string(),
                    PT::Float => ["1.5f", "2", "lf * 2.0f", "0.25", "-1.0f"][rng.below(5) as usize].to_string(),
                    PT::Float2 => ["float2(1.0f, 2.0f)", "lf2 * 2.0f", "lf2.yx"][rng.below(3) as usize].to_string(),
                    PT::St | PT::Arr => t.local().to_string(),
                }
            };
            args.push(a);
        }
        let path = if !self.ns.is_empty() && rng.chance(1, 3) { format!("::{}", self.path()) } else { self.path() };
        let c = format!("{}({})", path, args.join(", "));
        if self.is_void {
            format!("    {};\n", c)
        } else {
            format!("    acc += (float){};\n", c)
        }
    }
}

const LOCALS: &str = "    int li = 1; uint lu = 2u; float lf = 0.5f; float2 lf2 = float2(1.0f, 2.0f); S ls; ls.a = 1; ls.w = 2.0f; int la[2]; la[0] = 1; la[1] = 2; float acc = 0.0f;\n";

/// default expression for a parameter of type `t`; `later` = name of a constant declared between prototype and definition
fn default_expr(t: PT, rng: &mut Rng, later: Option<&str>, hist: &mut Hist) -> String {
    if let Some(k) = later {
        hist.add("default:names-constant-declared-after-the-prototype");
        return match t {
            PT::Int => format!("(int){}", k),
            PT::UInt => format!("(uint){}", k),
            PT::Float => [k.to_string(), format!("{} * 2.0f", k)][rng.below(2) as usize].clone(),
            PT::Float2 => format!("float2({}, 1.0f)", k),
            _ => unreachable!(),
        };
    }
    let forms: &[&str] = match t {
        PT::Int => &["3", "-1", "0x10", "2 + 1", "KI0", "KI0 + 1", "(int)K0", "(int)2.5f", "1 << 3", "hi()"],
        PT::UInt => &["3u", "3", "0xffu", "2u + 1u", "(uint)KI0", "1u << 4"],
        PT::Float => &["2.0f", "1.5", "1", "-0.5f", "K0", "K0 * 2.0f", "(float)KI0", "hv()", "1e-3f", "0.1", "2.5h"],
        PT::Float2 => &["float2(1.0f, 2.0f)", "float2(K0, 1)", "(float2)1.5f"],
        _ => unreachable!(),
    };
    let f = *rng.pick(forms);
    hist.add(if f.contains('K') {
        "default:names-earlier-constant"
    } else if f.contains("h") && f.contains("()") {
        "default:call"
    } else {
        "default:literal-expression"
    });
    f.to_string()
}

/// snippets of exporter features that no other stream writes; every one is accepted and a fixpoint on the pinned compiler
const EXTRAS: [&str; 38] = [
    "void x0(int n) { [unroll(4)] for (int i = 0; i < 4; ++i) { n += i; } }",
    "void x1(int n) { [unroll] for (int j = 0; j < n; ++j) { } [loop] for (int k = 0; k < n; ++k) { } }",
    "void x2(int n) { [fastopt] for (int l = 0; l < n; ++l) { } }",
    "void x3(int n) { [allow_uav_condition] while (n > 0) { n--; } }",
    "void x4(int n) { [branch] if (n) { n = 1; } [flatten] if (n) { n = 2; } }",
    "float x6(precise float a, linear float b, centroid float c, nointerpolation int d, noperspective float e, sample float g2) { precise float r = a + b; return r + c + e + g2 + d; }",
    "float x7(centroid noperspective float a, sample noperspective float b) { return a + b; }",
    "struct X8 { precise float4 p : SV_Position; nointerpolation uint i : IDX; row_major float2x2 m; column_major float2x2 n; };",
    "float x9(float2x2 a) { volatile int q = 1; row_major float2x2 m = a; column_major float2x2 n = a; return m[0][0] + n[1][1] + q; }",
    "uint x10() { return sizeof(float4) + sizeof(int) + sizeof(uint2); }",
    "struct X11 { int a; float4 b; }; uint x11() { return sizeof(X11); }",
    "enum X12 { XA = 1, XB = 2 }; static const X12 XK = XB; X12 x12() { X12 x = XK; return x; }",
    "[WaveSize(32)] [numthreads(8, 1, 1)] void x13() { }",
    "[outputtopology(\"point\")] [numthreads(1, 1, 1)] void x14() { }",
    "[outputtopology(\"line\")] [numthreads(1, 1, 1)] void x15() { }",
    "[outputtopology(\"triangle\")] [numthreads(1, 1, 1)] void x16() { }",
    "float x17(float x) : SV_Depth { return x; }",
    "float x18(float x) : SV_DepthGreaterEqual { return x; }",
    "float x19(float x) : SV_DepthLessEqual { return x; }",
    "static const float XI = 1.0f / 0.0f; static const float XNI = -1.0f / 0.0f; float x20() { return XI + XNI; }",
    "float x21() { float x = 3.4028235e38f; float y = 1e39f; half h = 1e10h; double d = 1e999L; float z = -1e39f; return x + y + z; }",
    "float4 x22(float4 v) { return v.xyzw + v.wwww + v.abgr + v.w; }",
    "float x23(float a) { return asin(a) + atan(a) + cosh(a) + sinh(a) + tan(a) + tanh(a) + log10(a) + trunc(a); }",
    "float3 x24(float3 a, float3 n) { return refract(a, n, 0.5f); }",
    "uint x25(uint a) { return firstbitlow(a) + firstbithigh(a) + countbits(a) + reversebits(a); }",
    "float x26(float a) { return ddx_coarse(a) + ddx_fine(a) + ddy_coarse(a) + ddy_fine(a) + ddx(a) + ddy(a); }",
    "void x27() { AllMemoryBarrier(); AllMemoryBarrierWithGroupSync(); DeviceMemoryBarrier(); DeviceMemoryBarrierWithGroupSync(); GroupMemoryBarrier(); GroupMemoryBarrierWithGroupSync(); }",
    "groupshared uint xg28; void x28(uint v) { uint o; InterlockedAnd(xg28, v); InterlockedOr(xg28, v); InterlockedXor(xg28, v); InterlockedMax(xg28, v); InterlockedMin(xg28, v); InterlockedAdd(xg28, v, o); InterlockedCompareStore(xg28, v, 1u); InterlockedExchange(xg28, v, o); }",
    "bool3 x29(bool3 a, bool3 b) { return and(a, b) == or(a, b); }",
    "float x30(float a) { float ip; return modf(a, ip) + ip; }",
    "double x31(uint a, uint b) { return asdouble(a, b); }",
    "Texture2D<float4> xt32; SamplerState xs32; SamplerComparisonState xc32; float4 x32(float2 uv) { return xt32.SampleGrad(xs32, uv, uv, uv) + xt32.GatherGreen(xs32, uv, int2(0, 0)) + xt32.GatherBlue(xs32, uv, int2(0, 0)) + xt32.GatherAlpha(xs32, uv, int2(0, 0)) + xt32.GatherCmpRed(xc32, uv, 0.5f, int2(0, 0)) + xt32.GatherCmpGreen(xc32, uv, 0.5f, int2(0, 0)) + xt32.GatherCmpBlue(xc32, uv, 0.5f, int2(0, 0)) + xt32.GatherCmpAlpha(xc32, uv, 0.5f, int2(0, 0)); }",
    "Texture2DArray<float4> xt33; SamplerState xs33; SamplerComparisonState xc33; float4 x33(float3 uv) { return xt33.SampleGrad(xs33, uv, uv.xy, uv.xy) + xt33.GatherGreen(xs33, uv, int2(0, 0)) + xt33.GatherBlue(xs33, uv, int2(0, 0)) + xt33.GatherAlpha(xs33, uv, int2(0, 0)) + xt33.GatherCmpRed(xc33, uv, 0.5f, int2(0, 0)) + xt33.GatherCmpGreen(xc33, uv, 0.5f, int2(0, 0)) + xt33.GatherCmpBlue(xc33, uv, 0.5f, int2(0, 0)) + xt33.GatherCmpAlpha(xc33, uv, 0.5f, int2(0, 0)); }",
    "Texture3D<float4> xt34; SamplerState xs34; float4 x34(float3 uv) { return xt34.SampleGrad(xs34, uv, uv, uv); }",
    "const float x35(const float a) { const float b = a; return b; }",
    "struct X36 { float v; float get() { return v; } void set(float x = 1.0f) { v = x; } }; float x36() { X36 s; s.set(); s.set(2.0f); return s.get(); }",
    "void x37(point float p[1], line float l[2], triangle float t[3], lineadj float la[4], triangleadj float ta[6]) { }",
    "snorm float4 x38(unorm float4 a) { snorm float4 b = a; return b; }",
];

pub fn source(seed: u64) -> String {
    generate(&mut Rng::new(seed), &mut Hist::default())
}

pub fn generate(rng: &mut Rng, hist: &mut Hist) -> String {
    let mut s = String::new();
    s.push_str("static const float K0 = 1.5f;\nstatic const int KI0 = 3;\nfloat hv() { return 0.25f; }\nint hi() { return 4; }\nstruct S { int a; float w; };\n");
    // 3 programs in 5 are built only from pairings that keep every default the calls rely on
    let clean = rng.chance(3, 5);
    hist.add(if clean { "program:clean-pairings-only" } else { "program:any-pairing" });
    let nf = 2 + rng.below(4) as usize;
    let overload = rng.chance(1, 3);
    // 1 program in 40 may leave a prototype without definition (never called): the exporter refuses the program
    let proto_only_program = rng.chance(1, 40);
    let mut funcs: Vec<Func> = Vec::new();
    for idx in 0..nf {
        let ns: Vec<&'static str> = match rng.below(5) {
            0 => vec!["N"],
            1 => vec!["N", "M"],
            _ => vec![],
        };
        let np = 1 + rng.below(4) as usize;
        let mut params = Vec::new();
        for i in 0..np {
            let t = *rng.pick(&[PT::Int, PT::UInt, PT::Float, PT::Float, PT::Float2, PT::St, PT::Arr]);
            let m = if i + 1 < np && rng.chance(1, 5) {
                if rng.chance(1, 2) { Md::Out } else { Md::InOut }
            } else {
                Md::In
            };
            params.push((t, m));
        }
        let mut name = format!("g{}", idx);
        if overload && idx < 2 {
            // two functions of one name in one scope, told apart by the type of the first parameter
            name = "ov".to_string();
            params[0] = (if idx == 0 { PT::Int } else { PT::St }, Md::In);
        }
        let ns = if overload && idx < 2 { vec![] } else { ns };
        // trailing parameters that can carry a default: plain `in`, not a struct / array
        let mut cap = 0;
        for (t, m) in params.iter().rev() {
            if *m == Md::In && !matches!(t, PT::St | PT::Arr) {
                cap += 1;
            } else {
                break;
            }
        }
        let form = match if proto_only_program { rng.below(40) } else { 4 + rng.below(36) } {
            0..=3 => Form::ProtoOnly,
            4..=9 => Form::Def,
            10..=24 => Form::ProtoDef,
            25..=29 => Form::ProtoProtoDef,
            30..=34 => Form::DefProto,
            _ => Form::ProtoDefProto,
        };
        hist.add(&format!("form:{:?}", form));
        // number of defaults on the prototype side and on the definition side
        let (pd, dd, different, later) = if cap == 0 || form == Form::Def || form == Form::ProtoOnly {
            let d = if cap == 0 { 0 } else { rng.below(cap as u64 + 1) as usize };
            (d, d, false, false)
        } else {
            let d = 1 + rng.below(cap as u64) as usize;
            let mode = if clean { [0, 1, 1, 2, 5][rng.below(5) as usize] } else { rng.below(8) };
            match mode {
                0 => (0, 0, false, false),
                1 => (d, d, false, false),
                2 => (d, d, true, false),
                3 => (d, 0, false, false),                                           // prototype only
                4 => (d, rng.below(d as u64) as usize, false, false),                // fewer on the definition
                5 => (if form.proto_first() { 0 } else { d }, d, false, false),      // definition only (harmless when the calls do not rely on it)
                6 => (rng.below(d as u64) as usize, d, false, true),                 // more on the definition, naming a later constant
                _ => (d, d, true, true),                                             // both, the definition's names a later constant
            }
        };
        hist.add(&format!(
            "defaults:{}",
            if pd == 0 && dd == 0 {
                "none"
            } else if form == Form::Def || form == Form::ProtoOnly {
                "single-declaration"
            } else if pd == dd && !different {
                "both-same"
            } else if pd == dd {
                "both-different-expressions"
            } else if dd == 0 {
                "prototype-only"
            } else if pd == 0 {
                "definition-only"
            } else if pd > dd {
                "more-on-prototype"
            } else {
                "more-on-definition"
            }
        ));
        let km = format!("KM{}", idx);
        let mut proto_defaults = vec![None; np];
        let mut def_defaults = vec![None; np];
        for i in 0..np {
            let t = params[i].0;
            if i >= np - pd {
                proto_defaults[i] = Some(default_expr(t, rng, None, hist));
            }
            if i >= np - dd {
                def_defaults[i] = if later && rng.chance(2, 3) {
                    Some(default_expr(t, rng, Some(&km), hist))
                } else if !different && proto_defaults[i].is_some() {
                    proto_defaults[i].clone()
                } else {
                    Some(default_expr(t, rng, None, hist))
                };
            }
        }
        funcs.push(Func {
            name,
            ns,
            ret: if rng.chance(1, 2) { PT::Int } else { PT::Float },
            is_void: rng.chance(1, 5),
            params,
            form,
            proto_defaults,
            def_defaults,
            rename_on_proto: rng.chance(1, 2),
            idx,
        });
    }
    // prototypes of the prototype-first forms
    for f in &funcs {
        if f.form.proto_first() {
            s.push_str(&f.proto());
            if f.form == Form::ProtoProtoDef {
                s.push_str(&f.proto());
            }
        }
    }
    let recursion = rng.chance(1, 3);
    if recursion {
        hist.add("mutual-recursion-through-prototype");
        s.push_str("int even(int n, int depth = 0);\nint odd(int n, int depth = 0) { return n == 0 ? depth : even(n - 1, depth + 1); }\n");
    }
    // constants declared between the prototypes and the definitions
    for f in &funcs {
        s.push_str(&format!("static const float KM{} = {}.25f;\n", f.idx, f.idx + 1));
    }
    // forward-declared functions called before their definition
    let callable = |f: &Func| f.form != Form::ProtoOnly;
    let typed = |f: &Func| f.name == "ov";
    s.push_str("float early() {\n");
    s.push_str(LOCALS);
    for f in funcs.iter().filter(|f| f.form.proto_first() && callable(f)) {
        let np = f.params.len();
        let lo = np - f.first_defaults();
        for _ in 0..1 + rng.below(2) {
            let n = lo + rng.below((np - lo) as u64 + 1) as usize;
            hist.add(if n < np { "call:forward-declared-with-omitted-arguments" } else { "call:forward-declared-all-arguments" });
            s.push_str(&f.call(n, rng, typed(f)));
        }
    }
    if recursion {
        s.push_str("    acc += (float)(even(4) + odd(3, 1));\n");
    }
    s.push_str("    return acc;\n}\n");
    // definitions in a random order
    let mut order: Vec<usize> = (0..funcs.len()).collect();
    for i in (1..order.len()).rev() {
        let j = rng.below(i as u64 + 1) as usize;
        order.swap(i, j);
    }
    for &i in &order {
        let f = &funcs[i];
        if f.form == Form::ProtoOnly {
            continue;
        }
        s.push_str(&f.def());
        if matches!(f.form, Form::DefProto | Form::ProtoDefProto) {
            s.push_str(&f.proto());
        }
    }
    if recursion {
        s.push_str("int even(int n, int depth = 0) { return n == 0 ? depth : odd(n - 1, depth + 1); }\n");
    }
    s.push_str("float late() {\n");
    s.push_str(LOCALS);
    for f in funcs.iter().filter(|f| callable(f)) {
        let np = f.params.len();
        let lo = np - f.first_defaults();
        for _ in 0..1 + rng.below(3) {
            let n = lo + rng.below((np - lo) as u64 + 1) as usize;
            hist.add(if n < np { "call:with-omitted-arguments" } else { "call:all-arguments" });
            s.push_str(&f.call(n, rng, typed(f)));
        }
    }
    s.push_str("    return acc;\n}\n");
    // methods: defaults, a method that calls one defined later in the struct, a call of a forward-declared free function
    if rng.chance(2, 3) {
        hist.add("struct-with-methods");
        let fwd = funcs.iter().find(|f| callable(f) && f.params.iter().all(|(t, m)| *m == Md::In && !matches!(t, PT::St | PT::Arr)));
        s.push_str("struct TS {\n    int a;\n");
        s.push_str("    int first(int k = 2) { return second() + second(k) + a; }\n");
        s.push_str(&format!("    int second(int x = {}, float y = {}) {{ return a + x + (int)y; }}\n", *rng.pick(&["3", "KI0", "-1", "hi()"]), *rng.pick(&["1.5f", "K0", "KM0", "2"])));
        if let Some(f) = fwd {
            let np = f.params.len();
            let n = np - rng.below(f.first_defaults() as u64 + 1) as usize;
            let args: Vec<String> = f.params.iter().take(n).map(|(t, _)| match t {
                PT::Int => "a".to_string(),
                PT::UInt => "(uint)a".to_string(),
                PT::Float => "(float)a".to_string(),
                _ => "float2(1.0f, 2.0f)".to_string(),
            }).collect();
            let c = format!("{}({})", f.path(), args.join(", "));
            s.push_str(&if f.is_void { format!("    void third() {{ {}; }}\n", c) } else { format!("    float third() {{ return (float){}; }}\n", c) });
        }
        s.push_str("};\nint tuser() { TS t; t.a = 1; return t.first() + t.first(3) + t.second(1) + t.second(1, 2.0f); }\n");
    }
    if rng.chance(1, 3) {
        hist.add("function-template-with-default-argument");
        s.push_str("template<typename T> T tw(T x, T y = 1) { return x + y; }\nfloat twuser() { return tw(1.0f) + tw<float>(2.0f) + (float)tw(1, 2) + (float)tw(3u); }\n");
    }
    let nx = 2 + rng.below(5) as usize;
    let start = rng.below(EXTRAS.len() as u64) as usize;
    let step = 1 + 2 * rng.below(9) as usize; // odd, so coprime to 38 unless 19
    for k in 0..nx {
        let e = EXTRAS[(start + k * step) % EXTRAS.len()];
        if !s.contains(e) {
            s.push_str(e);
            s.push('\n');
        }
    }
    s
}

// ------------------------------------------------------------------------------------------------
// classification on the source text

#[derive(Debug)]
struct Decl {
    name: String,
    params: Vec<Option<String>>, // default expression text per parameter
    types: Vec<String>,          // type of every parameter (modifiers, base type, array suffix; without the name)
    is_def: bool,
    pos: usize,
}

fn strip_comments(src: &str) -> String {
    let b = src.as_bytes();
    let mut out = String::with_capacity(src.len());
    let mut i = 0;
    while i < b.len() {
        if b[i] == b'/' && i + 1 < b.len() && b[i + 1] == b'/' {
            while i < b.len() && b[i] != b'\n' {
                out.push(' ');
                i += 1;
            }
        } else if b[i] == b'/' && i + 1 < b.len() && b[i + 1] == b'*' {
            while i + 1 < b.len() && !(b[i] == b'*' && b[i + 1] == b'/') {
                out.push(' ');
                i += 1;
            }
            out.push_str("  ");
            i += 2;
        } else {
            out.push(b[i] as char);
            i += 1;
        }
    }
    out
}

fn is_ident(c: u8) -> bool {
    c.is_ascii_alphanumeric() || c == b'_'
}

/// function declarators outside of function bodies (namespace and struct braces are entered)
fn scan(src: &str) -> Vec<Decl> {
    let text = strip_comments(src);
    let b = text.as_bytes();
    let mut out = Vec::new();
    let mut i = 0;
    // the word that introduced the pending `{`: namespace / struct / enum / cbuffer braces are entered, others skipped
    let mut last_keyword_pos: Option<usize> = None;
    while i < b.len() {
        let c = b[i];
        if is_ident(c) && (i == 0 || !is_ident(b[i - 1])) {
            let st = i;
            while i < b.len() && is_ident(b[i]) {
                i += 1;
            }
            let word = &text[st..i];
            if matches!(word, "namespace" | "struct" | "class") {
                last_keyword_pos = Some(st);
                continue;
            }
            if matches!(word, "enum" | "cbuffer") {
                // skip the braces of an enum / cbuffer
                while i < b.len() && b[i] != b'{' && b[i] != b';' {
                    i += 1;
                }
                if i < b.len() && b[i] == b'{' {
                    i = skip_group(b, i, b'{', b'}');
                }
                continue;
            }
            // `name (` preceded by a type word: a declarator candidate
            let mut j = i;
            while j < b.len() && (b[j] == b' ' || b[j] == b'\n' || b[j] == b'\t') {
                j += 1;
            }
            if j < b.len() && b[j] == b'(' && preceded_by_type(b, st) && !matches!(word, "register" | "packoffset" | "if" | "for" | "while" | "switch" | "return" | "sizeof") {
                let close = skip_group(b, j, b'(', b')');
                let (params, types) = split_params(&text[j + 1..close - 1]);
                let mut k = close;
                // optional `: SEMANTIC`
                while k < b.len() && b[k] != b';' && b[k] != b'{' && b[k] != b'}' && b[k] != b'(' && b[k] != b'=' {
                    k += 1;
                }
                if k < b.len() && b[k] == b';' {
                    out.push(Decl { name: word.to_string(), params, types, is_def: false, pos: st });
                    i = k + 1;
                    continue;
                } else if k < b.len() && b[k] == b'{' {
                    out.push(Decl { name: word.to_string(), params, types, is_def: true, pos: st });
                    i = skip_group(b, k, b'{', b'}');
                    continue;
                }
            }
            continue;
        }
        if c == b'{' {
            if last_keyword_pos.is_some() {
                last_keyword_pos = None;
                i += 1; // enter
            } else {
                i = skip_group(b, i, b'{', b'}');
            }
            continue;
        }
        if c == b'[' {
            i = skip_group(b, i, b'[', b']');
            continue;
        }
        if c == b';' {
            last_keyword_pos = None;
        }
        i += 1;
    }
    out
}

fn preceded_by_type(b: &[u8], st: usize) -> bool {
    let mut k = st;
    while k > 0 && (b[k - 1] == b' ' || b[k - 1] == b'\n' || b[k - 1] == b'\t') {
        k -= 1;
    }
    k > 0 && k < st && (is_ident(b[k - 1]) || b[k - 1] == b'>')
}

/// index just after the group that opens at `i`
fn skip_group(b: &[u8], i: usize, open: u8, close: u8) -> usize {
    let mut depth = 0;
    let mut k = i;
    while k < b.len() {
        if b[k] == open {
            depth += 1;
        } else if b[k] == close {
            depth -= 1;
            if depth == 0 {
                return k + 1;
            }
        }
        k += 1;
    }
    b.len()
}

fn split_params(s: &str) -> (Vec<Option<String>>, Vec<String>) {
    let mut parts = Vec::new();
    let mut depth = 0i32;
    let mut cur = String::new();
    for c in s.chars() {
        match c {
            '(' | '[' | '{' => depth += 1,
            ')' | ']' | '}' => depth -= 1,
            _ => {}
        }
        if c == ',' && depth <= 0 {
            parts.push(std::mem::take(&mut cur));
            depth = 0;
        } else {
            cur.push(c);
        }
    }
    if !cur.trim().is_empty() {
        parts.push(cur);
    }
    let parts: Vec<String> = parts.into_iter().filter(|p| p.trim() != "void").collect();
    let defaults = parts.iter().map(|p| p.split_once('=').map(|(_, d)| d.trim().to_string())).collect();
    let types = parts
        .iter()
        .map(|p| {
            // `inout int name[2] : SEM = ..` -> `inout int [2]`
            let decl = p.split('=').next().unwrap_or("").split(':').next().unwrap_or("").trim().to_string();
            let (front, arr) = match decl.find('[') {
                Some(k) => (decl[..k].trim_end().to_string(), decl[k..].replace(' ', "")),
                None => (decl.clone(), String::new()),
            };
            let words: Vec<&str> = front.split_whitespace().collect();
            let ty = if words.len() > 1 { words[..words.len() - 1].join(" ") } else { front.clone() };
            format!("{} {}", ty.replace("in ", "").trim(), arr).trim().to_string()
        })
        .collect();
    (defaults, types)
}

fn count_args(s: &str) -> usize {
    if s.trim().is_empty() {
        return 0;
    }
    let mut depth = 0i32;
    let mut n = 1;
    for c in s.chars() {
        match c {
            '(' | '[' => depth += 1,
            ')' | ']' => depth -= 1,
            ',' if depth == 0 => n += 1,
            _ => {}
        }
    }
    n
}

fn mentions(text: &str, name: &str) -> bool {
    let b = text.as_bytes();
    let mut from = 0;
    while let Some(p) = text[from..].find(name) {
        let st = from + p;
        let en = st + name.len();
        if (st == 0 || !is_ident(b[st - 1])) && (en >= b.len() || !is_ident(b[en])) {
            return true;
        }
        from = en;
    }
    false
}

/// tag of a failure whose cause is the pairing of a prototype with a definition (see the file header); `detail` is the
/// oracle's text (`emitted HLSL is rejected: <message>`)
pub fn classify(src: &str, detail: &str) -> Option<&'static str> {
    if !detail.contains("emitted HLSL is rejected") {
        return None;
    }
    let decls = scan(src);
    // groups of declarations of one function: same name and number of parameters, in source order
    let group = |d: &Decl| -> Vec<&Decl> { decls.iter().filter(|e| e.name == d.name && e.types == d.types).collect() };
    let ndefaults = |d: &Decl| d.params.iter().filter(|p| p.is_some()).count();
    if let Some(rest) = detail.split("no matching function for call to ").nth(1) {
        let printed: String = rest.chars().take_while(|c| c.is_ascii_alphanumeric() || *c == '_').collect();
        let after = &rest[printed.len()..];
        if after.starts_with('(') {
            let close = skip_group(after.as_bytes(), 0, b'(', b')');
            let nargs = count_args(&after[1..close.saturating_sub(1)]);
            for d in &decls {
                let base_matches = printed == d.name
                    || printed
                        .strip_prefix(d.name.as_str())
                        .and_then(|r| r.strip_prefix('_'))
                        .map(|r| !r.is_empty() && r.chars().all(|c| c.is_ascii_digit()))
                        .unwrap_or(false);
                if !base_matches || d.is_def {
                    continue;
                }
                let g = group(d);
                // `d` is the first declaration of its function and a prototype; the definition has fewer defaults
                if g.first().map(|f| f.pos) != Some(d.pos) {
                    continue;
                }
                if let Some(def) = g.iter().find(|e| e.is_def) {
                    let np = d.params.len();
                    let (dp, dd) = (ndefaults(d), ndefaults(def));
                    if dd < dp && nargs >= np - dp && nargs < np - dd {
                        return Some("[dfn: prototype-default-dropped]");
                    }
                }
            }
        }
    }
    if let Some(m) = detail.split("error: '").nth(1) {
        if let Some((name, tail)) = m.split_once("' was not declared in this scope") {
            // the offending line of the emitted text (the line after the message) is a prototype
            let line = tail.lines().nth(1).unwrap_or("");
            if line.trim_end().ends_with(");") && !line.contains('{') && mentions(line, name) {
                // where is `name` declared in the source (first occurrence as a declared identifier: `.. name =` / `name(`)
                let text = strip_comments(src);
                let decl_pos = text.find(&format!(" {} =", name)).or_else(|| text.find(&format!(" {};", name))).or_else(|| text.find(&format!(" {}(", name)));
                if let Some(kpos) = decl_pos {
                    for d in decls.iter().filter(|d| !d.is_def) {
                        let g = group(d);
                        if let Some(def) = g.iter().find(|e| e.is_def) {
                            if d.pos < kpos && kpos < def.pos && def.params.iter().flatten().any(|e| mentions(e, name)) {
                                return Some("[dfn: definition-default-printed-on-earlier-prototype]");
                            }
                        }
                    }
                }
            }
        }
    }
    None
}

import RsslVerif.Spec.SemStmt
/-!
# `Spec.SemWT` — the hypothesis "the type checker accepted the program", for the modelled subset

`Ir.typeOf` mirrors `ir::Expression::get_type` + the assertions of `IntrinsicOp::get_return_type`
(both operands of a binary operator have one type, assignments need an lvalue, conditions are `bool`).
`LitOK` is the one extra side condition of the theorems: a *typed* `Int32` constant is printed without a suffix
(`generate_literal`), i.e. as a literal int; the emitted text keeps its meaning as long as such a constant meets a typed
operand (or an explicit cast / initialiser / argument / return), which is where the type checker creates them.  An
operator whose operands are *all* unsuffixed typed constants is excluded (HLSL would evaluate it as literal arithmetic).
-/
namespace RsslVerif.Spec.Sem
open RsslVerif.Gen.HlslGenTables RsslVerif.Gen.HlslIntrinsicTables RsslVerif.Model
open RsslVerif.Model.Ir (Ty Var Const Dir)

namespace Ir
open RsslVerif.Model.Ir

mutual
def typeOf (sig : Sig) (vty : Var → Ty) : Expr → Option Ty
  | .lit c => some c.ty
  | .var id => some (vty (.loc id))
  | .global id => some (vty (.glob id))
  | .cast ty e =>
    match typeOf sig vty e with
    | none => none
    | some _ =>
      -- a cast to a literal type has no spelling: the exporter drops it; such casts (the type checker creates them
      -- for `literal op bool` and similar) are outside the theorems (see known finding `2147483647 + t`)
      if ty = .lit ∨ ty = .flit then none else some ty
  | .tern c t f =>
    match typeOf sig vty c, typeOf sig vty t, typeOf sig vty f with
    | some .bool, some tt, some tf => if tt = tf then some tt else none
    | _, _, _ => none
  | .seq es => typeOfSeq sig vty es
  | .call f args =>
    match sig f with
    | none => none
    | some (rt, ps) => if argsOK sig vty args ps then some rt else none
  | .intr i T ret args =>
    -- the resolved signature is (T, …, T) → ret with ret as HLSL defines it; at least one argument
    match args with
    | .nil => none
    | .cons _ _ =>
      if allTy sig vty T args ∧ ret = Ast.builtinRet i T ∧ Ast.modelledBuiltin i = true ∧ T ≠ .lit ∧ T ≠ .flit then some ret
      else none
  | .op o args =>
    match args with
    | .cons a .nil =>
      match irOpSem o, typeOf sig vty a with
      | .un .lnot, some .bool => some .bool
      | .un .lnot, _ => none
      | .un _, some t => some t
      | .incdec _ _, some t => if (lvalOf a).isSome then some t else none
      | _, _ => none
    | .cons a (.cons b .nil) =>
      match irOpSem o, typeOf sig vty a, typeOf sig vty b with
      | .bin m, some ta, some tb => if ta = tb then (if m.isCmp then some .bool else some ta) else none
      | .land, some .bool, some .bool => some .bool
      | .lor, some .bool, some .bool => some .bool
      | .assign, some ta, some tb => if ta = tb ∧ (lvalOf a).isSome then some ta else none
      | .compound m, some ta, some tb => if ta = tb ∧ (lvalOf a).isSome ∧ m.isCmp = false then some ta else none
      | _, _, _ => none
    | _ => none
/-- arguments match the parameter list: same count, same types, lvalues for `out`/`inout` -/
def argsOK (sig : Sig) (vty : Var → Ty) : Exprs → List (Dir × Ty) → Bool
  | .nil, [] => true
  | .nil, _ :: _ => false
  | .cons _ _, [] => false
  | .cons e r, (d, T) :: ps =>
    (match typeOf sig vty e with
      | some t => decide (t = T) && (decide (d = .in_) || (lvalOf e).isSome)
      | none => false) && argsOK sig vty r ps
/-- every argument has type `T` -/
def allTy (sig : Sig) (vty : Var → Ty) (T : Ty) : Exprs → Bool
  | .nil => true
  | .cons e r =>
    (match typeOf sig vty e with
      | some t => decide (t = T)
      | none => false) && allTy sig vty T r
def typeOfSeq (sig : Sig) (vty : Var → Ty) : Exprs → Option Ty
  | .nil => none
  | .cons e r =>
    match typeOf sig vty e with
    | none => none
    | some t =>
      match r with
      | .nil => some t
      | .cons _ _ => typeOfSeq sig vty r
end

/-- a typed `Int32` constant: the exporter prints it without a suffix -/
def litlike : Expr → Bool
  | .lit (.int32 _) => true
  | _ => false

/-- all arguments are unsuffixed typed constants (a built-in applied to them would be resolved at literal type) -/
def allLitlike : Exprs → Bool
  | .nil => true
  | .cons e r => litlike e && allLitlike r

mutual
def litOK : Expr → Bool
  | .lit _ => true
  | .var _ => true
  | .global _ => true
  | .cast _ e => litOK e
  | .tern c t f => litOK c && litOK t && litOK f && !(litlike t && litlike f)
  | .seq es => litOKSeq es
  | .call _ args => litOKArgs args
  | .intr _ _ _ args => litOKArgs args
  | .op _ args =>
    match args with
    | .cons a .nil => litOK a && !litlike a
    | .cons a (.cons b .nil) => litOK a && litOK b && !(litlike a && litlike b)
    | _ => true
def litOKSeq : Exprs → Bool
  | .nil => true
  | .cons e r =>
    match r with
    | .nil => litOK e && !litlike e
    | .cons _ _ => litOK e && litOKSeq r
def litOKArgs : Exprs → Bool
  | .nil => true
  | .cons e r => litOK e && litOKArgs r
end

/-- an expression the type checker accepted (any type) whose unsuffixed constants are placed safely -/
def okExpr (sig : Sig) (vty : Var → Ty) (e : Expr) : Bool := (typeOf sig vty e).isSome && litOK e

/-- …of the given type -/
def okExprT (sig : Sig) (vty : Var → Ty) (t : Ty) (e : Expr) : Bool :=
  (match typeOf sig vty e with | some t' => decide (t' = t) | none => false) && litOK e

def okOpt (sig : Sig) (vty : Var → Ty) : Option Expr → Bool
  | none => true
  | some e => okExpr sig vty e

def okVarDef (sig : Sig) (vty : Var → Ty) (id : Nat) : Option Expr → Bool
  | none => true
  | some e => okExprT sig vty (vty (.loc id)) e

def okForInit (sig : Sig) (vty : Var → Ty) : ForInit → Bool
  | .empty => true
  | .expr e => okExpr sig vty e
  | .defs ds => ds.all fun d => okVarDef sig vty d.1 d.2

mutual
/-- statements the type checker accepted inside a function returning `rt`; `lt` = the type of the controlling
expression when the statement sits directly in the block of a `switch` (labels are only accepted there) -/
def wtStmt (sig : Sig) (vty : Var → Ty) (rt : Ty) (lt : Option Ty) : Stmt → Bool
  | .expr e => okExpr sig vty e
  | .var id init => okVarDef sig vty id init
  | .block b => wtStmts sig vty rt none b
  | .ifThen c b => okExpr sig vty c && wtStmts sig vty rt none b
  | .ifElse c t f => okExpr sig vty c && wtStmts sig vty rt none t && wtStmts sig vty rt none f
  | .for init cond inc b => okForInit sig vty init && okOpt sig vty cond && okOpt sig vty inc && wtStmts sig vty rt none b
  | .while c b => okExpr sig vty c && wtStmts sig vty rt none b
  | .doWhile b c => wtStmts sig vty rt none b && okExpr sig vty c
  | .break => true
  | .continue => true
  | .ret none => true
  | .ret (some e) => okExprT sig vty rt e
  | .switch T c b => okExprT sig vty T c && decide (T ≠ .lit) && wtStmts sig vty rt (some T) b
  | .caseLabel c => decide (lt = some c.ty) || (decide (c.ty = .lit) && lt.isSome)
  | .defaultLabel => lt.isSome
def wtStmts (sig : Sig) (vty : Var → Ty) (rt : Ty) (lt : Option Ty) : Stmts → Bool
  | .nil => true
  | .cons s r => wtStmt sig vty rt lt s && wtStmts sig vty rt lt r
end

def wtFunc (sig : Sig) (vty : Var → Ty) (fn : Func) : Bool :=
  wtStmts sig vty fn.ret none fn.body && fn.params.all fun p => decide (vty (.loc p.1) = p.2.2)

end Ir
end RsslVerif.Spec.Sem

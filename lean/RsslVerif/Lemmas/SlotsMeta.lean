import RsslVerif.Lemmas.SlotsCompile
import RsslVerif.Lemmas.SlotsInline
/-! Lemmas about the metadata construction (`Model.SlotsCompile.describe`): the reflection metadata lists, per
    group, exactly the bound declarations of that group in declaration order with the allocator's locations. -/
namespace RsslVerif.Lemmas.SlotsMeta
open RsslVerif.Gen.SlotTables RsslVerif.Model.Slots RsslVerif.Model.SlotsCompile RsslVerif.Spec.Slots
open RsslVerif.Lemmas.Slots

/-- What the metadata of group `g` must list: the bound declarations whose binding is in group `g`, in
    declaration order, each with its name, its location and its descriptor count. -/
def entriesOf (g : Nat) : List String → List Decl → List (Option Binding) → List MetaBinding
  | n :: ns, d :: ds, some b :: bs =>
    (if b.set = g then [{ name := n, loc := b.loc, count := descriptorCount d }] else []) ++ entriesOf g ns ds bs
  | _ :: ns, _ :: ds, none :: bs => entriesOf g ns ds bs
  | _, _, _ => []

/-- bindings reported for group `g` (a group beyond the vector reports nothing) -/
def bindingsAt (gs : List MetaGroup) (g : Nat) : List MetaBinding := ((gs[g]?).map (·.bindings)).getD []

/-- inline block reported for group `g` -/
def inlineAt (gs : List MetaGroup) (g : Nat) : Option (Nat × Nat) := (gs[g]?).bind (·.inlineBlock)

theorem modifyAt_getElem? (f : MetaGroup → MetaGroup) :
    ∀ (n : Nat) (gs : List MetaGroup) (g : Nat),
      (modifyAt f n gs)[g]? = if g = n then (gs[g]?).map f else gs[g]? := by
  intro n gs
  induction gs generalizing n with
  | nil => intro g; simp [modifyAt]
  | cons x xs ih =>
    intro g
    cases n with
    | zero =>
      cases g with
      | zero => simp [modifyAt]
      | succ g => simp [modifyAt]
    | succ n =>
      cases g with
      | zero => simp [modifyAt]
      | succ g => simp [modifyAt, ih n g]

theorem pad_getElem? (gs : List MetaGroup) (set g : Nat) :
    (pad gs set)[g]? = if g < gs.length then gs[g]? else if g ≤ set then some MetaGroup.empty else none := by
  unfold pad
  by_cases hs : set < gs.length
  · simp only [hs, if_true]
    by_cases hg : g < gs.length
    · simp [hg]
    · have : ¬ g ≤ set := by omega
      simp [hg, this]
  · simp only [hs, if_false]
    by_cases hg : g < gs.length
    · simp [hg, List.getElem?_append_left hg]
    · simp only [hg, if_false]
      rw [List.getElem?_append_right (Nat.le_of_not_lt hg), List.getElem?_replicate]
      by_cases hgs : g ≤ set
      · have : g - gs.length < set + 1 - gs.length := by omega
        simp [hgs, this]
      · have : ¬ g - gs.length < set + 1 - gs.length := by omega
        simp [hgs, this]

theorem pad_length (gs : List MetaGroup) (set : Nat) : set < (pad gs set).length := by
  unfold pad
  by_cases hs : set < gs.length
  · simp [hs]
  · simp [hs]; omega

theorem pad_bindingsAt (gs : List MetaGroup) (set g : Nat) : bindingsAt (pad gs set) g = bindingsAt gs g := by
  unfold bindingsAt
  rw [pad_getElem?]
  by_cases hg : g < gs.length
  · simp [hg]
  · simp only [hg, if_false, List.getElem?_eq_none (Nat.le_of_not_lt hg)]
    by_cases hgs : g ≤ set <;> simp [hgs, MetaGroup.empty]

theorem pad_inlineAt (gs : List MetaGroup) (set g : Nat) : inlineAt (pad gs set) g = inlineAt gs g := by
  unfold inlineAt
  rw [pad_getElem?]
  by_cases hg : g < gs.length
  · simp [hg]
  · simp only [hg, if_false, List.getElem?_eq_none (Nat.le_of_not_lt hg)]
    by_cases hgs : g ≤ set <;> simp [hgs, MetaGroup.empty]

theorem registerBinding_bindingsAt (gs : List MetaGroup) (set : Nat) (b : MetaBinding) (g : Nat) :
    bindingsAt (registerBinding gs set b) g = if g = set then bindingsAt gs g ++ [b] else bindingsAt gs g := by
  unfold registerBinding
  rw [← pad_bindingsAt gs set g]
  unfold bindingsAt
  rw [modifyAt_getElem?]
  by_cases hg : g = set
  · subst hg
    have hl := pad_length gs g
    simp [List.getElem?_eq_getElem hl]
  · simp [hg]

theorem registerBinding_inlineAt (gs : List MetaGroup) (set : Nat) (b : MetaBinding) (g : Nat) :
    inlineAt (registerBinding gs set b) g = inlineAt gs g := by
  unfold registerBinding
  rw [← pad_inlineAt gs set g]
  unfold inlineAt
  rw [modifyAt_getElem?]
  by_cases hg : g = set
  · simp only [hg, if_true]
    cases (pad gs set)[set]? <;> simp
  · simp [hg]

/-- the `analyse_bindings` loop appends, to every group, exactly that group's entries in declaration order -/
theorem analyse_spec {limit : Option Nat} :
    ∀ {ns : List String} {ds : List Decl} {bs : List (Option Binding)} {gs gs' : List MetaGroup},
      analyse limit gs ns ds bs = .ok gs' →
      ∀ g, bindingsAt gs' g = bindingsAt gs g ++ entriesOf g ns ds bs ∧ inlineAt gs' g = inlineAt gs g := by
  intro ns
  induction ns with
  | nil => intro ds bs gs gs' h g; simp [analyse] at h; subst h; simp [entriesOf]
  | cons n ns ih =>
    intro ds bs gs gs' h g
    cases ds with
    | nil => simp [analyse] at h; subst h; simp [entriesOf]
    | cons d ds =>
      cases bs with
      | nil => simp [analyse] at h; subst h; simp [entriesOf]
      | cons ob bs =>
        cases ob with
        | none =>
          simp only [analyse] at h
          simpa [entriesOf] using ih h g
        | some b =>
          simp only [analyse] at h
          by_cases ho : overLimit limit b.set = true
          · simp [ho] at h
          · simp only [ho] at h
            obtain ⟨h1, h2⟩ := ih h g
            rw [h1, h2, registerBinding_bindingsAt, registerBinding_inlineAt]
            refine ⟨?_, rfl⟩
            by_cases hg : g = b.set
            · subst hg; simp [entriesOf]
            · have : ¬ b.set = g := fun e => hg e.symm
              simp [entriesOf, hg, this]

/-- HLSL: attaching the inline blocks leaves the bindings alone and gives every group the block of its set -/
theorem attachInline_spec :
    ∀ {bufs : List InlineBuf} {gs gs' : List MetaGroup},
      attachInline gs bufs = .ok gs' →
      (∀ g, bindingsAt gs' g = bindingsAt gs g) ∧
      (bufs.Pairwise (fun a b => a.set < b.set) →
        ∀ g, inlineAt gs' g =
          match bufs.find? (fun b => b.set == g) with
          | some b => some (b.apiLocation, b.sizeInBytes)
          | none => inlineAt gs g) := by
  intro bufs
  induction bufs with
  | nil => intro gs gs' h; simp [attachInline] at h; subst h; simp
  | cons b bs ih =>
    intro gs gs' h
    unfold attachInline at h
    cases hb : gs[b.set]? with
    | none => simp [hb] at h
    | some grp =>
      simp only [hb] at h
      split at h
      · cases h
      · rename_i hnone
        obtain ⟨i1, i2⟩ := ih h
        have hB : ∀ g, bindingsAt (modifyAt (fun g => { g with inlineBlock := some (b.apiLocation, b.sizeInBytes) }) b.set gs) g
            = bindingsAt gs g := by
          intro g
          unfold bindingsAt
          rw [modifyAt_getElem?]
          by_cases hg : g = b.set
          · simp only [hg, if_true]; cases gs[b.set]? <;> simp
          · simp [hg]
        have hI : ∀ g, inlineAt (modifyAt (fun g => { g with inlineBlock := some (b.apiLocation, b.sizeInBytes) }) b.set gs) g
            = if g = b.set then some (b.apiLocation, b.sizeInBytes) else inlineAt gs g := by
          intro g
          unfold inlineAt
          rw [modifyAt_getElem?]
          by_cases hg : g = b.set
          · simp only [hg, if_true, hb]; simp
          · simp [hg]
        refine ⟨fun g => by rw [i1 g, hB g], ?_⟩
        intro hpw g
        rw [List.pairwise_cons] at hpw
        rw [i2 hpw.2 g, hI g]
        by_cases hg : g = b.set
        · subst hg
          have : bs.find? (fun x => x.set == b.set) = none := by
            rw [List.find?_eq_none]
            intro x hx
            have := hpw.1 x hx
            simp; omega
          simp [this]
        · have hne : (b.set == g) = false := by simp; exact fun e => hg e.symm
          simp [hne, hg]

/-! ### Metal: the per-group sort is the identity on what the allocator produces -/

theorem insertByIndex_le (b : MetaBinding) (k : Nat) :
    ∀ (xs : List (MetaBinding × Nat)), (∀ x ∈ xs, k ≤ x.2) → insertByIndex b k xs = (b, k) :: xs
  | [], _ => rfl
  | (x, j) :: xs, h => by
    have : k ≤ j := h (x, j) (by simp)
    simp [insertByIndex, this]

theorem sortByIndex_sorted :
    ∀ (xs : List (MetaBinding × Nat)), xs.Pairwise (fun a b => a.2 ≤ b.2) → sortByIndex xs = xs
  | [], _ => rfl
  | (b, k) :: xs, h => by
    rw [List.pairwise_cons] at h
    simp only [sortByIndex]
    rw [sortByIndex_sorted xs h.2]
    exact insertByIndex_le b k xs (fun x hx => h.1 x hx)

theorem keyed_spec :
    ∀ {bs : List MetaBinding} {ks : List (MetaBinding × Nat)}, keyed bs = some ks →
      ks.map (·.1) = bs ∧ ∀ x ∈ ks, indexOf x.1 = some x.2
  | [], ks, h => by simp [keyed] at h; subst h; simp
  | b :: bs, ks, h => by
    unfold keyed at h
    cases hb : indexOf b with
    | none => simp [hb] at h
    | some k =>
      cases hr : keyed bs with
      | none => simp [hb, hr] at h
      | some r =>
        simp only [hb, hr, Option.some.injEq] at h
        subst h
        obtain ⟨h1, h2⟩ := keyed_spec hr
        refine ⟨by simp [h1], ?_⟩
        intro x hx
        rcases List.mem_cons.1 hx with rfl | hx
        · exact hb
        · exact h2 x hx

/-- bindings whose locations are index slots in non-decreasing order -/
def IndexSorted (bs : List MetaBinding) : Prop :=
  bs.Pairwise (fun a b => ∃ i j, a.loc = .index i ∧ b.loc = .index j ∧ i ≤ j)

theorem sortGroups_spec :
    ∀ {gs gs' : List MetaGroup}, sortGroups gs = .ok gs' → (∀ grp ∈ gs, IndexSorted grp.bindings) →
      ∀ g, bindingsAt gs' g = bindingsAt gs g ∧ inlineAt gs' g = none := by
  intro gs
  induction gs with
  | nil => intro gs' h _ g; simp [sortGroups] at h; subst h; simp [bindingsAt, inlineAt]
  | cons grp gs ih =>
    intro gs' h hs g
    unfold sortGroups at h
    cases hk : keyed grp.bindings with
    | none => simp [hk] at h
    | some ks =>
      simp only [hk] at h
      cases hr : sortGroups gs with
      | error e => simp [hr] at h
      | ok r =>
        simp only [hr, Except.ok.injEq] at h
        subst h
        obtain ⟨k1, k2⟩ := keyed_spec hk
        have hsorted : ks.Pairwise (fun a b => a.2 ≤ b.2) := by
          have hgrp := hs grp (by simp)
          unfold IndexSorted at hgrp
          rw [← k1] at hgrp
          rw [List.pairwise_map] at hgrp
          refine hgrp.imp_of_mem ?_
          intro a b ha hb hab
          obtain ⟨i, j, hi, hj, hij⟩ := hab
          have ea := k2 a ha
          have eb := k2 b hb
          simp only [indexOf, hi, hj, Option.some.injEq] at ea eb
          omega
        rw [sortByIndex_sorted ks hsorted, k1]
        cases g with
        | zero => simp [bindingsAt, inlineAt]
        | succ g =>
          have := ih hr (fun x hx => hs x (by simp [hx])) g
          simpa [bindingsAt, inlineAt] using this

/-- index-located bindings in non-decreasing order, all at or above `s` -/
def SortedFrom (s : Nat) (bs : List MetaBinding) : Prop :=
  IndexSorted bs ∧ ∀ x ∈ bs, ∃ i, x.loc = .index i ∧ s ≤ i

theorem SortedFrom.mono {s s' : Nat} {bs : List MetaBinding} (h : SortedFrom s' bs) (hs : s ≤ s') : SortedFrom s bs :=
  ⟨h.1, fun x hx => by obtain ⟨i, h1, h2⟩ := h.2 x hx; exact ⟨i, h1, by omega⟩⟩

theorem TilesTo.cons_inv {s a c e : Nat} {r : List (Nat × Nat)} (h : TilesTo s ((a, c) :: r) e) :
    a = s ∧ TilesTo (s + c) r e := by
  cases h with
  | cons _ _ _ _ hr => exact ⟨rfl, hr⟩

/-- what tiles is sorted: the entries of a group whose index ranges tile from `s` are index-sorted from `s` -/
theorem entries_sorted {p : Params} {g : Nat} :
    ∀ {ns : List String} {ds : List Decl} {bs : List (Option Binding)} {s e : Nat},
      TilesTo s (indexRanges p g ds bs) e →
      (∀ ob ∈ bs, ∀ b, ob = some b → ∃ i, b.loc = .index i) →
      SortedFrom s (entriesOf g ns ds bs) := by
  intro ns
  induction ns with
  | nil => intro ds bs s e _ _; simp [entriesOf, SortedFrom, IndexSorted]
  | cons n ns ih =>
    intro ds bs s e ht hidx
    cases ds with
    | nil => simp [entriesOf, SortedFrom, IndexSorted]
    | cons d ds =>
      cases bs with
      | nil => simp [entriesOf, SortedFrom, IndexSorted]
      | cons ob bs =>
        have hidx' : ∀ ob ∈ bs, ∀ b, ob = some b → ∃ i, b.loc = .index i :=
          fun ob hob b hb => hidx ob (by simp [hob]) b hb
        cases ob with
        | none =>
          simp only [indexRanges] at ht
          simpa [entriesOf] using ih ht hidx'
        | some b =>
          obtain ⟨i, hi⟩ := hidx (some b) (by simp) b rfl
          simp only [indexRanges, hi] at ht
          by_cases hg : b.set = g
          · simp only [hg, if_true, List.singleton_append] at ht
            obtain ⟨his, hr⟩ := TilesTo.cons_inv ht
            subst his
            · have hrest := ih hr hidx'
              simp only [entriesOf, hg, if_true, List.singleton_append]
              refine ⟨?_, ?_⟩
              · unfold IndexSorted
                rw [List.pairwise_cons]
                refine ⟨?_, hrest.1⟩
                intro x hx
                obtain ⟨j, hj, hle⟩ := hrest.2 x hx
                exact ⟨i, j, hi, hj, by omega⟩
              · intro x hx
                rcases List.mem_cons.1 hx with rfl | hx
                · exact ⟨i, hi, Nat.le_refl _⟩
                · obtain ⟨j, hj, hle⟩ := hrest.2 x hx
                  exact ⟨j, hj, by omega⟩
          · simp only [hg, if_false, List.nil_append] at ht
            simpa [entriesOf, hg] using ih ht hidx'

theorem mem_bindingsAt {gs : List MetaGroup} {grp : MetaGroup} (h : grp ∈ gs) : ∃ g, bindingsAt gs g = grp.bindings := by
  obtain ⟨g, hg⟩ := List.getElem?_of_mem h
  exact ⟨g, by simp [bindingsAt, hg]⟩

/-- HLSL targets: the metadata lists, per group, exactly the bound declarations of that group in declaration
    order with the allocator's locations, and carries the group's inline block. -/
theorem describe_hlsl_spec {t : Target} {names : List String} {decls : List Decl} {r : Result} {gs : List MetaGroup}
    (ht : isMetal t = false) (hpw : r.inlineBufs.Pairwise (fun a b => a.set < b.set))
    (h : describe t names decls r = .ok gs) (g : Nat) :
    bindingsAt gs g = entriesOf g names decls r.bindings ∧
    inlineAt gs g = (r.inlineBufs.find? (fun b => b.set == g)).map (fun b => (b.apiLocation, b.sizeInBytes)) := by
  unfold describe at h
  simp only [ht, Bool.false_eq_true, if_false] at h
  cases ha : analyse none [] names decls r.bindings with
  | error e => simp [ha] at h
  | ok gs0 =>
    simp only [ha] at h
    obtain ⟨a1, a2⟩ := analyse_spec ha g
    obtain ⟨b1, b2⟩ := attachInline_spec h
    refine ⟨by rw [b1 g, a1]; simp [bindingsAt], ?_⟩
    rw [b2 hpw g, a2]
    cases r.inlineBufs.find? (fun b => b.set == g) <;> simp [inlineAt]

/-- Metal: the same, without inline blocks; the exporter's per-group sort changes nothing because the allocator's
    index ranges tile in declaration order. -/
theorem describe_metal_spec {t : Target} {p : Params} {names : List String} {decls : List Decl}
    {r : Result} {gs : List MetaGroup} (ht : isMetal t = true)
    (htile : ∀ g, ∃ e, TilesTo 0 (indexRanges p g decls r.bindings) e)
    (hidx : ∀ ob ∈ r.bindings, ∀ b, ob = some b → ∃ i, b.loc = .index i)
    (h : describe t names decls r = .ok gs) (g : Nat) :
    bindingsAt gs g = entriesOf g names decls r.bindings ∧ inlineAt gs g = none := by
  unfold describe at h
  simp only [ht, if_true] at h
  cases ha : analyse (some RsslVerif.Gen.SlotCompile.argumentBufferCount) [] names decls r.bindings with
  | error e => simp [ha] at h
  | ok gs0 =>
    simp only [ha] at h
    split at h
    · have hsorted : ∀ grp ∈ gs0, IndexSorted grp.bindings := by
        intro grp hgrp
        obtain ⟨g', hg'⟩ := mem_bindingsAt hgrp
        rw [← hg', (analyse_spec ha g').1]
        obtain ⟨e, he⟩ := htile g'
        simpa [bindingsAt] using (entries_sorted (ns := names) he hidx).1
      obtain ⟨s1, s2⟩ := sortGroups_spec h hsorted g
      refine ⟨?_, s2⟩
      rw [s1, (analyse_spec ha g).1]
      simp [bindingsAt]
    · cases h

end RsslVerif.Lemmas.SlotsMeta

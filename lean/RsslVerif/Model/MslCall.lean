import RsslVerif.Gen.MslCallTables
/-!
Executable model of the ARGUMENT LIST of `generate_user_call` (msl/src/generator.rs), for the three call types.

The IR call carries the operand list `exprs`; for `CallType::MethodExternal` operand 0 is the object of the member call.
The exporter generates the argument operands in order, then — only when the callee receives parameters for globals, which
is why it is declared without default values — the default value of every parameter from position `n` on that has one
(`decl.params.iter().skip(n)`), then one argument per required global (`append_arguments_for_globals`).

Per call type the table `Gen.MslCallTables.userCallArms` (re-extracted from the source on every run) says which operand is
the first argument (`argStart`) and what `n` is (`exprs.len() - skipOff`).  The model follows the TABLE, so it models what
the code does also when the two disagree (seeded mutant C02-6: `MethodExternal` with `skipOff = 0`); the theorems in
`Thm/C02Call.lean` need them to agree.

Generic in the type `α` of emitted expressions: the model only arranges them.  `&exprs[1..]` on an empty operand list is a
panic of the real code (explicit `Except.error`).
-/
namespace RsslVerif.Model.MslCall
open RsslVerif.Gen.MslCallTables

/-- the arm of `match ct` for a call type -/
def armOf (ct : String) : Option CallArm := userCallArms.find? (fun a => a.name == ct)

/-- the default values the fill loop pushes: `params.iter().skip(n)`, the ones that have a default (`none` = no default) -/
def filled {α : Type} (defaults : List (Option α)) (n : Nat) : List α :=
  (defaults.drop n).filterMap id

/-- argument list of the emitted call.  `exprs`: generated operands of the IR call (object first for an external method
    call); `defaults`: per parameter of the callee's declaration its generated default value; `globals`: the arguments
    `append_arguments_for_globals` adds (empty iff `function_required_globals[callee]` is empty). -/
def emittedArgs {α : Type} (arm : CallArm) (exprs : List α) (defaults : List (Option α)) (globals : List α) :
    Except String (List α) :=
  if exprs.length < arm.argStart then .error "panic: slice index starts beyond the operand list" else
  .ok (exprs.drop arm.argStart ++
       (if globals.isEmpty then [] else filled defaults (exprs.length - arm.skipOff)) ++ globals)

/-- the same through the table, by the call type's name -/
def emittedArgsOf {α : Type} (ct : String) (exprs : List α) (defaults : List (Option α)) (globals : List α) :
    Except String (List α) :=
  match armOf ct with
  | none => .error ("no arm for call type " ++ ct)
  | some arm => emittedArgs arm exprs defaults globals

/-- number of arguments of the emitted call, from the shape alone: `nexprs` operands, per parameter whether it has a default
    value, `nglobals` required globals (what the correspondence stream `C02.call` compares) -/
def emittedArgCount (ct : String) (nexprs : Nat) (hasDefault : List Bool) (nglobals : Nat) : Except String Nat :=
  (emittedArgsOf ct (List.replicate nexprs ()) (hasDefault.map fun b => if b then some () else none)
    (List.replicate nglobals ())).map List.length

end RsslVerif.Model.MslCall

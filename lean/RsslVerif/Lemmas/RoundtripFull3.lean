import RsslVerif.Lemmas.RoundtripFull2
/-! Round trip for the full expression model: well-formed trees, token lists of the node kinds, first token of a
printed sub-expression. -/
set_option linter.unusedSimpArgs false
set_option linter.unusedVariables false
namespace RsslVerif.Lemmas.RoundtripFull
open RsslVerif.Gen.FmtTables RsslVerif.Gen.ParseTables RsslVerif.Gen.SyntaxTables RsslVerif.Model.Format
open RsslVerif.Model.FormatFull RsslVerif.Model.ParseFull RsslVerif.Lemmas.FmtParseTables

variable (W : List String)

def tyName : TyId → String | .mk _ n _ _ => n
def tyMods : TyId → List TypeMod | .mk m _ _ _ => m

/-- the first token of an expression printed in an expression-or-type position does not start a type -/
def TyHeadDead (sym : Bool) (t : Tok) : Prop :=
  modBeforeStep t = .stop ∧ ∀ n, t = .id n → (sym = true ∧ W.contains n = false)

/-- the type starts with a keyword modifier -/
def kwModHead (ty : TyId) : Bool :=
  match tyMods ty with
  | m :: _ => (match modTok m with | .p _ => true | _ => false)
  | [] => false

theorem kwModHead_spec (ty : TyId) (h : kwModHead ty = true) : ∃ m ms k, tyMods ty = m :: ms ∧ modTok m = .p k := by
  unfold kwModHead at h
  split at h
  · rename_i m ms heq
    split at h
    · rename_i k hk; exact ⟨m, ms, k, heq, hk⟩
    · cases h
  · cases h

/-- decidable form, on the printed tokens -/
def tyHeadDeadB (sym : Bool) : List Tok → Bool
  | [] => false
  | t :: _ => decide (modBeforeStep t = .stop) && (match t with | .id n => sym && !W.contains n | _ => true)

theorem tyHeadDead_of_B (sym : Bool) (t : Tok) (ts : List Tok) (h : tyHeadDeadB W sym (t :: ts) = true) :
    TyHeadDead W sym t := by
  simp only [tyHeadDeadB, Bool.and_eq_true, decide_eq_true_eq] at h
  refine ⟨h.1, fun n hn => ?_⟩
  subst hn
  simpa using h.2

-- `WF`: the trees the round-trip theorem covers (see the doc comment of `Thm.C09.roundtrip_xexpr_partial`)
mutual
def WF : XExpr → Prop
  | .lit n => LitOk n = true
  | .id _ => True
  | .un _ x => WF x
  | .bin op l r => castDeadB W (toks (fmtBodyX (.bin op l r))) = true ∧ WF l ∧ WF r
  | .tern c a b => castDeadB W (toks (fmtBodyX (.tern c a b))) = true ∧ WF c ∧ WF a ∧ WF b
  | .sub o i => WF o ∧ WF i
  | .mem o _ => WF o
  | .call f targs args => WF f ∧ WFTArgs targs ∧ WFA args
  | .cast t x => WFTy t ∧ W.contains (tyName t) = true ∧ (match t with | .mk _ _ _ d => d.abstr = true) ∧ WF x
  | .sizeof a => WFArg true a
def WFA : XArgs → Prop
  | .nil => True
  | .cons e r => WF e ∧ WFA r
def WFArg : Bool → TArg → Prop
  | sym, .e x => WF x ∧ tyHeadDeadB W sym (toks (fmtSubX x eotExprPrec eotExprSide)) = true
  | sym, .both x t => ∃ n, x = .id n ∧ t = .mk [] n .nil .empty ∧ modBeforeStep (.id n) = .stop ∧
      (sym = true → W.contains n = true)
  | sym, .t ty => WFTy ty ∧ (sym = true → W.contains (tyName ty) = true) ∧
      (match ty with | .mk _ _ _ d => d.abstr = true) ∧ kwModHead ty = true
def WFTArgs : TArgs → Prop
  | .nil => True
  | .cons a r => WFArg false a ∧ WFTArgs r
def WFTy : TyId → Prop
  | .mk _ n targs d => modBeforeStep (.id n) = .stop ∧ WFTArgs targs ∧ WFDecl d
def WFDecl : Decl → Prop
  | .empty => True
  | .name n => True
  | .ptr quals inner => (∀ q, q ∈ quals → q = .Const ∨ q = .Volatile) ∧ WFDecl inner ∧ inner.startsBracket = false
  | .ref inner => WFDecl inner ∧ inner.startsBracket = false ∧ inner.isRef = false
  | .arr inner size => inner.needsScope = false ∧ WFDecl inner ∧ WF size
  | .arrN inner => inner.needsScope = false ∧ WFDecl inner
end

theorem litOk_toks (n : Lit) (h : LitOk n = true) : toks (litPiecesT n) = [.lit n] := by
  unfold LitOk at h
  unfold litPiecesT
  split at h
  · rename_i m s heq
    simp at h
    obtain ⟨h, _⟩ := h
    subst h
    simp [heq]
  · simp at h

/-- tokens an operand can start with -/
def GoodStart (t : Tok) : Prop := (t ≠ .p .Equals ∧ t.isLt = false ∧ t.isGt = false) ∧ t ≠ .p .RightParen

theorem operandStart_of {t : Tok} {ts : List Tok} (h : GoodStart t) : OperandStart (t :: ts) := h.1

theorem toks_un_prefix (op : UnOp) (inner : List Piece) :
    toks (unPiece op :: (if startsWithSign op inner then Piece.sp :: inner else inner)) = unTok op :: toks inner := by
  split <;> simp [unPiece]

/-! ## Token lists of the node kinds -/

theorem toks_lit (n : Lit) (h : LitOk n = true) : toks (fmtBodyX (.lit n)) = [.lit n] := by
  simp only [fmtBodyX, fmtSubX]
  rw [needParen_top_lit, wrap_false, litOk_toks n h]

theorem toks_id (n : String) : toks (fmtBodyX (.id n)) = [.id n] := by
  simp only [fmtBodyX, fmtSubX]
  rw [show needParen precIdentifier topPrec topSide = false by decide, wrap_false]; rfl

theorem toks_prefix (op : UnOp) (x : XExpr) (h : isPostfix op = false) :
    toks (fmtBodyX (.un op x)) = unTok op :: toks (fmtSubX x (unPrec op) prefixOperandSide) := by
  simp only [fmtBodyX, fmtSubX, needParen_top_un, wrap_false, h, if_false, Bool.false_eq_true, toks_un_prefix]

theorem toks_postfix (op : UnOp) (x : XExpr) (h : isPostfix op = true) :
    toks (fmtBodyX (.un op x)) = toks (fmtSubX x (unPrec op) postfixOperandSide) ++ [unTok op] := by
  simp only [fmtBodyX, fmtSubX, needParen_top_un, wrap_false, h, if_true, toks_append]
  simp [unPiece]

theorem toks_bin (op : BinOp) (l r : XExpr) :
    toks (fmtBodyX (.bin op l r)) =
      toks (fmtSubX l (binPrec op) binLeftSide) ++ (binToks op ++ toks (fmtSubX r (binPrec op) binRightSide)) := by
  simp only [fmtBodyX, fmtSubX, needParen_top_bin, wrap_false, toks_append, toks_binPieces, toks_cons_sp]
  split <;> simp

theorem toks_tern (c a b : XExpr) :
    toks (fmtBodyX (.tern c a b)) = toks (fmtSubX c precTernaryConditional ternCondSide) ++
      (.p .QuestionMark :: (toks (fmtSubX a precTernaryConditional ternTrueSide) ++
        (.p .Colon :: toks (wrap (falseIsAssignmentX b) (fmtSubX b precTernaryConditional ternFalseSide))))) := by
  simp only [fmtBodyX, fmtSubX]
  rw [show needParen precTernaryConditional topPrec topSide = false by decide, wrap_false]
  simp [pp]

theorem toks_sub (o i : XExpr) :
    toks (fmtBodyX (.sub o i)) = toks (fmtSubX o precArraySubscript subObjectSide) ++
      (.p .LeftSquareBracket :: (toks (fmtSubX i precArraySubscript subIndexSide) ++ [.p .RightSquareBracket])) := by
  simp only [fmtBodyX, fmtSubX]
  rw [show needParen precArraySubscript topPrec topSide = false by decide, wrap_false]
  simp [pp]

theorem toks_mem (o : XExpr) (n : String) :
    toks (fmtBodyX (.mem o n)) =
      toks (wrap (memObjParenX o) (fmtSubX o precMember memObjectSide)) ++ [.p .Period, .id n] := by
  simp only [fmtBodyX, fmtSubX]
  rw [show needParen precMember topPrec topSide = false by decide, wrap_false]
  simp [pp]

theorem toks_call (f : XExpr) (targs : TArgs) (args : XArgs) :
    toks (fmtBodyX (.call f targs args)) = toks (fmtSubX f callObjectPrec callObjectSide) ++
      (toks (fmtTArgs targs true) ++ (.p .LeftParen :: (toks (fmtArgsX args) ++ [.p .RightParen]))) := by
  simp only [fmtBodyX, fmtSubX]
  rw [show needParen precCall topPrec topSide = false by decide, wrap_false]
  simp [pp]

theorem toks_cast (t : TyId) (x : XExpr) :
    toks (fmtBodyX (.cast t x)) = .p .LeftParen :: (toks (fmtTyId t true) ++
      (.p .RightParen :: toks (fmtSubX x precCast castOperandSide))) := by
  simp only [fmtBodyX, fmtSubX]
  rw [show needParen precCast topPrec topSide = false by decide, wrap_false]
  simp [pp]

theorem toks_sizeof (a : TArg) :
    toks (fmtBodyX (.sizeof a)) = .p .SizeOf :: .p .LeftParen :: (toks (fmtEOT a true) ++ [.p .RightParen]) := by
  simp only [fmtBodyX, fmtSubX]
  rw [show needParen precSizeOf topPrec topSide = false by decide, wrap_false]
  simp [pp, sizeofP]

/-! ## A parenthesised operand is not mistaken for a cast -/

theorem castDeadB_head (t : Tok) (rest : List Tok) (hs : modBeforeStep t = .stop) (hid : ∀ n, t ≠ .id n) :
    castDeadB W (t :: rest) = true := by
  cases t with
  | id n => exact absurd rfl (hid n)
  | _ => simp [castDeadB, hs]

theorem parenDead (e : XExpr) (hwf : WF W e) (hp : 3 ≤ e.prec) (more : List Tok) :
    CastDead W (toks (fmtBodyX e) ++ more) := by
  apply castDead_of_B
  cases e with
  | lit n => simp [XExpr.prec, litPrec_of_ok n hwf, precLiteral] at hp
  | id n => simp [XExpr.prec, precIdentifier] at hp
  | sub o i => simp [XExpr.prec, precArraySubscript] at hp
  | mem o n => simp [XExpr.prec, precMember] at hp
  | call f t a => simp [XExpr.prec, precCall] at hp
  | un op x =>
    cases hpost : isPostfix op with
    | true => cases op <;> simp [isPostfix] at hpost <;> simp [XExpr.prec, unPrec] at hp
    | false =>
      rw [toks_prefix op x hpost]
      apply castDeadB_head
      · cases op <;> rfl
      · intro n; cases op <;> simp [unTok]
  | bin op l r => exact hwf.1
  | tern c a b => exact hwf.1
  | cast t x =>
    rw [toks_cast]
    exact castDeadB_head W _ _ rfl (by intro n h; cases h)
  | sizeof a =>
    rw [toks_sizeof]
    exact castDeadB_head W _ _ rfl (by intro n h; cases h)

/-- first token of a printed sub-expression -/
theorem head_fmt : (e : XExpr) → WF W e → ∀ outer side, PosOk outer side →
    ∃ t ts', toks (fmtSubX e outer side) = t :: ts' ∧ GoodStart t ∧
      ((needParen e.prec outer side = true ∨ e.lvl ≤ 1) → ∀ rest, P2Ok W ((t :: ts') ++ rest))
  | e, hwf, outer, side, hpo => by
    rw [fmtSubX_eq]
    cases hp : needParen e.prec outer side with
    | true =>
      refine ⟨.p .LeftParen, toks (fmtBodyX e) ++ [.p .RightParen], ?_, by simp [GoodStart, Tok.isLt, Tok.isGt], fun _ rest => ?_⟩
      · rw [toks_wrap_true]
      · have := parenDead W e hwf (needParen_prec hpo hp) (.p .RightParen :: rest)
        simp only [List.cons_append, List.append_assoc, List.nil_append]
        exact ⟨rfl, by decide, fun _ => this⟩
    | false =>
      simp only [wrap_false]
      match e, hwf with
      | .lit n, hwf =>
        refine ⟨.lit n, [], toks_lit n hwf, by simp [GoodStart, Tok.isLt, Tok.isGt], fun _ rest => ?_⟩
        refine ⟨rfl, ?_, ?_⟩
        · intro h; cases h
        · intro h; cases h
      | .id n, _ =>
        refine ⟨.id n, [], toks_id n, by simp [GoodStart, Tok.isLt, Tok.isGt], fun _ rest => ?_⟩
        refine ⟨rfl, ?_, ?_⟩
        · intro h; cases h
        · intro h; cases h
      | .un op x, hwf =>
        cases hpost : isPostfix op with
        | true =>
          obtain ⟨t, ts', h1, h2, h3⟩ := head_fmt x hwf (unPrec op) postfixOperandSide
            (by cases op <;> simp [isPostfix] at hpost <;> exact Or.inr ⟨rfl, Or.inl rfl⟩)
          rw [toks_postfix op x hpost, h1]
          refine ⟨t, ts' ++ [unTok op], by simp, h2, fun _ rest => ?_⟩
          have := h3 (by
            cases hpx : needParen x.prec (unPrec op) postfixOperandSide with
            | true => exact Or.inl rfl
            | false => exact Or.inr (pos_postfix op x hpost hpx)) ([unTok op] ++ rest)
          simpa using this
        | false =>
          rw [toks_prefix op x hpost]
          refine ⟨unTok op, _, rfl, by cases op <;> simp [unTok, GoodStart, Tok.isLt, Tok.isGt], fun h => ?_⟩
          rcases h with h | h
          · cases h
          · simp [XExpr.lvl, hpost] at h
      | .bin op l r, hwf =>
        obtain ⟨t, ts', h1, h2, h3⟩ := head_fmt l hwf.2.1 (binPrec op) binLeftSide (by cases op <;> exact Or.inl (by decide))
        rw [toks_bin, h1]
        refine ⟨t, _, by simp; rfl, h2, fun h => ?_⟩
        rcases h with h | h
        · cases h
        · have := binLevel_ge op
          simp [XExpr.lvl] at h
          omega
      | .sub o i, hwf =>
        obtain ⟨t, ts', h1, h2, h3⟩ := head_fmt o hwf.1 precArraySubscript subObjectSide (Or.inr ⟨rfl, Or.inl rfl⟩)
        rw [toks_sub, h1]
        refine ⟨t, _, by simp; rfl, h2, fun _ rest => ?_⟩
        have := h3 (by
          cases hpx : needParen o.prec precArraySubscript subObjectSide with
          | true => exact Or.inl rfl
          | false => exact Or.inr (pos_postfixLike o _ (Or.inl rfl) hpx))
          ((.p .LeftSquareBracket :: (toks (fmtSubX i precArraySubscript subIndexSide) ++ [.p .RightSquareBracket])) ++ rest)
        simpa using this
      | .call f targs args, hwf =>
        obtain ⟨t, ts', h1, h2, h3⟩ := head_fmt f hwf.1 callObjectPrec callObjectSide (Or.inr ⟨rfl, Or.inl rfl⟩)
        rw [toks_call, h1]
        refine ⟨t, _, by simp; rfl, h2, fun _ rest => ?_⟩
        have := h3 (by
          cases hpx : needParen f.prec callObjectPrec callObjectSide with
          | true => exact Or.inl rfl
          | false => exact Or.inr (pos_postfixLike f _ (Or.inl rfl) hpx))
          ((toks (fmtTArgs targs true) ++ (.p .LeftParen :: (toks (fmtArgsX args) ++ [.p .RightParen]))) ++ rest)
        simpa using this
      | .mem o n, hwf =>
        rw [toks_mem]
        cases hmp : memObjParenX o with
        | true =>
          -- `(1).m`: the object is an integer literal in parentheses of its own; `1 )` is no type
          refine ⟨.p .LeftParen, (toks (fmtSubX o precMember memObjectSide) ++ [.p .RightParen]) ++ [.p .Period, .id n],
            by rw [toks_wrap_true]; rfl, by simp [GoodStart, Tok.isLt, Tok.isGt], fun _ rest => ?_⟩
          cases o with
          | lit l =>
            have hl : LitOk l = true := hwf
            have hnp : needParen (XExpr.lit l).prec precMember memObjectSide = false := by
              simp only [XExpr.prec, litPrec_of_ok l hl]; decide
            rw [fmtSubX_eq, hnp, wrap_false, toks_lit l hl]
            refine ⟨rfl, by decide, fun _ => ?_⟩
            exact castDead_of_B W [.lit l] _ (by simp [castDeadB, modBeforeStep])
          | _ => simp [memObjParenX] at hmp
        | false =>
          rw [wrap_false]
          obtain ⟨t, ts', h1, h2, h3⟩ := head_fmt o hwf precMember memObjectSide (Or.inr ⟨rfl, Or.inl rfl⟩)
          rw [h1]
          refine ⟨t, _, by simp; rfl, h2, fun _ rest => ?_⟩
          have := h3 (by
            cases hpx : needParen o.prec precMember memObjectSide with
            | true => exact Or.inl rfl
            | false => exact Or.inr (pos_postfixLike o _ (Or.inl rfl) hpx)) ([.p .Period, .id n] ++ rest)
          simpa using this
      | .tern c a b, hwf =>
        obtain ⟨t, ts', h1, h2, h3⟩ := head_fmt c hwf.2.1 precTernaryConditional ternCondSide (Or.inl (by decide))
        rw [toks_tern, h1]
        refine ⟨t, _, by simp; rfl, h2, fun h => ?_⟩
        rcases h with h | h
        · cases h
        · simp [XExpr.lvl] at h
      | .cast t x, hwf =>
        rw [toks_cast]
        refine ⟨.p .LeftParen, _, rfl, by simp [GoodStart, Tok.isLt, Tok.isGt], fun h => ?_⟩
        rcases h with h | h
        · cases h
        · simp [XExpr.lvl] at h
      | .sizeof a, hwf =>
        rw [toks_sizeof]
        refine ⟨.p .SizeOf, _, rfl, by simp [GoodStart, Tok.isLt, Tok.isGt], fun h => ?_⟩
        rcases h with h | h
        · cases h
        · simp [XExpr.lvl] at h

end RsslVerif.Lemmas.RoundtripFull

//! rssl-verif-harness: runs the real rssl crates (built from /repo's working tree with
//! `--cfg trark_rssl_verif`) on generated inputs and prints line-protocol observations.
//!
//! usage: harness <property> [--tier quick|thorough] [--seed N] [--n N] [--requests FILE] [extra...]
mod compile_util;
mod declgen;
mod progen;
mod util;

mod c01;
mod c02;
mod c03;
mod c04;
mod c05;
mod c06;
mod c07;
mod c08;
mod c09;
mod c10;
mod c11;
mod c12;
mod c13;
mod c14;
mod c15;
mod c16;
mod c17;
mod c18;
mod c19;

use util::*;

fn main() {
    let argv: Vec<String> = std::env::args().collect();
    if argv.len() < 2 {
        eprintln!("usage: harness <property> [--tier T] [--seed N] [--n N] [--requests FILE]");
        std::process::exit(2);
    }
    let prop = argv[1].to_lowercase();
    let mut args = Args {
        tier: "quick".into(),
        seed: 0,
        n: None,
        requests: None,
        extra: Vec::new(),
    };
    let mut i = 2;
    while i < argv.len() {
        match argv[i].as_str() {
            "--tier" => {
                args.tier = argv[i + 1].clone();
                i += 2;
            }
            "--seed" => {
                args.seed = argv[i + 1].parse().unwrap_or(0);
                i += 2;
            }
            "--n" => {
                args.n = argv[i + 1].parse().ok();
                i += 2;
            }
            "--requests" => {
                args.requests = Some(argv[i + 1].clone());
                i += 2;
            }
            other => {
                args.extra.push(other.to_string());
                i += 1;
            }
        }
    }
    install_panic_hook();
    let mut out = Out::new();
    match prop.as_str() {
        "c01" => c01::run(&args, &mut out),
        "c02" => c02::run(&args, &mut out),
        "c03" => c03::run(&args, &mut out),
        "c04" => c04::run(&args, &mut out),
        "c05" => c05::run(&args, &mut out),
        "c06" => c06::run(&args, &mut out),
        "c07" => c07::run(&args, &mut out),
        "c08" => c08::run(&args, &mut out),
        "c09" => c09::run(&args, &mut out),
        "c10" => c10::run(&args, &mut out),
        "c11" => c11::run(&args, &mut out),
        "c12" => c12::run(&args, &mut out),
        "c13" => c13::run(&args, &mut out),
        "c14" => c14::run(&args, &mut out),
        "c15" => c15::run(&args, &mut out),
        "c16" => c16::run(&args, &mut out),
        "c17" => c17::run(&args, &mut out),
        "c18" => c18::run(&args, &mut out),
        "c19" => c19::run(&args, &mut out),
        _ => {
            eprintln!("unknown property {}", prop);
            std::process::exit(2);
        }
    }
    out.finish();
}

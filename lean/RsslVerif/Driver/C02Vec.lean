import RsslVerif.Driver.C02
import RsslVerif.Driver.C01Vec
import RsslVerif.Model.GenMslVec
import RsslVerif.Spec.SemMslVec
/-!
Line-protocol front end of the C02 *vector layer* model.

`C02.vex <source> <function> <argument vectors> vars=<id>:<name>:<type>,… <IR of the returned expression>`:
parses the expression into `VExpr` (parser of `Driver.C01Vec`: a maximal sub-expression without any vector is a scalar leaf
of `Model.Ir`), recomputes the Metal exporter's tree with `GenMslVec.genMV`, prints it, and evaluates `VIr.eval` on every
argument vector with the harness's concrete primitives; it also evaluates the Metal reading `VMsl.eval` on the generated
tree and appends `MODEL-MSL-DIFF` if the two semantics disagree although the hypotheses of `gen_sem_msl_vec_expr` hold.
`C02.vwt`: do those hypotheses hold for the request?  Everything else is passed to `Driver.C02.handle`.
-/
namespace RsslVerif.Driver.C02Vec
open RsslVerif.Gen.HlslGenTables RsslVerif.Gen.HlslVecTables RsslVerif.Model RsslVerif.Model.IrVec
open RsslVerif.Model.GenMslVec RsslVerif.Spec.Sem RsslVerif.Spec.SemVec RsslVerif.Spec.SemMslVec
open RsslVerif.Driver RsslVerif.Driver.C01 RsslVerif.Driver.C01Vec
open RsslVerif.Model.Ir (Ty Var Const Dir)

def ctxOf (inf : VInfo) : GenMsl.Ctx where
  locName n := ((inf.vars.find? (·.1 == n)).map (·.2.1)).getD ("?v" ++ toString n)
  globName n := "?g" ++ toString n
  funcName n := "?f" ++ toString n
  vty
    | .loc n => match inf.ty n with | some (.sc t) => t | _ => .void
    | .glob _ => .void
  retTy _ := none
  req _ := some []
  called _ := true

def M0 : Msl.MWorld := { P := concretePrim, mphi := fun _ _ _ _ => none, msig := fun _ _ => none }

/-- the side conditions are evaluated with every parameter in scope -/
def sideOf (inf : VInfo) : Ir.Side :=
  { sig := W0.sig, vty := (ctxOf inf).vty, vis := fun _ => true, req := fun _ => some [], rsv := fun _ => [], called := fun _ => true }

def hypotheses (inf : VInfo) (e : VExpr) : Bool :=
  (VIr.typeOf W0.sig (ctxOf inf).vty inf.vvty e).isSome && VOk.okMV (sideOf inf) inf.vvty e

/-- do the hypotheses of `gen_sem_msl_vec_assign` hold for the top-level assignment `o(lhs, rhs)`? -/
def assignHypotheses (inf : VInfo) (o : IntrinsicOp) (lhs rhs : VExpr) : Bool :=
  match VIr.assignOK W0.sig (ctxOf inf).vty inf.vvty lhs rhs with
  | none => false
  | some T =>
    VOk.placeOKM (fun _ => true) inf.vvty lhs && VOk.okMV (sideOf inf) inf.vvty lhs && VOk.okMV (sideOf inf) inf.vvty rhs &&
      (match irOpSem o with
        | .assign => true
        | .compound m => VOk.binSideB m T
        | _ => false)

/-- `(b (expr (op <assignment> place rhs)) (ret (var x)))`: the statement-level assignment of the layer; the answer is the
exporter's tree of the assignment and the final value of `x` -/
def handleAssign (inf : VInfo) (body : Sx) (vecs : List (List VVal)) : String :=
  match body.args with
  | [st, rt] =>
    match st.head, st.args, rt.head, rt.args with
    | "expr", [ex], "ret", [rv] =>
      match parseV? inf ex, (if rv.head == "var" then rv.args.head?.bind (·.atom.toNat?) else none) with
      | some e, some xr =>
        match e with
        | .op o (.cons lhs (.cons rhs .nil)) =>
          let isAssign := match irOpSem o with | .assign | .compound _ => true | _ => false
          if !isAssign then "unsupported not-an-assignment" else
          let cx := ctxOf inf
          match genMV cx inf.vvty e with
          | .error (.panic site) => "panic " ++ RsslVerif.Driver.C02Sem.panicCategory site
          | .error (.diag e) => "diagnostic GenerateError(" ++ e ++ ")"
          | .error (.unsupported _) => "unsupported"
          | .ok a =>
            let env := inf.env
            let wt := assignHypotheses inf o lhs rhs
            let outs := vecs.map fun vals =>
              let bound : List ((Nat × String × VTy) × VVal) := inf.vars.zip vals
              let σ0 : Store := fun v => match v with
                | .loc n => match bound.find? (·.1.1 == n) with | some (_, VVal.sc s) => s | _ => .void
                | .glob _ => .void
              let ρ : VStore := fun v => match v with
                | .loc n => match bound.find? (·.1.1 == n) with | some (_, w) => w | none => .vec []
                | .glob _ => .vec []
              let r1 := (VIr.evalTop W0 ρ e σ0).map fun r => r.2.2 (.loc xr)
              let r2 := (VMsl.evalTop M0 env ρ a σ0).map fun r => r.2.2 (.loc xr)
              let s1 := match r1 with | some v => showVVal v | none => "none"
              let s2 := match r2 with | some v => showVVal v | none => "none"
              if s1 == s2 || !wt then s1 else s1 ++ " MODEL-MSL-DIFF(" ++ s2 ++ ")"
            "vast " ++ showV a ++ " ;; run " ++ " | ".intercalate outs
        | _ => "unsupported not-an-assignment"
      | _, _ => "unsupported outside-the-vector-layer"
    | _, _, _, _ => "unsupported body-shape"
  | _ => "unsupported body-shape"

def handleVex (vectors ctx ir : String) : String :=
  if (ir.splitOn "unsupported").length > 1 || (ctx.splitOn "unsupported").length > 1 then "unsupported" else
  match parseVCtx? ctx, parseAll ir, parseVVectors vectors with
  | some inf, [x], some vecs =>
    if x.head == "b" then handleAssign inf x vecs else
    match parseV? inf x with
    | none => "unsupported outside-the-vector-layer"
    | some e =>
      let cx := ctxOf inf
      match genMV cx inf.vvty e with
      | .error (.panic site) => "panic " ++ RsslVerif.Driver.C02Sem.panicCategory site
      | .error (.diag e) => "diagnostic GenerateError(" ++ e ++ ")"
      | .error (.unsupported _) => "unsupported"
      | .ok a =>
        let env := inf.env
        let wt := hypotheses inf e
        let outs := vecs.map fun vals =>
          let bound : List ((Nat × String × VTy) × VVal) := inf.vars.zip vals
          let σ0 : Store := fun v => match v with
            | .loc n => match bound.find? (·.1.1 == n) with | some (_, VVal.sc s) => s | _ => .void
            | .glob _ => .void
          let ρ : VStore := fun v => match v with
            | .loc n => match bound.find? (·.1.1 == n) with | some (_, w) => w | none => .vec []
            | .glob _ => .vec []
          let r1 := (VIr.eval W0 ρ e σ0).map (·.1)
          let r2 := (VMsl.eval M0 env ρ a σ0).map (·.1)
          let s1 := match r1 with | some v => showVVal v | none => "none"
          let s2 := match r2 with | some v => showVVal v | none => "none"
          if s1 == s2 || !wt then s1 else s1 ++ " MODEL-MSL-DIFF(" ++ s2 ++ ")"
        "vast " ++ showV a ++ " ;; run " ++ " | ".intercalate outs
  | _, _, _ => "bad-request"

def handle (op : String) (args : List String) : String :=
  match op, args with
  | "C02.vex", [_src, name, vectors, ctx, ir] => if name == "-" || ctx == "-" then "skip" else handleVex vectors ctx ir
  | "C02.vex", _ => "skip"
  | "C02.vwt", [_src, _name, _vectors, ctx, ir] =>
    match parseVCtx? ctx, parseAll ir with
    | some inf, [x] =>
      if x.head == "b" then
        match x.args with
        | [st, _] =>
          match st.args.head?.bind (parseV? inf) with
          | some (.op o (.cons lhs (.cons rhs .nil))) => if assignHypotheses inf o lhs rhs then "wt" else "not-wt"
          | _ => "unsupported"
        | _ => "unsupported"
      else
      match parseV? inf x with
      | some e => if hypotheses inf e then "wt" else "not-wt"
      | none => "unsupported"
    | _, _ => "unsupported"
  | _, _ => RsslVerif.Driver.C02.handle op args

end RsslVerif.Driver.C02Vec

import RsslVerif.Lemmas.SlotsInline
/-!
# C04 — emitted DirectX HLSL is accepted by the front end and is a fixpoint

C04 is a composition: the second generation equals the first if (a) the printed tree re-parses to the
same tree (C09, instantiated with the rssl grammar), (b) every literal re-reads with the same value
(C10), (c) first-generation names are unique and unreserved so the second name generation keeps them
(C15), (d) a fully explicit program needs no new conversions (C03), and (e) binding slots are
re-derived identically.  This file proves (e) over the C06 allocator model; the other legs are the
property theorems of C09 / C10 / C15 / C03 and are cited in `checks/c04.py` once those are merged.
-/
namespace RsslVerif.Thm.C04
open RsslVerif.Gen.SlotTables RsslVerif.Model.Slots RsslVerif.Spec.Slots RsslVerif.Lemmas.Slots

/-- what the exporter writes back: every declaration carries its bind group explicitly
    (`register(x, spaceN)` / the group attribute), everything else is unchanged -/
def explicit (dflt : Nat) : Decl → Decl
  | .other => .other
  | .cbuffer s => .cbuffer (some (s.getD dflt))
  | .global s ss k l => .global (some (s.getD dflt)) ss k l

theorem step_explicit (p : Params) (dflt dflt' : Nat) (st : State) (d : Decl) :
    step p dflt' st (explicit dflt d) = step p dflt st d := by
  cases d <;> simp [explicit, step]

theorem run_explicit (p : Params) (dflt dflt' : Nat) :
    ∀ (ds : List Decl) (st : State), run p dflt' st (ds.map (explicit dflt)) = run p dflt st ds := by
  intro ds
  induction ds with
  | nil => intro st; rfl
  | cons d ds ih =>
    intro st
    simp only [List.map_cons, run, step_explicit]
    cases step p dflt st d with
    | error e => rfl
    | ok r => obtain ⟨st1, ob⟩ := r; simp only [ih]

/-- **Slots are stable under re-compilation.** Re-running the allocator on the declaration sequence
    in which every group was made explicit (what the emitted `register(.., spaceN)` annotations say),
    with *any* default group (no-pipeline mode uses 0), reproduces exactly the first result: same
    bindings for every declaration and the same inline constant blocks. -/
theorem slots_stable (p : Params) (dflt dflt' : Nat) (ds : List Decl) :
    assign p dflt' (ds.map (explicit dflt)) = assign p dflt ds := by
  simp only [assign, run_explicit]

/-! Non-vacuity: a mixed sequence with implicit groups and default group 2. -/
example : assign paramsDefault 0 ([Decl.cbuffer none, .global (some 1) false (some .Texture2D) (some 2),
      .global none false (some .SamplerState) none].map (explicit 2)) =
    assign paramsDefault 2 [Decl.cbuffer none, .global (some 1) false (some .Texture2D) (some 2),
      .global none false (some .SamplerState) none] := slots_stable _ _ _ _

end RsslVerif.Thm.C04

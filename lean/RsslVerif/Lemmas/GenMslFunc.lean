import RsslVerif.Lemmas.GenMslStmt
/-! Metal exporter, functions: running the emitted definition that carries the source body (a plain function or a
trampoline target) on arguments placed at the parameter slots equals running the typed function. -/
namespace RsslVerif.Lemmas.GenMsl
open RsslVerif.Gen.HlslGenTables RsslVerif.Gen.MslGenTables RsslVerif.Model RsslVerif.Model.GenMsl RsslVerif.Spec.Sem
open RsslVerif.Model.Ir (Ty Var Const Dir)
open RsslVerif.Model.GenHlsl (GenErr)
open RsslVerif.Lemmas.GenSem (bindS ModeOK)
set_option linter.unusedSimpArgs false

/-- the body loop of `generate_function_inner` (no label handling): same flow, same store -/
theorem sim_bodyM {W : World} {M : Msl.MWorld} {env : Ast.Env} {cx : Ctx} {vis : Var → Bool} {rsv : Nat → List Var}
    (hag : AgreeM cx vis env) (hw : Worlds cx rsv W M) (rt : Ty) :
    ∀ (b : Ir.Stmts) (b' : HlslAst.Stmts), genBody cx b = .ok b' → Ir.wtStmtsM (side cx W vis rsv) rt none b = true →
      ∀ fuel σ, Msl.execs M env rt fuel .run b' σ = Ir.execs W fuel .run b σ
  | .nil, b', hg, _ => by simp [genBody] at hg; subst hg; intro fuel σ; rfl
  | .cons s r, b', hg, hwt => by
    simp only [Ir.wtStmtsM, Bool.and_eq_true] at hwt
    cases hs : genStmt cx s with
    | error e => simp [genBody, hs] at hg
    | ok s' =>
      cases hr : genBody cx r with
      | error e => simp [genBody, hs, hr] at hg
      | ok r' =>
        simp [genBody, hs, hr] at hg; subst hg
        have h1 := sim_stmtM hag hw rt s s' none hs hwt.1 .run trivial
        have h2 := sim_bodyM hag hw rt r r' hr hwt.2
        intro fuel σ
        simp only [Msl.execs, Ir.execs, h1 fuel σ]
        cases Ir.exec W fuel .run s σ with
        | none => rfl
        | some q => obtain ⟨fl, σ1⟩ := q; cases fl <;> simp [h2 fuel σ1]

/-- a frame environment resolves the visible variables to themselves -/
def Res (cx : Ctx) (vis : Var → Bool) (ρ : String → Option Var) : Prop := ∀ x, vis x = true → ρ (cx.name x) = some x

/-- binding the name of a visible variable to that variable keeps `Res` (names of visible variables are distinct) -/
theorem Res.bind {cx : Ctx} {vis : Var → Bool} {ρ : String → Option Var}
    (hinj : ∀ x y, vis x = true → vis y = true → cx.name x = cx.name y → x = y)
    (h : Res cx vis ρ) (y : Var) (hy : vis y = true) :
    Res cx vis (fun s => if s = cx.name y then some y else ρ s) := by
  intro x hx
  by_cases hn : cx.name x = cx.name y
  · simp [hn, hinj x y hx hy hn]
  · simp [hn, h x hx]

/-- the arguments of the definition that carries the body: values for `in` parameters, the parameter's own slot for
out/inout parameters -/
def slotArgs : List (Nat × Dir × Ty) → List Val → List Msl.MArg
  | (id, d, _) :: ps, v :: vs => (if d = .in_ then Msl.MArg.val v else Msl.MArg.ref (.loc id)) :: slotArgs ps vs
  | _, _ => []

/-- the out/inout slots already hold the argument values -/
def Preset : List (Nat × Dir × Ty) → List Val → Store → Prop
  | (id, d, _) :: ps, v :: vs, σ => (d ≠ .in_ → σ (.loc id) = v) ∧ Preset ps vs σ
  | _, _, _ => True

theorem set_self (σ : Store) (x : Var) : σ.set x (σ x) = σ := by
  funext y; simp only [Store.set]; split <;> simp_all

theorem preset_set {ps : List (Nat × Dir × Ty)} : ∀ {vs : List Val} {σ : Store} {id : Nat} {v : Val},
    (∀ p ∈ ps, p.1 ≠ id) → Preset ps vs σ → Preset ps vs (σ.set (.loc id) v) := by
  induction ps with
  | nil => intro vs σ id v _ _; cases vs <;> simp [Preset]
  | cons p ps ih =>
    intro vs σ id v hne h
    obtain ⟨pid, d, T⟩ := p
    cases vs with
    | nil => simp [Preset]
    | cons w ws =>
      simp only [Preset] at h ⊢
      refine ⟨fun hd => ?_, ih (fun q hq => hne q (List.mem_cons_of_mem _ hq)) h.2⟩
      have : pid ≠ id := hne (pid, d, T) (by simp)
      simp [Store.set, this, h.1 hd]

/-- `bindArgs` on the user parameters of a body-carrying definition: the store it leaves is the IR's `bindParams`, the
environment still resolves the visible variables -/
theorem bind_user {cx : Ctx} {vis : Var → Bool} (slot : String → Option Var)
    (hinj : ∀ x y, vis x = true → vis y = true → cx.name x = cx.name y → x = y) :
    ∀ (ps : List (Nat × Dir × Ty)) (mps : List MslAst.Param) (vals : List Val) (ρ : String → Option Var) (σ : Store)
      (rest : List MslAst.Param) (restArgs : List Msl.MArg),
      GenMsl.genParams cx ps = .ok mps → vals.length = ps.length →
      (∀ p ∈ ps, vis (.loc p.1) = true ∧ slot (cx.locName p.1) = some (.loc p.1)) →
      (ps.map (·.1)).Nodup → Preset ps vals σ → Res cx vis ρ →
      ∃ ρ1, Res cx vis ρ1 ∧
        Msl.bindArgs slot (mps ++ rest) (slotArgs ps vals ++ restArgs) ρ σ =
          Msl.bindArgs slot rest restArgs ρ1 (Ir.bindParams ps vals σ)
  | [], mps, vals, ρ, σ, rest, restArgs, hg, hlen, _, _, _, hρ => by
    simp [GenMsl.genParams] at hg; subst hg
    cases vals with
    | nil => exact ⟨ρ, hρ, by simp [slotArgs, Ir.bindParams]⟩
    | cons v vs => simp at hlen
  | (id, d, T) :: ps, mps, vals, ρ, σ, rest, restArgs, hg, hlen, hvis, hnd, hpre, hρ => by
    cases vals with
    | nil => simp at hlen
    | cons v vs =>
      simp only [GenMsl.genParams, GenMsl.genParam] at hg
      cases htn : GenMsl.typeName T with
      | error e => simp [htn] at hg
      | ok tn =>
        cases hr : GenMsl.genParams cx ps with
        | error e =>
          simp only [htn] at hg
          split at hg <;> simp [hr] at hg
        | ok mps' =>
          have hv0 := hvis (id, d, T) (by simp)
          have hnd2 : (id :: ps.map (·.1)).Nodup := hnd
          have hnd' : (ps.map (·.1)).Nodup := (List.nodup_cons.mp hnd2).2
          have hne : ∀ p ∈ ps, p.1 ≠ id := by
            intro p hp h
            have := (List.nodup_cons.mp hnd2).1
            exact this (by rw [← h]; exact List.mem_map_of_mem hp)
          simp only [Preset] at hpre
          have hlen' : vs.length = ps.length := by simpa using hlen
          by_cases hd : d = .in_
          · subst hd
            simp [htn, hr] at hg; subst hg
            obtain ⟨ρ1, h1, h2⟩ := bind_user slot hinj ps mps' vs ρ (σ.set (.loc id) v) rest restArgs hr hlen'
              (fun p hp => hvis p (List.mem_cons_of_mem _ hp)) hnd' (preset_set hne hpre.2) hρ
            refine ⟨ρ1, h1, ?_⟩
            simp [slotArgs, Msl.bindArgs, hv0.2, Ir.bindParams, h2]
          · simp [htn, hr, hd] at hg; subst hg
            have hσ : σ.set (.loc id) v = σ := by rw [← hpre.1 hd]; exact set_self σ _
            obtain ⟨ρ1, h1, h2⟩ := bind_user slot hinj ps mps' vs (fun s => if s = cx.locName id then some (.loc id) else ρ s) σ rest restArgs
              hr hlen' (fun p hp => hvis p (List.mem_cons_of_mem _ hp)) hnd' hpre.2
              (Res.bind hinj hρ (.loc id) hv0.1)
            refine ⟨ρ1, h1, ?_⟩
            simp [slotArgs, hd, Msl.bindArgs, Ir.bindParams, hσ, h2]

/-- `bindArgs` on the parameters for statics: their names are bound to the statics, the store is untouched; afterwards
every visible variable is resolved (before, the statics still to be bound need not be) -/
theorem bind_globals {cx : Ctx} {vis : Var → Bool} (slot : String → Option Var)
    (hinj : ∀ x y, vis x = true → vis y = true → cx.name x = cx.name y → x = y) :
    ∀ (gs : List Nat) (gps : List MslAst.Param) (ρ : String → Option Var) (σ : Store),
      GenMsl.genGlobalParams cx gs = .ok gps → (∀ g ∈ gs, vis (.glob g) = true) →
      (∀ x, vis x = true → (∀ g ∈ gs, x ≠ .glob g) → ρ (cx.name x) = some x) →
      ∃ ρ1, Res cx vis ρ1 ∧ Msl.bindArgs slot gps (globMArgs gs) ρ σ = some (ρ1, σ)
  | [], gps, ρ, σ, hg, _, hρ => by
    simp [GenMsl.genGlobalParams] at hg; subst hg
    exact ⟨ρ, fun x hx => hρ x hx (by simp), by simp [globMArgs, Msl.bindArgs]⟩
  | g :: gs, gps, ρ, σ, hg, hvis, hρ => by
    simp only [GenMsl.genGlobalParams] at hg
    cases htn : GenMsl.typeName (cx.vty (.glob g)) with
    | error e => simp [htn] at hg
    | ok tn =>
      cases hr : GenMsl.genGlobalParams cx gs with
      | error e => simp [htn, hr] at hg
      | ok gps' =>
        simp [htn, hr] at hg; subst hg
        have hvg := hvis g (by simp)
        obtain ⟨ρ1, h1, h2⟩ := bind_globals slot hinj gs gps' (fun s => if s = cx.globName g then some (.glob g) else ρ s) σ hr
          (fun g' hg' => hvis g' (List.mem_cons_of_mem _ hg'))
          (by
            intro x hx hnot
            by_cases hxg : x = .glob g
            · subst hxg; simp [Ctx.name]
            · have hn : cx.name x ≠ cx.globName g := fun h => hxg (hinj x (.glob g) hx hvg h)
              simp only [hn, if_false]
              exact hρ x hx (by
                intro g' hg'
                simp only [List.mem_cons] at hg'
                cases hg' with
                | inl h => subst h; exact hxg
                | inr h => exact hnot g' h))
        refine ⟨ρ1, h1, ?_⟩
        simp only [globMArgs, List.map_cons] at h2 ⊢
        simp [Msl.bindArgs, h2]

/-- the layout of the emitted module agrees with the IR for one function: locals (and the file-scope constants) live at
the IR's variable ids; statics threaded as parameters are **not** in the frame: they are reachable only through the
reference parameters -/
structure AgreeL (cx : Ctx) (L : Msl.Layout) (fn : Ir.Func) (vis0 : Var → Bool) : Prop where
  vty : L.vty = cx.vty
  fres : ∀ f, L.fres (cx.funcName f) = some f
  notLib : ∀ f, cx.funcName f ≠ Msl.fmodName ∧ cx.funcName f ≠ Msl.tagName
  frame : Res cx vis0 (L.frame (cx.funcName fn.id))
  params : ∀ p ∈ fn.params, vis0 (.loc p.1) = true

/-- what is in scope inside a function: its frame, plus the statics it receives -/
def visWith (vis0 : Var → Bool) (gs : List Nat) : Var → Bool := fun x =>
  vis0 x || (match x with | .glob g => gs.contains g | .loc _ => false)

theorem genParams_length {cx : Ctx} : ∀ (ps : List (Nat × Dir × Ty)) (mps : List MslAst.Param),
    GenMsl.genParams cx ps = .ok mps → mps.length = ps.length
  | [], mps, h => by simp [GenMsl.genParams] at h; subst h; rfl
  | p :: ps, mps, h => by
    simp only [GenMsl.genParams] at h
    cases h1 : GenMsl.genParam cx p with
    | error e => simp [h1] at h
    | ok a =>
      cases h2 : GenMsl.genParams cx ps with
      | error e => simp [h1, h2] at h
      | ok as => simp [h1, h2] at h; subst h; simp [genParams_length ps as h2]

/-- **function level** (the definition that carries the source body): with the out/inout arguments placed at the
parameter slots, same return value and same final store as the typed function, up to the reclaimed scratch slots -/
theorem sim_funcM {W : World} {M : Msl.MWorld} {cx : Ctx} {L : Msl.Layout} {rsv : Nat → List Var} {vis0 : Var → Bool}
    {fn : Ir.Func} {mfn : MslAst.Func} {gs : List Nat} {tgt : Bool}
    (hL : AgreeL cx L fn vis0) (hw : Worlds cx rsv W M) (hreq : cx.req fn.id = some gs)
    (hinj : ∀ x y, visWith vis0 gs x = true → visWith vis0 gs y = true → cx.name x = cx.name y → x = y)
    (hnd : (fn.params.map (·.1)).Nodup)
    (hg : genFuncInner cx fn tgt false = .ok mfn)
    (hwt : Ir.wtStmtsM (side cx W (visWith vis0 gs) rsv) fn.ret none fn.body = true) :
    ∀ fuel vals σ, vals.length = fn.params.length → Preset fn.params vals σ →
      Msl.callFunc M L fuel mfn (slotArgs fn.params vals ++ ((if tgt then [Msl.MArg.tag] else []) ++ globMArgs gs)) σ =
        (Ir.callFunc W fuel fn vals σ).map (fun r => (r.1, Msl.restore (L.scratch (cx.funcName fn.id)) σ r.2.2)) := by
  simp only [genFuncInner, hreq] at hg
  cases hrt : GenMsl.typeName fn.ret with
  | error e => simp [hrt] at hg
  | ok rt =>
    cases hps : GenMsl.genParams cx fn.params with
    | error e => simp [hrt, hps] at hg
    | ok ps' =>
      cases hgp : GenMsl.genGlobalParams cx gs with
      | error e => simp [hrt, hps, hgp] at hg
      | ok gps =>
        cases hb : genBody cx fn.body with
        | error e => simp [hrt, hps, hgp, hb] at hg
        | ok body =>
          simp [hrt, hps, hgp, hb] at hg; subst hg
          intro fuel vals σ hlen hpre
          have hvis0 : ∀ x, vis0 x = true → visWith vis0 gs x = true := by intro x hx; simp [visWith, hx]
          have hres0 : Res cx (visWith vis0 gs) (L.frame (cx.funcName fn.id)) → True := fun _ => trivial
          -- user parameters
          have hinj0 : ∀ x y, vis0 x = true → vis0 y = true → cx.name x = cx.name y → x = y :=
            fun x y hx hy => hinj x y (hvis0 x hx) (hvis0 y hy)
          obtain ⟨ρ1, hρ1, hb1⟩ := bind_user (vis := vis0) (L.frame (cx.funcName fn.id)) hinj0 fn.params ps' vals
            (L.frame (cx.funcName fn.id)) σ ((if tgt then [MslAst.Param.tag tagType] else []) ++ gps)
            ((if tgt then [Msl.MArg.tag] else []) ++ globMArgs gs) hps hlen
            (fun p hp => ⟨hL.params p hp, by have := hL.frame (.loc p.1) (hL.params p hp); simpa [Ctx.name] using this⟩)
            hnd hpre hL.frame
          -- tag, then statics
          obtain ⟨ρ2, hρ2, hb2⟩ := bind_globals (vis := visWith vis0 gs) (L.frame (cx.funcName fn.id)) hinj gs gps ρ1
            (Ir.bindParams fn.params vals σ) hgp (fun g hg' => by simp [visWith, hg'])
            (by
              intro x hx hnot
              apply hρ1 x
              simp only [visWith, Bool.or_eq_true] at hx
              cases hx with
              | inl h => exact h
              | inr h =>
                cases x with
                | loc n => simp at h
                | glob g => simp at h; exact absurd rfl (hnot g h))
          have hbind : Msl.bindArgs (L.frame (cx.funcName fn.id))
              (ps' ++ ((if tgt then [MslAst.Param.tag tagType] else []) ++ gps))
              (slotArgs fn.params vals ++ ((if tgt then [Msl.MArg.tag] else []) ++ globMArgs gs))
              (L.frame (cx.funcName fn.id)) σ = some (ρ2, Ir.bindParams fn.params vals σ) := by
            rw [hb1]
            cases tgt <;> simp [Msl.bindArgs, hb2]
          have hag : AgreeM cx (visWith vis0 gs) { res := ρ2, vty := L.vty, fres := L.fres } :=
            { res := hρ2, vty := hL.vty, fres := hL.fres, notLib := hL.notLib }
          have hbody := sim_bodyM hag hw fn.ret fn.body body hb hwt fuel (Ir.bindParams fn.params vals σ)
          have hlen' : ¬ vals.length ≠ fn.params.length := by simpa using hlen
          simp only [Msl.callFunc, typeName_tyOfName hrt, List.append_assoc, hbind, hbody, Ir.callFunc, hlen', if_false]
          cases Ir.execs W fuel .run fn.body (Ir.bindParams fn.params vals σ) with
          | none => rfl
          | some r => obtain ⟨fl, σ1⟩ := r; rfl

end RsslVerif.Lemmas.GenMsl

//! Helpers around `rssl::compile` shared by the whole-compiler properties (C05 C07 C14 C17 C18 C04).
#![allow(dead_code)]

use crate::util::*;

#[derive(Clone, Copy, PartialEq, Eq, Debug)]
pub enum Tgt {
    Dx,
    Vk,
    VkBa,
    Msl,
}

pub const ALL_TARGETS: [Tgt; 4] = [Tgt::Dx, Tgt::Vk, Tgt::VkBa, Tgt::Msl];

impl Tgt {
    pub fn name(self) -> &'static str {
        match self {
            Tgt::Dx => "dx",
            Tgt::Vk => "vk",
            Tgt::VkBa => "vkba",
            Tgt::Msl => "msl",
        }
    }
    pub fn parse(s: &str) -> Option<Tgt> {
        ALL_TARGETS.iter().copied().find(|t| t.name() == s)
    }
    pub fn target(self) -> rssl::Target {
        match self {
            Tgt::Dx => rssl::Target::HlslForDirectX,
            Tgt::Vk | Tgt::VkBa => rssl::Target::HlslForVulkan,
            Tgt::Msl => rssl::Target::Msl,
        }
    }
    pub fn buffer_address(self) -> bool {
        self == Tgt::VkBa
    }
}

/// Which pipelines to build
#[derive(Clone, Debug, PartialEq)]
pub enum Mode {
    All,
    Named(String),
    NoPipeline,
}

impl Mode {
    pub fn show(&self) -> String {
        match self {
            Mode::All => "all".into(),
            Mode::Named(n) => format!("name={}", n),
            Mode::NoPipeline => "nopipeline".into(),
        }
    }
}

/// Everything `compile` returns for one pipeline, in a canonical printable form
#[derive(Clone, PartialEq, Debug)]
pub struct PipeOut {
    pub data: Vec<u8>,
    /// (stage, entry point, thread group size)
    pub stages: Vec<(String, String, Option<(u32, u32, u32)>)>,
    /// Debug rendering of PipelineDescription (derives Debug; vectors keep their order)
    pub metadata: String,
    /// Debug rendering of the graphics pipeline state
    pub state: String,
    /// (bind group, binding name, api location, descriptor count) of every metadata entry, in order
    pub slots: Vec<(usize, String, String, Option<u32>)>,
}

pub fn slots_of(meta: &rssl::PipelineDescription) -> Vec<(usize, String, String, Option<u32>)> {
    let mut v = Vec::new();
    for (g, group) in meta.bind_groups.iter().enumerate() {
        for b in &group.bindings {
            v.push((g, b.name.clone(), format!("{:?}", b.api_binding), b.descriptor_count));
        }
        if let Some(ic) = &group.inline_constants {
            v.push((g, "<inline constants>".into(), format!("Index({})", ic.api_location), Some(ic.size_in_bytes)));
        }
    }
    v
}

impl PipeOut {
    pub fn text(&self) -> String {
        String::from_utf8_lossy(&self.data).into_owned()
    }
    pub fn digest(&self) -> String {
        format!(
            "{:016x}",
            fnv64(
                format!("{:?}|{:?}|{}|{}", self.data, self.stages, self.metadata, self.state).as_bytes()
            )
        )
    }
}

pub fn fnv64(bytes: &[u8]) -> u64 {
    let mut h: u64 = 0xcbf2_9ce4_8422_2325;
    for b in bytes {
        h ^= *b as u64;
        h = h.wrapping_mul(0x0000_0100_0000_01b3);
    }
    h
}

#[derive(Clone, PartialEq, Debug)]
pub enum CompileOutcome {
    Ok(Vec<PipeOut>),
    /// CompileError rendered with Display
    Err(String),
    /// panic site and message
    Panic(String),
}

impl CompileOutcome {
    pub fn digest(&self) -> String {
        match self {
            CompileOutcome::Ok(ps) => {
                let d: Vec<String> = ps.iter().map(|p| p.digest()).collect();
                format!("ok[{}]", d.join(","))
            }
            CompileOutcome::Err(e) => format!("err:{:016x}", fnv64(e.as_bytes())),
            CompileOutcome::Panic(p) => format!("panic:{}", p),
        }
    }
}

pub struct Job<'a> {
    pub entry: &'a str,
    pub files: &'a [(String, String)],
    pub defines: &'a [(&'a str, &'a str)],
    pub target: Tgt,
    pub mode: Mode,
    pub validate_layout: bool,
}

/// Call the real `rssl::compile` under a panic guard
pub fn compile(job: &Job) -> CompileOutcome {
    let r = guard(|| {
        let mut inc = MemFiles(job.files.to_vec());
        let mut args = rssl::CompileArgs::new(job.entry, &mut inc, job.target.target())
            .defines(job.defines)
            .support_buffer_address(job.target.buffer_address())
            .validate_layout_consistency(job.validate_layout);
        match &job.mode {
            Mode::All => {}
            Mode::Named(n) => args = args.pipeline_name(Some(n.as_str())),
            Mode::NoPipeline => args = args.no_pipeline_mode(),
        }
        match rssl::compile(args) {
            Ok(ps) => Ok(ps
                .into_iter()
                .map(|p| PipeOut {
                    data: p.data,
                    stages: p
                        .stages
                        .iter()
                        .map(|s| {
                            (
                                format!("{:?}", s.stage),
                                s.entry_point.clone(),
                                s.thread_group_size,
                            )
                        })
                        .collect(),
                    slots: slots_of(&p.metadata),
                    metadata: format!("{:?}", p.metadata),
                    state: format!("{:?}", p.graphics_pipeline_state),
                })
                .collect::<Vec<_>>()),
            Err(e) => Err(format!("{}", e)),
        }
    });
    match r {
        Ok(Ok(v)) => CompileOutcome::Ok(v),
        Ok(Err(e)) => CompileOutcome::Err(e),
        Err(p) => CompileOutcome::Panic(p),
    }
}

pub fn compile_src(src: &str, target: Tgt, mode: Mode) -> CompileOutcome {
    let files = [("main.rssl".to_string(), src.to_string())];
    compile(&Job {
        entry: "main.rssl",
        files: &files,
        defines: &[],
        target,
        mode,
        validate_layout: false,
    })
}

/// Include handler reading from a directory on disk; `#include "x"` is looked up relative to the
/// including file first and then relative to the root (as the repository's own external tests do)
pub struct DiskFiles {
    pub root: std::path::PathBuf,
}

fn normalise(path: &str) -> String {
    let mut parts: Vec<&str> = Vec::new();
    for p in path.split('/') {
        match p {
            "" | "." => {}
            ".." => {
                parts.pop();
            }
            p => parts.push(p),
        }
    }
    parts.join("/")
}

impl rssl::text::IncludeHandler for DiskFiles {
    fn load(
        &mut self,
        file_name: &str,
        parent_name: &str,
    ) -> Result<rssl::text::FileData, rssl::text::IncludeError> {
        let parent_dir = match parent_name.rfind('/') {
            Some(i) => &parent_name[..i],
            None => "",
        };
        let candidates = [normalise(&format!("{}/{}", parent_dir, file_name)), normalise(file_name)];
        for c in candidates {
            let full = self.root.join(&c);
            if let Ok(bytes) = std::fs::read(&full) {
                return match String::from_utf8(bytes) {
                    Ok(contents) => Ok(rssl::text::FileData { real_name: c, contents }),
                    Err(_) => Err(rssl::text::IncludeError::FileNotText),
                };
            }
        }
        Err(rssl::text::IncludeError::FileNotFound)
    }
}

/// Compile a file of a directory on disk (the repository's own test inputs)
pub fn compile_disk(root: &str, entry: &str, target: Tgt, mode: Mode) -> CompileOutcome {
    let r = guard(|| {
        let mut inc = DiskFiles { root: std::path::PathBuf::from(root) };
        // the defines the repository's own external tests pass for the third-party corpus
        let defines = [("FFX_GPU", "1"), ("FFX_HLSL", "1"), ("globallycoherent", "")];
        let mut args = rssl::CompileArgs::new(entry, &mut inc, target.target())
            .defines(&defines)
            .support_buffer_address(target.buffer_address());
        match &mode {
            Mode::All => {}
            Mode::Named(n) => args = args.pipeline_name(Some(n.as_str())),
            Mode::NoPipeline => args = args.no_pipeline_mode(),
        }
        match rssl::compile(args) {
            Ok(ps) => Ok(ps
                .into_iter()
                .map(|p| PipeOut {
                    data: p.data,
                    stages: p
                        .stages
                        .iter()
                        .map(|s| (format!("{:?}", s.stage), s.entry_point.clone(), s.thread_group_size))
                        .collect(),
                    slots: slots_of(&p.metadata),
                    metadata: format!("{:?}", p.metadata),
                    state: format!("{:?}", p.graphics_pipeline_state),
                })
                .collect::<Vec<_>>()),
            Err(e) => Err(format!("{}", e)),
        }
    });
    match r {
        Ok(Ok(v)) => CompileOutcome::Ok(v),
        Ok(Err(e)) => CompileOutcome::Err(e),
        Err(p) => CompileOutcome::Panic(p),
    }
}

/// The repository's own shader inputs: (root directory, entry file) pairs found under /repo/tests
pub fn repo_corpus(repo: &str) -> Vec<(String, String)> {
    let mut out = Vec::new();
    let tests = format!("{}/tests", repo);
    let mut stack = vec![std::path::PathBuf::from(&tests)];
    while let Some(dir) = stack.pop() {
        let Ok(rd) = std::fs::read_dir(&dir) else { continue };
        let mut entries: Vec<_> = rd.filter_map(|e| e.ok()).map(|e| e.path()).collect();
        entries.sort();
        for p in entries {
            if p.is_dir() {
                stack.push(p);
            } else if let Some(ext) = p.extension().and_then(|e| e.to_str()) {
                if matches!(ext, "rssl" | "comp" | "frag" | "vert" | "geom")
                    || (ext == "hlsl" && p.to_string_lossy().contains("_pass.hlsl"))
                {
                    let rel = p.strip_prefix(&tests).unwrap().to_string_lossy().into_owned();
                    // root = first path component, entry = the rest
                    if let Some((root, entry)) = rel.split_once('/') {
                        out.push((format!("{}/{}", tests, root), entry.to_string()));
                    }
                }
            }
        }
    }
    out.sort();
    out
}

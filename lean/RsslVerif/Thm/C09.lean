import RsslVerif.Spec.Roundtrip
import RsslVerif.Lemmas.FmtParseTables
/-!
# C09 — printing a syntax tree and parsing it back are inverse (expression level)

Every statement below is about `Gen.FmtTables` / `Gen.ParseTables`, re-extracted from
`formatter.rs`, `parser/expressions.rs`, `lexer.rs`, `tokens.rs` on every run.
-/
namespace RsslVerif.Thm.C09
open RsslVerif.Gen.FmtTables RsslVerif.Gen.ParseTables RsslVerif.Model.Format RsslVerif.Model.Parse
open RsslVerif.Lemmas.FmtParseTables

/-- Spelling ↔ tokens: lexing the characters `format_bin_op` prints (followed by the space the formatter
always prints) with the lexer's own symbol tables gives exactly the token list the model uses. -/
theorem binToks_lexes : ∀ op : BinOp, lexSyms 8 (binSpellChars op ++ [' ']) = some (binToks op) := by
  intro op; cases op <;> decide

/-- Same for `format_unary_op`, whatever non-operator character follows. -/
theorem unTok_lexes : ∀ op : UnOp, lexSyms 8 (unSpellChars op) = some [unTok op] := by
  intro op; cases op <;> decide

/-- **tables_agree** (levels). For every binary operator: the parser loop of the level that corresponds to
its formatter precedence reads the printed tokens as that operator, and no tighter-binding loop takes them.
(`rest` = the operand that follows; `TermOk` = the terminators under which the parser accepts the operator at all.) -/
theorem tables_agree (op : BinOp) (term : Terminator) (rest : List Tok)
    (hr : OperandStart rest) (ht : TermOk op term) :
    parseOpAt (levelOfPrec (binPrec op)) term (binToks op ++ rest) = some (op, rest) ∧
    ∀ k, k < levelOfPrec (binPrec op) → parseOpAt k term (binToks op ++ rest) = none :=
  ⟨parseOpAt_own op term rest hr ht, fun k hk => parseOpAt_lower op term rest k hr hk⟩

/-- **tables_agree** (associativity). The formatter calls a precedence left-to-right exactly when the parser
level is one of the left-associative loops, and right-to-left exactly when it is the assignment level. -/
theorem assoc_agrees : ∀ op : BinOp,
    (assoc (binPrec op) = .LeftToRight ↔ leftAssocLevels.contains (levelOfPrec (binPrec op)) = true) ∧
    (assoc (binPrec op) = .RightToLeft ↔ levelOfPrec (binPrec op) = assignLevel) := by
  intro op; cases op <;> decide

/-- the conditional has the assignment precedence in the formatter and its own, tighter level in the parser -/
theorem ternary_level : precTernaryConditional = 16 ∧ assoc precTernaryConditional = .RightToLeft ∧
    ternaryLevel < assignLevel := by decide

/-- prefix operators: the parser's `unaryop_prefix` reads the printed token as the operator;
postfix operators print the tokens the postfix loop of `expr_p1` tests for. -/
theorem unary_tables_agree : ∀ op : UnOp,
    (isPostfix op = false → prefixOp (unTok op) = some op ∧ unPrec op = 3) ∧
    (isPostfix op = true → unPrec op = 2 ∧
      ((op = .PostfixIncrement ∧ unTok op = .p .PlusPlus) ∨ (op = .PostfixDecrement ∧ unTok op = .p .MinusMinus))) := by
  intro op; cases op <;> decide

/-- **glue_safe** for operator characters, part 1: a prefix operator directly followed by an operand that starts
with another prefix operator. The formatter separates exactly the pairs the lexer would merge into another token. -/
theorem glue_prefix_prefix : ∀ a b : UnOp, isPostfix a = false → isPostfix b = false →
    let glued := lexSyms 8 (unSpellChars a ++ unSpellChars b)
    let spaced := lexSyms 8 (unSpellChars a ++ [' '] ++ unSpellChars b)
    spaced = some [unTok a, unTok b] ∧
    (unSign a ≠ (unSpellChars b).head? → glued = some [unTok a, unTok b]) := by
  intro a b; cases a <;> cases b <;> decide

/-- **glue_safe**, part 2: a postfix operator is followed by a space or one of `) ] , . [ ( ;` or another postfix
operator; none of these merges with `++`/`--`. -/
theorem glue_postfix_next : ∀ a : UnOp, isPostfix a = true → ∀ c ∈ [')', ']', ',', '.', '[', '(', ';', '?'],
    lexSyms 8 (unSpellChars a ++ [c]) = (lexSyms 8 [c]).map (unTok a :: ·) := by
  intro a; cases a <;> decide

/-- the sign rule of the formatter is needed: without the space the text reads as another operator -/
theorem glue_needs_space : lexSyms 8 (unSpellChars .Minus ++ unSpellChars .Minus) = some [.p .MinusMinus] ∧
    lexSyms 8 (unSpellChars .Plus ++ unSpellChars .Plus) = some [.p .PlusPlus] ∧
    lexSyms 8 (unSpellChars .AddressOf ++ unSpellChars .AddressOf) = some [.p .AmpersandAmpersand] := by decide

end RsslVerif.Thm.C09

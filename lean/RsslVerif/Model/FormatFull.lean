import RsslVerif.Model.Format
import RsslVerif.Gen.SyntaxTables
/-!
# C09 model, printing half, full expression language and types

`Model/Format.lean` covers literals, identifiers, unary / binary / conditional / subscript / member / call.  This file
adds, on a type of its own (`XExpr`; the definitions of `Model/Format.lean` are used unchanged where they apply):

* casts `(T)e` (`ast::Expression::Cast`), `sizeof(T)` / `sizeof(e)` (`SizeOf(ExpressionOrType)`), template arguments
  of calls (`Call(object, template_args, args)`),
* type ids: modifiers, (scoped) name, template arguments (`format_type`, `format_type_layout`, `format_type_id`),
  declarators — abstract and named — with pointers, references, arrays (`format_declarator`),
* an expression-or-type position (`format_expression_or_type`).

Mirrors `format_subexpression` arm by arm; the tables come from `Gen.FmtTables` / `Gen.SyntaxTables`.
Not in the tree type (the driver answers `unsupported`): `BracedInit` (no production of the parser reads it), attributes
on declarators.  Two adjacent `&` of a reference to a reference would lex as one `&&` token: the driver answers
`unsupported` for such declarators (`Decl.glued`), the theorems exclude them.
-/
namespace RsslVerif.Model.FormatFull
open RsslVerif.Gen.FmtTables RsslVerif.Gen.ParseTables RsslVerif.Gen.SyntaxTables RsslVerif.Model.Format

/-! ## Syntax trees -/
mutual
inductive XExpr where
  | lit (l : Lit)
  | id (n : String)
  | un (op : UnOp) (e : XExpr)
  | bin (op : BinOp) (l r : XExpr)
  | tern (c a b : XExpr)
  | sub (o i : XExpr)
  | mem (o : XExpr) (n : String)
  /-- `Call(object, template_args, args)` -/
  | call (f : XExpr) (targs : TArgs) (args : XArgs)
  /-- `Cast(type_id, expr)` -/
  | cast (t : TyId) (e : XExpr)
  /-- `SizeOf(expression_or_type)` -/
  | sizeof (a : TArg)
inductive XArgs where
  | nil
  | cons (e : XExpr) (rest : XArgs)
/-- `ast::ExpressionOrType` -/
inductive TArg where
  | e (x : XExpr)
  | t (t : TyId)
  /-- `Either(expr, type)`: the text reads as both -/
  | both (x : XExpr) (t : TyId)
inductive TArgs where
  | nil
  | cons (a : TArg) (rest : TArgs)
/-- `ast::TypeId`: `Type { modifiers, layout = TypeLayout(name, template args) }` and a declarator -/
inductive TyId where
  | mk (mods : List TypeMod) (name : String) (targs : TArgs) (decl : Decl)
/-- `ast::Declarator` without attributes; `name` is `Identifier`, `arrN` an array without size -/
inductive Decl where
  | empty
  | name (n : String)
  | ptr (quals : List TypeMod) (inner : Decl)
  | ref (inner : Decl)
  | arr (inner : Decl) (size : XExpr)
  | arrN (inner : Decl)
end

deriving instance Repr for XExpr
deriving instance Repr for XArgs
deriving instance Repr for TArg
deriving instance Repr for TArgs
deriving instance Repr for TyId
deriving instance Repr for Decl

/-! ## Type modifiers -/

/-- token of a modifier: a keyword, or an identifier for the modifiers `parse_type_modifiers_before` recognises by name -/
def modTok (m : TypeMod) : Tok :=
  match modBeforeKw.find? (fun e => e.2 == m) with
  | some e => .p e.1
  | none => .id (modSpell m)

def modPiece (m : TypeMod) : Piece := .t (modTok m) (modSpell m)

/-- `format_type_modifiers(mods, space_before)` -/
def fmtMods (mods : List TypeMod) (spaceBefore : Bool) : List Piece :=
  match mods with
  | [] => []
  | m :: rest => (if spaceBefore then [.sp, modPiece m] else [modPiece m, .sp]) ++ fmtMods rest spaceBefore

/-! ## Pieces of punctuation used here -/
def ltT : Piece := .t (.lt true) "<"
def gtP (followedByToken : Bool) : Piece := .t (.gt followedByToken) ">"
def comma : Piece := pp .Comma
def sizeofP : Piece := .t (.p .SizeOf) "sizeof"

/-- is the first piece a token (so that a `>` printed just before carries `FollowedBy::Token`)? `dflt` for nothing -/
def startsTok (ps : List Piece) (dflt : Bool) : Bool :=
  match ps with
  | [] => dflt
  | .sp :: _ => false
  | .t _ _ :: _ => true

def XExpr.prec : XExpr → Nat
  | .lit l => litPrec l
  | .id _ => precIdentifier
  | .un op _ => unPrec op
  | .bin op _ _ => binPrec op
  | .tern _ _ _ => precTernaryConditional
  | .sub _ _ => precArraySubscript
  | .mem _ _ => precMember
  | .call _ _ _ => precCall
  | .cast _ _ => precCast
  | .sizeof _ => precSizeOf

/-- `false_is_assignment` of the conditional arm -/
def falseIsAssignmentX (b : XExpr) : Bool :=
  ternFalseAssignmentParens &&
  match b with
  | .bin op _ _ => binPrec op == precTernaryConditional && op != .Sequence
  | _ => false

/-- a reference directly inside a reference prints `&&` -/
def Decl.glued : Decl → Bool
  | .empty => false
  | .name _ => false
  | .ptr _ i => i.glued
  | .ref (.ref _) => true
  | .ref i => i.glued
  | .arr i _ => i.glued
  | .arrN i => i.glued

def Decl.isEmptyD : Decl → Bool
  | .empty => true
  | _ => false

def Decl.isRef : Decl → Bool
  | .ref _ => true
  | _ => false

/-- an abstract declarator (no name at its base) -/
def Decl.abstr : Decl → Bool
  | .empty => true
  | .name _ => false
  | .ptr _ i => i.abstr
  | .ref i => i.abstr
  | .arr i _ => i.abstr
  | .arrN i => i.abstr

def Decl.needsScope : Decl → Bool
  | .ptr _ _ => true
  | .ref _ => true
  | _ => false

/-- does the printed declarator start with `[`? (after `*` / `&` an attribute would be read there) -/
def Decl.startsBracket : Decl → Bool
  | .arr i _ => !i.needsScope && (i.isEmptyD || i.startsBracket)
  | .arrN i => !i.needsScope && (i.isEmptyD || i.startsBracket)
  | _ => false

/-- the object of a member access is an integer literal that `is_int_literal` parenthesises (07e6b1c) -/
def memObjParenX : XExpr → Bool
  | .lit l => litMemParen l
  | _ => false

mutual
/-- `format_subexpression expr outer side` -/
def fmtSubX : XExpr → Nat → Side → List Piece
  | .lit n, outer, side => wrap (needParen (litPrec n) outer side) (litPiecesT n)
  | .id n, outer, side => wrap (needParen precIdentifier outer side) [.t (.id n) n]
  | .un op x, outer, side =>
    let inner := fmtSubX x (unPrec op) (if isPostfix op then postfixOperandSide else prefixOperandSide)
    wrap (needParen (unPrec op) outer side)
      (if isPostfix op then inner ++ [unPiece op]
       else unPiece op :: (if startsWithSign op inner then .sp :: inner else inner))
  | .bin op l r, outer, side =>
    wrap (needParen (binPrec op) outer side)
      (fmtSubX l (binPrec op) binLeftSide ++ ((if spaceBeforeBin op then [.sp] else []) ++
        (binPieces op ++ (.sp :: fmtSubX r (binPrec op) binRightSide))))
  | .tern c a b, outer, side =>
    wrap (needParen precTernaryConditional outer side)
      (fmtSubX c precTernaryConditional ternCondSide ++ (.sp :: pp .QuestionMark :: .sp ::
        (fmtSubX a precTernaryConditional ternTrueSide ++ (.sp :: pp .Colon :: .sp ::
          wrap (falseIsAssignmentX b) (fmtSubX b precTernaryConditional ternFalseSide)))))
  | .sub o i, outer, side =>
    wrap (needParen precArraySubscript outer side)
      (fmtSubX o precArraySubscript subObjectSide ++ (pp .LeftSquareBracket ::
        (fmtSubX i precArraySubscript subIndexSide ++ [pp .RightSquareBracket])))
  | .mem o n, outer, side =>
    wrap (needParen precMember outer side)
      (wrap (memObjParenX o) (fmtSubX o precMember memObjectSide) ++ [pp .Period, .t (.id n) n])
  | .call f targs args, outer, side =>
    wrap (needParen precCall outer side)
      (fmtSubX f callObjectPrec callObjectSide ++ (fmtTArgs targs true ++
        (pp .LeftParen :: (fmtArgsX args ++ [pp .RightParen]))))
  | .cast t e, outer, side =>
    wrap (needParen precCast outer side)
      (pp .LeftParen :: (fmtTyId t true ++ (pp .RightParen :: fmtSubX e precCast castOperandSide)))
  | .sizeof a, outer, side =>
    wrap (needParen precSizeOf outer side) (sizeofP :: pp .LeftParen :: (fmtEOT a true ++ [pp .RightParen]))
/-- the argument list of a call: `a, b, c` -/
def fmtArgsX : XArgs → List Piece
  | .nil => []
  | .cons e .nil => fmtSubX e callArgPrec callArgSide
  | .cons e (.cons e' rest) =>
    fmtSubX e callArgMainPrec callArgMainSide ++ (comma :: .sp :: fmtArgsX (.cons e' rest))
/-- `format_expression_or_type`; `fol` = a token follows immediately (for the flag of a closing `>`) -/
def fmtEOT : TArg → Bool → List Piece
  | .e x, _ => fmtSubX x eotExprPrec eotExprSide
  | .both x _, _ => fmtSubX x eotExprPrec eotExprSide
  | .t ty, fol => fmtTyId ty fol
/-- `format_template_type_args` / the argument part of `format_type_layout`: nothing for an empty list -/
def fmtTArgs : TArgs → Bool → List Piece
  | .nil, _ => []
  | .cons a rest, fol => ltT :: (fmtEOT a true ++ (fmtTArgTail rest ++ [gtP fol]))
/-- `, b, c` of a template argument list (every element is followed by `,` or `>`) -/
def fmtTArgTail : TArgs → List Piece
  | .nil => []
  | .cons b rest => comma :: .sp :: (fmtEOT b true ++ fmtTArgTail rest)
/-- `format_type_id`: `format_type` (modifiers, each followed by a space; name; template arguments) and the
declarator printed with `single_declaration = true` -/
def fmtTyId : TyId → Bool → List Piece
  | .mk mods name targs decl, fol =>
    let d := fmtDecl decl true
    fmtMods mods false ++ (.t (.id name) name :: (fmtTArgs targs (startsTok d fol) ++ d))
/-- `format_declarator decl single_declaration` (no attributes) -/
def fmtDecl : Decl → Bool → List Piece
  | .empty, _ => []
  | .name n, single => (if single then [.sp] else []) ++ [.t (.id n) n]
  | .ptr quals inner, single => pp .Asterix :: (fmtMods quals single ++ fmtDecl inner single)
  | .ref inner, single => pp .Ampersand :: fmtDecl inner single
  | .arr inner size, single =>
    (if single && inner.needsScope then [.sp] else []) ++ ((if inner.needsScope then [pp .LeftParen] else []) ++
      (fmtDecl inner (single && !inner.needsScope) ++ ((if inner.needsScope then [pp .RightParen] else []) ++
        (pp .LeftSquareBracket :: (fmtSubX size arraySizePrec arraySizeSide ++ [pp .RightSquareBracket])))))
  | .arrN inner, single =>
    (if single && inner.needsScope then [.sp] else []) ++ ((if inner.needsScope then [pp .LeftParen] else []) ++
      (fmtDecl inner (single && !inner.needsScope) ++ ((if inner.needsScope then [pp .RightParen] else []) ++
        [pp .LeftSquareBracket, pp .RightSquareBracket])))
end

/-- `format_expression` -/
def fmtExprX (e : XExpr) : List Piece := fmtSubX e topPrec topSide

/-- `format_type`: a type without declarator, as printed in front of the declarators of a declaration -/
def fmtTy (mods : List TypeMod) (name : String) (targs : TArgs) (fol : Bool) : List Piece :=
  fmtMods mods false ++ (.t (.id name) name :: fmtTArgs targs fol)

/-! ## Which trees lie in the modelled subset of `format_literal` -/
mutual
def XExpr.supported : XExpr → Bool
  | .lit n => (litPieces n).isSome
  | .id _ => true
  | .un _ x => x.supported
  | .bin _ l r => l.supported && r.supported
  | .tern c a b => c.supported && a.supported && b.supported
  | .sub o i => o.supported && i.supported
  | .mem o _ => o.supported
  | .call f targs args => f.supported && targs.supported && args.supported
  | .cast t e => t.supported && e.supported
  | .sizeof a => a.supported
def XArgs.supported : XArgs → Bool
  | .nil => true
  | .cons e r => e.supported && r.supported
def TArg.supported : TArg → Bool
  | .e x => x.supported
  | .t t => t.supported
  | .both x t => x.supported && t.supported
def TArgs.supported : TArgs → Bool
  | .nil => true
  | .cons a r => a.supported && r.supported
def TyId.supported : TyId → Bool
  | .mk _ _ targs decl => targs.supported && decl.supported
def Decl.supported : Decl → Bool
  | .empty => true
  | .name _ => true
  | .ptr _ i => i.supported
  | .ref i => i.supported
  | .arr i s => i.supported && s.supported
  | .arrN i => i.supported
end

end RsslVerif.Model.FormatFull

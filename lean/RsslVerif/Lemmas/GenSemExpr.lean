import RsslVerif.Lemmas.GenSemLit
/-! Expressions: the emitted expression simulates the typed expression (`Sim`), by induction. -/
namespace RsslVerif.Lemmas.GenSem
open RsslVerif.Gen.HlslGenTables RsslVerif.Gen.HlslIntrinsicTables RsslVerif.Model RsslVerif.Model.GenHlsl RsslVerif.Spec.Sem
open RsslVerif.Model.Ir (Ty Var Const Dir)

theorem litlike_cases {e : Ir.Expr} (h : Ir.litlike e = true) : ∃ v, e = .lit (.int32 v) := by
  cases e with
  | lit c => cases c <;> simp [Ir.litlike] at h; exact ⟨_, rfl⟩
  | _ => simp [Ir.litlike] at h

theorem toInt_ne_zero (v : BitVec 32) : (v.toInt != 0) = (v != 0#32) := by
  by_cases hv : v = 0#32
  · subst hv; decide
  · have : v.toInt ≠ 0 := by
      intro h0
      apply hv
      have := BitVec.ofInt_toInt (x := v)
      rw [h0] at this
      rw [← this]; rfl
    have h1 : (v.toInt != 0) = true := by simpa using this
    have h2 : (v != 0#32) = true := by simpa using hv
    rw [h1, h2]

/-- converting the literal-int reading of a typed `Int32` constant gives what converting the constant gives -/
theorem castVal_lit_int (P : Prim) (T : Ty) (v : BitVec 32) : castVal P T (.lit v.toInt) = castVal P T (.i v) := by
  cases T <;> simp [castVal, BitVec.ofInt_toInt, toInt_ne_zero]

/-- not an unsuffixed constant: same static type, same evaluation -/
theorem Sim.plain {W : World} {env : Ast.Env} {e : Ir.Expr} {a : HlslAst.Expr} {t : Ty}
    (h : Sim W env e a t) (hl : Ir.litlike e = false) :
    Ast.typeOf W.sig env a = some t ∧ ∀ σ, Ast.eval W env a σ = Ir.eval W e σ := by
  obtain ⟨h1, h2⟩ := h
  refine ⟨by simpa [astTy, hl] using h1, fun σ => ?_⟩
  rw [h2 σ]
  cases Ir.eval W e σ <;> simp [astVal, hl]

/-- an unsuffixed constant: static type literal int, value the constant's integer -/
theorem Sim.lit {W : World} {env : Ast.Env} {a : HlslAst.Expr} {t : Ty} {v : BitVec 32}
    (h : Sim W env (.lit (.int32 v)) a t) :
    Ast.typeOf W.sig env a = some .lit ∧ ∀ σ, Ast.eval W env a σ = some (.lit v.toInt, σ) := by
  obtain ⟨h1, h2⟩ := h
  refine ⟨by simpa [astTy, Ir.litlike] using h1, fun σ => ?_⟩
  rw [h2 σ]
  simp [Ir.eval, Ir.constVal, astVal, Ir.litlike]

/-- the implicit conversion to the IR type recovers the IR value -/
theorem Sim.conv {W : World} {env : Ast.Env} {e : Ir.Expr} {a : HlslAst.Expr} {t : Ty} {vty : Var → Ty}
    (h : Sim W env e a t) (ht : Ir.typeOf W.sig vty e = some t) (σ : Store) :
    Ast.convR W.P (astTy e t) t (Ast.eval W env a σ) = Ir.eval W e σ := by
  by_cases hl : Ir.litlike e = true
  · obtain ⟨v, rfl⟩ := litlike_cases hl
    have := h.lit
    simp [Ir.typeOf, Const.ty] at ht
    subst ht
    simp [this.2 σ, astTy, Ir.litlike, Ast.convR, Ast.convert, castVal, Ir.eval, Ir.constVal, BitVec.ofInt_toInt]
  · have hl' : Ir.litlike e = false := by simpa using hl
    have := h.plain hl'
    rw [this.2 σ]
    cases hr : Ir.eval W e σ with
    | none => simp [Ast.convR]
    | some r => simp [Ast.convR, Ast.convert, astTy, hl']

/-- an explicit conversion applied to the emitted value gives what it gives on the IR value -/
theorem Sim.castR {W : World} {env : Ast.Env} {e : Ir.Expr} {a : HlslAst.Expr} {t : Ty}
    (h : Sim W env e a t) (T : Ty) (σ : Store) :
    castR W.P T (Ast.eval W env a σ) = castR W.P T (Ir.eval W e σ) := by
  by_cases hl : Ir.litlike e = true
  · obtain ⟨v, rfl⟩ := litlike_cases hl
    simp [h.lit.2 σ, Ir.eval, Ir.constVal, castVal_lit_int, Spec.Sem.castR]
  · have hl' : Ir.litlike e = false := by simpa using hl
    rw [(h.plain hl').2 σ]

set_option linter.unusedSimpArgs false

theorem op_unary {o : IntrinsicOp} {u : UnaryOp} (h : opForm o = .unary u) : astUnSem u = irOpSem o := by
  cases o <;> simp [opForm] at h <;> subst h <;> rfl
theorem op_binary {o : IntrinsicOp} {b : BinOp} (h : opForm o = .binary b) : astBinSem b = irOpSem o := by
  cases o <;> simp [opForm] at h <;> subst h <;> rfl

theorem lval_gen {cx : Ctx} {env : Ast.Env} (hag : Agree cx env) {x : Ir.Expr} {x' : HlslAst.Expr} {v : Var}
    (hl : Ir.lvalOf x = some v) (hg : genExpr cx x = .ok x') : Ast.lvalOf env x' = some v := by
  cases x with
  | var id =>
    simp [Ir.lvalOf] at hl; subst hl
    simp [genExpr] at hg; subst hg
    simpa [Ast.lvalOf, Ctx.name] using hag.res (.loc id)
  | global id =>
    simp [Ir.lvalOf] at hl; subst hl
    simp [genExpr] at hg; subst hg
    simpa [Ast.lvalOf, Ctx.name] using hag.res (.glob id)
  | _ => simp [Ir.lvalOf] at hl

theorem sim_un {W : World} {env : Ast.Env} {cx : Ctx} (hag : Agree cx env)
    {o : IntrinsicOp} {u : UnaryOp} {x : Ir.Expr} {x' : HlslAst.Expr} {tx t : Ty}
    (hu : opForm o = .unary u) (hgx : genExpr cx x = .ok x')
    (hx : Sim W env x x' tx) (htx : Ir.typeOf W.sig cx.vty x = some tx)
    (ht : Ir.typeOf W.sig cx.vty (.op o (.cons x .nil)) = some t)
    (hlit : Ir.litlike x = false) :
    Sim W env (.op o (.cons x .nil)) (.un u x') t := by
  have hs := op_unary hu
  obtain ⟨hty, hev⟩ := hx.plain hlit
  simp only [Ir.typeOf, htx] at ht
  cases hsem : irOpSem o with
  | un m =>
    rw [hsem] at ht hs
    constructor
    · cases m <;> cases tx <;> simp at ht <;> subst ht <;> simp [Ast.typeOf, hs, hty, astTy, Ir.litlike]
    · intro σ
      have hc : (if m = MUn.lnot then Ty.bool else tx) = tx := by
        cases m <;> cases tx <;> simp at ht <;> simp
      simp only [Ast.eval, hs, hty, hc, Ir.eval, hsem]
      rw [hev σ]
      cases hr : Ir.eval W x σ with
      | none => simp [Ast.convR]
      | some r =>
        obtain ⟨v, σ1⟩ := r
        simp only [Ast.convR, Ast.convert, if_pos rfl]
        cases hu2 : unop W.P m v <;> simp [hu2, astVal, Ir.litlike]
  | incdec pre inc =>
    rw [hsem] at ht hs
    simp at ht
    obtain ⟨hlv, rfl⟩ := ht
    obtain ⟨xv, hxv⟩ := Option.isSome_iff_exists.mp hlv
    have hl' := lval_gen hag hxv hgx
    constructor
    · simp [Ast.typeOf, hs, hty, astTy, Ir.litlike]
    · intro σ
      simp only [Ast.eval, hs, hl', Ir.eval, hsem, hxv]
      cases hs2 : step W.P inc (σ xv) <;> simp [hs2, astVal, Ir.litlike]
  | _ => rw [hsem] at ht; simp at ht

theorem litlike_ty {sig : Sig} {vty : Var → Ty} {e : Ir.Expr} {t : Ty}
    (ht : Ir.typeOf sig vty e = some t) (hl : Ir.litlike e = true) : t = .int := by
  obtain ⟨v, rfl⟩ := litlike_cases hl
  simp [Ir.typeOf, Const.ty] at ht
  exact ht.symm

theorem lval_ty {sig : Sig} {vty : Var → Ty} {e : Ir.Expr} {t : Ty} {v : Var}
    (ht : Ir.typeOf sig vty e = some t) (hl : Ir.lvalOf e = some v) : vty v = t ∧ Ir.litlike e = false := by
  cases e <;> simp [Ir.lvalOf] at hl <;> subst hl <;> simp [Ir.typeOf] at ht <;> simp [ht, Ir.litlike]

/-- the usual arithmetic conversions give the IR's operand type back when at most one operand is an unsuffixed constant -/
theorem common_astTy {sig : Sig} {vty : Var → Ty} {x y : Ir.Expr} {t : Ty}
    (hx : Ir.typeOf sig vty x = some t) (hy : Ir.typeOf sig vty y = some t)
    (hl : (Ir.litlike x && Ir.litlike y) = false) :
    Ast.common (astTy x t) (astTy y t) = some t := by
  by_cases h1 : Ir.litlike x = true
  · have := litlike_ty hx h1; subst this
    have h2 : Ir.litlike y = false := by simpa [h1] using hl
    simp [astTy, h1, h2, Ast.common]
  · have h1' : Ir.litlike x = false := by simpa using h1
    by_cases h2 : Ir.litlike y = true
    · have := litlike_ty hy h2; subst this
      simp [astTy, h1', h2, Ast.common]
    · have h2' : Ir.litlike y = false := by simpa using h2
      simp [astTy, h1', h2', Ast.common]

theorem sim_bin {W : World} {env : Ast.Env} {cx : Ctx} (hag : Agree cx env)
    {o : IntrinsicOp} {b : BinOp} {x y : Ir.Expr} {x' y' : HlslAst.Expr} {tx ty t : Ty}
    (hb : opForm o = .binary b) (hgx : genExpr cx x = .ok x')
    (hx : Sim W env x x' tx) (htx : Ir.typeOf W.sig cx.vty x = some tx)
    (hy : Sim W env y y' ty) (hty : Ir.typeOf W.sig cx.vty y = some ty)
    (ht : Ir.typeOf W.sig cx.vty (.op o (.cons x (.cons y .nil))) = some t)
    (hlit : (Ir.litlike x && Ir.litlike y) = false) :
    Sim W env (.op o (.cons x (.cons y .nil))) (.bin b x' y') t := by
  have hs := op_binary hb
  simp only [Ir.typeOf, htx, hty] at ht
  have hvty := hag.vty
  cases hsem : irOpSem o with
  | bin m =>
    rw [hsem] at ht hs
    simp at ht
    obtain ⟨rfl, ht⟩ := ht
    have hc := common_astTy htx hty hlit
    constructor
    · simp only [Ast.typeOf, hs, hx.1, hy.1, hc]
      cases hm : m.isCmp <;> simp [hm] at ht ⊢ <;> simp [ht, astTy, Ir.litlike]
    · intro σ
      simp only [Ast.eval, hs, hx.1, hy.1, hc, Ir.eval, hsem, hx.conv htx]
      cases h1 : Ir.eval W x σ with
      | none => simp
      | some r =>
        obtain ⟨va, σ1⟩ := r
        simp only [hy.conv hty]
        cases h2 : Ir.eval W y σ1 with
        | none => simp
        | some r2 =>
          obtain ⟨vb, σ2⟩ := r2
          cases h3 : binop W.P m va vb <;> simp [astVal, Ir.litlike]
  | land =>
    rw [hsem] at ht hs
    have hbb : tx = .bool ∧ ty = .bool ∧ t = .bool := by
      cases tx <;> cases ty <;> simp at ht <;> simp [ht]
    obtain ⟨rfl, rfl, rfl⟩ := hbb
    have lx : Ir.litlike x = false := by
      cases h : Ir.litlike x <;> simp; have := litlike_ty htx h; simp at this
    have ly : Ir.litlike y = false := by
      cases h : Ir.litlike y <;> simp; have := litlike_ty hty h; simp at this
    obtain ⟨tyx, evx⟩ := hx.plain lx
    obtain ⟨tyy, evy⟩ := hy.plain ly
    constructor
    · simp [Ast.typeOf, hs, tyx, tyy, astTy, Ir.litlike]
    · intro σ
      simp only [Ast.eval, hs, tyx, tyy, Ir.eval, hsem, evx, evy]
      cases h1 : Ir.eval W x σ with
      | none => simp [Ast.convR]
      | some r =>
        obtain ⟨va, σ1⟩ := r
        cases va <;> simp [Ast.convR, Ast.convert, astVal, Ir.litlike]
        rename_i bv
        cases bv <;> simp
        cases h2 : Ir.eval W y σ1 with
        | none => simp
        | some r2 =>
          obtain ⟨vb, σ2⟩ := r2
          cases vb <;> simp
  | lor =>
    rw [hsem] at ht hs
    have hbb : tx = .bool ∧ ty = .bool ∧ t = .bool := by
      cases tx <;> cases ty <;> simp at ht <;> simp [ht]
    obtain ⟨rfl, rfl, rfl⟩ := hbb
    have lx : Ir.litlike x = false := by
      cases h : Ir.litlike x <;> simp; have := litlike_ty htx h; simp at this
    have ly : Ir.litlike y = false := by
      cases h : Ir.litlike y <;> simp; have := litlike_ty hty h; simp at this
    obtain ⟨tyx, evx⟩ := hx.plain lx
    obtain ⟨tyy, evy⟩ := hy.plain ly
    constructor
    · simp [Ast.typeOf, hs, tyx, tyy, astTy, Ir.litlike]
    · intro σ
      simp only [Ast.eval, hs, tyx, tyy, Ir.eval, hsem, evx, evy]
      cases h1 : Ir.eval W x σ with
      | none => simp [Ast.convR]
      | some r =>
        obtain ⟨va, σ1⟩ := r
        cases va <;> simp [Ast.convR, Ast.convert, astVal, Ir.litlike]
        rename_i bv
        cases bv <;> simp
        cases h2 : Ir.eval W y σ1 with
        | none => simp
        | some r2 =>
          obtain ⟨vb, σ2⟩ := r2
          cases vb <;> simp
  | assign =>
    rw [hsem] at ht hs
    simp at ht
    obtain ⟨⟨rfl, hlv⟩, rfl⟩ := ht
    obtain ⟨xv, hxv⟩ := Option.isSome_iff_exists.mp hlv
    have hl' := lval_gen hag hxv hgx
    obtain ⟨hvx, lx⟩ := lval_ty htx hxv
    obtain ⟨tyx, _⟩ := hx.plain lx
    constructor
    · simp [Ast.typeOf, hs, tyx, hy.1, astTy, Ir.litlike]
    · intro σ
      simp only [Ast.eval, hs, hl', hy.1, Ir.eval, hsem, hxv, hvty, hvx, hy.conv hty]
      cases h1 : Ir.eval W y σ <;> simp [astVal, Ir.litlike]
  | compound m =>
    rw [hsem] at ht hs
    simp at ht
    obtain ⟨⟨rfl, hlv, _⟩, rfl⟩ := ht
    obtain ⟨xv, hxv⟩ := Option.isSome_iff_exists.mp hlv
    have hl' := lval_gen hag hxv hgx
    obtain ⟨hvx, lx⟩ := lval_ty htx hxv
    obtain ⟨tyx, _⟩ := hx.plain lx
    have hc := common_astTy htx hty (by simp [lx])
    have hc' : Ast.common tx (astTy y tx) = some tx := by simpa [astTy, lx] using hc
    constructor
    · simp [Ast.typeOf, hs, tyx, hy.1, astTy, Ir.litlike]
    · intro σ
      simp only [Ast.eval, hs, hl', hy.1, Ir.eval, hsem, hxv, hvty, hvx, hc', hy.conv hty]
      cases h1 : Ir.eval W y σ with
      | none => simp
      | some r =>
        obtain ⟨vb, σ1⟩ := r
        simp only [Ast.convert, if_pos rfl]
        cases h3 : binop W.P m (σ1 xv) vb <;> simp [h3, astVal, Ir.litlike, Ast.convert]
  | _ => rw [hsem] at ht; simp at ht

theorem typeName_tyOfName {ty : Ty} {n : String} (h : typeName ty = .ok n) (h1 : ty ≠ .lit) (h2 : ty ≠ .flit) :
    Ast.tyOfName n = some ty := by
  cases ty <;> simp [typeName, scalarKey, scalarTypeName] at h <;> first | contradiction | (subst h; rfl)

theorem sim_cast {W : World} {env : Ast.Env} {cx : Ctx}
    {ty : Ty} {x : Ir.Expr} {x' a : HlslAst.Expr} {tx t : Ty}
    (hgx : genExpr cx x = .ok x') (hg : genExpr cx (.cast ty x) = .ok a)
    (hx : Sim W env x x' tx) (htx : Ir.typeOf W.sig cx.vty x = some tx)
    (ht : Ir.typeOf W.sig cx.vty (.cast ty x) = some t) :
    Sim W env (.cast ty x) a t := by
  simp only [Ir.typeOf, htx] at ht
  by_cases hlt : ty = .lit ∨ ty = .flit
  · simp [hlt] at ht
  · simp [hlt] at ht
    subst ht
    simp only [genExpr, hgx, hlt, if_false] at hg
    cases hn : typeName ty with
    | error e => simp [hn] at hg
    | ok n =>
      simp [hn] at hg
      subst hg
      have htn := typeName_tyOfName hn (fun h => hlt (Or.inl h)) (fun h => hlt (Or.inr h))
      constructor
      · simp [Ast.typeOf, hx.1, htn, astTy, Ir.litlike]
      · intro σ
        simp only [Ast.eval, htn, Ir.eval]
        rw [hx.castR ty σ]
        cases castR W.P ty (Ir.eval W x σ) <;> simp [astVal, Ir.litlike]

theorem sim_tern {W : World} {env : Ast.Env} {cx : Ctx}
    {c f g : Ir.Expr} {c' f' g' : HlslAst.Expr} {tc tf tg t : Ty}
    (hc : Sim W env c c' tc) (htc : Ir.typeOf W.sig cx.vty c = some tc)
    (hf : Sim W env f f' tf) (htf : Ir.typeOf W.sig cx.vty f = some tf)
    (hg : Sim W env g g' tg) (htg : Ir.typeOf W.sig cx.vty g = some tg)
    (ht : Ir.typeOf W.sig cx.vty (.tern c f g) = some t)
    (hlit : (Ir.litlike f && Ir.litlike g) = false) :
    Sim W env (.tern c f g) (.tern c' f' g') t := by
  simp only [Ir.typeOf, htc, htf, htg] at ht
  have hb : tc = .bool ∧ tf = t ∧ tg = t := by
    cases tc <;> simp at ht
    obtain ⟨h1, h2⟩ := ht
    subst h1; subst h2; simp
  obtain ⟨rfl, rfl, rfl⟩ := hb
  have hcm := common_astTy htf htg hlit
  constructor
  · have : astTy (.tern c f g) tg = tg := by simp [astTy, Ir.litlike]
    rw [this]
    simp only [Ast.typeOf, hc.1, hf.1, hg.1, hcm]
  · intro σ
    have lc : Ir.litlike c = false := by
      cases h : Ir.litlike c <;> simp; have := litlike_ty htc h; simp at this
    have hcc := hc.conv htc σ
    simp only [astTy, lc, Bool.false_eq_true, if_false] at hcc
    have hct : Ast.typeOf W.sig env c' = some .bool := (hc.plain lc).1
    simp only [Ast.eval, hct, hf.1, hg.1, hcm, Ir.eval]
    rw [hcc]
    cases h1 : Ir.eval W c σ with
    | none => simp
    | some r =>
      obtain ⟨v, σ1⟩ := r
      cases v with
      | b bv =>
        cases bv
        · show Ast.convR W.P (astTy g tg) tg (Ast.eval W env g' σ1) = _
          rw [hg.conv htg]; cases hgv : Ir.eval W g σ1 <;> simp [hgv, astVal, Ir.litlike]
        · show Ast.convR W.P (astTy f tg) tg (Ast.eval W env f' σ1) = _
          rw [hf.conv htf]; cases hfv : Ir.eval W f σ1 <;> simp [hfv, astVal, Ir.litlike]
      | _ => simp

/-- what the induction proves about a `Sequence` -/
def SimSeq (W : World) (env : Ast.Env) (es : Ir.Exprs) (a : HlslAst.Expr) (t : Ty) : Prop :=
  Ast.typeOf W.sig env a = some t ∧ ∀ σ, Ast.eval W env a σ = Ir.evalSeq W es σ

/-- what the induction proves about an argument list -/
def SimArgs (W : World) (env : Ast.Env) (es : Ir.Exprs) (as : HlslAst.Exprs) (ps : List (Dir × Ty)) : Prop :=
  ∀ σ, Ast.evalArgs W env as ps σ = Ir.evalArgs W es ps σ

theorem genSeq_cons2 (cx : Ctx) (e e2 : Ir.Expr) (r : Ir.Exprs) :
    genSeq cx (.cons e (.cons e2 r)) =
      (match genSeq cx (.cons e2 r) with
        | .error err => .error err
        | .ok tail =>
          match genExpr cx e with
          | .error err => .error err
          | .ok a => .ok (.bin .Sequence a tail)) := by
  rw [genSeq] <;> rfl
theorem typeOfSeq_cons2 (sig : Sig) (vty : Var → Ty) (e e2 : Ir.Expr) (r : Ir.Exprs) :
    Ir.typeOfSeq sig vty (.cons e (.cons e2 r)) =
      (match Ir.typeOf sig vty e with
        | none => none
        | some _ => Ir.typeOfSeq sig vty (.cons e2 r)) := by
  rw [Ir.typeOfSeq]; cases Ir.typeOf sig vty e <;> rfl
theorem litOKSeq_cons2 (e e2 : Ir.Expr) (r : Ir.Exprs) :
    Ir.litOKSeq (.cons e (.cons e2 r)) = (Ir.litOK e && Ir.litOKSeq (.cons e2 r)) := by
  rw [Ir.litOKSeq]
theorem evalSeq_cons2 (W : World) (e e2 : Ir.Expr) (r : Ir.Exprs) (σ : Store) :
    Ir.evalSeq W (.cons e (.cons e2 r)) σ =
      (match Ir.eval W e σ with
        | none => none
        | some (_, σ1) => Ir.evalSeq W (.cons e2 r) σ1) := by
  rw [Ir.evalSeq] <;> rfl

/-- the exporter's name for a modelled intrinsic is the HLSL name of that very built-in (table re-extracted each run) -/
theorem builtins_table_ok :
    ∀ p ∈ Ast.builtins, intrinsicForm p.2 = .invoke p.1 ∧ Ast.hlslBuiltin p.1 = some p.2 := by decide

theorem builtin_of_form {i : Intrinsic} {name : String} (hm : Ast.modelledBuiltin i = true)
    (hf : intrinsicForm i = .invoke name) :
    Ast.hlslBuiltin name = some i ∧ ∃ p ∈ Ast.builtins, p.1 = name := by
  simp only [Ast.modelledBuiltin, List.any_eq_true] at hm
  obtain ⟨p, hp, hpi⟩ := hm
  have hpi' : p.2 = i := by simpa using hpi
  obtain ⟨h1, h2⟩ := builtins_table_ok p hp
  rw [hpi'] at h1 h2
  rw [hf] at h1
  have : name = p.1 := by injection h1
  exact ⟨by rw [this]; exact h2, p, hp, this.symm⟩

theorem argsType_cons2 (sig : Sig) (env : Ast.Env) (a b : HlslAst.Expr) (r : HlslAst.Exprs) :
    Ast.argsType sig env (.cons a (.cons b r)) =
      (match Ast.typeOf sig env a with
        | none => none
        | some ta =>
          match Ast.argsType sig env (.cons b r) with
          | none => none
          | some tr => Ast.common ta tr) := by
  rw [Ast.argsType]; cases Ast.typeOf sig env a <;> rfl

theorem genArgs_cons_ne_nil (cx : Ctx) (e : Ir.Expr) (r : Ir.Exprs) : genArgs cx (.cons e r) ≠ .ok .nil := by
  simp only [genArgs]
  cases genExpr cx e with
  | error _ => simp
  | ok a => cases genArgs cx r <;> simp

/-- what the induction proves about the arguments of a built-in of operand type `T` -/
def SimAll (W : World) (env : Ast.Env) (T : Ty) (es : Ir.Exprs) (as : HlslAst.Exprs) : Prop :=
  (∀ σ, Ast.evalAllT W env T as σ = Ir.evalAll W es σ) ∧
  (es ≠ .nil → Ast.argsType W.sig env as = some (if Ir.allLitlike es then .lit else T))

theorem allLitlike_ty {sig : Sig} {vty : Var → Ty} {T : Ty} :
    ∀ {es : Ir.Exprs}, es ≠ .nil → Ir.allTy sig vty T es = true → Ir.allLitlike es = true → T = .int
  | .nil, h, _, _ => absurd rfl h
  | .cons e r, _, hty, hl => by
    simp only [Ir.allTy, Bool.and_eq_true] at hty
    simp only [Ir.allLitlike, Bool.and_eq_true] at hl
    cases hte : Ir.typeOf sig vty e with
    | none => simp [hte] at hty
    | some t =>
      simp [hte] at hty
      have := litlike_ty hte hl.1
      rw [← hty.1]; exact this

mutual
theorem sim_expr {W : World} {env : Ast.Env} {cx : Ctx} (hag : Agree cx env) :
    ∀ (e : Ir.Expr) (a : HlslAst.Expr) (t : Ty),
      genExpr cx e = .ok a → Ir.typeOf W.sig cx.vty e = some t → Ir.litOK e = true → Sim W env e a t
  | .lit c, a, t, hg, ht, _ => by
    simp [Ir.typeOf] at ht; subst ht
    exact sim_lit W env c a (by simpa [genExpr] using hg)
  | .var id, a, t, hg, ht, _ => by
    simp [Ir.typeOf] at ht; subst ht
    simp [genExpr] at hg; subst hg
    have hr := hag.res (.loc id)
    simp only [Ctx.name] at hr
    constructor
    · simp [Ast.typeOf, hr, hag.vty, astTy, Ir.litlike]
    · intro σ; simp [Ast.eval, hr, Ir.eval, astVal, Ir.litlike]
  | .global id, a, t, hg, ht, _ => by
    simp [Ir.typeOf] at ht; subst ht
    simp [genExpr] at hg; subst hg
    have hr := hag.res (.glob id)
    simp only [Ctx.name] at hr
    constructor
    · simp [Ast.typeOf, hr, hag.vty, astTy, Ir.litlike]
    · intro σ; simp [Ast.eval, hr, Ir.eval, astVal, Ir.litlike]
  | .cast ty x, a, t, hg, ht, hl => by
    cases hgx : genExpr cx x with
    | error e => simp [genExpr, hgx] at hg
    | ok x' =>
      cases htx : Ir.typeOf W.sig cx.vty x with
      | none => simp [Ir.typeOf, htx] at ht
      | some tx =>
        have hx := sim_expr hag x x' tx hgx htx (by simpa [Ir.litOK] using hl)
        exact sim_cast hgx hg hx htx ht
  | .tern c f g, a, t, hg, ht, hl => by
    simp only [Ir.litOK, Bool.and_eq_true, Bool.not_eq_true'] at hl
    obtain ⟨⟨⟨lc, lf⟩, lg⟩, lfg⟩ := hl
    cases hgc : genExpr cx c with
    | error e => simp [genExpr, hgc] at hg
    | ok c' =>
      cases hgf : genExpr cx f with
      | error e => simp [genExpr, hgc, hgf] at hg
      | ok f' =>
        cases hgg : genExpr cx g with
        | error e => simp [genExpr, hgc, hgf, hgg] at hg
        | ok g' =>
          simp [genExpr, hgc, hgf, hgg] at hg; subst hg
          cases htc : Ir.typeOf W.sig cx.vty c with
          | none => simp [Ir.typeOf, htc] at ht
          | some tc =>
            cases htf : Ir.typeOf W.sig cx.vty f with
            | none => simp [Ir.typeOf, htc, htf] at ht
            | some tf =>
              cases htg : Ir.typeOf W.sig cx.vty g with
              | none => simp [Ir.typeOf, htc, htf, htg] at ht
              | some tg =>
                exact sim_tern (sim_expr hag c c' tc hgc htc lc) htc (sim_expr hag f f' tf hgf htf lf) htf
                  (sim_expr hag g g' tg hgg htg lg) htg ht lfg
  | .seq es, a, t, hg, ht, hl => by
    have hs : genSeq cx es = .ok a := by
      cases es with
      | nil => simp [genExpr] at hg
      | cons e r => cases r with
        | nil => simp [genExpr] at hg
        | cons e2 r2 => simpa [genExpr] using hg
    have := sim_seq hag es a t hs (by simpa [Ir.typeOf] using ht) (by simpa [Ir.litOK] using hl)
    constructor
    · simpa [astTy, Ir.litlike] using this.1
    · intro σ
      rw [this.2 σ]
      simp only [Ir.eval]
      cases Ir.evalSeq W es σ <;> simp [astVal, Ir.litlike]
  | .call f args, a, t, hg, ht, hl => by
    cases hga : genArgs cx args with
    | error e => simp [genExpr, hga] at hg
    | ok as =>
      simp [genExpr, hga] at hg; subst hg
      simp only [Ir.typeOf] at ht
      cases hsig : W.sig f with
      | none => simp [hsig] at ht
      | some s =>
        obtain ⟨rt, ps⟩ := s
        simp [hsig] at ht
        obtain ⟨hok, rfl⟩ := ht
        have hargs := sim_args hag args as ps hga hok (by simpa [Ir.litOK] using hl)
        constructor
        · simp [Ast.typeOf, hag.fres, hsig, astTy, Ir.litlike]
        · intro σ
          simp only [Ast.eval, hag.fres, hsig, Ir.eval, hargs σ]
          cases Ir.evalArgs W args ps σ with
          | none => simp
          | some r =>
            obtain ⟨vals, σ1⟩ := r
            cases W.phi f (List.map (fun x => x.fst) vals) σ1 <;> simp [astVal, Ir.litlike]
  | .intr i T ret args, a, t, hg, ht, hl => by
    simp only [Ir.litOK] at hl
    cases hf : intrinsicForm i with
    | unexpected => simp [genExpr, hf] at hg
    | method n => simp [genExpr, hf] at hg
    | addressMethod n1 n2 => simp [genExpr, hf] at hg
    | invoke name =>
      cases hga : genArgs cx args with
      | error e => simp [genExpr, hf, hga] at hg
      | ok as =>
        simp [genExpr, hf, hga] at hg; subst hg
        cases args with
        | nil => simp [Ir.typeOf] at ht
        | cons e0 r0 =>
          simp only [Ir.typeOf] at ht
          split at ht
          · rename_i hcond
            obtain ⟨hall, hret, hmod, hT1, hT2⟩ := hcond
            simp at ht; subst ht
            have hsa := sim_all hag T (.cons e0 r0) as hga hall hl
            obtain ⟨hb, p0, hp0, hpn⟩ := builtin_of_form hmod hf
            have hnone : env.fres name = none := by rw [← hpn]; exact hag.builtin p0 hp0
            have hat := hsa.2 (by simp)
            have hprom : Ast.promoteArg (if Ir.allLitlike (.cons e0 r0) = true then Ty.lit else T) = T := by
              by_cases hal : Ir.allLitlike (.cons e0 r0) = true
              · have := allLitlike_ty (by simp) hall hal
                subst this; simp [hal, Ast.promoteArg]
              · simp only [hal, Bool.false_eq_true, if_false]
                cases T <;> simp [Ast.promoteArg] at hT1 hT2 ⊢
            constructor
            · simp [Ast.typeOf, hnone, hb, hat, hprom, astTy, Ir.litlike, hret]
            · intro σ
              simp only [Ast.eval, hnone, hb, hat, hprom, hsa.1 σ, Ir.eval]
              cases Ir.evalAll W (.cons e0 r0) σ with
              | none => simp
              | some p =>
                obtain ⟨vals, σ1⟩ := p
                cases W.P.intr i T vals <;> simp [astVal, Ir.litlike]
          · simp at ht
  | .op o .nil, a, t, hg, ht, _ => by simp [Ir.typeOf] at ht
  | .op o (.cons x .nil), a, t, hg, ht, hl => by
    simp only [Ir.litOK, Bool.and_eq_true, Bool.not_eq_true'] at hl
    cases htx : Ir.typeOf W.sig cx.vty x with
    | none => simp only [Ir.typeOf, htx] at ht; split at ht <;> simp_all
    | some tx =>
      cases hf : opForm o with
      | unexpected => simp [genExpr, hf] at hg
      | binary b => simp [genExpr, hf] at hg
      | unary u =>
        cases hgx : genExpr cx x with
        | error e => simp [genExpr, hf, hgx] at hg
        | ok x' =>
          simp [genExpr, hf, hgx] at hg; subst hg
          exact sim_un hag hf hgx (sim_expr hag x x' tx hgx htx hl.1) htx ht hl.2
  | .op o (.cons x (.cons y .nil)), a, t, hg, ht, hl => by
    simp only [Ir.litOK, Bool.and_eq_true, Bool.not_eq_true'] at hl
    obtain ⟨⟨lx, ly⟩, lxy⟩ := hl
    cases htx : Ir.typeOf W.sig cx.vty x with
    | none => simp only [Ir.typeOf, htx] at ht; split at ht <;> simp_all
    | some tx =>
      cases hty : Ir.typeOf W.sig cx.vty y with
      | none => simp only [Ir.typeOf, htx, hty] at ht; split at ht <;> simp_all
      | some ty =>
        cases hf : opForm o with
        | unexpected => simp [genExpr, hf] at hg
        | unary u => simp [genExpr, hf] at hg
        | binary b =>
          cases hgx : genExpr cx x with
          | error e => simp [genExpr, hf, hgx] at hg
          | ok x' =>
            cases hgy : genExpr cx y with
            | error e => simp [genExpr, hf, hgx, hgy] at hg
            | ok y' =>
              simp [genExpr, hf, hgx, hgy] at hg; subst hg
              exact sim_bin hag hf hgx (sim_expr hag x x' tx hgx htx lx) htx (sim_expr hag y y' ty hgy hty ly) hty ht lxy
  | .op o (.cons x (.cons y (.cons z r))), a, t, hg, ht, _ => by simp [Ir.typeOf] at ht
theorem sim_seq {W : World} {env : Ast.Env} {cx : Ctx} (hag : Agree cx env) :
    ∀ (es : Ir.Exprs) (a : HlslAst.Expr) (t : Ty),
      genSeq cx es = .ok a → Ir.typeOfSeq W.sig cx.vty es = some t → Ir.litOKSeq es = true → SimSeq W env es a t
  | .nil, a, t, hg, ht, _ => by simp [Ir.typeOfSeq] at ht
  | .cons e .nil, a, t, hg, ht, hl => by
    simp only [Ir.litOKSeq, Bool.and_eq_true, Bool.not_eq_true'] at hl
    cases hte : Ir.typeOf W.sig cx.vty e with
    | none => simp [Ir.typeOfSeq, hte] at ht
    | some te =>
      simp [Ir.typeOfSeq, hte] at ht; subst ht
      have := (sim_expr hag e a te (by simpa [genSeq] using hg) hte hl.1).plain hl.2
      exact ⟨this.1, fun σ => by simp [Ir.evalSeq, this.2 σ]⟩
  | .cons e (.cons e2 r), a, t, hg, ht, hl => by
    rw [litOKSeq_cons2] at hl
    simp only [Bool.and_eq_true] at hl
    rw [typeOfSeq_cons2] at ht
    rw [genSeq_cons2] at hg
    cases hte : Ir.typeOf W.sig cx.vty e with
    | none => simp [hte] at ht
    | some te =>
      simp only [hte] at ht
      cases hgt : genSeq cx (.cons e2 r) with
      | error err => simp [hgt] at hg
      | ok tail =>
        cases hge : genExpr cx e with
        | error err => simp [hgt, hge] at hg
        | ok a1 =>
          simp [hgt, hge] at hg; subst hg
          have h1 := sim_expr hag e a1 te hge hte hl.1
          have h2 := sim_seq hag (.cons e2 r) tail t hgt ht hl.2
          constructor
          · simp [Ast.typeOf, astBinSem, h1.1, h2.1]
          · intro σ
            rw [evalSeq_cons2]
            simp only [Ast.eval, astBinSem, h1.1, h1.2 σ]
            cases Ir.eval W e σ with
            | none => simp
            | some r1 => simp [h2.2]
theorem sim_args {W : World} {env : Ast.Env} {cx : Ctx} (hag : Agree cx env) :
    ∀ (es : Ir.Exprs) (as : HlslAst.Exprs) (ps : List (Dir × Ty)),
      genArgs cx es = .ok as → Ir.argsOK W.sig cx.vty es ps = true → Ir.litOKArgs es = true → SimArgs W env es as ps
  | .nil, as, ps, hg, hok, _ => by
    simp [genArgs] at hg; subst hg
    intro σ
    cases ps <;> simp [Ast.evalArgs, Ir.evalArgs]
  | .cons e r, as, ps, hg, hok, hl => by
    simp only [Ir.litOKArgs, Bool.and_eq_true] at hl
    cases hge : genExpr cx e with
    | error err => simp [genArgs, hge] at hg
    | ok a1 =>
      cases hgr : genArgs cx r with
      | error err => simp [genArgs, hge, hgr] at hg
      | ok ar =>
        simp [genArgs, hge, hgr] at hg; subst hg
        cases ps with
        | nil => simp [Ir.argsOK] at hok
        | cons p ps' =>
          obtain ⟨d, T⟩ := p
          cases hte : Ir.typeOf W.sig cx.vty e with
          | none => simp [Ir.argsOK, hte] at hok
          | some te =>
            simp only [Ir.argsOK, hte, Bool.and_eq_true, decide_eq_true_eq, Bool.or_eq_true] at hok
            obtain ⟨⟨rfl, hd⟩, hrest⟩ := hok
            have h1 := sim_expr hag e a1 te hge hte hl.1
            have h2 := sim_args hag r ar ps' hgr hrest hl.2
            intro σ
            cases d with
            | in_ =>
              simp only [Ast.evalArgs, Ir.evalArgs, h1.1, h1.conv hte]
              cases Ir.eval W e σ with
              | none => simp
              | some r1 => simp [h2 _]
            | out =>
              simp at hd
              obtain ⟨xv, hxv⟩ := Option.isSome_iff_exists.mp hd
              simp only [Ast.evalArgs, Ir.evalArgs, lval_gen hag hxv hge, hxv, h2 σ]
            | inout =>
              simp at hd
              obtain ⟨xv, hxv⟩ := Option.isSome_iff_exists.mp hd
              simp only [Ast.evalArgs, Ir.evalArgs, lval_gen hag hxv hge, hxv, h2 σ]
theorem sim_all {W : World} {env : Ast.Env} {cx : Ctx} (hag : Agree cx env) (T : Ty) :
    ∀ (es : Ir.Exprs) (as : HlslAst.Exprs),
      genArgs cx es = .ok as → Ir.allTy W.sig cx.vty T es = true → Ir.litOKArgs es = true → SimAll W env T es as
  | .nil, as, hg, _, _ => by
    simp [genArgs] at hg; subst hg
    exact ⟨fun σ => by simp [Ast.evalAllT, Ir.evalAll], fun h => absurd rfl h⟩
  | .cons e r, as, hg, hty, hl => by
    simp only [Ir.litOKArgs, Bool.and_eq_true] at hl
    simp only [Ir.allTy, Bool.and_eq_true] at hty
    cases hge : genExpr cx e with
    | error err => simp [genArgs, hge] at hg
    | ok a1 =>
      cases hgr : genArgs cx r with
      | error err => simp [genArgs, hge, hgr] at hg
      | ok ar =>
        simp [genArgs, hge, hgr] at hg; subst hg
        cases hte : Ir.typeOf W.sig cx.vty e with
        | none => simp [hte] at hty
        | some te =>
          simp [hte] at hty
          obtain ⟨rfl, htyr⟩ := hty
          have h1 := sim_expr hag e a1 te hge hte hl.1
          have h2 := sim_all hag te r ar hgr htyr hl.2
          constructor
          · intro σ
            simp only [Ast.evalAllT, Ir.evalAll, h1.1, h1.conv hte]
            cases Ir.eval W e σ with
            | none => rfl
            | some p => obtain ⟨v, σ1⟩ := p; simp [h2.1 σ1]
          · intro _
            cases r with
            | nil =>
              simp [genArgs] at hgr; subst hgr
              simp [Ast.argsType, h1.1, astTy, Ir.allLitlike]
            | cons e2 r2 =>
              have hr := h2.2 (by simp)
              cases ar with
              | nil => exact absurd hgr (genArgs_cons_ne_nil cx e2 r2)
              | cons a2 ar2 =>
                rw [argsType_cons2]
                have hcons : Ir.allLitlike (.cons e (.cons e2 r2)) = (Ir.litlike e && Ir.allLitlike (.cons e2 r2)) := rfl
                rw [hcons]
                simp only [h1.1, hr]
                by_cases hrl : Ir.allLitlike (.cons e2 r2) = true
                · have hT : te = .int := allLitlike_ty (by simp) htyr hrl
                  subst hT
                  by_cases hel : Ir.litlike e = true
                  · simp [astTy, hel, hrl, Ast.common]
                  · have hel' : Ir.litlike e = false := by simpa using hel
                    simp [astTy, hel', hrl, Ast.common]
                · have hrl' : Ir.allLitlike (.cons e2 r2) = false := by simpa using hrl
                  by_cases hel : Ir.litlike e = true
                  · have hT := litlike_ty hte hel
                    subst hT
                    simp [astTy, hel, hrl', Ast.common]
                  · have hel' : Ir.litlike e = false := by simpa using hel
                    simp [astTy, hel', hrl', Ast.common]
end

end RsslVerif.Lemmas.GenSem

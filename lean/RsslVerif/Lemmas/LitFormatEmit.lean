import RsslVerif.Lemmas.LitFormat
/-!
# `format_literal` followed by the lexer (C10 `emit_value_exact`)

* `Spec.Dec2Bin`: a rational that is exactly a normal single is read through the double and narrowed once without
  loss (`narrow32_exact`, `single_through_double`) — the step that makes `1.0f`, `255.0h`, … provably stable.
* `Model.LitFormat`: the text `fmtInt` / `fmtFloat` print for a value lexes back to one token of the same kind with
  the same bits (`fmtInt_lexes`, `fmtFloat_lexes`).
-/
namespace RsslVerif.Spec.Dec2Bin

/-- decoding the encoding of a normal canonical pair -/
theorem decode_encode_normal (f : Fmt) (hp : 2 ≤ f.p) (m : Nat) (q : Int) (hq : f.emin ≤ q)
    (hlo : 2 ^ (f.p - 1) ≤ m) (hhi : m < 2 ^ f.p) : decode f (encode f m q) = (m, q) := by
  have hpp : 2 ^ f.p = 2 * 2 ^ (f.p - 1) := by
    have : f.p = (f.p - 1) + 1 := by omega
    rw [this, Nat.pow_succ, Nat.mul_comm]; simp
  have hP : 0 < 2 ^ (f.p - 1) := two_pow_pos _
  unfold decode encode
  dsimp only
  rw [hpp] at hhi
  generalize 2 ^ (f.p - 1) = P at *
  have hj : (q - f.emin).toNat * P + m = ((q - f.emin).toNat + 1) * P + (m - P) := by
    rw [Nat.add_mul]; omega
  have hdiv : ((q - f.emin).toNat * P + m) / P = (q - f.emin).toNat + 1 := by
    rw [hj, Nat.mul_comm, Nat.mul_add_div hP, Nat.div_eq_of_lt (by omega)]
  have hmod : ((q - f.emin).toNat * P + m) % P = m - P := by
    rw [hj, Nat.mul_comm, Nat.mul_add_mod, Nat.mod_eq_of_lt (by omega)]
  rw [hdiv, hmod]
  simp only [Nat.add_one_ne_zero, if_false]
  refine Prod.ext ?_ ?_
  · simp; omega
  · simp; omega

/-- **narrow32_exact**: a rational that is exactly a normal binary64 value `m' · 2^q'` is read through the double
without loss: narrowing its double once is rounding it to single directly -/
theorem narrow32_exact (N M : Nat) (hM : 0 < M) (m' : Nat) (q' : Int) (hq : binary64.emin ≤ q')
    (hlo : 2 ^ 52 ≤ m') (hhi : m' < 2 ^ 53) (hfin : encode binary64 m' q' < binary64.infBits)
    (h : N * 2 ^ (-q').toNat = m' * 2 ^ q'.toNat * M) :
    narrow32 (nearestRat binary64 N M) = nearestRat binary32 N M := by
  have hc : Canon binary64 m' q' := ⟨by omega, hq, hhi, fun _ => hlo⟩
  have h64 : nearestRat binary64 N M = encode binary64 m' q' := by
    rw [nearestRat_congr binary64 (by decide) N M _ _ hM (two_pow_pos _) h, nearestRat_exact binary64 (by decide) _ _ hc]
    exact Nat.min_eq_left (Nat.le_of_lt hfin)
  unfold narrow32
  rw [h64, if_neg (by omega), decode_encode_normal binary64 (by decide) m' q' hq hlo hhi]
  dsimp only
  by_cases hq0 : 0 ≤ q'
  · rw [if_pos hq0]
    apply nearestRat_congr binary32 (by decide) _ _ _ _ (by decide) hM
    have : (-q').toNat = 0 := by omega
    rw [this] at h
    simp at h
    rw [h]; simp
  · rw [if_neg hq0]
    apply nearestRat_congr binary32 (by decide) _ _ _ _ (two_pow_pos _) hM
    have : q'.toNat = 0 := by omega
    rw [this] at h
    simp at h
    rw [h, Nat.mul_comm]



theorem decode32_normal (mag : Nat) (hnorm : 2 ^ 23 ≤ mag) (hfin : mag < binary32.infBits) :
    2 ^ 23 ≤ (decode binary32 mag).1 ∧ (decode binary32 mag).1 < 2 ^ 24 ∧
    -149 ≤ (decode binary32 mag).2 ∧ (decode binary32 mag).2 ≤ 104 := by
  have hinf : binary32.infBits = 255 * 2 ^ 23 := by decide
  rw [hinf] at hfin
  unfold decode
  have hp : binary32.p - 1 = 23 := rfl
  have hemin : binary32.emin = -149 := rfl
  rw [hp, hemin]
  dsimp only
  have hdm := Nat.div_add_mod mag (2 ^ 23)
  have hml := Nat.mod_lt mag (show 0 < 2 ^ 23 by decide)
  have he1 : 1 ≤ mag / 2 ^ 23 := (Nat.le_div_iff_mul_le (by decide)).mpr (by omega)
  have he2 : mag / 2 ^ 23 < 255 := (Nat.div_lt_iff_lt_mul (by decide)).mpr (by omega)
  generalize mag / 2 ^ 23 = e at *
  generalize mag % 2 ^ 23 = fr at *
  have hne : ¬ e = 0 := by omega
  rw [if_neg hne]
  refine ⟨?_, ?_, ?_, ?_⟩ <;> dsimp only
  all_goals omega

/-- **single_through_double**: a rational that is exactly a normal single is read through the double and narrowed once
without loss: the result is that single's bit pattern -/
theorem single_through_double (mag : Nat) (hnorm : 2 ^ 23 ≤ mag) (hfin : mag < binary32.infBits) (N M : Nat) (hM : 0 < M)
    (h : N * 2 ^ (-(decode binary32 mag).2).toNat = (decode binary32 mag).1 * 2 ^ (decode binary32 mag).2.toNat * M) :
    narrow32 (nearestRat binary64 N M) = mag := by
  obtain ⟨hm1, hm2, hq1, hq2⟩ := decode32_normal mag hnorm hfin
  have h32 := nearestRat_of_bits binary32 (by decide) mag (by omega) hfin N M hM h
  generalize (decode binary32 mag).1 = m at *
  generalize (decode binary32 mag).2 = q at *
  have hemin : binary64.emin = -1074 := rfl
  have key : N * 2 ^ (-(q - 29)).toNat = m * 2 ^ 29 * 2 ^ (q - 29).toNat * M := by
    by_cases hq29 : 29 ≤ q
    · have e1 : (-(q - 29)).toNat = 0 := by omega
      have e2 : (-q).toNat = 0 := by omega
      have e3 : q.toNat = 29 + (q - 29).toNat := by omega
      rw [e1, Nat.pow_zero, Nat.mul_one]
      rw [e2, e3, Nat.pow_add, Nat.pow_zero, Nat.mul_one] at h
      rw [h]
      ac_rfl
    · by_cases hq0 : 0 ≤ q
      · have e1 : (q - 29).toNat = 0 := by omega
        have e2 : (-q).toNat = 0 := by omega
        have e3 : 29 = q.toNat + (-(q - 29)).toNat := by omega
        rw [e1, Nat.pow_zero, Nat.mul_one]
        rw [e2, Nat.pow_zero, Nat.mul_one] at h
        have hp : (2 : Nat) ^ 29 = 2 ^ q.toNat * 2 ^ (-(q - 29)).toNat := by rw [← Nat.pow_add, ← e3]
        rw [h, hp]
        generalize (2 : Nat) ^ q.toNat = A
        generalize (2 : Nat) ^ (-(q - 29)).toNat = B
        ac_rfl
      · have e1 : (q - 29).toNat = 0 := by omega
        have e2 : q.toNat = 0 := by omega
        have e3 : (-(q - 29)).toNat = (-q).toNat + 29 := by omega
        rw [e1, e3, Nat.pow_add, Nat.pow_zero, Nat.mul_one]
        rw [e2, Nat.pow_zero, Nat.mul_one] at h
        rw [← Nat.mul_assoc, h]
        generalize (2 : Nat) ^ 29 = C
        ac_rfl
  have := narrow32_exact N M hM (m * 2 ^ 29) (q - 29) (by rw [hemin]; omega) (by omega) (by omega) ?_ key
  · rw [this, h32]
  · unfold encode
    have hinf : binary64.infBits = 2047 * 2 ^ 52 := by decide
    have hp : binary64.p - 1 = 52 := rfl
    rw [hinf, hp, hemin]
    have : (q - 29 - -1074).toNat ≤ 1149 := by omega
    have h2 : (q - 29 - -1074).toNat * 2 ^ 52 ≤ 1149 * 2 ^ 52 := Nat.mul_le_mul this (Nat.le_refl _)
    omega

/-- a positive integer below `2^53` can be shifted into `[2^52, 2^53)` -/
theorem exists_shift (m : Nat) (h0 : 0 < m) (h : m < 2 ^ 53) :
    ∃ s, s ≤ 52 ∧ 2 ^ 52 ≤ m * 2 ^ s ∧ m * 2 ^ s < 2 ^ 53 := by
  have h1 : 2 ^ m.log2 ≤ m := Nat.log2_self_le (by omega)
  have h2 : m < 2 ^ (m.log2 + 1) := Nat.lt_log2_self
  have hl : m.log2 < 53 := (Nat.log2_lt (by omega)).mpr h
  refine ⟨52 - m.log2, by omega, ?_, ?_⟩
  · have : 2 ^ 52 = 2 ^ m.log2 * 2 ^ (52 - m.log2) := by rw [← Nat.pow_add]; congr 1; omega
    rw [this]; exact Nat.mul_le_mul_right _ h1
  · have : 2 ^ 53 = 2 ^ (m.log2 + 1) * 2 ^ (52 - m.log2) := by rw [← Nat.pow_add]; congr 1; omega
    rw [this]; exact Nat.mul_lt_mul_of_pos_right h2 (Nat.two_pow_pos _)

theorem decode32_subnormal (mag : Nat) (hsub : mag < 2 ^ 23) : decode binary32 mag = (mag, -149) := by
  unfold decode
  have hp : binary32.p - 1 = 23 := rfl
  have hemin : binary32.emin = -149 := rfl
  rw [hp, hemin]
  dsimp only
  rw [Nat.div_eq_of_lt hsub, Nat.mod_eq_of_lt hsub]
  simp

set_option exponentiation.threshold 2000 in
/-- **subnormal_through_double**: a subnormal single `mag · 2^-149` is a normal double; read through the double and
narrowed once it is that single again -/
theorem subnormal_through_double (mag : Nat) (h0 : 0 < mag) (hsub : mag < 2 ^ 23) :
    narrow32 (nearestRat binary64 mag (2 ^ 149)) = mag := by
  obtain ⟨s, hs, hlo, hhi⟩ := exists_shift mag h0 (by omega)
  have hemin : binary64.emin = -1074 := rfl
  have hdec := decode32_subnormal mag hsub
  have hfin32 : mag < binary32.infBits := by
    have : binary32.infBits = 255 * 2 ^ 23 := by decide
    omega
  have h32 : nearestRat binary32 mag (2 ^ 149) = mag := by
    apply nearestRat_of_bits binary32 (by decide) mag h0 hfin32 mag (2 ^ 149) (two_pow_pos _)
    rw [hdec]
    simp
  have e1 : (-(-149 - (s : Int))).toNat = 149 + s := by omega
  have e2 : (-149 - (s : Int)).toNat = 0 := by omega
  have := narrow32_exact mag (2 ^ 149) (two_pow_pos _) (mag * 2 ^ s) (-149 - (s : Int)) (by rw [hemin]; omega) hlo hhi ?_ ?_
  · rw [this, h32]
  · unfold encode
    have hinf : binary64.infBits = 2047 * 2 ^ 52 := by decide
    have hp : binary64.p - 1 = 52 := rfl
    rw [hinf, hp, hemin]
    have : (-149 - (s : Int) - -1074).toNat ≤ 925 := by omega
    have h2 : (-149 - (s : Int) - -1074).toNat * 2 ^ 52 ≤ 925 * 2 ^ 52 := Nat.mul_le_mul this (Nat.le_refl _)
    omega
  · rw [e1, e2, Nat.pow_add, Nat.pow_zero, Nat.mul_one]
    generalize (2 : Nat) ^ 149 = A
    generalize (2 : Nat) ^ s = B
    ac_rfl

end RsslVerif.Spec.Dec2Bin

namespace RsslVerif.Model.LitFormat
open RsslVerif.Model.Lexer RsslVerif.Spec RsslVerif.Gen.LexTables
set_option linter.unusedSimpArgs false

set_option exponentiation.threshold 2000 in
/-- **narrow32_widen**: `(v as f64) as f32 = v` for every finite single (zero, subnormal, normal): the double with the
same value narrows back to the single -/
theorem narrow32_widen (mag : Nat) (hfin : mag < Dec2Bin.binary32.infBits) : Dec2Bin.narrow32 (widen32 mag) = mag := by
  by_cases h0 : mag = 0
  · subst h0; decide
  · by_cases hsub : mag < 2 ^ 23
    · unfold widen32
      rw [Dec2Bin.decode32_subnormal mag hsub]
      simp only [show ¬ ((0 : Int) ≤ -149) by omega, if_false]
      have : (-(-149 : Int)).toNat = 149 := by omega
      rw [this]
      exact Dec2Bin.subnormal_through_double mag (by omega) hsub
    · unfold widen32
      dsimp only
      split
      · rename_i hq
        apply Dec2Bin.single_through_double mag (by omega) hfin _ 1 (by omega)
        have : (-(Dec2Bin.decode Dec2Bin.binary32 mag).2).toNat = 0 := by omega
        rw [this]
      · rename_i hq
        apply Dec2Bin.single_through_double mag (by omega) hfin _ _ (Dec2Bin.two_pow_pos _)
        have : (Dec2Bin.decode Dec2Bin.binary32 mag).2.toNat = 0 := by omega
        rw [this]; simp

/-- the suffix type the lexer reads back from the suffix `format_literal` writes (`none` for an integer kind) -/
def Kind.floatType? : Kind → Option (Option FloatType)
  | .float => some none
  | .f16 => some (some .Half)
  | .f32 => some (some .Float)
  | .f64 => some (some .Double)
  | _ => none

def Kind.intType? : Kind → Option (Option IntType)
  | .int => some none
  | .u32 => some (some .Unsigned32)
  | .u64 => some (some .Unsigned64)
  | .s64 => some (some .Signed64)
  | _ => none

/-- the token that carries a float of kind `k` with the (non-negative) bit pattern `mag` -/
def floatTok : Kind → Nat → Token
  | .f16, b => .litFloat16 b
  | .f32, b => .litFloat32 b
  | .f64, b => .litFloat64 b
  | _, b => .litFloat b

theorem digitByte_eq : @LitFormat.digitByte = @Lexer.digitByte := rfl

theorem kind_facts (k : Kind) (ty : Option FloatType) (hk : k.floatType? = some ty) :
    k.suffix = floatSuffix ty ∧ (k.fmt = Dec2Bin.binary64 ∨ k.fmt = Dec2Bin.binary32) ∧
    (∀ v, mkFloatToken v ty = floatTok k (narrowOnce ty v)) ∧
    (k.fmt = Dec2Bin.binary64 → ∀ v, narrowOnce ty v = v) ∧
    (k.fmt = Dec2Bin.binary32 → ∀ v, narrowOnce ty v = Dec2Bin.narrow32 v) := by
  cases k <;> simp [Kind.floatType?] at hk <;> subst hk <;>
    simp [Kind.suffix, floatSuffix, Kind.fmt, mkFloatToken, floatTok, narrowOnce, Dec2Bin.binary64, Dec2Bin.binary32]

/-- a whole value `n` is the decoded `m · 2^q` -/
theorem whole_rational (f : Dec2Bin.Fmt) (mag n : Nat) (hw : wholeValue? f mag = some n) :
    n * 2 ^ (-(Dec2Bin.decode f mag).2).toNat =
      (Dec2Bin.decode f mag).1 * 2 ^ (Dec2Bin.decode f mag).2.toNat * 1 := by
  unfold wholeValue? at hw
  dsimp only at hw
  generalize (Dec2Bin.decode f mag).1 = m at *
  generalize (Dec2Bin.decode f mag).2 = q at *
  split at hw
  · rename_i hq
    simp at hw
    have : (-q).toNat = 0 := by omega
    rw [this, ← hw]
  · rename_i hq
    split at hw
    · rename_i hmod
      simp at hw
      have : q.toNat = 0 := by omega
      rw [this, ← hw]
      simp
      exact Nat.div_mul_cancel (Nat.dvd_of_mod_eq_zero hmod)
    · cases hw

/-- a positive whole single is a normal one -/
theorem whole32_normal (mag n : Nat) (h0 : 0 < mag) (hw : wholeValue? Dec2Bin.binary32 mag = some n) :
    2 ^ 23 ≤ mag := by
  apply Nat.le_of_not_lt
  intro hlt
  unfold wholeValue? Dec2Bin.decode at hw
  have hp : Dec2Bin.binary32.p - 1 = 23 := rfl
  have hemin : Dec2Bin.binary32.emin = -149 := rfl
  rw [hp, hemin] at hw
  dsimp only at hw
  have he : mag / 2 ^ 23 = 0 := Nat.div_eq_of_lt hlt
  have hm : mag % 2 ^ 23 = mag := Nat.mod_eq_of_lt hlt
  rw [he, hm] at hw
  simp at hw
  have : mag % 2 ^ 149 = mag := Nat.mod_eq_of_lt (Nat.lt_of_lt_of_le hlt (Nat.pow_le_pow_right (by omega) (by omega)))
  omega

/-- `nearest64` of a digit string without exponent -/
theorem nearest64_int (L : List Nat) (hL : ∀ d ∈ L, d < 10) :
    Dec2Bin.nearest64 L 0 = Dec2Bin.nearestRat Dec2Bin.binary64 (Dec2Bin.ofDigits 10 L) 1 := by
  rw [Dec2Bin.nearest64_eq_nearestRat L 0 hL]; simp

set_option exponentiation.threshold 2000 in
/-- **whole_roundtrip**: the text `<digits of n>.0` of a whole finite value reads back as that value -/
theorem whole_roundtrip (k : Kind) (ty : Option FloatType) (hk : k.floatType? = some ty) (mag n : Nat)
    (hfin : mag < k.fmt.infBits) (hw : wholeValue? k.fmt mag = some n) (L : List Nat) (hL : ∀ d ∈ L, d < 10)
    (hval : Dec2Bin.ofDigits 10 L = n) :
    narrowOnce ty (Dec2Bin.nearest64 (L ++ [0]) (-1)) = mag := by
  obtain ⟨_, hfmt, _, h64, h32⟩ := kind_facts k ty hk
  rw [Dec2Bin.nearest64_append_zero L hL, nearest64_int L hL, hval]
  by_cases h0 : mag = 0
  · subst h0
    have hn : n = 0 := by
      rcases hfmt with hf | hf <;> rw [hf] at hw <;>
        simp [wholeValue?, Dec2Bin.decode, Dec2Bin.binary64, Dec2Bin.binary32] at hw <;> omega
    subst hn
    rcases hfmt with hf | hf
    · rw [h64 hf]; simp [Dec2Bin.nearestRat]
    · rw [h32 hf]; simp [Dec2Bin.nearestRat, Dec2Bin.narrow32, Dec2Bin.decode, Dec2Bin.binary64, Dec2Bin.Fmt.infBits]
  · have hpos : 0 < mag := Nat.pos_of_ne_zero h0
    have hr := whole_rational k.fmt mag n hw
    rcases hfmt with hf | hf
    · rw [h64 hf]
      rw [hf] at hr hfin
      exact Dec2Bin.nearestRat_of_bits Dec2Bin.binary64 (by decide) mag hpos hfin n 1 (by omega) hr
    · rw [h32 hf]
      rw [hf] at hr hfin hw
      exact Dec2Bin.single_through_double mag (whole32_normal mag n hpos hw) hfin n 1 (by omega) hr



/-- **fmtInt_lexes**: the text `format_literal` prints for an integer literal whose payload fits its kind, followed by
a boundary, is exactly one token: the literal of the same kind with the same value. -/
theorem fmtInt_lexes (k : Kind) (ity : Option IntType) (hk : k.intType? = some ity) (v : Nat) (tok : Token)
    (hfit : mkIntToken? v ity = some tok) (hv : v < 2 ^ 64) (hs : k = .s64 → v < 2 ^ 63)
    (rest : Bytes) (hb : IntBoundary rest) (inc : Bool) :
    tokenIntermediate (fmtInt k v ++ rest) inc = .ok (rest, tok) := by
  have hsfx : k.suffix = intSuffix ity := by
    cases k <;> simp [Kind.intType?] at hk <;> subst hk <;> rfl
  have hneg : ¬ (k = .s64 ∧ 2 ^ 63 ≤ v) := by
    intro h; have := hs h.1; omega
  unfold fmtInt
  rw [if_neg hneg, hsfx, List.append_assoc]
  exact tokenInt_printed v hv ity tok hfit rest hb inc

theorem signBit_gt (f : Dec2Bin.Fmt) (hf : f = Dec2Bin.binary64 ∨ f = Dec2Bin.binary32) : f.infBits < signBit f := by
  rcases hf with h | h <;> subst h <;> decide

/-- one printed float text `<digits>.<digits><suffix>`, read back -/
theorem printed_token (k : Kind) (ty : Option FloatType) (hk : k.floatType? = some ty) (mag : Nat)
    (rest : Bytes) (hb : Boundary rest) (inc : Bool)
    (l : Nat) (L' : List Nat) (r : Nat) (R' : List Nat) (h1 : ∀ d ∈ l :: L', d < 10) (h2 : ∀ d ∈ r :: R', d < 10)
    (h3 : narrowOnce ty (Dec2Bin.nearest64 ((l :: L') ++ (r :: R')) (0 - ((r :: R').length : Nat))) = mag) :
    tokenIntermediate (((l :: L').map Lexer.digitByte ++ 46 :: ((r :: R').map Lexer.digitByte ++ (floatSuffix ty ++ rest)))) inc
      = .ok (rest, floatTok k mag) := by
  obtain ⟨_, _, htok, _, _⟩ := kind_facts k ty hk
  have hp := literalFloat_printed l r L' R' h1 h2 ty rest hb
  rw [htok, h3] at hp
  exact token_of_float_ok inc (digitByte_range l (h1 l (by simp))) hp

/-- a plain decimal text: the digits `L`, and `.` followed by the digits `R` when there are any -/
def plainDec (L R : List Nat) : Bytes := L.map Lexer.digitByte ++ (if R = [] then [] else 46 :: R.map Lexer.digitByte)

theorem noDigitHead_nil : NoDigitHead [] := fun _ _ h => by cases h

theorem noDigitHead_dot (r : Bytes) : NoDigitHead (46 :: r) := by
  intro b r' h
  simp at h
  rw [← h.1]; decide

/-- `parsePlain` reads a plain decimal text back into its digit runs -/
theorem parsePlain_plainDec (L R : List Nat) (hL : L ≠ []) (hdig : ∀ d ∈ L ++ R, d < 10) :
    parsePlain (plainDec L R) = some (L, R) := by
  have hLd : ∀ d ∈ L, d < 10 := fun d hd => hdig d (List.mem_append_left _ hd)
  have hRd : ∀ d ∈ R, d < 10 := fun d hd => hdig d (List.mem_append_right _ hd)
  unfold parsePlain plainDec
  by_cases hR : R = []
  · subst hR
    rw [if_pos rfl, spanDigits_digits L hLd [] noDigitHead_nil]
    cases L with
    | nil => exact absurd rfl hL
    | cons l L' => rfl
  · rw [if_neg hR, spanDigits_digits L hLd _ (noDigitHead_dot _)]
    have h2 : spanDigits (R.map Lexer.digitByte) = (R, []) := by
      have := spanDigits_digits R hRd [] noDigitHead_nil
      simpa using this
    cases L with
    | nil => exact absurd rfl hL
    | cons l L' =>
      cases R with
      | nil => exact absurd rfl hR
      | cons r R' =>
        simp only []
        rw [h2]

/-- the single-precision kinds are the ones stored as binary32 -/
theorem kind_single (k : Kind) (ty : Option FloatType) (hk : k.floatType? = some ty) :
    (k = .f16 ∨ k = .f32) ↔ k.fmt = Dec2Bin.binary32 := by
  cases k <;> simp [Kind.floatType?] at hk <;> simp [Kind.fmt, Dec2Bin.binary64, Dec2Bin.binary32]

/-- how `fmtFloat` continues for a finite non-negative value that is not printed by name -/
theorem fmtFloat_finite (k : Kind) (ty : Option FloatType) (hk : k.floatType? = some ty) (msl : Bool)
    (mag : Nat) (hfin : mag < k.fmt.infBits) (hmax : ¬ (k = .f32 ∧ msl = true ∧ mag = k.fmt.infBits - 1))
    (disp disp64 : Bytes) :
    fmtFloat k msl mag disp disp64 =
      (match wholeValue? k.fmt mag with
       | some n =>
         if n ≤ 2 ^ 63 then .ok (decText (Nat.min n (2 ^ 63 - 1)) ++ dotZero ++ k.suffix)
         else .ok (disp ++ dotZero ++ k.suffix)
       | none =>
         if k = .f16 ∨ k = .f32 then
           (match roundTwice? false mag disp with
            | some true => .ok (disp64 ++ k.suffix)
            | some false => .ok (disp ++ k.suffix)
            | none => .error notPlain)
         else .ok (disp ++ k.suffix)) := by
  obtain ⟨_, hfmt, _, _, _⟩ := kind_facts k ty hk
  have hsb := signBit_gt k.fmt hfmt
  have hmod : mag % signBit k.fmt = mag := Nat.mod_eq_of_lt (by omega)
  have hnneg : ¬ signBit k.fmt ≤ mag := by omega
  unfold fmtFloat
  simp only [hmod, hnneg, decide_false, Nat.not_lt.mpr (Nat.le_of_lt hfin), Nat.ne_of_lt hfin, if_false]
  simp only [true_and, Bool.false_eq_true, and_false, if_false]
  rw [if_neg hmax]
  cases wholeValue? k.fmt mag with
  | none => rfl
  | some n => by_cases hn : n ≤ 2 ^ 63 <;> simp [hn]

/-- **fmtFloat_whole_lexes**: a finite non-negative float whose value is a whole number up to `2^63` (`1.0f`, `255.0h`,
`0.0`, `16777216.0L` …) is printed through `v as i64` as `<integer>.0<suffix>`, and that text followed by a boundary is
exactly one token: the float literal of the same kind with the same bits.  No assumption: the digits are `Display` of an
integer (`decDigits_spec`), the nearest double of an exactly representable value is that value
(`nearestRat_of_bits`), and narrowing it once to single is exact (`single_through_double`). -/
theorem fmtFloat_whole_lexes (k : Kind) (ty : Option FloatType) (hk : k.floatType? = some ty) (msl : Bool)
    (mag n : Nat) (hfin : mag < k.fmt.infBits) (hmax : ¬ (k = .f32 ∧ msl = true ∧ mag = k.fmt.infBits - 1))
    (hw : wholeValue? k.fmt mag = some n) (hn : n ≤ 2 ^ 63) (disp disp64 : Bytes)
    (rest : Bytes) (hb : Boundary rest) (inc : Bool) :
    ∃ text, fmtFloat k msl mag disp disp64 = .ok text ∧
      tokenIntermediate (text ++ rest) inc = .ok (rest, floatTok k mag) := by
  obtain ⟨hsfx, _, _, _, _⟩ := kind_facts k ty hk
  refine ⟨decText (Nat.min n (2 ^ 63 - 1)) ++ dotZero ++ k.suffix, ?_, ?_⟩
  · rw [fmtFloat_finite k ty hk msl mag hfin hmax disp disp64, hw]; simp [hn]
  obtain ⟨d, ds, hdd, hlt, hval, _, _⟩ := decDigits_spec (Nat.min n (2 ^ 63 - 1))
  have htxt : decText (Nat.min n (2 ^ 63 - 1)) = (d :: ds).map Lexer.digitByte := by
    unfold decText; rw [hdd]; rfl
  rw [htxt, hsfx]
  have hstr : dotZero = [46, 48] := rfl
  simp only [hstr, List.append_assoc, List.cons_append, List.nil_append]
  have h48 : (48 : UInt8) = Lexer.digitByte 0 := rfl
  rw [h48]
  have := printed_token k ty hk mag rest hb inc d ds 0 [] hlt (by simp) ?_
  · simpa using this
  · show narrowOnce ty (Dec2Bin.nearest64 ((d :: ds) ++ [0]) (0 - ((1 : Nat) : Int))) = mag
    have hm1 : (0 - ((1 : Nat) : Int)) = -1 := by omega
    rw [hm1]
    by_cases hlt63 : n < 2 ^ 63
    · have hmin : Nat.min n (2 ^ 63 - 1) = n := Nat.min_eq_left (by omega)
      rw [hmin] at hval
      exact whole_roundtrip k ty hk mag n hfin hw (d :: ds) hlt hval
    · -- `2^63` saturates to `i64::MAX`, whose nearest double (and single) is `2^63` again
      have hn63 : n = 2 ^ 63 := by omega
      have hmin : Nat.min n (2 ^ 63 - 1) = 2 ^ 63 - 1 := by rw [hn63]; decide
      rw [hmin] at hval
      have hA := whole_roundtrip k ty hk mag n hfin hw
      obtain ⟨d2, ds2, hdd2, hlt2, hval2, _, _⟩ := decDigits_spec n
      have hB := hA (d2 :: ds2) hlt2 hval2
      rw [Dec2Bin.nearest64_append_zero _ hlt2, nearest64_int _ hlt2, hval2, hn63] at hB
      rw [Dec2Bin.nearest64_append_zero _ hlt, nearest64_int _ hlt, hval]
      have hsame : Dec2Bin.nearestRat Dec2Bin.binary64 (2 ^ 63 - 1) 1 =
          Dec2Bin.nearestRat Dec2Bin.binary64 (2 ^ 63) 1 := by decide
      rw [hsame]; exact hB

/-- **fmtFloat_lexes**: what `format_literal` prints for a finite non-negative float — `<v as i64>.0`, `<Display>.0`,
`<Display>`, or (a single whose `Display` digits round twice) `<Display of the value as a double>`, each followed by
the suffix — followed by a boundary, is exactly one token: the float literal of the same kind with the same bits.
About Rust's `Display` it is assumed that it writes plain decimal digits, with a `.` exactly for non-integers.  That the
nearest double of those digits (narrowed once for the single-precision kinds) is the value (`hrt`) is assumed only for
the double-precision kinds and for whole singles above `2^63` (printed `<Display>.0`): for every other single
`format_literal` tests it (`f32_digits_round_twice`, fix 265a080) and, when it fails, prints the digits of the same value
as a double, about which it is assumed (`h64`) that they are a plain decimal with a `.` whose nearest double is that
double (`widen32 mag`) — narrowing it once gives the single back (`narrow32_widen`).  The branch that prints through
`v as i64` needs no assumption (`fmtFloat_whole_lexes`). -/
theorem fmtFloat_lexes (k : Kind) (ty : Option FloatType) (hk : k.floatType? = some ty) (msl : Bool)
    (mag : Nat) (hfin : mag < k.fmt.infBits) (hmax : ¬ (k = .f32 ∧ msl = true ∧ mag = k.fmt.infBits - 1))
    (disp : Bytes) (L R : List Nat) (hLne : L ≠ []) (hdig : ∀ d ∈ L ++ R, d < 10)
    (htext : disp = plainDec L R)
    (hdot : R = [] ↔ (wholeValue? k.fmt mag).isSome)
    (hrt : k.fmt = Dec2Bin.binary64 ∨ (wholeValue? k.fmt mag).isSome →
      narrowOnce ty (Dec2Bin.nearest64 (L ++ R) (0 - (R.length : Nat))) = mag)
    (disp64 : Bytes) (L2 R2 : List Nat)
    (h64 : k.fmt = Dec2Bin.binary32 → wholeValue? k.fmt mag = none →
      Dec2Bin.narrow32 (Dec2Bin.nearest64 (L ++ R) (0 - (R.length : Nat))) ≠ mag →
      L2 ≠ [] ∧ R2 ≠ [] ∧ (∀ d ∈ L2 ++ R2, d < 10) ∧ disp64 = plainDec L2 R2 ∧
      Dec2Bin.nearest64 (L2 ++ R2) (0 - (R2.length : Nat)) = widen32 mag)
    (text : Bytes) (h : fmtFloat k msl mag disp disp64 = .ok text) (rest : Bytes) (hb : Boundary rest) (inc : Bool) :
    tokenIntermediate (text ++ rest) inc = .ok (rest, floatTok k mag) := by
  obtain ⟨hsfx, hfmt, _, _, h32⟩ := kind_facts k ty hk
  cases hw : wholeValue? k.fmt mag with
  | none =>
    have hR : R ≠ [] := by
      intro hR; have := hdot.mp hR; rw [hw] at this; cases this
    -- the text `<digits>.<digits><suffix>` of digit runs whose reading is the value
    have key : ∀ (A B : List Nat), A ≠ [] → B ≠ [] → (∀ d ∈ A ++ B, d < 10) →
        narrowOnce ty (Dec2Bin.nearest64 (A ++ B) (0 - (B.length : Nat))) = mag →
        tokenIntermediate ((plainDec A B ++ k.suffix) ++ rest) inc = .ok (rest, floatTok k mag) := by
      intro A B hA hB hAB hval
      cases A with
      | nil => exact absurd rfl hA
      | cons a A' =>
        cases B with
        | nil => exact absurd rfl hB
        | cons b B' =>
          unfold plainDec
          rw [hsfx]
          simp only [if_neg hB, List.append_assoc, List.cons_append]
          exact printed_token k ty hk mag rest hb inc a A' b B' (fun d hd => hAB d (List.mem_append_left _ hd))
            (fun d hd => hAB d (List.mem_append_right _ hd)) hval
    rw [fmtFloat_finite k ty hk msl mag hfin hmax disp disp64, hw] at h
    by_cases hs : k = .f16 ∨ k = .f32
    · have hf : k.fmt = Dec2Bin.binary32 := (kind_single k ty hk).mp hs
      have hrt2 : roundTwice? false mag disp =
          some (Dec2Bin.narrow32 (Dec2Bin.nearest64 (L ++ R) (0 - (R.length : Nat))) != mag) := by
        unfold roundTwice?
        simp only [Bool.false_eq_true, if_false]
        rw [htext, parsePlain_plainDec L R hLne hdig]
      simp only [if_pos hs, hrt2] at h
      by_cases heq : Dec2Bin.narrow32 (Dec2Bin.nearest64 (L ++ R) (0 - (R.length : Nat))) = mag
      · have hb' : (Dec2Bin.narrow32 (Dec2Bin.nearest64 (L ++ R) (0 - (R.length : Nat))) != mag) = false := by
          simpa using heq
        rw [hb'] at h
        simp at h
        subst h
        rw [htext]
        exact key L R hLne hR hdig (by rw [h32 hf]; exact heq)
      · have hb' : (Dec2Bin.narrow32 (Dec2Bin.nearest64 (L ++ R) (0 - (R.length : Nat))) != mag) = true := by
          simpa using heq
        rw [hb'] at h
        simp at h
        subst h
        obtain ⟨hL2, hR2, hd2, ht2, hv2⟩ := h64 hf hw heq
        rw [ht2]
        refine key L2 R2 hL2 hR2 hd2 ?_
        rw [h32 hf, hv2]
        exact narrow32_widen mag (by rw [← hf]; exact hfin)
    · have hf : k.fmt = Dec2Bin.binary64 := by
        rcases hfmt with hf | hf
        · exact hf
        · exact absurd ((kind_single k ty hk).mpr hf) hs
      simp only [if_neg hs] at h
      simp at h
      subst h
      rw [htext]
      exact key L R hLne hR hdig (hrt (Or.inl hf))
  | some n =>
    by_cases hn : n ≤ 2 ^ 63
    · obtain ⟨t, ht, hlex⟩ := fmtFloat_whole_lexes k ty hk msl mag n hfin hmax hw hn disp disp64 rest hb inc
      rw [ht] at h
      simp at h
      subst h
      exact hlex
    · rw [fmtFloat_finite k ty hk msl mag hfin hmax disp disp64, hw] at h
      simp [hn] at h
      subst h
      have hR : R = [] := hdot.mpr (by rw [hw]; rfl)
      subst hR
      have hrt' := hrt (Or.inr (by rw [hw]; rfl))
      cases L with
      | nil => exact absurd rfl hLne
      | cons l L' =>
        rw [htext, hsfx]
        unfold plainDec
        have hstr : dotZero = [46, 48] := rfl
        simp only [if_pos, hstr, List.append_assoc, List.cons_append, List.nil_append, List.append_nil]
        have h48 : (48 : UInt8) = Lexer.digitByte 0 := rfl
        rw [h48]
        have hL' : ∀ d ∈ l :: L', d < 10 := fun d hd => hdig d (by simpa using hd)
        have := printed_token k ty hk mag rest hb inc l L' 0 [] hL' (by simp) ?_
        · simpa using this
        · show narrowOnce ty (Dec2Bin.nearest64 ((l :: L') ++ [0]) (0 - ((1 : Nat) : Int))) = mag
          have hm1 : (0 - ((1 : Nat) : Int)) = -1 := by omega
          rw [hm1, Dec2Bin.nearest64_append_zero _ hL']
          simpa using hrt'



/-- **fmtFloat_inf_lexes**: `+∞` is printed for HLSL as `1.#INF<suffix>`, and that text followed by a boundary is exactly
one token: the float literal of the same kind holding `+∞`. -/
theorem fmtFloat_inf_lexes (k : Kind) (ty : Option FloatType) (hk : k.floatType? = some ty) (disp disp64 : Bytes)
    (rest : Bytes) (hb : Boundary rest) (inc : Bool) :
    ∃ text, fmtFloat k false k.fmt.infBits disp disp64 = .ok text ∧
      tokenIntermediate (text ++ rest) inc = .ok (rest, floatTok k k.fmt.infBits) := by
  obtain ⟨hsfx, hfmt, htok, h64, h32⟩ := kind_facts k ty hk
  have hsb := signBit_gt k.fmt hfmt
  refine ⟨infHlsl ++ k.suffix, ?_, ?_⟩
  · unfold fmtFloat
    have hmod : k.fmt.infBits % signBit k.fmt = k.fmt.infBits := Nat.mod_eq_of_lt hsb
    have hnneg : ¬ signBit k.fmt ≤ k.fmt.infBits := by omega
    simp [hmod, hnneg, infText]
  · rw [hsfx]
    have hnd := noDigit_suffix ty rest hb
    have hsh := suffix_head ty rest hb
    have hft := floatType_suffix ty rest hb
    have hex : opt (floatExponent (35 :: 73 :: 78 :: 70 :: (floatSuffix ty ++ rest))) (35 :: 73 :: 78 :: 70 :: (floatSuffix ty ++ rest))
        = (35 :: 73 :: 78 :: 70 :: (floatSuffix ty ++ rest), none) :=
      floatExponent_none _ (fun b r h => by simp at h; rw [← h.1]; decide)
    have hv : Dec2Bin.nearest64 [1] 0 = 0x3ff0000000000000 := by decide
    have hlf : literalFloat (infHlsl ++ (floatSuffix ty ++ rest)) = .ok (rest, mkFloatToken Dec2Bin.binary64.infBits ty) := by
      have hfc : fractionalConstant (infHlsl ++ (floatSuffix ty ++ rest)) =
          .ok (35 :: 73 :: 78 :: 70 :: (floatSuffix ty ++ rest), ([1], [])) := by
        simp [fractionalConstant, infHlsl, digitSequence, digitWith, decDigit?, spanDigits, opt, wrongChars]
      have hm : floatMantissa (infHlsl ++ (floatSuffix ty ++ rest)) =
          .ok (35 :: 73 :: 78 :: 70 :: (floatSuffix ty ++ rest), (true, [1], [])) := by
        unfold floatMantissa
        rw [hfc]
        simp [opt]
      unfold literalFloat
      rw [hm]
      simp only [hex, float64FromParts, List.append_nil, List.length_nil, Option.getD_none, Option.isSome_none]
      have : ((0 : Int) - ((0 : Nat) : Int)) = 0 := by omega
      rw [this, hv]
      have hfi : floatInf (35 :: 73 :: 78 :: 70 :: (floatSuffix ty ++ rest)) 0x3ff0000000000000 false =
          .ok (floatSuffix ty ++ rest, Dec2Bin.binary64.infBits) := by
        simp [floatInf, stripPrefix?]
      rw [hfi]
      dsimp only
      rw [hft]
      cases rest with
      | nil => rfl
      | cons c r5 =>
        have := (hb c r5 rfl).1
        simp [this]
    have hinf : floatTok k (narrowOnce ty Dec2Bin.binary64.infBits) = floatTok k k.fmt.infBits := by
      rcases hfmt with hf | hf
      · rw [h64 hf, hf]
      · rw [h32 hf, hf]; rfl
    rw [htok, hinf] at hlf
    rw [List.append_assoc]
    exact token_of_float_ok (b := 49) inc (by decide) hlf

end RsslVerif.Model.LitFormat

namespace RsslVerif.Model.Lexer
open RsslVerif.Gen.LexTables RsslVerif.Spec
set_option linter.unusedSimpArgs false

/-- `-` directly followed by a digit is the token `Minus` (the digit starts the next token): how a negative literal,
printed as `-` applied to the magnitude, is read back -/
theorem minus_before_digit (d : UInt8) (r : Bytes) (hd : 48 ≤ d.toNat ∧ d.toNat ≤ 57) (inc : Bool) :
    tokenIntermediate (45 :: d :: r) inc = .ok (d :: r, .simple .Minus) := by
  have h61 : d.toNat ≠ 61 := by omega
  have h45 : d.toNat ≠ 45 := by omega
  have hne60 : ¬ (60 : UInt8) = d := by intro h; subst h; simp at hd
  cases inc <;>
  simp [tokenIntermediate, tokenStep, isIdentStart, headerName, delimited, choose, tokenChoice, runSub, whitespaceSimple,
    whitespaceEndline, lineComment, blockComment, literalString, stripPrefix?, otherTokenChars, ErrAt.len, h61, h45]


end RsslVerif.Model.Lexer

namespace RsslVerif.Model.LitFormat
open RsslVerif.Model.Lexer RsslVerif.Spec RsslVerif.Gen.LexTables
set_option linter.unusedSimpArgs false

set_option exponentiation.threshold 2000 in
/-- **fmtFloat_negative**: a finite negative value (sign bit set, magnitude `mag`; `Display` writes `-` followed by the
digits of the magnitude) is printed as `-` followed by exactly the text of the magnitude — except `-2^63`, whose
magnitude is printed exactly (`-9223372036854775808.0`) while `+2^63` saturates. -/
theorem fmtFloat_negative (k : Kind) (ty : Option FloatType) (hk : k.floatType? = some ty) (msl : Bool)
    (mag : Nat) (hfin : mag < k.fmt.infBits) (hmax : ¬ (k = .f32 ∧ msl = true ∧ mag = k.fmt.infBits - 1))
    (h63 : wholeValue? k.fmt mag ≠ some (2 ^ 63)) (disp disp64 : Bytes) :
    fmtFloat k msl (signBit k.fmt + mag) (45 :: disp) (45 :: disp64) =
      (match fmtFloat k msl mag disp disp64 with
       | .ok t => .ok (45 :: t)
       | .error e => .error e) := by
  obtain ⟨_, hfmt, _, _, _⟩ := kind_facts k ty hk
  have hsb := signBit_gt k.fmt hfmt
  have hmod : (signBit k.fmt + mag) % signBit k.fmt = mag := by
    rw [Nat.add_mod_left]; exact Nat.mod_eq_of_lt (by omega)
  have hneg : signBit k.fmt ≤ signBit k.fmt + mag := by omega
  rw [fmtFloat_finite k ty hk msl mag hfin hmax disp disp64]
  unfold fmtFloat
  simp only [hmod, hneg, decide_true, Nat.not_lt.mpr (Nat.le_of_lt hfin), Nat.ne_of_lt hfin, if_false]
  simp only [Bool.true_eq_false, false_and, and_false, if_false, and_true]
  by_cases h0 : mag = 0
  · subst h0
    have hw : wholeValue? k.fmt 0 = some 0 := by
      rcases hfmt with hf | hf <;> rw [hf] <;>
        simp [wholeValue?, Dec2Bin.decode, Dec2Bin.binary64, Dec2Bin.binary32]
    rw [hw]
    simp [decText, decDigits, decDigitsRev, digitByte, dotZero]
  · rw [if_neg h0]
    cases hw : wholeValue? k.fmt mag with
    | none =>
      have hrt : roundTwice? true mag (45 :: disp) = roundTwice? false mag disp := by
        simp [roundTwice?]
      simp only [List.cons_append, hrt]
      by_cases hs : k = .f16 ∨ k = .f32
      · simp only [if_pos hs]
        cases roundTwice? false mag disp with
        | none => rfl
        | some b => cases b <;> rfl
      · simp only [if_neg hs]
    | some n =>
      have hn63 : n ≠ 2 ^ 63 := by intro h; subst h; exact h63 hw
      by_cases hn : n ≤ 2 ^ 63
      · have hmin : Nat.min n (2 ^ 63 - 1) = n := Nat.min_eq_left (by omega)
        simp [hn, hmin]
      · simp [hn]

end RsslVerif.Model.LitFormat

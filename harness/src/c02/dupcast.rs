//! C02, stream `C02.dup`: the two arms of the Metal exporter that write an operand more than once, against their Lean model
//! (`Model.MslDup`): the struct half of the Cast arm of `generate_expression` (`structCastNow`: the side-effect test as a table,
//! `get_member_types`, the decision convert-per-element / refuse, which clauses are the operand itself and which the operand
//! converted to the element's type — fix 5d2f434) and the floating-point `%=` arm of `generate_intrinsic_op` (`remAssignNow`:
//! `is_plain_place` / `is_plain_index` / `is_free_of_writes` as tables, the decision `a = fmod(a, b)` / refuse — fixes 92d66eb,
//! 35faaaa).
//!
//! request : C02.dup \t <source, one line> \t <entry> ;; <entry> …
//!           entry       cast <type shape> @ <type id of the operand> @ <operand>   |   rem <target> @ <right operand>
//!           type shape  (leaf K) | (arr T n) | (arr T none) | (struct T…)   — what `get_member_types` distinguishes; K = the
//!                       unmodified TypeId of the element
//!           operand     (Ctor field…), field = p (not an expression) | o:<IntrinsicOp> | (one E) | (many E…)
//!           one `cast` entry per `Cast(struct type, operand of another type)`, one `rem` entry per `RemainderAssignment` on a
//!           floating-point first operand, in the bodies, initialisers and default arguments of the module (on replay only the
//!           source is read)
//! observe : `casts c1 c2 … ; rem k` — per emitted braced list `<number of clauses>:<class of clause 1>.<class of clause 2>…`
//!           (clauses with the same text get the same class, numbered by first occurrence), sorted; k = the number of emitted
//!           `A = metal::fmod(A, B)` — or `diagnostic GenerateError(UnsupportedCast)` /
//!           `diagnostic GenerateError(ComplexRemainderAssignment)`; a module rejected for another reason is skipped
//! oracle  : `ok` (the meaning of what is emitted is judged by the `C02.vfn` cases of the same program)
use crate::compile_util::*;
use crate::util::*;
use rssl::ir;

fn cty(m: &ir::Module, id: ir::TypeId, depth: u32) -> String {
    if depth > 16 {
        return "(leaf 0)".into();
    }
    let id = m.type_registry.remove_modifier(id);
    match m.type_registry.get_type_layer(id) {
        ir::TypeLayer::Array(inner, Some(len)) => format!("(arr {} {})", cty(m, inner, depth + 1), len),
        ir::TypeLayer::Array(inner, None) => format!("(arr {} none)", cty(m, inner, depth + 1)),
        ir::TypeLayer::Struct(sid) => {
            let sd = &m.struct_registry[sid.0 as usize];
            let ms: Vec<String> = sd.members.iter().map(|x| cty(m, x.type_id, depth + 1)).collect();
            format!("(struct{}{})", if ms.is_empty() { "" } else { " " }, ms.join(" "))
        }
        _ => format!("(leaf {})", id.0),
    }
}

fn one(e: &ir::Expression) -> String {
    format!("(one {})", dexpr(e))
}

fn many<'a>(es: impl Iterator<Item = &'a ir::Expression>) -> String {
    let v: Vec<String> = es.map(dexpr).collect();
    format!("(many{}{})", if v.is_empty() { "" } else { " " }, v.join(" "))
}

/// the constructor tree of an expression; the only payload a test looks at is the operator of an `IntrinsicOp`
pub fn dexpr(e: &ir::Expression) -> String {
    use ir::Expression as E;
    match e {
        E::Literal(_) => "(Literal p)".into(),
        E::Variable(_) => "(Variable p)".into(),
        E::MemberVariable(_, _) => "(MemberVariable p p)".into(),
        E::Global(_) => "(Global p)".into(),
        E::ConstantVariable(_) => "(ConstantVariable p)".into(),
        E::EnumValue(_) => "(EnumValue p)".into(),
        E::TernaryConditional(c, t, f) => format!("(TernaryConditional {} {} {})", one(c), one(t), one(f)),
        E::Sequence(es) => format!("(Sequence {})", many(es.iter())),
        E::Swizzle(o, _) => format!("(Swizzle {} p)", one(o)),
        E::MatrixSwizzle(o, _) => format!("(MatrixSwizzle {} p)", one(o)),
        E::ArraySubscript(o, i) => format!("(ArraySubscript {} {})", one(o), one(i)),
        E::StructMember(o, _, _) => format!("(StructMember {} p p)", one(o)),
        E::ObjectMember(o, _) => format!("(ObjectMember {} p)", one(o)),
        E::Call(_, _, args) => format!("(Call p p {})", many(args.iter())),
        E::Constructor(_, slots) => format!("(Constructor p {})", many(slots.iter().map(|s| &s.expr))),
        E::Cast(_, x) => format!("(Cast p {})", one(x)),
        E::SizeOf(_) => "(SizeOf p)".into(),
        E::IntrinsicOp(op, args) => format!("(IntrinsicOp o:{:?} {})", op, many(args.iter())),
    }
}

fn walk_expr(m: &ir::Module, e: &ir::Expression, out: &mut Vec<String>) {
    use ir::Expression as E;
    if let E::Cast(ty, inner) = e {
        let unmod = m.type_registry.remove_modifier(*ty);
        if let ir::TypeLayer::Struct(_) = m.type_registry.get_type_layer(unmod) {
            if let Ok(ety) = inner.get_type(m) {
                let input = m.type_registry.remove_modifier(ety.0);
                let from_cb = match m.type_registry.get_type_layer(input) {
                    ir::TypeLayer::Object(ir::ObjectType::ConstantBuffer(cb)) => m.type_registry.remove_modifier(cb) == unmod,
                    _ => false,
                };
                if input != unmod && !from_cb {
                    out.push(format!("cast {} @ {} @ {}", cty(m, unmod, 0), input.0, dexpr(inner)));
                }
            }
        }
    }
    if let E::IntrinsicOp(ir::IntrinsicOp::RemainderAssignment, args) = e {
        // the floating-point branch of the arm: decided on the scalar kind of the first operand's type
        if let Some(Ok(ety)) = args.first().map(|a| a.get_type(m)) {
            let unmod = m.type_registry.remove_modifier(ety.0);
            if matches!(
                m.type_registry.extract_scalar(unmod),
                Some(ir::ScalarType::Float16) | Some(ir::ScalarType::Float32) | Some(ir::ScalarType::Float64)
            ) {
                if args.len() == 2 {
                    out.push(format!("rem {} @ {}", dexpr(&args[0]), dexpr(&args[1])));
                }
            }
        }
    }
    match e {
        E::Literal(_) | E::Variable(_) | E::MemberVariable(_, _) | E::Global(_) | E::ConstantVariable(_) | E::EnumValue(_) | E::SizeOf(_) => {}
        E::TernaryConditional(c, t, f) => {
            walk_expr(m, c, out);
            walk_expr(m, t, out);
            walk_expr(m, f, out);
        }
        E::Sequence(es) | E::Call(_, _, es) | E::IntrinsicOp(_, es) => es.iter().for_each(|x| walk_expr(m, x, out)),
        E::Swizzle(o, _) | E::MatrixSwizzle(o, _) | E::StructMember(o, _, _) | E::ObjectMember(o, _) | E::Cast(_, o) => walk_expr(m, o, out),
        E::ArraySubscript(o, i) => {
            walk_expr(m, o, out);
            walk_expr(m, i, out);
        }
        E::Constructor(_, slots) => slots.iter().for_each(|s| walk_expr(m, &s.expr, out)),
    }
}

fn walk_init(m: &ir::Module, i: &ir::Initializer, out: &mut Vec<String>) {
    match i {
        ir::Initializer::Expression(e) => walk_expr(m, e, out),
        ir::Initializer::Aggregate(items) => items.iter().for_each(|x| walk_init(m, x, out)),
    }
}

fn walk_block(m: &ir::Module, b: &ir::ScopeBlock, out: &mut Vec<String>) {
    use ir::StatementKind as K;
    for st in &b.0 {
        match &st.kind {
            K::Expression(e) => walk_expr(m, e, out),
            K::Var(vd) => {
                if let Some(i) = &vd.init {
                    walk_init(m, i, out)
                }
            }
            K::Block(b) => walk_block(m, b, out),
            K::If(c, b) | K::While(c, b) | K::Switch(c, b) => {
                walk_expr(m, c, out);
                walk_block(m, b, out);
            }
            K::DoWhile(b, c) => {
                walk_block(m, b, out);
                walk_expr(m, c, out);
            }
            K::IfElse(c, t, f) => {
                walk_expr(m, c, out);
                walk_block(m, t, out);
                walk_block(m, f, out);
            }
            K::For(init, c, inc, b) => {
                match init {
                    ir::ForInit::Empty => {}
                    ir::ForInit::Expression(e) => walk_expr(m, e, out),
                    ir::ForInit::Definitions(ds) => {
                        for d in ds {
                            if let Some(i) = &d.init {
                                walk_init(m, i, out)
                            }
                        }
                    }
                }
                if let Some(c) = c {
                    walk_expr(m, c, out)
                }
                if let Some(i) = inc {
                    walk_expr(m, i, out)
                }
                walk_block(m, b, out);
            }
            K::Return(Some(e)) => walk_expr(m, e, out),
            K::Return(None) | K::Break | K::Continue | K::Discard | K::CaseLabel(_) | K::DefaultLabel => {}
        }
    }
}

/// every cast to a struct type from a value of another type and every floating-point `%=`, in the functions that have a body
/// and are not templates
pub fn struct_casts(m: &ir::Module) -> Vec<String> {
    let mut out = Vec::new();
    for id in m.function_registry.iter() {
        if m.function_registry.get_intrinsic_data(id).is_some() {
            continue;
        }
        if !m.function_registry.get_function_signature(id).template_params.is_empty() {
            continue;
        }
        if let Some(imp) = m.function_registry.get_function_implementation(id) {
            walk_block(m, &imp.scope_block, &mut out);
        }
    }
    for g in m.global_registry.iter() {
        if let Some(i) = &g.init {
            walk_init(m, i, &mut out);
        }
    }
    out
}

/// per braced list: `<n>:<classes>` — clauses with the same text share a class, classes numbered by first occurrence
fn count_binit(s: &super::sx::Sx, out: &mut Vec<String>) {
    if let super::sx::Sx::L(items) = s {
        if s.head() == "binit" {
            let clauses: Vec<String> = s.args().iter().skip(1).map(|c| c.show()).collect();
            let mut seen: Vec<&String> = Vec::new();
            let mut classes = Vec::new();
            for c in &clauses {
                let k = match seen.iter().position(|x| *x == c) {
                    Some(k) => k,
                    None => {
                        seen.push(c);
                        seen.len() - 1
                    }
                };
                classes.push(k.to_string());
            }
            out.push(format!("{}:{}", clauses.len(), classes.join(".")));
        }
        for i in items {
            count_binit(i, out);
        }
    }
}

/// the number of `A = metal::fmod(A, B)`: an assignment whose value is the library remainder of its own target
fn count_rem(s: &super::sx::Sx, out: &mut usize) {
    if let super::sx::Sx::L(items) = s {
        let a = s.args();
        if s.head() == "bin" && a.len() == 3 && a[0].atom() == "Assignment" && a[2].head() == "call" {
            let c = a[2].args();
            if c.len() == 3 && c[0].atom() == "metal::fmod" && c[1] == a[1] {
                *out += 1;
            }
        }
        for i in items {
            count_rem(i, out);
        }
    }
}

pub fn run_program(src: &str, out: &mut Out, hist: &mut Hist) {
    let src1 = one_line(src);
    let ir = match front_end_src(src) {
        Ok(m) => m,
        Err(_) => {
            out.case(&format!("C02.dup\t{}\t-", src1), "skip", "SKIP:front end");
            return;
        }
    };
    let casts = struct_casts(&ir);
    let req = format!("C02.dup\t{}\t{}", src1, if casts.is_empty() { "-".to_string() } else { casts.join(" ;; ") });
    match guard(|| rssl_msl::verif_generate_ast(&ir)) {
        Ok(Ok(m)) => {
            let mut counts = Vec::new();
            let mut rems = 0usize;
            for item in super::vmconv::module(&m) {
                count_binit(&item, &mut counts);
                count_rem(&item, &mut rems);
            }
            counts.sort();
            hist.add("dup:exported");
            // text leg: the emitted TEXT of the module denotes the tree whose clauses were just counted
            let t = crate::c02::text::check_module(&ir, &m, hist);
            let tf = t.module_fails.iter().chain(t.per_fn.values().flatten()).next().cloned();
            let oracle = match tf {
                Some(f) => format!("FAIL:{}", f),
                None => "ok".to_string(),
            };
            out.case(&req, &format!("casts{}{} ; rem {}", if counts.is_empty() { "" } else { " " }, counts.join(" "), rems), &oracle);
        }
        Ok(Err(e)) => {
            let text = one_line(&format!("{:?}", e));
            if text.contains("UnsupportedCast") {
                hist.add("dup:unsupported-cast");
                out.case(&req, &format!("diagnostic {}", text.chars().take(60).collect::<String>()), "ok");
            } else if text.contains("ComplexRemainderAssignment") {
                hist.add("dup:complex-remainder-assignment");
                out.case(&req, &format!("diagnostic {}", text.chars().take(60).collect::<String>()), "ok");
            } else {
                hist.add("dup:other-diagnostic");
                out.case(&req, "skip", &format!("SKIP:rejected for another reason: {}", text.chars().take(60).collect::<String>()));
            }
        }
        Err(pn) => {
            hist.add("dup:panic");
            out.case(&req, "panic", &format!("FAIL:panic {}", pn));
        }
    }
}

pub fn run_request(line: &str, out: &mut Out, hist: &mut Hist) {
    let f: Vec<&str> = line.split('\t').collect();
    if f.len() < 2 || f[0] != "C02.dup" {
        return;
    }
    let src = super::unescape(f[1]);
    if let Err(pn) = guard(|| run_program(&src, out, hist)) {
        out.case(&format!("C02.dup\t{}\t-", f[1]), "harness-panic", &format!("SKIP:harness panic {}", pn));
    }
}

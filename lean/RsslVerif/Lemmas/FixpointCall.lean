import RsslVerif.Lemmas.FixpointForms
import RsslVerif.Lemmas.FixpointPlace
import RsslVerif.Lemmas.Overload
set_option linter.unusedSimpArgs false
/-!
Lemmas for C04 `reelab_no_new_casts`, part 4: calls.  In the exported program every function has a name of its own
(`Renamed.uniq`), so the overload set of a call is a singleton; it is selected as soon as every argument converts to
its parameter, which `reconv` provides for the exported arguments.
-/
namespace RsslVerif.Lemmas.FixpointCall
open RsslVerif.Gen.RankTable RsslVerif.Gen.TypingTables
open RsslVerif.Model.Conv RsslVerif.Model.Overload RsslVerif.Model.IrTyping RsslVerif.Model.Elab
open RsslVerif.Model.Fixpoint RsslVerif.Lemmas.ElabConv RsslVerif.Lemmas.Elab RsslVerif.Lemmas.ElabExact
open RsslVerif.Lemmas.ElabRelease RsslVerif.Lemmas.FixpointElab RsslVerif.Lemmas.FixpointArith RsslVerif.Lemmas.FixpointArithDim
open RsslVerif.Lemmas.FixpointForms RsslVerif.Lemmas.Overload RsslVerif.Lemmas.Conv RsslVerif.Lemmas.FixpointPlace

/-! ## the overload set -/

theorem candsFrom_mem {name : Nat} : ∀ {l : List FuncSig} {i : Nat} {c : Cand}, c ∈ candsFrom name l i →
    ∃ j s, l[j]? = some s ∧ s.name = name ∧ c = ⟨i + j, s.params, s.nonDefault⟩
  | [], _, _, h => by simp [candsFrom] at h
  | s :: r, i, c, h => by
    simp only [candsFrom] at h
    split at h
    · rename_i hn
      rcases List.mem_cons.mp h with rfl | h'
      · exact ⟨0, s, rfl, hn, rfl⟩
      · obtain ⟨j, s', h1, h2, h3⟩ := candsFrom_mem h'
        exact ⟨j + 1, s', by simpa using h1, h2, by rw [h3]; congr 1; omega⟩
    · obtain ⟨j, s', h1, h2, h3⟩ := candsFrom_mem h
      exact ⟨j + 1, s', by simpa using h1, h2, by rw [h3]; congr 1; omega⟩

theorem candsFrom_nil {name : Nat} : ∀ {l : List FuncSig} {i : Nat},
    (∀ (j : Nat) (s : FuncSig), l[j]? = some s → s.name ≠ name) → candsFrom name l i = []
  | [], _, _ => rfl
  | s :: r, i, h => by
    simp only [candsFrom]
    have h0 : s.name ≠ name := h 0 s rfl
    simp only [h0, if_false]
    exact candsFrom_nil fun j s' hj => h (j + 1) s' (by simpa using hj)

theorem candsFrom_single {name : Nat} : ∀ {l : List FuncSig} {i k : Nat} {sk : FuncSig},
    l[k]? = some sk → sk.name = name → (∀ (j : Nat) (s : FuncSig), l[j]? = some s → s.name = name → j = k) →
    candsFrom name l i = [⟨i + k, sk.params, sk.nonDefault⟩]
  | [], _, _, _, h, _, _ => by simp at h
  | s :: r, i, 0, sk, h, hn, hu => by
    simp at h; subst h
    simp only [candsFrom, hn, if_true]
    rw [candsFrom_nil]
    · rfl
    · intro j s' hj hname
      have := hu (j + 1) s' (by simpa using hj) hname
      omega
  | s :: r, i, k + 1, sk, h, hn, hu => by
    have h0 : s.name ≠ name := by
      intro hs
      have := hu 0 s rfl hs
      omega
    simp only [candsFrom, h0, if_false]
    have := candsFrom_single (l := r) (i := i + 1) (k := k) (sk := sk) (by simpa using h) hn
      (fun j s' hj hname => by
        have := hu (j + 1) s' (by simpa using hj) hname
        omega)
    rw [this]
    congr 2
    omega

/-- in the exported program the overload set named like function `f` is `{f}` -/
theorem candidates_renamed {Γ Γ' : Env} (hR : Renamed Γ Γ') {f : Nat} {sg : FuncSig} (h : Γ'.funcs[f]? = some sg) :
    candidates Γ' sg.name = [⟨f, sg.params, sg.nonDefault⟩] := by
  unfold candidates
  have := candsFrom_single (name := sg.name) (l := Γ'.funcs) (i := 0) (k := f) (sk := sg) h rfl
    (fun j s hj hn => hR.uniq j f s sg hj h hn)
  simpa using this

/-! ## resolution -/

/-- a selected overload is one of the candidates and every argument converts to its parameter -/
theorem selected_ranked {cands : List Cand} {args : List ETy} {i : Nat}
    (h : resolve cands args = .selected i) : ∃ c ∈ cands, ∃ rc, rankCand args c = .ranked i rc ∧ c.id = i := by
  rcases resolve_cases cands args with hp | hr
  · rw [hp] at h; simp at h
  · rw [hr] at h
    obtain ⟨rc, hf⟩ := resolveRanked_selected h
    have hm : (i, rc) ∈ rankedList cands args :=
      winners_subset (finals_subset (by rw [hf]; exact List.mem_cons_self))
    obtain ⟨c, hc, hrc⟩ := mem_rankedList.mp hm
    exact ⟨c, hc, rc, hrc, (rankCand_id hrc).symm⟩

theorem rankCand_inv {args : List ETy} {c : Cand} {j : Nat} {rs : List Rank} (h : rankCand args c = .ranked j rs) :
    args.length ≤ c.params.length ∧ c.nonDefault ≤ args.length := by
  unfold rankCand at h
  split at h
  · rename_i ha; exact ha
  · simp at h

/-- a single viable candidate is selected -/
theorem resolve_single {c : Cand} {args : List ETy} {rs : List Rank} (h : rankCand args c = .ranked c.id rs) :
    resolve [c] args = .selected c.id := by
  have hfin : finals (winners [(c.id, rs)]) = [(c.id, rs)] := by
    simp [winners, finals, bestOrder, lexLt_irrefl]
  simp [resolve, h, CandResult.isPanic, CandResult.ranked?, resolveRanked, hfin]

theorem zipRanks_some_cons {p : Param} {ps : List Param} {a : ETy} {as : List ETy} {c : Conversion}
    (hf : find a p.ety = .ok (some c)) (ht : ∃ rs, zipRanks ps as = .ok (some rs)) :
    ∃ rs, zipRanks (p :: ps) (a :: as) = .ok (some rs) := by
  obtain ⟨rs, hrs⟩ := ht
  obtain ⟨x, hx⟩ := findRank_total a p.ety
  rw [getRank_of_findRank hf] at hx
  cases hg : getRank c with
  | error e => rw [hg] at hx; simp at hx
  | ok r => exact ⟨r :: rs, by simp [zipRanks, hf, hrs, hg]⟩

/-! ## arguments -/

variable {Γ Γ' : Env}

/-- induction hypothesis for an argument list: every elaborated argument is typed and re-elaborates to itself -/
def ArgsIH (Γ Γ' : Env) : IArgs → List ETy → Prop
  | .nil, [] => True
  | .cons e r, t :: ts =>
    HasType Γ e t ∧ (∀ s', Unelab Γ' e s' → elabE false Γ' s' = .ok (e, t)) ∧ ArgsIH Γ Γ' r ts
  | _, _ => False

theorem zipRanks_nil_args (ps : List Param) : zipRanks ps [] = .ok (some []) := by
  cases ps <;> simp [zipRanks]

theorem castArgs_back : ∀ (ps : List Param) (args : IArgs) (ts : List ETy) (args2 : IArgs),
    ArgsIH Γ Γ' args ts → castArgs ps args ts = .ok args2 → outArgsPlain ps args2 = true →
    ∀ sargs, UnelabArgs Γ' args2 sargs →
    ∃ args0 ts0, elabArgs false Γ' sargs = .ok (args0, ts0) ∧ castArgs ps args0 ts0 = .ok args2 ∧
      (∃ rs, zipRanks ps ts0 = .ok (some rs)) ∧ ts0.length = ts.length
  | p :: ps, .cons e r, t :: ts, args2, hih, h, hout, sargs, hu => by
    obtain ⟨hty, ihe, ihr⟩ := hih
    simp only [castArgs] at h
    split at h
    · simp at h
    · simp at h
    · rename_i e2 t2 hc
      split at h
      · simp at h
      · rename_i r2 hr2
        simp at h; subst h
        obtain ⟨c, hf, ha, _⟩ := convert_inv hc
        simp only [outArgsPlain, Bool.and_eq_true, Bool.not_eq_true', Bool.and_eq_false_iff] at hout
        obtain ⟨hout1, hout2⟩ := hout
        cases hu with
        | cons hu1 hur =>
          rename_i s1 sr
          have hvt : p.ety.vt = .rvalue ∨ isCast e2 = false := by
            rcases hout1 with h1 | h1
            · left; simp [Param.ety, h1]
            · right; exact h1
          obtain ⟨e0, τ0, hel, hb⟩ := reconv hty ihe hf ha hvt _ hu1
          obtain ⟨r0, ts0, helr, hcr, hzr, hlen⟩ := castArgs_back ps r ts r2 ihr hr2 hout2 sr hur
          obtain ⟨c0, hf0, _⟩ := back_find hf ha hb
          refine ⟨.cons e0 r0, τ0 :: ts0, ?_, ?_, zipRanks_some_cons hf0 hzr, by simp [hlen]⟩
          · simp [elabArgs, hel, helr]
          · simp [castArgs, back_convert hf ha hb, hcr]
  | ps, .nil, [], args2, _, h, _, sargs, hu => by
    simp [castArgs] at h; subst h
    cases hu
    exact ⟨.nil, [], by simp [elabArgs], by simp [castArgs], ⟨[], zipRanks_nil_args ps⟩, rfl⟩
  | [], .cons _ _, _ :: _, _, _, h, _, _, _ => by simp [castArgs] at h
  | _, .cons _ _, [], _, hih, _, _, _, _ => by simp [ArgsIH] at hih
  | _, .nil, _ :: _, _, hih, _, _, _, _ => by simp [ArgsIH] at hih

/-- **Calls are stable under re-elaboration**: the exported call names its function uniquely, every exported argument
    converts to its parameter again, the arguments given for `out` / `inout` parameters are mutable places again, and
    the same `Call` node is rebuilt.  Since fix 3758fdd (`check_output_arguments` on the converted arguments) an accepted
    call never carries a `Cast` in an `out` / `inout` position (`outArgsPlain_of_checkOutArgs`), which used to be a
    hypothesis of this lemma. -/
theorem elabCall_stable (hR : Renamed Γ Γ') {name : Nat} {args : IArgs} {ts : List ETy} {n : IExpr} {τ : ETy}
    (h : elabCall Γ name args ts = .ok (n, τ)) (hih : ArgsIH Γ Γ' args ts) :
    ∀ s', Unelab Γ' n s' → elabE false Γ' s' = .ok (n, τ) := by
  intro s' hu
  unfold elabCall at h
  split at h
  · simp at h
  · simp at h
  · simp at h
  · rename_i id hsel
    split at h
    · simp at h
    · rename_i sg hsg
      split at h
      · simp at h
      · rename_i args2 hca
        split at h
        · simp at h
        · rename_i hchk
          simp at h
          obtain ⟨hn, hτ⟩ := h
          subst hn
          -- the selected candidate is function `id` with the signature `sg`
          obtain ⟨c, hc, rc, hrc, hcid⟩ := selected_ranked hsel
          obtain ⟨j, s, hj, _, hcs⟩ := candsFrom_mem hc
          have hjid : j = id := by rw [hcs] at hcid; simpa using hcid
          subst hjid
          have hs : s = sg := by rw [hsg] at hj; simpa using hj.symm
          subst hs
          obtain ⟨hlen1, hlen2⟩ := rankCand_inv hrc
          rw [hcs] at hlen1 hlen2
          simp only at hlen1 hlen2
          -- the exported call
          obtain ⟨sg', hsg', hp, hnd, hret⟩ := hR.sig j s hsg
          have hplain : outArgsPlain s.params args2 = true := outArgsPlain_of_checkOutArgs s.params args2 hchk
          have hchk' : checkOutArgs Γ' s.params args2 = .ok () := checkOutArgs_renamed hR s.params args2 hchk
          cases hu with
          | call hf' hua =>
            rename_i sg'' sargs
            have : sg'' = sg' := by rw [hsg'] at hf'; simpa using hf'.symm
            subst this
            obtain ⟨args0, ts0, hela, hca0, ⟨rs, hz⟩, hlen⟩ := castArgs_back s.params args ts args2 hih hca hplain sargs hua
            have hcands := candidates_renamed hR hsg'
            have hrank : rankCand ts0 ⟨j, sg''.params, sg''.nonDefault⟩ = .ranked j rs := by
              simp only [rankCand, hp, hnd, hlen, hlen1, hlen2, and_self, if_true, hz]
            have hres : resolve (candidates Γ' sg''.name) ts0 = .selected j := by
              rw [hcands]; exact resolve_single (c := ⟨j, sg''.params, sg''.nonDefault⟩) hrank
            simp only [elabE, hcands, List.isEmpty_cons, Bool.false_eq_true, if_false, hela]
            simp only [elabCall, hres, hsg', hp, hca0, hchk', selfCheck, hret, hτ]
            simp [hcands, hres, hsg', hp, hca0, hchk', hret, hτ]

end RsslVerif.Lemmas.FixpointCall

//! C11.raw: the oracle for raw source text.  An independent reference C preprocessor (translation
//! phases 2-4 of ISO C 6.10 restricted to conditionals, object/function-like macros without `#`/`##`,
//! `#include "f"`/`<f>`, `#pragma once`) that works from the *text* of the files.  It shares nothing with
//! the Lean model nor with rssl's lexer.
//!
//! Verdicts:
//!   Accept(tokens, hints)  C selects exactly these tokens (spellings, in order)
//!   Reject(kind, variant)  C rejects the input; `variant` = the PreprocessError the property names ("" = any)
//!   Skip(why)              outside the property (ill-formed condition, undefined behaviour, constructs that
//!                          belong to C12 or to the lexer, directives rssl does not have)
use std::collections::{BTreeMap, BTreeSet, VecDeque};

#[derive(Clone, Debug, PartialEq)]
pub enum Tk {
    Id(String),
    Num(String),
    Str(String),
    Chr(String),
    P(String),
    Other(char),
    Nl,
}

#[derive(Clone, Debug)]
pub struct T {
    pub k: Tk,
    /// preceded by white space (only used to tell `#define F(x)` from `#define F (x)`)
    pub ws: bool,
    pub hs: BTreeSet<String>,
    pub from_defined: bool,
}

impl T {
    fn new(k: Tk, ws: bool) -> T {
        T { k, ws, hs: BTreeSet::new(), from_defined: false }
    }
    pub fn spell(&self) -> String {
        match &self.k {
            Tk::Id(s) | Tk::Num(s) | Tk::Str(s) | Tk::Chr(s) | Tk::P(s) => s.clone(),
            Tk::Other(c) => c.to_string(),
            Tk::Nl => "\n".into(),
        }
    }
}

pub struct RefResult {
    pub expected: Expected,
    /// known-divergent shapes present in skipped groups (used only to *name* a failure)
    pub hints: BTreeSet<&'static str>,
    pub stats: Vec<&'static str>,
}

pub enum Expected {
    Accept(Vec<String>),
    Reject(&'static str, &'static str),
    Skip(String),
}

// ------------------------------------------------------------------------------------------------
// phases 2 and 3: line splicing, comments, logical lines
// ------------------------------------------------------------------------------------------------

pub struct LLine {
    pub text: String,
    /// an unmatched ' or " (undefined behaviour in C)
    pub ub_quote: bool,
}

/// Err = unterminated block comment
pub fn logical_lines(src: &str) -> Result<Vec<LLine>, ()> {
    // phase 2: delete backslash-newline
    let b: Vec<char> = src.chars().collect();
    let mut s: Vec<char> = Vec::with_capacity(b.len());
    let mut i = 0;
    while i < b.len() {
        if b[i] == '\\' && i + 1 < b.len() && b[i + 1] == '\n' {
            i += 2;
        } else if b[i] == '\\' && i + 2 < b.len() && b[i + 1] == '\r' && b[i + 2] == '\n' {
            i += 3;
        } else if b[i] == '\r' && i + 1 < b.len() && b[i + 1] == '\n' {
            s.push('\n');
            i += 2;
        } else {
            s.push(b[i]);
            i += 1;
        }
    }
    // phase 3: comments become one space; literals are respected
    let mut lines = Vec::new();
    let mut cur = String::new();
    let mut ub = false;
    let mut i = 0;
    while i < s.len() {
        let c = s[i];
        if c == '\n' {
            lines.push(LLine { text: std::mem::take(&mut cur), ub_quote: ub });
            ub = false;
            i += 1;
        } else if c == '/' && i + 1 < s.len() && s[i + 1] == '/' {
            while i < s.len() && s[i] != '\n' {
                i += 1;
            }
            cur.push(' ');
        } else if c == '/' && i + 1 < s.len() && s[i + 1] == '*' {
            let mut j = i + 2;
            let mut closed = false;
            while j + 1 < s.len() {
                if s[j] == '*' && s[j + 1] == '/' {
                    closed = true;
                    break;
                }
                j += 1;
            }
            if !closed {
                return Err(());
            }
            cur.push(' ');
            i = j + 2;
        } else if c == '"' || c == '\'' {
            let q = c;
            let mut j = i + 1;
            let mut closed = false;
            while j < s.len() && s[j] != '\n' {
                if s[j] == '\\' && j + 1 < s.len() && s[j + 1] != '\n' {
                    j += 2;
                    continue;
                }
                if s[j] == q {
                    closed = true;
                    break;
                }
                j += 1;
            }
            if closed {
                for k in i..=j {
                    cur.push(s[k]);
                }
                i = j + 1;
            } else {
                ub = true;
                cur.push(c);
                i += 1;
            }
        } else {
            cur.push(c);
            i += 1;
        }
    }
    if !cur.is_empty() || ub {
        lines.push(LLine { text: cur, ub_quote: ub });
    }
    Ok(lines)
}

const PUNCT3: &[&str] = &["...", "<<=", ">>="];
const PUNCT2: &[&str] = &[
    "->", "++", "--", "<<", ">>", "<=", ">=", "==", "!=", "&&", "||", "*=", "/=", "%=", "+=", "-=", "&=", "^=", "|=", "##",
];
const PUNCT1: &str = "[](){}.&*+-~!/%<>^|?:;=,#";

/// preprocessing tokens of one logical line (comments already removed)
pub fn pp_tokens(line: &str) -> Vec<T> {
    let b: Vec<char> = line.chars().collect();
    let mut out = Vec::new();
    let mut i = 0;
    let mut ws = false;
    while i < b.len() {
        let c = b[i];
        if c == ' ' || c == '\t' || c == '\x0b' || c == '\x0c' {
            ws = true;
            i += 1;
            continue;
        }
        let start = i;
        let k;
        if c.is_ascii_alphabetic() || c == '_' {
            while i < b.len() && (b[i].is_ascii_alphanumeric() || b[i] == '_') {
                i += 1;
            }
            k = Tk::Id(b[start..i].iter().collect());
        } else if c.is_ascii_digit() || (c == '.' && i + 1 < b.len() && b[i + 1].is_ascii_digit()) {
            i += 1;
            while i < b.len() {
                let d = b[i];
                if (d == '+' || d == '-') && matches!(b[i - 1], 'e' | 'E' | 'p' | 'P') {
                    i += 1;
                } else if d.is_ascii_alphanumeric() || d == '_' || d == '.' {
                    i += 1;
                } else {
                    break;
                }
            }
            k = Tk::Num(b[start..i].iter().collect());
        } else if c == '"' || c == '\'' {
            let mut j = i + 1;
            let mut closed = false;
            while j < b.len() {
                if b[j] == '\\' && j + 1 < b.len() {
                    j += 2;
                    continue;
                }
                if b[j] == c {
                    closed = true;
                    break;
                }
                j += 1;
            }
            if closed {
                i = j + 1;
                let s: String = b[start..i].iter().collect();
                k = if c == '"' { Tk::Str(s) } else { Tk::Chr(s) };
            } else {
                i += 1;
                k = Tk::Other(c);
            }
        } else {
            let rest: String = b[i..(i + 3).min(b.len())].iter().collect();
            if let Some(p) = PUNCT3.iter().find(|p| rest.starts_with(**p)) {
                i += 3;
                k = Tk::P(p.to_string());
            } else if let Some(p) = PUNCT2.iter().find(|p| rest.starts_with(**p)) {
                i += 2;
                k = Tk::P(p.to_string());
            } else if PUNCT1.contains(c) {
                i += 1;
                k = Tk::P(c.to_string());
            } else {
                i += 1;
                k = Tk::Other(c);
            }
        }
        out.push(T::new(k, ws));
        ws = false;
    }
    out
}

// ------------------------------------------------------------------------------------------------
// macros (ISO C 6.10.3 without # and ##), Prosser's algorithm with hide sets
// ------------------------------------------------------------------------------------------------

#[derive(Clone, Debug)]
pub struct MacroDef {
    pub is_fn: bool,
    pub params: Vec<String>,
    pub body: Vec<T>,
}

#[derive(Default, Debug)]
pub struct Flags {
    /// a painted (hidden) macro name was met: recursion, C12's business
    pub painted: bool,
    /// function-like macro name, line end, then `(`
    pub nl_before_paren: bool,
    pub bad_invocation: bool,
    /// `defined` passed through a macro argument or produced by expansion: undefined behaviour
    pub defined_ub: bool,
    /// an argument that the body does not use (rssl expands it anyway: C12 finding)
    pub unused_arg: bool,
}

pub type Macros = BTreeMap<String, MacroDef>;

fn collect_args(input: &VecDeque<T>, lparen: usize) -> Option<(Vec<Vec<T>>, usize)> {
    let mut args: Vec<Vec<T>> = vec![Vec::new()];
    let mut depth = 0usize;
    let mut j = lparen + 1;
    while j < input.len() {
        let t = &input[j];
        match &t.k {
            Tk::P(p) if p == "(" => {
                depth += 1;
                args.last_mut().unwrap().push(t.clone());
            }
            Tk::P(p) if p == ")" => {
                if depth == 0 {
                    return Some((args, j));
                }
                depth -= 1;
                args.last_mut().unwrap().push(t.clone());
            }
            Tk::P(p) if p == "," && depth == 0 => args.push(Vec::new()),
            Tk::Nl => {}
            _ => args.last_mut().unwrap().push(t.clone()),
        }
        j += 1;
    }
    None
}

pub fn expand(macros: &Macros, input: Vec<T>, flags: &mut Flags) -> Vec<T> {
    let mut input: VecDeque<T> = input.into();
    let mut out = Vec::new();
    let mut guard = 0usize;
    while let Some(t) = input.pop_front() {
        guard += 1;
        if guard > 200_000 {
            flags.painted = true;
            break;
        }
        let name = match &t.k {
            Tk::Id(n) => n.clone(),
            _ => {
                out.push(t);
                continue;
            }
        };
        let Some(m) = macros.get(&name) else {
            out.push(t);
            continue;
        };
        if t.hs.contains(&name) {
            flags.painted = true;
            out.push(t);
            continue;
        }
        if !m.is_fn {
            let mut hs = t.hs.clone();
            hs.insert(name.clone());
            for mut x in m.body.iter().cloned().rev() {
                x.hs.extend(hs.iter().cloned());
                input.push_front(x);
            }
            continue;
        }
        let mut j = 0;
        let mut saw_nl = false;
        while j < input.len() && input[j].k == Tk::Nl {
            j += 1;
            saw_nl = true;
        }
        if !(j < input.len() && input[j].k == Tk::P("(".into())) {
            out.push(t);
            continue;
        }
        if saw_nl {
            flags.nl_before_paren = true;
        }
        let Some((args, end)) = collect_args(&input, j) else {
            flags.bad_invocation = true;
            out.push(t);
            continue;
        };
        let ok_arity = if m.params.is_empty() { args.len() == 1 && args[0].is_empty() } else { args.len() == m.params.len() };
        if !ok_arity {
            flags.bad_invocation = true;
            out.push(t);
            continue;
        }
        let mut hs: BTreeSet<String> = t.hs.intersection(&input[end].hs).cloned().collect();
        hs.insert(name.clone());
        if args.iter().any(|a| a.iter().any(|x| x.from_defined || x.k == Tk::Id("defined".into()))) {
            flags.defined_ub = true;
        }
        let mut expanded: Vec<Option<Vec<T>>> = vec![None; args.len()];
        let mut body: Vec<T> = Vec::new();
        for x in &m.body {
            let pi = if let Tk::Id(n) = &x.k { m.params.iter().position(|p| p == n) } else { None };
            match pi {
                Some(pi) => {
                    if expanded[pi].is_none() {
                        expanded[pi] = Some(expand(macros, args[pi].clone(), flags));
                    }
                    body.extend(expanded[pi].clone().unwrap());
                }
                None => body.push(x.clone()),
            }
        }
        if !m.params.is_empty() && expanded.iter().any(|e| e.is_none()) {
            flags.unused_arg = true;
        }
        for _ in 0..=end {
            input.pop_front();
        }
        for mut x in body.into_iter().rev() {
            x.hs.extend(hs.iter().cloned());
            input.push_front(x);
        }
    }
    out
}

/// Ok(def) | Err(()) = not a well-formed definition
pub fn parse_define(toks: &[T]) -> Result<(String, MacroDef), ()> {
    let Some(first) = toks.first() else { return Err(()) };
    let Tk::Id(name) = &first.k else { return Err(()) };
    let mut i = 1;
    let mut params = Vec::new();
    let mut is_fn = false;
    if i < toks.len() && toks[i].k == Tk::P("(".into()) && !toks[i].ws {
        is_fn = true;
        i += 1;
        if i < toks.len() && toks[i].k == Tk::P(")".into()) {
            i += 1;
        } else {
            loop {
                match toks.get(i).map(|t| &t.k) {
                    Some(Tk::Id(p)) => {
                        if params.contains(p) {
                            return Err(());
                        }
                        params.push(p.clone());
                        i += 1;
                    }
                    _ => return Err(()),
                }
                match toks.get(i).map(|t| &t.k) {
                    Some(Tk::P(p)) if p == "," => i += 1,
                    Some(Tk::P(p)) if p == ")" => {
                        i += 1;
                        break;
                    }
                    _ => return Err(()),
                }
            }
        }
    }
    Ok((name.clone(), MacroDef { is_fn, params, body: toks[i..].to_vec() }))
}

// ------------------------------------------------------------------------------------------------
// conditions: full C constant-expression grammar; only the property's operators give a value
// ------------------------------------------------------------------------------------------------

#[derive(Debug, Clone, PartialEq)]
pub enum CondRes {
    Value(bool),
    /// well-formed C, but uses something outside the property's list (named)
    Unsupported(String),
    Ill(String),
    Ub(String),
}

struct CParser<'a> {
    t: &'a [T],
    i: usize,
    unsupported: Option<String>,
}

impl<'a> CParser<'a> {
    fn peek(&self) -> Option<&str> {
        match self.t.get(self.i).map(|t| &t.k) {
            Some(Tk::P(p)) => Some(p.as_str()),
            _ => None,
        }
    }
    fn unsup(&mut self, what: &str) {
        if self.unsupported.is_none() {
            self.unsupported = Some(what.to_string());
        }
    }
    fn conditional(&mut self) -> Option<u64> {
        let c = self.lor()?;
        if self.peek() == Some("?") {
            self.i += 1;
            self.unsup("?:");
            let a = self.conditional()?;
            if self.peek() != Some(":") {
                return None;
            }
            self.i += 1;
            let b = self.conditional()?;
            return Some(if c != 0 { a } else { b });
        }
        Some(c)
    }
    fn binary(&mut self, level: usize) -> Option<u64> {
        // levels, loosest first
        const LEVELS: &[&[&str]] = &[
            &["||"],
            &["&&"],
            &["|"],
            &["^"],
            &["&"],
            &["==", "!="],
            &["<", ">", "<=", ">="],
            &["<<", ">>"],
            &["+", "-"],
            &["*", "/", "%"],
        ];
        if level == LEVELS.len() {
            return self.unary();
        }
        let mut v = self.binary(level + 1)?;
        while let Some(o) = self.peek() {
            let Some(op) = LEVELS[level].iter().find(|x| **x == o) else { break };
            let op = *op;
            self.i += 1;
            let r = self.binary(level + 1)?;
            v = match op {
                "||" => (v != 0 || r != 0) as u64,
                "&&" => (v != 0 && r != 0) as u64,
                "==" => (v == r) as u64,
                "!=" => (v != r) as u64,
                "<" => (v < r) as u64,
                ">" => (v > r) as u64,
                "<=" => (v <= r) as u64,
                ">=" => (v >= r) as u64,
                other => {
                    self.unsup(other);
                    0
                }
            };
        }
        Some(v)
    }
    fn lor(&mut self) -> Option<u64> {
        self.binary(0)
    }
    fn unary(&mut self) -> Option<u64> {
        match self.peek() {
            Some("!") => {
                self.i += 1;
                let v = self.unary()?;
                Some((v == 0) as u64)
            }
            Some(o @ ("-" | "+" | "~")) => {
                let o = o.to_string();
                self.i += 1;
                self.unsup(&format!("unary {}", o));
                self.unary()
            }
            Some("(") => {
                self.i += 1;
                let v = self.conditional()?;
                if self.peek() == Some(")") {
                    self.i += 1;
                    Some(v)
                } else {
                    None
                }
            }
            _ => match self.t.get(self.i).map(|t| t.k.clone()) {
                Some(Tk::Num(s)) => {
                    self.i += 1;
                    match number_value(&s) {
                        NumVal::Plain(v) => Some(v),
                        NumVal::Unsupported(w) => {
                            self.unsup(&w);
                            Some(0)
                        }
                        NumVal::Bad => None,
                    }
                }
                Some(Tk::Chr(_)) => {
                    self.i += 1;
                    self.unsup("character constant");
                    Some(0)
                }
                Some(Tk::Id(x)) => {
                    self.i += 1;
                    // `true`/`false` are keywords of the language being preprocessed; any other name is 0
                    Some((x == "true") as u64)
                }
                _ => None,
            },
        }
    }
}

pub enum NumVal {
    Plain(u64),
    Unsupported(String),
    Bad,
}

/// integer constants of C: decimal / octal / hex, optional u, l, ll suffixes
pub fn number_value(s: &str) -> NumVal {
    if s.starts_with("0X") {
        // rssl lexes `0X..` as `0` followed by an identifier
        return NumVal::Unsupported("0X prefix".into());
    }
    let lower = s.to_ascii_lowercase();
    let (digits, radix) = if let Some(h) = lower.strip_prefix("0x") {
        (h.to_string(), 16)
    } else if lower.len() > 1 && lower.starts_with('0') && lower.chars().nth(1).unwrap().is_ascii_digit() {
        (lower[1..].to_string(), 8)
    } else {
        (lower.clone(), 10)
    };
    let body_len = digits.chars().take_while(|c| c.is_digit(radix)).count();
    let (num, suffix) = digits.split_at(body_len);
    if num.is_empty() {
        return if radix == 8 && suffix.is_empty() { NumVal::Plain(0) } else { NumVal::Bad };
    }
    if suffix.contains('.') || (radix == 10 && (suffix.starts_with('e') || suffix.starts_with('f'))) {
        return NumVal::Unsupported("floating constant".into());
    }
    if radix == 8 && suffix.chars().next().map(|c| c.is_ascii_digit()).unwrap_or(false) {
        return NumVal::Bad; // 08, 09
    }
    let long = match suffix {
        "" | "u" => false,
        "l" | "ll" | "ul" | "lu" | "ull" | "llu" => true,
        _ => return NumVal::Bad,
    };
    match u64::from_str_radix(num, radix) {
        Ok(v) => {
            if long {
                NumVal::Unsupported("l suffix".into())
            } else if suffix == "u" && v > u32::MAX as u64 {
                NumVal::Unsupported("u suffix above 2^32".into())
            } else {
                NumVal::Plain(v)
            }
        }
        Err(_) => NumVal::Unsupported("integer constant above 2^64".into()),
    }
}

/// `defined X` / `defined ( X )` are replaced before macro expansion (6.10.1p4)
fn defined_prepass(macros: &Macros, toks: &[T]) -> Result<Vec<T>, String> {
    let mut out = Vec::new();
    let mut i = 0;
    while i < toks.len() {
        if toks[i].k == Tk::Id("defined".into()) {
            let one = |b: bool| {
                let mut t = T::new(Tk::Num(if b { "1".into() } else { "0".into() }), true);
                t.from_defined = true;
                t
            };
            match toks.get(i + 1).map(|t| &t.k) {
                Some(Tk::Id(x)) => {
                    out.push(one(macros.contains_key(x)));
                    i += 2;
                }
                Some(Tk::P(p)) if p == "(" => match (toks.get(i + 2).map(|t| &t.k), toks.get(i + 3).map(|t| &t.k)) {
                    (Some(Tk::Id(x)), Some(Tk::P(q))) if q == ")" => {
                        out.push(one(macros.contains_key(x)));
                        i += 4;
                    }
                    _ => return Err("malformed defined".into()),
                },
                _ => return Err("malformed defined".into()),
            }
        } else {
            out.push(toks[i].clone());
            i += 1;
        }
    }
    Ok(out)
}

pub fn eval_condition(macros: &Macros, toks: &[T]) -> CondRes {
    if toks.is_empty() {
        return CondRes::Ill("empty condition".into());
    }
    let pre = match defined_prepass(macros, toks) {
        Ok(p) => p,
        Err(e) => return CondRes::Ill(e),
    };
    let mut flags = Flags::default();
    let ex = expand(macros, pre, &mut flags);
    if flags.defined_ub || ex.iter().any(|t| t.k == Tk::Id("defined".into())) {
        return CondRes::Ub("defined produced by or passed through macro replacement".into());
    }
    if flags.painted || flags.nl_before_paren || flags.unused_arg {
        return CondRes::Ub("macro shape that belongs to C12".into());
    }
    if flags.bad_invocation {
        return CondRes::Ill("malformed macro invocation".into());
    }
    if ex.iter().any(|t| matches!(t.k, Tk::Other(_) | Tk::Str(_))) {
        return CondRes::Ill("stray token".into());
    }
    let mut p = CParser { t: &ex, i: 0, unsupported: None };
    match p.conditional() {
        Some(v) if p.i == ex.len() => match p.unsupported {
            Some(w) => CondRes::Unsupported(w),
            None => CondRes::Value(v != 0),
        },
        _ => CondRes::Ill("syntax".into()),
    }
}

// ------------------------------------------------------------------------------------------------
// phase 4: directives
// ------------------------------------------------------------------------------------------------

struct Frame {
    parent_active: bool,
    taken: bool,
    else_seen: bool,
    active: bool,
}

enum Stop {
    Reject(&'static str, &'static str),
    Skip(String),
}

pub struct Ref<'a> {
    files: &'a [(String, String)],
    macros: Macros,
    out: Vec<String>,
    once: BTreeSet<String>,
    depth: usize,
    hints: BTreeSet<&'static str>,
    /// an `#elif` C does not evaluate is not a well-formed condition of the supported language (rssl evaluates it)
    dead_elif_bad: bool,
    pub stats: Vec<&'static str>,
}

/// spellings rssl's lexer is known not to accept (used only to *name* the finding when the real code fails)
fn rssl_unlexable(t: &T) -> bool {
    match &t.k {
        Tk::Other(_) | Tk::Chr(_) => true,
        Tk::Num(s) => !matches!(number_value(s), NumVal::Plain(_)),
        _ => false,
    }
}

const RSSL_KEYWORD_DIRECTIVES: &[&str] = &["for", "while", "do", "switch", "return", "true", "false", "struct", "const", "static"];

impl<'a> Ref<'a> {
    pub fn new(files: &'a [(String, String)]) -> Self {
        Ref {
            files,
            macros: Macros::new(),
            out: Vec::new(),
            once: BTreeSet::new(),
            depth: 0,
            hints: BTreeSet::new(),
            dead_elif_bad: false,
            stats: Vec::new(),
        }
    }

    fn flush(&mut self, pending: &mut Vec<T>) -> Result<(), Stop> {
        if pending.is_empty() {
            return Ok(());
        }
        let mut flags = Flags::default();
        let toks = std::mem::take(pending);
        let ex = expand(&self.macros, toks, &mut flags);
        if flags.painted || flags.nl_before_paren || flags.unused_arg {
            return Err(Stop::Skip("macro shape that belongs to C12".into()));
        }
        if flags.bad_invocation {
            return Err(Stop::Skip("malformed macro invocation in text (C12)".into()));
        }
        for t in ex {
            if t.k != Tk::Nl {
                self.out.push(t.spell());
            }
        }
        Ok(())
    }

    fn cond(&mut self, toks: &[T]) -> Result<bool, Stop> {
        match eval_condition(&self.macros, toks) {
            CondRes::Value(b) => Ok(b),
            CondRes::Unsupported(w) => {
                self.stats.push("cond-unsupported");
                let _ = w;
                Err(Stop::Reject("unsupported-construct", ""))
            }
            CondRes::Ill(_) => {
                self.stats.push("cond-ill-formed");
                Err(Stop::Skip("ill-formed condition".into()))
            }
            CondRes::Ub(w) => Err(Stop::Skip(format!("undefined behaviour: {}", w))),
        }
    }

    fn file(&mut self, name: &str, is_main: bool) -> Result<(), Stop> {
        let Some((_, text)) = self.files.iter().find(|(n, _)| n == name) else {
            return Err(Stop::Reject("missing-include", "FailedToFindFile"));
        };
        if self.once.contains(name) {
            return Ok(());
        }
        let lines = match logical_lines(text) {
            Ok(l) => l,
            Err(()) => return Err(Stop::Reject("unterminated-comment", "LexerError")),
        };
        let mut stack: Vec<Frame> = Vec::new();
        let mut pending: Vec<T> = Vec::new();
        for line in &lines {
            let active = stack.last().map(|f| f.active).unwrap_or(true);
            let toks = pp_tokens(&line.text);
            let is_directive = matches!(toks.first().map(|t| &t.k), Some(Tk::P(p)) if p == "#");
            if !is_directive {
                if active {
                    if line.ub_quote {
                        return Err(Stop::Skip("unmatched quote (undefined behaviour)".into()));
                    }
                    if toks.iter().any(|t| matches!(t.k, Tk::Other(_) | Tk::Chr(_))) {
                        return Err(Stop::Skip("text outside rssl's lexical grammar in a selected group".into()));
                    }
                    if toks.iter().any(|t| matches!(&t.k, Tk::Num(s) if !matches!(number_value(s), NumVal::Plain(_)))) {
                        return Err(Stop::Skip("number outside the supported literals in a selected group".into()));
                    }
                    pending.extend(toks);
                    pending.push(T::new(Tk::Nl, false));
                } else {
                    if line.ub_quote {
                        return Err(Stop::Skip("unmatched quote in a skipped group (undefined behaviour)".into()));
                    }
                    if toks.iter().any(rssl_unlexable) {
                        self.hints.insert("unlexable-in-skipped");
                    }
                }
                continue;
            }
            // ---- a directive line
            self.flush(&mut pending)?;
            let rest = &toks[1..];
            let dname: Option<String> = match rest.first().map(|t| &t.k) {
                None => {
                    self.stats.push("null-directive");
                    continue;
                }
                Some(Tk::Id(n)) => Some(n.clone()),
                Some(_) => None,
            };
            let args = if rest.is_empty() { rest } else { &rest[1..] };
            let Some(dname) = dname else {
                // `# non-directive`
                if active {
                    return Err(Stop::Skip("non-directive in a selected group".into()));
                }
                if line.ub_quote {
                    return Err(Stop::Skip("unmatched quote in a skipped group (undefined behaviour)".into()));
                }
                self.hints.insert("nonident-directive-in-skipped");
                if rest.iter().any(rssl_unlexable) {
                    self.hints.insert("unlexable-in-skipped");
                }
                continue;
            };
            if line.ub_quote {
                return Err(Stop::Skip("unmatched quote in a directive (undefined behaviour)".into()));
            }
            match dname.as_str() {
                "if" | "ifdef" | "ifndef" => {
                    if !active {
                        if args.iter().any(rssl_unlexable) {
                            self.hints.insert("unlexable-in-skipped");
                        }
                        stack.push(Frame { parent_active: false, taken: false, else_seen: false, active: false });
                        continue;
                    }
                    let b = if dname == "if" {
                        self.cond(args)?
                    } else {
                        match args {
                            [T { k: Tk::Id(x), .. }] => {
                                if RSSL_KEYWORD_DIRECTIVES.contains(&x.as_str()) || x == "if" || x == "else" {
                                    return Err(Stop::Skip("keyword as macro name".into()));
                                }
                                self.macros.contains_key(x) != (dname == "ifndef")
                            }
                            _ => {
                                return Err(Stop::Reject(
                                    "malformed-ifdef",
                                    if dname == "ifdef" { "InvalidIfdef" } else { "InvalidIfndef" },
                                ));
                            }
                        }
                    };
                    stack.push(Frame { parent_active: true, taken: b, else_seen: false, active: b });
                }
                "elif" => {
                    let Some(f) = stack.last_mut() else {
                        // rssl evaluates the condition before it looks at the stack
                        let plain = matches!(eval_condition(&self.macros, args), CondRes::Value(_));
                        // every file's conditionals balance by themselves: the same variant in an included file
                        let want = if plain { "ElseNotMatched" } else { "" };
                        return Err(Stop::Reject(if is_main { "unmatched-elif" } else { "unmatched-in-include" }, want));
                    };
                    if f.else_seen {
                        return Err(Stop::Reject("elif-after-else", ""));
                    }
                    if f.parent_active && !f.taken {
                        let b = match eval_condition(&self.macros, args) {
                            CondRes::Value(b) => b,
                            CondRes::Unsupported(_) => return Err(Stop::Reject("unsupported-construct", "")),
                            CondRes::Ill(_) => return Err(Stop::Skip("ill-formed condition".into())),
                            CondRes::Ub(w) => return Err(Stop::Skip(format!("undefined behaviour: {}", w))),
                        };
                        let f = stack.last_mut().unwrap();
                        f.active = b;
                        f.taken = b;
                    } else {
                        f.active = false;
                        // C does not evaluate this condition; rssl does
                        if !matches!(eval_condition(&self.macros, args), CondRes::Value(_)) {
                            self.dead_elif_bad = true;
                        }
                        if args.iter().any(rssl_unlexable) {
                            self.hints.insert("unlexable-in-skipped");
                        }
                    }
                }
                "else" => {
                    let Some(f) = stack.last_mut() else {
                        let want = if args.is_empty() { "ElseNotMatched" } else { "" };
                        return Err(Stop::Reject(if is_main { "unmatched-else" } else { "unmatched-in-include" }, want));
                    };
                    if f.else_seen {
                        return Err(Stop::Reject("else-after-else", ""));
                    }
                    if !args.is_empty() {
                        if f.parent_active {
                            return Err(Stop::Reject("junk-after-else", "InvalidElse"));
                        }
                        self.hints.insert("junk-after-else-endif-in-skipped");
                        if args.iter().any(rssl_unlexable) {
                            self.hints.insert("unlexable-in-skipped");
                        }
                    }
                    f.else_seen = true;
                    f.active = f.parent_active && !f.taken;
                    f.taken = true;
                }
                "endif" => {
                    let Some(f) = stack.last() else {
                        let want = if args.is_empty() { "EndIfNotMatched" } else { "" };
                        return Err(Stop::Reject(if is_main { "unmatched-endif" } else { "unmatched-in-include" }, want));
                    };
                    if !args.is_empty() {
                        if f.parent_active {
                            return Err(Stop::Reject("junk-after-endif", "InvalidEndIf"));
                        }
                        self.hints.insert("junk-after-else-endif-in-skipped");
                        if args.iter().any(rssl_unlexable) {
                            self.hints.insert("unlexable-in-skipped");
                        }
                    }
                    stack.pop();
                }
                _ if !active => {
                    // nothing else is looked at in a skipped group
                    if args.iter().any(rssl_unlexable) {
                        self.hints.insert("unlexable-in-skipped");
                    }
                    if dname == "include" {
                        // rssl lexes the rest of an #include line in header-name mode even when skipping
                        let tail: String = args.iter().map(|t| t.spell()).collect::<Vec<_>>().join(" ");
                        let t = tail.trim();
                        let well = (t.starts_with('"') && t.len() > 1 && t.ends_with('"')) || (t.starts_with('<') && t.ends_with('>')) || !t.contains('<');
                        if !well {
                            self.hints.insert("unlexable-in-skipped");
                        }
                    }
                    if RSSL_KEYWORD_DIRECTIVES.contains(&dname.as_str()) {
                        self.hints.insert("nonident-directive-in-skipped");
                    }
                }
                "define" => match parse_define(args) {
                    Ok((n, d)) => {
                        if n == "defined" || RSSL_KEYWORD_DIRECTIVES.contains(&n.as_str()) || n == "if" || n == "else" {
                            return Err(Stop::Skip("keyword as macro name".into()));
                        }
                        if d.body.iter().any(|t| matches!(&t.k, Tk::P(p) if p == "#" || p == "##")) {
                            return Err(Stop::Skip("# / ## in a macro body (C12)".into()));
                        }
                        if d.body.iter().any(rssl_unlexable) {
                            return Err(Stop::Skip("macro body outside rssl's lexical grammar".into()));
                        }
                        if d.params.iter().any(|p| RSSL_KEYWORD_DIRECTIVES.contains(&p.as_str()) || p == "if" || p == "else") {
                            return Err(Stop::Skip("keyword as parameter name".into()));
                        }
                        self.macros.insert(n, d);
                    }
                    Err(()) => return Err(Stop::Reject("malformed-define", "InvalidDefine")),
                },
                "undef" => match args {
                    [T { k: Tk::Id(x), .. }] => {
                        self.macros.remove(x);
                    }
                    _ => return Err(Stop::Reject("malformed-undef", "InvalidUndef")),
                },
                "include" => {
                    let tail: String = line.text.trim_start().trim_start_matches('#').trim_start().trim_start_matches("include").trim().to_string();
                    let fname = if tail.len() >= 2 && tail.starts_with('"') && tail[1..].find('"') == Some(tail.len() - 2) {
                        tail[1..tail.len() - 1].to_string()
                    } else if tail.len() >= 2 && tail.starts_with('<') && tail.find('>') == Some(tail.len() - 1) {
                        tail[1..tail.len() - 1].to_string()
                    } else if matches!(args.first().map(|t| &t.k), Some(Tk::Id(_))) {
                        return Err(Stop::Skip("macro-expanded #include (C12)".into()));
                    } else {
                        return Err(Stop::Reject("malformed-include", ""));
                    };
                    if self.depth >= 200 {
                        return Err(Stop::Reject("include-depth", "IncludeDepthExceeded"));
                    }
                    self.depth += 1;
                    let r = self.file(&fname, false);
                    self.depth -= 1;
                    r?;
                }
                "pragma" => match args.first().map(|t| &t.k) {
                    Some(Tk::Id(p)) if p == "once" => {
                        self.once.insert(name.to_string());
                    }
                    Some(Tk::Id(p)) if p == "warning" => {}
                    _ => return Err(Stop::Reject("unknown-pragma", "UnknownPragma")),
                },
                "error" => return Err(Stop::Reject("error-directive", "")),
                "line" | "warning" | "ident" | "assert" | "elifdef" | "elifndef" | "embed" | "include_next" => {
                    return Err(Stop::Skip("directive rssl does not have".into()));
                }
                n if RSSL_KEYWORD_DIRECTIVES.contains(&n) => return Err(Stop::Reject("unknown-directive", "UnknownCommand")),
                _ => return Err(Stop::Reject("unknown-directive", "UnknownCommand")),
            }
        }
        self.flush(&mut pending)?;
        if !stack.is_empty() {
            return Err(Stop::Reject(
                if is_main { "unterminated" } else { "unterminated-in-include" },
                "ConditionChainNotFinished",
            ));
        }
        Ok(())
    }

    pub fn run(mut self, defs: &[(String, String)]) -> RefResult {
        for (n, v) in defs {
            if n.contains('\n') || v.contains('\n') {
                // not expressible as a C command-line define
                return RefResult { expected: Expected::Skip("API define with a line break".into()), hints: self.hints, stats: self.stats };
            }
            let toks = pp_tokens(&format!("{} {}", n, v));
            if toks.iter().any(rssl_unlexable) {
                return RefResult { expected: Expected::Skip("API define outside rssl's lexical grammar".into()), hints: self.hints, stats: self.stats };
            }
            match parse_define(&toks) {
                Ok((n, d)) => {
                    self.macros.insert(n, d);
                }
                Err(()) => {
                    return RefResult {
                        expected: Expected::Reject("malformed-api-define", "InvalidDefine"),
                        hints: self.hints,
                        stats: self.stats,
                    };
                }
            }
        }
        let r = self.file("main.rssl", true);
        let e = match r {
            Err(Stop::Skip(w)) => Expected::Skip(w),
            _ if self.dead_elif_bad => Expected::Skip("an #elif C does not evaluate is not a well-formed supported condition".into()),
            Err(Stop::Reject(k, v)) => Expected::Reject(k, v),
            Ok(()) => Expected::Accept(std::mem::take(&mut self.out)),
        };
        RefResult { expected: e, hints: self.hints, stats: self.stats }
    }
}

/// token spellings -> comparison form: punctuators exploded into characters (rssl lexes `<=`, `<<`, `->`
/// as several tokens), everything else kept
pub fn normalise(spellings: &[String]) -> Vec<String> {
    let mut out = Vec::new();
    for s in spellings {
        let wordlike = s.chars().next().map(|c| c.is_ascii_alphanumeric() || c == '_' || c == '"' || c == '\'').unwrap_or(false);
        if wordlike {
            out.push(s.clone());
        } else {
            for c in s.chars() {
                out.push(c.to_string());
            }
        }
    }
    out
}

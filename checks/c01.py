"""C01 — HLSL export preserves the meaning of every accepted program."""
import re

T = "RsslVerif.Thm.C01."


def _fields(req):
    return req.split("\t")


def nontrivial(req, obs):
    # the function was inside the modelled subset, was exported, and at least one argument vector ran to completion
    if req.startswith("C01.prim\t"):
        return True
    return obs.startswith("ast ") and " r=" in obs


def finding_key(req, obs, detail):
    if obs == "" and detail == "":
        # vlib's probe "is the key the request itself?": an oracle failure of a smaller source is accepted while shrinking
        return req
    m = re.match(r"FAIL:panic ([^:]+):\d+: (.*)$", detail or "")
    if m:
        # path relative to the repository root, wherever the repository is checked out (VERIF_REPO)
        path = re.sub(r"^.*?((?:hlsl|msl|ir|typer|parser|formatter|preprocess|text|ast|src)/(?:src/)?[^/]+\.rs)$", r"\1", m.group(1))
        return "panic %s: %s" % (path, re.sub(r"\d+", "N", m.group(2)))
    f = _fields(req)
    # the specific input: source text, function and argument vectors (ctx / ir are derived from the source)
    return "input " + "\t".join(f[1:4])


def _spans(lines):
    """statement spans of generated source (one statement per line, braces on their own lines): (first, last) line
    indices of single-line statements and of `header { ... }` (+ `else { ... }`) groups"""
    def block_end(j):
        depth = 0
        while j < len(lines):
            depth += lines[j].count("{") - lines[j].count("}")
            if depth <= 0:
                return j
            j += 1
        return None
    out = []
    for i, ln in enumerate(lines):
        st = ln.strip()
        if st in ("", "{", "}", "else") or st.startswith("}"):
            continue
        if i + 1 < len(lines) and lines[i + 1].strip() == "{":
            e = block_end(i + 1)
            if e is None:
                continue
            if e + 2 < len(lines) and lines[e + 1].strip() == "else" and lines[e + 2].strip() == "{":
                e2 = block_end(e + 2)
                if e2 is not None:
                    out.append((i, e2))        # whole if/else
                    out.append((e + 1, e2))    # only the else branch
                    continue
            out.append((i, e))
        else:
            out.append((i, i))
    return out


def shrink_v(req):
    """vector stream: one argument vector, then whole definitions, then statement groups (largest first)"""
    f = _fields(req)
    vecs = f[3].split(";") if f[3] else []
    if len(vecs) > 1:
        for v in vecs:
            yield "\t".join([f[0], f[1], f[2], v, "-", "-"])
    chunks = f[1].split("\\n\\n")
    for i in range(len(chunks)):
        if not chunks[i].strip() or len(chunks) == 1:
            continue
        yield "\t".join([f[0], "\\n\\n".join(chunks[:i] + chunks[i + 1:]), f[2], f[3], "-", "-"])
    lines = f[1].split("\\n")
    spans = sorted(_spans(lines), key=lambda s: (s[0] - s[1], s[0]))
    for (a, b) in spans:
        if lines[a] and not lines[a].startswith(" ") and not lines[a].startswith("static") and a != b:
            continue  # a whole function / struct: handled as a chunk
        yield "\t".join([f[0], "\\n".join(lines[:a] + lines[b + 1:]), f[2], f[3], "-", "-"])


def shrink(req):
    """drop one source line at a time (the harness recomputes ctx and ir from the source)"""
    if req.startswith("C01.vfn\t"):
        yield from shrink_v(req)
        return
    f = _fields(req)
    # one argument vector (the failing one survives)
    vecs = f[3].split(";") if f[3] else []
    if len(vecs) > 1:
        for v in vecs:
            yield "\t".join([f[0], f[1], f[2], v, "-", "-"])
    # whole definitions first (never the function under test)
    chunks = f[1].split("\\n\\n")
    for i in range(len(chunks)):
        if (" " + f[2] + "(") in chunks[i] or not chunks[i].strip():
            continue
        yield "\t".join([f[0], "\\n\\n".join(chunks[:i] + chunks[i + 1:]), f[2], f[3], "-", "-"])
    lines = f[1].split("\\n")
    for i in range(len(lines)):
        if lines[i].strip() in ("", "{", "}"):
            continue
        yield "\t".join([f[0], "\\n".join(lines[:i] + lines[i + 1:]), f[2], f[3], "-", "-"])


def custom(ctx):
    ctx.standard_run()
    # how many of the explored programs satisfy the hypotheses of the theorems (Ir.wtFunc: typed + LitOK + no
    # cast-to-literal of a non-literal)?  A low share would mean the theorems talk about few real programs.
    reqs = [r for r in ctx.distinct if r.startswith("C01.fn\t") and r.split("\t")[2] != "-"]
    if reqs:
        ans = ctx.run_model(["C01.wt" + r[len("C01.fn"):] for r in reqs])
        # "no-agree": well typed, but two variables of one function carry the same emitted name (the source shadows a name
        # or re-uses it in a sibling block) — the flat name environment of the Lean C semantics (hypothesis `Agree`) does not
        # cover block scoping; those programs are judged by the harness's two evaluators only (text side: scopes.rs)
        ctx.extra["theorem_hypotheses"] = {"requests": len(reqs), "wt": ans.count("wt"), "not_wt": ans.count("not-wt"),
                                           "well_typed_but_names_not_flat": ans.count("no-agree"),
                                           "outside_model": ans.count("unsupported")}
        floor = 0.9
        if ans.count("wt") < floor * max(1, len(reqs) - ans.count("unsupported") - ans.count("no-agree")):
            ctx.broken.append("coverage: fewer than 90% of the explored well-typed programs satisfy the theorems' hypotheses")
    # the same for the vector layer (hypotheses of gen_sem_vec_expr: VIr.typeOf + VIr.litOK)
    vreqs = [r for r in ctx.distinct if r.startswith("C01.vex\t") and r.split("\t")[2] != "-" and r.split("\t")[4] != "-"]
    if vreqs:
        ans = ctx.run_model(["C01.vwt" + r[len("C01.vex"):] for r in vreqs])
        ctx.extra["vector_theorem_hypotheses"] = {"requests": len(vreqs), "wt": ans.count("wt"), "not_wt": ans.count("not-wt"),
                                                  "outside_layer": ans.count("unsupported")}
        if ans.count("wt") < 0.9 * max(1, len(vreqs) - ans.count("unsupported")):
            ctx.broken.append("coverage: fewer than 90% of the explored vector expressions satisfy gen_sem_vec_expr's hypotheses")


def _esc(src):
    return src.replace("\\", "\\\\").replace("\n", "\\n").replace("\t", "\\t")


SEARCH_SOURCES = [
    # shapes where an exporter that drops / regroups / re-spells something would change the result
    "int f1(int a, int b) { int r = (a, b); return r; }\n",
    "int f1(int a) { return -(-a) - -a + +(+a); }\n",
    "int f1(int a, int b, bool c) { int r = 0; r = c ? a : (b = 3); return r + b; }\n",
    "int f1(int a, int b) { return a - (b - 1) - (a / (b | 1)) * 2 % 5; }\n",
    "uint f1(uint a, int s) { a <<= s; a >>= 1; a = a >> (uint)s << 1; return a; }\n",
    "int f1(int a) { int i = 0; for (i = 0, a = a + 1; i < 3; ++i, a += i) { if (a > 5) { continue; } a *= 2; } return a; }\n",
    "bool f1(int a, uint b) { return a < b || (a == -1 && b != 0u) == !(a > 0); }\n",
    "int f1(int a) { int r = a++ + ++a; r -= a-- - --a; return r; }\n",
    "int g(inout int x, out int y, int z) { y = x + z; x = x * 2; return y - x; }\nint f1(int a) { int o; int r = g(a, o, a + 1); return r + a + o; }\n",
    "static int s = 2147483647;\nint f1(int a) { s = s + a; return s / 2; }\n",
    "float f1(int a, uint b) { float r = a; r += b; r = r * 0.5f - (float)(a > 2); return -r; }\n",
    "int f1(uint a) { return (int)a >> 31; }\n",
    "int f1(int a) { return 2147483647 + a - -2147483647; }\n",
    # float comparisons are not a total order (the second argument vector of every function has NaN in every float parameter)
    "int f1(float a, float b) { int r = 0; if (a < b) { } else { r = 1; } if (a >= b) ; else r += 2; if (!(a <= b)) { r += 4; } return r; }\n",
    "int f1(float a, float b) { int r = (a == a) ? 1 : 2; r += (a != b) ? 4 : 8; float m = (a < b) ? a : b; return r + ((m > b) ? 16 : 32); }\n",
    "int f1(float a, float b) { int r = 0; for (int i = 0; i < 3 && a <= b; ++i) { r += 1; } while (!(a > b) && r < 5) { r += 2; } return r; }\n",
    "int f1(float a, int k, uint u) { return (int)a + (int)(float)k + (int)(uint)a + (int)(float)u; }\n",
    # names: a local the name map must rename (`pass`, `texture`, the name of a used function / global) next to a local that
    # is literally called `<name>_<k>`, after earlier functions consumed `<name>_0 ..` (seeded mutant C01-4)
    "int first(int x) { int pass = x + 1; return pass * 2; }\nint f1(int x) { int pass_1 = x; { int pass = 5; pass_1 += pass; } return pass_1; }\n",
    "int c0(int texture) { return texture + 1; }\nint c1(int x) { int texture = x; return texture * 2; }\n"
    "int f1(int texture_2, int y) { { int texture = y + 5; texture_2 += texture * 3; } return texture_2; }\n",
    "static int gv = 11;\nint helper(int a) { return a * 2 + 1; }\nint user(int a) { return helper(a) + gv; }\n"
    "int c0(int x) { int helper = x; return helper; }\n"
    "int f1(int x, int y) { int helper_1 = x; int gv_0 = y; { int helper = y + 5; int gv = 3; helper_1 += helper * gv; } return helper_1 - gv_0 + user(x); }\n",
    "int c0(int x) { int sampler = x; return sampler; }\n"
    "int f1(int x, int y) { int sampler_1 = x; if (y > 0) { int sampler = y * 2; sampler_1 += sampler; } else { int sampler = 3 - y; sampler_1 -= sampler; } "
    "for (int sampler = 0; sampler < 3; ++sampler) { sampler_1 += sampler; } return sampler_1; }\n",
    "int f1(int x, int y) { int r = x; { int x = r + 1; r += x; { int x = 3; r *= x; } r -= x; } for (int x = 0; x < 2; ++x) { r += x + y; } return r + x; }\n",
]


def search(ctx):
    """model-side witness search: small programs around every place the exporter restructures something, each on a value grid"""
    grid = "i:00000000,i:00000001,b:1;i:7fffffff,i:ffffffff,b:0;i:80000000,i:00000002,b:1;i:00000005,i:00000003,b:0"
    out = []
    for src in SEARCH_SOURCES:
        out.append("C01.fn\t%s\t-\t%s\t-\t-" % (_esc(src), ""))
    return out


C01NAMES = ["agree_unsatisfiable_of_shared_name", "agree_unsatisfiable_of_shared_function_name", "agree_of_injective",
            "assignLocals_class", "assignLocals_collision_free", "local_pass_collision_free",
            "locals_with_distinct_sources_stay_distinct",
            # the local pass protects exactly the names the usage analysis reports (seeded mutant C01-5)
            "assignLocals_keeps_unreserved", "unreserved_used_name_can_be_captured", "usage_analysis_descends_everywhere"]

# property C02's obligations about ir/src/usage_analysis.rs (gather_usage_* / GlobalUsageAnalysis): NameMap::build reserves for
# local variables only the names of the functions / globals that this analysis reports as used by some body
C02USAGE = ["tables_as_modelled", "all_positions_descended", "recurse_no_panic", "recurse_terminates", "close_is_reachability",
            "calculateLocal_wf", "closeProgram_ok", "mentions_calculateLocal", "default_arguments_analysed",
            "global_initialisers_analysed"]


SPEC = {
    "id": "C01",
    # Reserved: C15's translator (reserved words + the source fingerprints of NameMap::build, incl. the local-variable pass)
    # UsageTables: C02's translator (match-arm / field inventory of gather_usage_*: which fields of every statement / expression /
    # initialiser variant the usage analysis descends into)
    "gens": ["HlslGenTables", "HlslIntrinsicTables", "HlslVecTables", "FmtTables", "ParseTables", "Reserved", "UsageTables"],
    "lean_modules": ["RsslVerif.Thm.C01", "RsslVerif.Thm.C01Decl", "RsslVerif.Thm.C01Names", "RsslVerif.Thm.C01Vec", "RsslVerif.Thm.C09", "RsslVerif.Thm.C15",
                     "RsslVerif.Thm.C02"],
    "theorems": [T + n for n in [
        "op_table_is_identity", "op_table_injective", "intrinsic_table_is_identity", "exporter_shape_as_modelled",
        "literal_value_preserved", "literal_total", "literal_never_panics", "literal_int32_min",
        "gen_sem_expr", "gen_sem_expr_plain", "gen_sem_stmt", "gen_sem_stmts", "scope_block_push_is_append",
        "gen_sem_func", "gen_sem_program",
        "cast_to_literal_dropped_changes_meaning",
        # comparisons of a Prim are independent (NaN): the "opposite comparison" is not the negation (seeded mutant C01-3)
        "opposite_comparison_is_not_negation", "ifelse_opposite_condition_changes_meaning",
        "statement_attribute_names_roundtrip",
        # Thm/C01Decl.lean: modules with function prototypes (FunctionDeclaration arm, only_declare) — the definitions among
        # the emitted items are genProg of the implementations, a prototype announces the definition's signature
        "declaration_arms_as_modelled", "definitions_of_module", "gen_sem_module", "prototype_agrees_with_definition",
        "prototype_without_implementation_is_refused",
        # vector layer (Thm/C01Vec.lean): shape-changing casts, swizzles, numeric constructors, component-wise operators
        "exporter_vec_shape_as_modelled", "swizzle_letters_are_identity", "vector_type_names_roundtrip",
        "vector_intrinsic_table_is_identity", "wide_constants_keep_kind_and_payload",
        "gen_sem_vec_expr", "gen_sem_vec_expr_plain", "gen_sem_vec_assign", "scalar_cast_then_widen_differs",
        "dropping_inner_shape_cast_changes_meaning", "vector_op_literal_in_concrete_type", "literal_vector_cast_panics"]] + [
        # the text leg (printing the exported tree and reading it back) is property C09's; its table obligations are
        # C01 obligations too: a change of the printer's precedence / associativity tables breaks them
        "RsslVerif.Thm.C09." + n for n in ["tables_agree", "assoc_agrees", "roundtrip_expr_partial", "paren_rule_matches_grammar"]] + [
        # "every use refers to the entity it referred to in the source" (the hypothesis `Agree` of gen_sem_*) is property C15's
        # conclusion about NameMap::build; its obligations are C01 obligations too: a change of the name map (seeded mutant
        # C01-4: the local-variable pass hands out a name another local already has) breaks source_fingerprints and with it
        # everything in Thm.C15, and C01 starts its witness search (SEARCH_SOURCES: renamed locals next to `name_k` locals)
        "RsslVerif.Thm.C15." + n for n in [
            "source_fingerprints", "reserved_complete", "never_reserved", "injective_per_scope", "verbatim",
            "locals_apart_from_used", "scope_loop_terminates", "emitted_never_reserved", "emitted_injective_file_scope",
            "flat_used_name_unique", "uses_resolve_to_same_entity"]] + [
        # Thm/C01Names.lean: the local pass never gives two locals one name unless the source did, and what `Agree` needs
        "RsslVerif.Thm.C01Names." + n for n in C01NAMES] + [
        # which names are reserved for locals rests on the usage analysis: a body's mention that gather_usage_* does not visit
        # leaves the symbol's name free for a local, which then captures the reference (Thm.C01Names.
        # unreserved_used_name_can_be_captured; seeded mutant C01-5: the index of ArraySubscript no longer descended into makes
        # all_positions_descended false).  C02's obligations about gather_usage_* / recurse are C01 obligations too
        "RsslVerif.Thm.C02." + n for n in C02USAGE],
    "harness": "c01",
    "nontrivial": nontrivial,
    "finding_key": finding_key,
    "shrink": shrink,
    "search": search,
    "custom": custom,
    "rule": "three generated streams run through the real front end and the real HLSL exporter (both flavours): (1) C01.fn — "
            "well-typed RSSL programs of the scalar subset (bool/int/uint/float; every statement form, all operators, implicit and "
            "explicit conversions, ternary, comma, user functions with in/out/inout, static globals), one request per user function x "
            "8 argument vectors; the model recomputes the exporter's syntax tree from the serialised IR and runs both semantics; "
            "(2) C01.vfn — programs with vectors (bool/int/uint/float x 2..4), matrices, swizzles (read and write), subscripts, "
            "numeric constructors, shape-changing casts incl. chains, component-wise operators with scalar splatting / truncation, "
            "?: on vectors, structs (members, aggregate initialisers, methods with implicit `this`), local and global arrays, enums, "
            "default parameters, overloaded functions, function templates, out/inout vector parameters, vector / struct / array "
            "static globals, the pure built-ins on vectors (uninterpreted); 6 argument vectors per function; judged by two independent "
            "Rust evaluators (typed IR vs re-parsed emitted text under HLSL's rules); the Lean model answers `unsupported-op`; "
            "(3) C01.vex — expression functions of the Lean vector layer (casts, swizzles, constructors, component-wise operators, "
            "&& ||, ?:, scalar sub-expressions): the model's tree must equal the exporter's tree of the returned expression and "
            "Lean's VIr.eval must equal the Rust IR evaluator on 6 argument vectors; plus, in every tier, the exhaustive "
            "operator-nesting stream (1294 one-function programs on a 14-vector grid), the vector-syntax nesting stream (22 outer x 17 "
            "inner forms: swizzle / subscript / cast / constructor / call / prefix / postfix / assignment / comma / ?: in each other, "
            "374 programs on 3 vectors), the statement-shape streams (scalar: 18 conditions — the six float comparisons, negated, "
            "self-comparisons, && / ||, float against literal / int, side-effecting — x if / if-else with every pair of empty `{ }` / `;` / "
            "nested-empty / non-empty bodies, x 51 further forms: ?:, && ||, loop conditions of for / while / do with empty and non-empty "
            "bodies, empty sides around break / continue / return, else-if chains, dangling else, switch, blocks, every statement "
            "attribute; ~1700 programs on a 16-vector grid with NaN on either / both sides, both zeros, infinities, subnormals, FLT_MAX; "
            "55 conversion / constant programs on the 32 float x 22 int edge values; vector: 10 component conditions x 28 forms on "
            "vectors with NaN components), the primitive stream C01.prim (the harness's comparisons and conversions against the "
            "model's bit-level IEEE ones on ~70 x 70 edge / random patterns), the name-hygiene stream (names.rs: 14 names the name map "
            "must rename — 12 words reserved in HLSL that RSSL accepts as identifiers (pass, texture, sampler, string, technique, vector, "
            "matrix, abs, min, lerp, dot, select), a used function, a used static global — x 13 shapes (the renamed name in an inner block / "
            "outer block / parameter / for-initialiser / both branches of if-else / loop body / sibling blocks / a three-level shadowing "
            "chain, next to a source local, parameter, function or static global literally called <name>_<k>, the function called / the global read and written while the renamed local is in scope) x 0..2 earlier functions whose own local or "
            "parameter consumes <name>_0, <name>_1 x k = 0..2: 780 programs on 5 argument vectors; then 200 (thorough 3000) random modules "
            "of 2..4 functions whose parameters, block locals and for-variables are drawn from one pool {two reserved words, their _0 _1 _2 "
            "_1_0 forms, helper, helper_0, helper_1, gv, gv_0, user_0, two plain names} with shadowing and re-use in sibling blocks; the text "
            "evaluator resolves every identifier of the re-parsed output by C block scoping (scopes.rs: innermost declaration; two "
            "declarations of a name in one scope, a dangling identifier or a call captured by a local are failures), the IR evaluator goes by "
            "variable ids), the usage-position stream (names.rs::usage_stream, 522 programs: the ONLY reference of the module to a global "
            "variable / function sits at one of 64 syntactic positions — every statement-, expression- and initialiser-valued field "
            "gather_usage_* descends into: expression statement, initialiser (first / second declarator), blocks, if / if-else / else-if "
            "conditions and bodies, the four for-clauses incl. a second init-declarator, while / do-while condition and body, switch "
            "selector and body, return, the three ?: operands, both comma operands, call arguments (first, second, nested, built-in, "
            "method, out / inout), casts, unary / binary / logical operands, assignment targets, ++ / --, array index (read, write, "
            "vector, nested), constructor slots, swizzle / member of a constructor / cast / call result, aggregate initialisers (array, "
            "struct), default arguments — (A) inside the scope of a local `B` (pass / texture / min) that the name map renames to "
            "`B_k` exactly when the symbol, literally called `B_k`, is NOT reported used, (A') the symbol is a global array / vector / matrix / struct called `B_k` and the "
            "reference is the object of a subscript / swizzle / matrix swizzle / member access / method call, (B) in the own initialiser of a local "
            "called like the symbol (`int slot = v[slot];`); C01.fn programs for the scalar positions, C01.vfn for arrays / vectors / "
            "structs; the text evaluators follow C: a declarator's name is in scope in its own initialiser, the parameters "
            "declared so far are in scope in a default argument, a local hides a function of its name), the enum-operand stream "
            "(enumops.rs, 2040 programs: an int based and a uint based enum — `enum U { UA = 0, UB = 7, UM = 4294967295u }` — as a "
            "variable or an enumerator x 14 other operands (int / uint / float / bool variables; the literals 0, 1, -1, 4294967295, 3u, "
            "2.5f, true, (int)-1; an enumerator / a variable of the same enum) x the 18 binary operators x both operand orders, compound "
            "assignments with the enum on the right, ?: between values of one enum; since fix 80dd7f9 the type checker does such an "
            "operation in the enum's underlying type — `(uint)U::UM > (uint)i`, `(uint)x == 0u` — and accepts an enum next to an "
            "untyped literal; 7 argument vectors with 0, -1, INT_MIN / INT_MAX, UINT_MAX, NaN; C01.vfn), the declaration-form stream (declforms.rs, every tier: function prototypes P next to the definition D "
            "and a user F in the orders P-D-F, P-F-D, D-P-F, D-F-P, repeated prototypes, prototypes of the tested function itself, a chain of "
            "functions that reach each other only through prototypes, prototypes that spell the parameters differently / swapped / with "
            "reserved words, out / inout / bool / uint / float signatures, a static global between prototype and definition, loops and "
            "switch in a function defined after its use (19 C01.fn programs: the Lean model recomputes tree and both semantics); default "
            "arguments with a prototype of another function around and with expressions over globals / functions known through a "
            "prototype, vector / struct / array / enum parameters and results, overload sets declared in another order than defined and "
            "called with an enum argument, prototypes in re-opened and nested namespaces, a function template with a prototype (refused "
            "by the exporter: FunctionNotDefined), template instantiations with a struct argument and with value parameters, precise "
            "parameters / locals / struct members (kept in place: separate oracle on the exported trees), one-component vectors, unsuffixed "
            "float literals folded to int / uint / bool, four-column matrices (15 C01.vfn programs); and every third program of the random "
            "C01.fn / C01.vfn streams is rewritten (protoize) so that about half of its plain functions get prototypes — before the "
            "definition, hoisted in front of the first function, after the definition, repeated at the end — and some definitions move "
            "behind all their uses; the re-parsed text is read by the C++ / HLSL declaration rules (protos.rs: one definition per "
            "signature, a prototype agrees with its definition in return and parameter types, default arguments accumulate over the "
            "declarations and none is given twice, declared before the calling body, enough arguments for the parameters without "
            "default) and any breach is an oracle failure) and the corpus; argument vectors of all generated streams "
            "draw floats from NaNs (quiet, signalling, negative, full payload), both zeros, infinities, subnormals, FLT_MIN / FLT_MAX, the "
            "conversion limits around 2^24 / 2^31 / 2^32, and ints from 0, +-1, INT_MIN(+1), INT_MAX, UINT_MAX(-1), 31 / 32 / 33, rounding "
            "boundaries; the second vector of every function has NaN in every float parameter; statement attributes are evaluated through "
            "(hints) and must stay on their statements in order; non-trivial = function in the "
            "modelled subset, exported, and at least one vector ran to completion",
    "level_text": "Scalar subset (bool/int/uint/float, literal int/float; constants, locals, static globals, every IntrinsicOp the "
                  "exporter accepts, ?:, comma, casts, calls with in/out/inout, 46 pure built-ins; all statement forms incl. switch): the "
                  "model of generate_expression / _literal / _statement / _for_init / _function is proved, by induction over "
                  "expressions, statements and call depth, to emit syntax whose C-like semantics gives bit-identical return value, "
                  "out/inout values and final globals to the typed IR semantics, for every interpretation of the float / conversion / "
                  "integer-division primitives and every loop fuel (gen_sem_expr … gen_sem_program). Vector layer (Thm/C01Vec): for "
                  "every expression built from casts between any scalar / vector types in any nesting, swizzles, numeric constructors "
                  "with any slot partition, component-wise unary / binary / comparison operators, && ||, ?: with vector arms, vector "
                  "variables and scalar sub-expressions of the scalar model, the model of the Cast / Swizzle / Constructor arms and of "
                  "generate_type's Vector arm is proved (gen_sem_vec_expr, mutual induction over VExpr / VSlots re-using sim_expr at "
                  "the scalar leaves) to emit a tree whose HLSL meaning (static types, usual arithmetic conversions extended to vectors, "
                  "splat / truncate / first-component conversions, flattening constructors, .xyzw/.rgba members) equals the IR value "
                  "and scalar store for every value of the vector variables; statement-level assignment and compound assignment to a "
                  "vector variable or a swizzle of one (swizzle *write*) update the vector store identically (gen_sem_vec_assign); "
                  "swizzle letters, vector type names and the 11 vector-only "
                  "built-in names are proved to round-trip; cast chains are proved not collapsible (scalar_cast_then_widen_differs, "
                  "dropping_inner_shape_cast_changes_meaning: the tree without the inner cast evaluates differently — seeded mutant "
                  "C01-2 also breaks exporter_vec_shape_as_modelled and exporter_shape_as_modelled). The six float comparisons are "
                  "independent fields of the quantified Prim: opposite_comparison_is_not_negation exhibits the IEEE-754 interpretation "
                  "(NaN) under which `a >= b` is not `!(a < b)` etc., and ifelse_opposite_condition_changes_meaning proves that the tree "
                  "seeded mutant C01-3 emits (`if (<opposite of c>) B` for `if (c) { } else B`) evaluates differently from the IR while "
                  "the modelled tree agrees; exporter_shape_as_modelled now covers every arm of generate_statement (one unguarded arm per "
                  "StatementKind, each textually the modelled one: statementArmsAsModelled, ifElseArmAsModelled, the attribute wrapper, "
                  "generate_for_init), every arm of generate_expression (one unguarded arm per variant; leaf / operator / call / ternary "
                  "arms pinned) and the call / variable-definition helpers. Operator, literal, intrinsic, "
                  "swizzle tables and the shapes of the arms are re-extracted from the source on every run. "
                  "Modules with function prototypes (Thm/C01Decl over Model/GenHlslDecl: the FunctionDeclaration / Function arms of "
                  "generate_root_definition and the only_declare flag of generate_function_inner, pinned by the re-extracted fact "
                  "declarationArmsAsModelled): for every list of declarations and definitions in any number and order the definitions among "
                  "the emitted items are exactly genProg of the module's implementations (definitions_of_module), hence the emitted module "
                  "computes what the typed module computes (gen_sem_module = gen_sem_program through it), every emitted prototype has the "
                  "name, return type and parameters of the emitted definition and no body (prototype_agrees_with_definition), and a declared "
                  "function without implementation is the export error FunctionNotDefined (prototype_without_implementation_is_refused). "
                  "Default arguments are outside the scalar Lean model, so the two default-argument findings live in the harness oracle only. "
                  "Both models are compared "
                  "with the real exporter's trees and the Lean IR semantics with the harness's evaluators on generated programs, under a "
                  "concrete interpretation whose comparisons and int<->float conversions are the IEEE-754 / Direct3D ones (NaN unordered, "
                  "+0 == -0, truncation, NaN -> 0, saturation, round-to-nearest-even) and whose arithmetic and built-ins satisfy no "
                  "algebraic law. "
                  "Partial with respect to the property's quantifier: the vector layer has no assignment nested inside expressions, no "
                  "increment of vectors, no matrices, structs, arrays, enums, methods, templates, default parameters, overloads, vector built-ins — "
                  "those are covered by the C01.vfn stream only (test, two independent evaluators, both flavours, bit-exact; enum operands "
                  "of binary operations, typed in the enum's underlying type since fix 80dd7f9, exhaustively by enumops.rs), "
                  "16/64-bit constants not at all; casts to a literal type are excluded (negation proved with a witness and replayed; "
                  "a vector operation or ?: with a literal operand (`boolvec + 1`, `intvec * 1.5`, `c ? intvec : 1.5`) is typed in the "
                  "concrete vector type since fixes 40c6233 / c05bffa and proved exported with its meaning kept "
                  "(vector_op_literal_in_concrete_type); a cast to a *vector* of a literal type, which the type checker no longer "
                  "builds, would still panic the exporter (literal_vector_cast_panics, excluded by VIr.typeOf); generate_literal never "
                  "panics on a modelled constant, an IntLiteral beyond +-u64::MAX is the export error IntLiteralOutOfRange since fix "
                  "6017bad (literal_never_panics); "
                  "printing/parsing of the tree is C09's (cited obligations tables_agree, assoc_agrees, paren_rule_matches_grammar, "
                  "roundtrip_expr_partial; composed informally). Names: the hypothesis Agree of gen_sem_* (every emitted name denotes the "
                  "IR's entity) is C15's conclusion; C15's obligations (Gen.Reserved incl. the source fingerprints of the local-variable "
                  "pass, source_fingerprints, never_reserved, injective_per_scope, verbatim, locals_apart_from_used, the emitted_* lifts, "
                  "uses_resolve_to_same_entity) are cited as C01 obligations, and Thm/C01Names proves about C15's model of NameMap::build, for "
                  "every module and reserved list, that two local variables are printed with one name only if both kept the same source name "
                  "(assignLocals_collision_free, local_pass_collision_free, locals_with_distinct_sources_stay_distinct: a generated name "
                  "never meets another local — the clause seeded mutant C01-4 falsifies), that a name shared by two variables or two "
                  "functions makes Agree unsatisfiable for every environment (agree_unsatisfiable_of_shared_name / _function_name), and that "
                  "an injective assignment whose function names avoid the modelled built-ins satisfies it (agree_of_injective). Which names the local pass protects rests on "
                  "the usage analysis (ir/src/usage_analysis.rs): assignLocals_keeps_unreserved / unreserved_used_name_can_be_captured prove, "
                  "for every module, reserved list and usage set, that a local whose source name is the emitted name of a file-scope symbol "
                  "which is neither reserved, nor a generated candidate, nor the name of a symbol the analysis reports keeps that name, and "
                  "that Agree is then unsatisfiable for every context printing both entities (the converse of C15's "
                  "locals_apart_from_used); so usage completeness is a premise: usage_analysis_descends_everywhere pins the re-extracted "
                  "Gen.UsageTables (one arm per statement / expression / initialiser / for-init variant, every sub-statement / "
                  "sub-expression field passed on, Global and Call recorded, bodies + default arguments + global initialisers gathered, "
                  "fixpoint shape) and C02's obligations all_positions_descended, tables_as_modelled, mentions_calculateLocal, "
                  "close_is_reachability, recurse_*, default_arguments_analysed, global_initialisers_analysed are cited (seeded mutant "
                  "C01-5, the index of ArraySubscript no longer descended into, falsifies the first two and is found with the input "
                  "`static uint slot = 2u; … int v[4] = { x, y, 7, 9 }; int slot = v[slot];`). Not closed in "
                  "Lean: \"every mention of the IR sits at a position of Gen.UsageTables\" for the real gather_usage_* (C02's AllSeen "
                  "hypothesis; tied by the usage-position stream and C02's correspondence), the identification of a request's Ctx with Model.Names.build's result (tied by C15's correspondence stream and by "
                  "C01's tree comparison, which includes every printed name), and block scoping — the Lean C semantics has one flat name "
                  "environment per function, so programs whose source shadows a name or re-uses it in a sibling block (both kept verbatim) are "
                  "outside the theorems (counted: well_typed_but_names_not_flat) and judged by the harness's two evaluators only.",
    "trusted_base": [
        "Lean 4.33 kernel; axioms propext / Classical.choice / Quot.sound only (audited by #print axioms)",
        "tools/gens/c01.py (HlslGenTables: IntrinsicOp / UnaryOp / BinOp / Literal / Constant variants, generate_intrinsic_op's form "
        "table, generate_literal's arms and guards, the shape of the Sequence / Cast / ternary arms, generate_scalar_type; "
        "HlslIntrinsicTables; HlslVecTables: SwizzleSlot, the letters of the Swizzle arm, textual shape of the Swizzle / Constructor / "
        "Cast arms of generate_expression and of the Vector arm of generate_type_impl) — re-run on /repo's working tree every time",
        "hand-written Model/GenHlsl.lean (scalar subset) and Model/GenHlslVec.lean (Cast / Swizzle / Constructor arms, vector type "
        "names) mirror the exporter; tied to the code by the correspondence runs C01.fn / C01.vex (exporter tree via hook "
        "verif_generate_ast) and by the re-extracted shape facts",
        "Spec/Sem*.lean and Spec/SemVec.lean: our reading of RSSL's typed semantics (a Cast converts by the value's shape: scalar -> "
        "vector replicates, vector -> scalar takes the first component, vector -> shorter vector truncates: typer/src/casting.rs "
        "DimensionCast) and of HLSL's C-like semantics (literal int adapts to the other operand, usual arithmetic conversions, a "
        "scalar operand is replicated, the longer vector truncated, HLSL 2021 short-circuit on scalars only, shift count masked)",
        "the concrete interpretation of the correspondence runs: comparisons and int<->float conversions are IEEE-754 / Direct3D "
        "(Model/Ieee.lean on bit patterns = Rust's native f32 comparisons and `as` casts in harness/src/c01/sx.rs, compared on edge "
        "values by the C01.prim stream): float -> int truncates, NaN -> 0, out of range saturates (D3D11 functional spec ftoi / ftou; "
        "undefined in SPIR-V); + - * / %, ++/-- on floats and the built-ins are hash-like functions without algebraic laws shared by "
        "both evaluators (so NaN *production* by arithmetic is not modelled: NaN / inf / -0 enter through arguments and constants)",
        "statement attributes ([branch], [flatten], [unroll(n)], [loop], [fastopt], [allow_uav_condition]) have no meaning: both "
        "evaluators and the Lean model see the statement without them; the harness checks that the exporter keeps them in place",
        "for the forms outside the Lean models (C01.vfn): harness/src/c01/virev.rs and vtxev.rs (two Rust evaluators written from the "
        "IR's and HLSL's rules respectively) and the value generator; a wrong reading shared by both would be invisible",
        "harness/src/c01/protos.rs: our reading of the C++ / HLSL (DXC = clang) declaration rules for the re-parsed text — a function "
        "may be declared any number of times and defined once, redeclarations agree in return and parameter types, a default argument "
        "may be given by any one declaration but not by two ([dcl.fct.default]/4: redefinition of default argument), a function is "
        "declared before the body that calls it, a call supplies at least the parameters without default; the evaluators then run the "
        "definitions only.  `precise` has no meaning for values in either evaluator; protos.rs compares its positions (parameters, local "
        "declarators, struct members) between the typed module and the exporter's trees.  A named template type parameter is accepted "
        "only when it carries the name of a struct of the module and every call binds it to that struct (how the exporter emits an "
        "instantiation with a struct argument); unnamed type / value parameters are unused by construction",
        "names: the emitted identifiers denote the IR's entities (property C15, obligations cited; Thm/C01Names for the local pass); "
        "the harness builds the request's name context with NameMap::build(module, RESERVED_NAMES of hlsl/src/names.rs read from the "
        "source tree, true) as GenerateContext::new does — a different call would show as a tree disagreement; "
        "harness/src/c01/scopes.rs: C / HLSL block scoping of the re-parsed text (parameters share the outermost block's scope, a for "
        "statement's init-declaration shares the outermost block of its body, a declarator's name is in scope in its own "
        "initialiser as in C++ [basic.scope.pdecl] / DXC — rssl's front end resolves the initialiser before the name exists, so "
        "`int x = x + 2;` under shadowing is exported with a changed meaning: known finding, never generated by the random streams); "
        "harness/src/c01/vtxev.rs keeps one frame per function (a local of a name hides the global / function of that name in the "
        "whole function: stricter than C, equal on the generated programs, whose emitted local names differ from every referenced "
        "file-scope name); tools/gens/c02.py (UsageTables) for the inventory of gather_usage_*; printing/parsing of the tree (property C09)",
    ],
    "assumptions": [
        "float arithmetic, the six float comparisons (independent of each other: no order axioms), int<->float conversions, integer "
        "division and every built-in function are abstract primitives shared by "
        "both semantics (component-wise application of the same primitive for vectors; vector built-ins uninterpreted)",
        "no recursion (HLSL forbids it): call depth bounded by the fuel of Ir.phi / Ast.phi",
        "vector variables are assigned only by a statement-level assignment in the Lean vector layer (none nested in an expression)",
        "an `out` parameter is uninitialised on entry of the callee (both vector-stream evaluators); evaluation order left to right",
        "covered by the correspondence run and its oracle only (inside functions the Lean model transcribes, outside the model): default "
        "arguments (with or without prototypes), prototypes of overloads / templates / functions in namespaces (Model/GenHlslDecl has "
        "plain functions), template instantiations with struct or value arguments (generate_function_inner's template_params), "
        "`precise` (generate_function_param / generate_variable_definition / generate_struct), four-column matrix components; "
        "the refusal FunctionNotDefined of a module whose declared function (or template instantiation) has no implementation is "
        "accepted as `ok(export refused)` when both flavours and the public compile() refuse",
        "not reached by any stream (evaluators lack the value kinds / storage): half / double / 64-bit constants, static locals, sizeof, "
        "enum constants without a matching enumerator, discard",
    ],
}

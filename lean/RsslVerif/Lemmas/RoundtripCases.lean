import RsslVerif.Lemmas.RoundtripMain
/-! Round trip: position/level consistency and the constructor cases. -/
set_option linter.unusedSimpArgs false
set_option linter.unusedVariables false
namespace RsslVerif.Lemmas.Roundtrip
open RsslVerif.Gen.FmtTables RsslVerif.Gen.ParseTables RsslVerif.Model.Format RsslVerif.Model.Parse
open RsslVerif.Lemmas.FmtParseTables

/-! ## Where the formatter leaves a child unparenthesised, the parser reads that position at a level that covers it -/

theorem pos_prefix (op : UnOp) (x : Expr) (hop : isPostfix op = false)
    (h : needParen x.prec (unPrec op) prefixOperandSide = false) : x.lvl ≤ 2 := by
  cases op <;> simp [isPostfix] at hop <;>
  (cases x with
   | lit l => simp only [Expr.prec, Expr.lvl, litPrec] at h ⊢ <;> generalize litNegative l = b at h ⊢ <;> cases b <;> revert h <;> decide
   | un o _ => cases o <;> simp only [Expr.prec, Expr.lvl] at h ⊢ <;> revert h <;> decide
   | bin o _ _ => cases o <;> simp only [Expr.prec, Expr.lvl] at h ⊢ <;> revert h <;> decide
   | _ => simp only [Expr.prec, Expr.lvl] at h ⊢ <;> revert h <;> decide)

theorem pos_postfix (op : UnOp) (x : Expr) (hop : isPostfix op = true)
    (h : needParen x.prec (unPrec op) postfixOperandSide = false) : x.lvl ≤ 1 := by
  cases op <;> simp [isPostfix] at hop <;>
  (cases x with
   | lit l => simp only [Expr.prec, Expr.lvl, litPrec] at h ⊢ <;> generalize litNegative l = b at h ⊢ <;> cases b <;> revert h <;> decide
   | un o _ => cases o <;> simp only [Expr.prec, Expr.lvl] at h ⊢ <;> revert h <;> decide
   | bin o _ _ => cases o <;> simp only [Expr.prec, Expr.lvl] at h ⊢ <;> revert h <;> decide
   | _ => simp only [Expr.prec, Expr.lvl] at h ⊢ <;> revert h <;> decide)

theorem pos_binL (op : BinOp) (x : Expr) (h : needParen x.prec (binPrec op) binLeftSide = false) :
    (binLevel op ≠ 14 → x.lvl ≤ binLevel op ∧ (x.lvl = 15 → binLevel op = 15)) ∧ (binLevel op = 14 → x.lvl ≤ 12) := by
  cases op <;>
  (cases x with
   | lit l => simp only [Expr.prec, Expr.lvl, litPrec] at h ⊢ <;> generalize litNegative l = b at h ⊢ <;> cases b <;> revert h <;> decide
   | un o _ => cases o <;> simp only [Expr.prec, Expr.lvl] at h ⊢ <;> revert h <;> decide
   | bin o _ _ => cases o <;> simp only [Expr.prec, Expr.lvl] at h ⊢ <;> revert h <;> decide
   | _ => simp only [Expr.prec, Expr.lvl] at h ⊢ <;> revert h <;> decide)

theorem pos_binR (op : BinOp) (x : Expr) (h : needParen x.prec (binPrec op) binRightSide = false) :
    (binLevel op ≠ 14 → x.lvl ≤ binLevel op - 1) ∧ (binLevel op = 14 → x.lvl ≤ 14) := by
  cases op <;>
  (cases x with
   | lit l => simp only [Expr.prec, Expr.lvl, litPrec] at h ⊢ <;> generalize litNegative l = b at h ⊢ <;> cases b <;> revert h <;> decide
   | un o _ => cases o <;> simp only [Expr.prec, Expr.lvl] at h ⊢ <;> revert h <;> decide
   | bin o _ _ => cases o <;> simp only [Expr.prec, Expr.lvl] at h ⊢ <;> revert h <;> decide
   | _ => simp only [Expr.prec, Expr.lvl] at h ⊢ <;> revert h <;> decide)

theorem pos_ternC (x : Expr) (h : needParen x.prec precTernaryConditional ternCondSide = false) : x.lvl ≤ 12 := by
  cases x with
  | lit l => simp only [Expr.prec, Expr.lvl, litPrec] at h ⊢ <;> generalize litNegative l = b at h ⊢ <;> cases b <;> revert h <;> decide
  | un o _ => cases o <;> simp only [Expr.prec, Expr.lvl] at h ⊢ <;> revert h <;> decide
  | bin o _ _ => cases o <;> simp only [Expr.prec, Expr.lvl] at h ⊢ <;> revert h <;> decide
  | _ => simp only [Expr.prec, Expr.lvl] at h ⊢ <;> revert h <;> decide

theorem pos_ternA (x : Expr) (h : needParen x.prec precTernaryConditional ternTrueSide = false) : x.lvl ≤ 14 := by
  cases x with
  | lit l => simp only [Expr.prec, Expr.lvl, litPrec] at h ⊢ <;> generalize litNegative l = b at h ⊢ <;> cases b <;> revert h <;> decide
  | un o _ => cases o <;> simp only [Expr.prec, Expr.lvl] at h ⊢ <;> revert h <;> decide
  | bin o _ _ => cases o <;> simp only [Expr.prec, Expr.lvl] at h ⊢ <;> revert h <;> decide
  | _ => simp only [Expr.prec, Expr.lvl] at h ⊢ <;> revert h <;> decide

theorem pos_ternB (x : Expr) (h : needParen x.prec precTernaryConditional ternFalseSide = false) :
    x.lvl ≤ 14 ∧ (x.lvl = 14 → falseIsAssignment x = true) := by
  cases x with
  | lit l => simp only [Expr.prec, Expr.lvl, litPrec, falseIsAssignment] at h ⊢ <;> generalize litNegative l = b at h ⊢ <;> cases b <;> revert h <;> decide
  | un o _ => cases o <;> simp only [Expr.prec, Expr.lvl, falseIsAssignment] at h ⊢ <;> revert h <;> decide
  | bin o _ _ => cases o <;> simp only [Expr.prec, Expr.lvl, falseIsAssignment] at h ⊢ <;> revert h <;> decide
  | _ => simp only [Expr.prec, Expr.lvl, falseIsAssignment] at h ⊢ <;> revert h <;> decide

theorem pos_postfixLike (x : Expr) (side : Side) (hs : side = .Left ∨ side = .Middle)
    (h : needParen x.prec 2 side = false) : x.lvl ≤ 1 := by
  rcases hs with rfl | rfl <;>
  (cases x with
   | lit l => simp only [Expr.prec, Expr.lvl, litPrec] at h ⊢ <;> generalize litNegative l = b at h ⊢ <;> cases b <;> revert h <;> decide
   | un o _ => cases o <;> simp only [Expr.prec, Expr.lvl] at h ⊢ <;> revert h <;> decide
   | bin o _ _ => cases o <;> simp only [Expr.prec, Expr.lvl] at h ⊢ <;> revert h <;> decide
   | _ => simp only [Expr.prec, Expr.lvl] at h ⊢ <;> revert h <;> decide)

theorem pos_arg (x : Expr) (h : needParen x.prec callArgPrec callArgSide = false) : x.lvl ≤ 14 := by
  cases x with
  | lit l => simp only [Expr.prec, Expr.lvl, litPrec] at h ⊢ <;> generalize litNegative l = b at h ⊢ <;> cases b <;> revert h <;> decide
  | un o _ => cases o <;> simp only [Expr.prec, Expr.lvl] at h ⊢ <;> revert h <;> decide
  | bin o _ _ => cases o <;> simp only [Expr.prec, Expr.lvl] at h ⊢ <;> revert h <;> decide
  | _ => simp only [Expr.prec, Expr.lvl] at h ⊢ <;> revert h <;> decide

/-- the extra parentheses of the conditional's last operand go around an unparenthesised assignment -/
theorem falseIsAssignment_spec (x : Expr) (h : falseIsAssignment x = true) :
    needParen x.prec precTernaryConditional ternFalseSide = false ∧ x.lvl = 14 := by
  cases x with
  | bin o _ _ => cases o <;> simp only [Expr.prec, Expr.lvl, falseIsAssignment] at h ⊢ <;> revert h <;> decide
  | _ => simp [falseIsAssignment] at h

/-! ## Well-formed trees (the shapes the partial theorem covers) -/

-- `WF`: every literal prints as one token that reads back as itself
-- (calls are calls without template arguments — the model has no others)
mutual
def WF : Expr → Prop
  | .lit n => LitOk n = true
  | .id _ => True
  | .un _ x => WF x
  | .bin _ l r => WF l ∧ WF r
  | .tern c a b => WF c ∧ WF a ∧ WF b
  | .sub o i => WF o ∧ WF i
  | .mem o _ => WF o
  | .call f args => WF f ∧ WFA args
def WFA : Args → Prop
  | .nil => True
  | .cons e r => WF e ∧ WFA r
end

theorem litOk_toks (n : Lit) (h : LitOk n = true) : toks (litPiecesT n) = [.lit n] := by
  unfold LitOk at h
  unfold litPiecesT
  split at h
  · rename_i m s heq
    simp at h
    obtain ⟨h, _⟩ := h
    subst h
    simp [heq]
  · simp at h

/-- tokens an operand can start with -/
def GoodStart (t : Tok) : Prop := (t ≠ .p .Equals ∧ t.isLt = false ∧ t.isGt = false) ∧ t ≠ .p .RightParen

theorem operandStart_of {t : Tok} {ts : List Tok} (h : GoodStart t) : OperandStart (t :: ts) := h.1

theorem toks_un_prefix (op : UnOp) (inner : List Piece) :
    toks (unPiece op :: (if startsWithSign op inner then Piece.sp :: inner else inner)) = unTok op :: toks inner := by
  split <;> simp [unPiece]

/-- first token of a printed sub-expression -/
theorem head_fmt : (e : Expr) → WF e → ∀ outer side, ∃ t ts', toks (fmtSub e outer side) = t :: ts' ∧ GoodStart t ∧
      ((needParen e.prec outer side = true ∨ e.lvl ≤ 1) → prefixOp t = none)
  | e, hwf, outer, side => by
    rw [fmtSub_eq]
    cases hp : needParen e.prec outer side with
    | true =>
      refine ⟨.p .LeftParen, toks (fmtBody e) ++ [.p .RightParen], ?_, by simp [GoodStart, Tok.isLt, Tok.isGt], fun _ => rfl⟩
      rw [toks_wrap_true]
    | false =>
      simp only [wrap_false, fmtBody]
      match e, hwf with
      | .lit n, hwf =>
        refine ⟨.lit n, [], ?_, by simp [GoodStart, Tok.isLt, Tok.isGt], fun _ => rfl⟩
        simp only [fmtSub]
        rw [needParen_top_lit, wrap_false, litOk_toks n hwf]
      | .id n, _ =>
        refine ⟨.id n, [], ?_, by simp [GoodStart, Tok.isLt, Tok.isGt], fun _ => rfl⟩
        simp only [fmtSub]
        have : needParen precIdentifier topPrec topSide = false := by decide
        rw [this, wrap_false]; rfl
      | .un op x, hwf =>
        simp only [fmtSub, needParen_top_un, wrap_false]
        cases hpost : isPostfix op with
        | true =>
          obtain ⟨t, ts', h1, h2, h3⟩ := head_fmt x hwf (unPrec op) postfixOperandSide
          simp only [hpost, if_true, toks_append, h1]
          refine ⟨t, ts' ++ toks [unPiece op], by simp, h2, fun _ => h3 ?_⟩
          cases hpx : needParen x.prec (unPrec op) postfixOperandSide with
          | true => exact Or.inl rfl
          | false => exact Or.inr (pos_postfix op x hpost hpx)
        | false =>
          simp only [hpost, if_false, Bool.false_eq_true, toks_un_prefix]
          refine ⟨unTok op, _, rfl, by cases op <;> simp [unTok, GoodStart, Tok.isLt, Tok.isGt], fun h => ?_⟩
          rcases h with h | h
          · cases h
          · simp [Expr.lvl, hpost] at h
      | .bin op l r, hwf =>
        simp only [fmtSub, needParen_top_bin, wrap_false]
        obtain ⟨t, ts', h1, h2, h3⟩ := head_fmt l hwf.1 (binPrec op) binLeftSide
        simp only [toks_append, h1]
        refine ⟨t, _, by simp; rfl, h2, fun h => ?_⟩
        rcases h with h | h
        · cases h
        · have := binLevel_ge op
          simp [Expr.lvl] at h
          omega
      | .sub o i, hwf =>
        simp only [fmtSub]
        have : needParen precArraySubscript topPrec topSide = false := by decide
        rw [this, wrap_false]
        obtain ⟨t, ts', h1, h2, h3⟩ := head_fmt o hwf.1 precArraySubscript subObjectSide
        simp only [toks_append, h1]
        refine ⟨t, _, by simp; rfl, h2, fun _ => h3 ?_⟩
        cases hpx : needParen o.prec precArraySubscript subObjectSide with
        | true => exact Or.inl rfl
        | false => exact Or.inr (pos_postfixLike o _ (Or.inl rfl) hpx)
      | .call f args, hwf =>
        simp only [fmtSub]
        have : needParen precCall topPrec topSide = false := by decide
        rw [this, wrap_false]
        obtain ⟨t, ts', h1, h2, h3⟩ := head_fmt f hwf.1 callObjectPrec callObjectSide
        simp only [toks_append, h1]
        refine ⟨t, _, by simp; rfl, h2, fun _ => h3 ?_⟩
        cases hpx : needParen f.prec callObjectPrec callObjectSide with
        | true => exact Or.inl rfl
        | false => exact Or.inr (pos_postfixLike f _ (Or.inl rfl) hpx)
      | .mem o n, hwf =>
        simp only [fmtSub]
        have : needParen precMember topPrec topSide = false := by decide
        rw [this, wrap_false]
        cases hmp : memObjParen o with
        | true =>
          refine ⟨.p .LeftParen, (toks (fmtSub o precMember memObjectSide) ++ [.p .RightParen]) ++ toks [pp .Period, .t (.id n) n],
            ?_, by simp [GoodStart, Tok.isLt, Tok.isGt], fun _ => rfl⟩
          rw [toks_append, toks_wrap_true]; rfl
        | false =>
          rw [wrap_false]
          obtain ⟨t, ts', h1, h2, h3⟩ := head_fmt o hwf precMember memObjectSide
          simp only [toks_append, h1]
          refine ⟨t, _, by simp; rfl, h2, fun _ => h3 ?_⟩
          cases hpx : needParen o.prec precMember memObjectSide with
          | true => exact Or.inl rfl
          | false => exact Or.inr (pos_postfixLike o _ (Or.inl rfl) hpx)
      | .tern c a b, hwf =>
        simp only [fmtSub]
        have : needParen precTernaryConditional topPrec topSide = false := by decide
        rw [this, wrap_false]
        obtain ⟨t, ts', h1, h2, h3⟩ := head_fmt c hwf.1 precTernaryConditional ternCondSide
        simp only [toks_append, h1]
        refine ⟨t, _, by simp; rfl, h2, fun h => ?_⟩
        rcases h with h | h
        · cases h
        · simp [Expr.lvl] at h

end RsslVerif.Lemmas.Roundtrip

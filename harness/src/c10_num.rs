//! C10.num: a numeral is read as ONE literal token.
//!
//! request : C10.num \t <hex of the numeral> \t d<hex of what follows it> [ \t p<hex of what stands in front> ]
//! observe : the token line of `C10.lex t1i0b0` on numeral ++ follower (so the lexer model answers it too)
//! oracle  : a tokenisation reference that does not look at the lexer. `scan` reads the numeral with the C grammar of
//!           numeric literals (the grammar rssl's literals are written in):
//!
//!             integer  = ( "0" | nonzero digit* | "0" octal+ | ("0x"|"0X") hex+ )  [ u | l | ul | lu, any case ]
//!             floating = ( digit+ "." digit* | "." digit+ ) [exponent] ["#INF"] [fsuffix]  |  digit+ exponent [fsuffix]
//!             exponent = ("e"|"E") ["+"|"-"] digit+          fsuffix = h H f F l L
//!
//!           (`#INF`, the HLSL spelling of infinity, only on a non-zero literal without exponent; `h` is HLSL's half
//!           suffix). The scanner must consume the whole numeral, and decides from the spelling alone which ONE token the
//!           numeral is: kind from the suffix, value = positional value of the digits (integers) or the double nearest
//!           to digits x 10^exponent computed by the exact big-integer bisection, narrowed once for f / h. The real
//!           lexer must return exactly that token with the span of the numeral — or, for an integer that does not fit
//!           the type its suffix names, the diagnostic IntegerLiteralTooLarge at its first digit and no token. A float
//!           literal the lexer no longer recognises (read as integer + identifier, split at the exponent letter, ...)
//!           fails here, whatever value oracle `C10.lex` applies to the tokens the lexer did return.
use super::*;

#[derive(Clone, Debug, PartialEq)]
pub enum Num {
    Int { prefix: String, digits: String, suffix: String },
    Float { whole: String, frac: Option<String>, exp: Option<(char, Option<char>, String)>, inf: bool, suffix: Option<char> },
}

impl Num {
    pub fn text(&self) -> String {
        match self {
            Num::Int { prefix, digits, suffix } => format!("{}{}{}", prefix, digits, suffix),
            Num::Float { whole, frac, exp, inf, suffix } => {
                let mut s = whole.clone();
                if let Some(f) = frac {
                    s.push('.');
                    s.push_str(f);
                }
                if let Some((l, sg, ds)) = exp {
                    s.push(*l);
                    if let Some(c) = sg {
                        s.push(*c);
                    }
                    s.push_str(ds);
                }
                if *inf {
                    s.push_str("#INF");
                }
                if let Some(c) = suffix {
                    s.push(*c);
                }
                s
            }
        }
    }
}

fn take_while(t: &[u8], i: &mut usize, f: impl Fn(u8) -> bool) -> String {
    let s = *i;
    while *i < t.len() && f(t[*i]) {
        *i += 1;
    }
    String::from_utf8_lossy(&t[s..*i]).to_string()
}

fn int_suffix_ok(s: &str) -> bool {
    matches!(s.to_ascii_lowercase().as_str(), "" | "u" | "l" | "ul" | "lu")
}

/// the whole text as one numeral of the grammar above, or None
pub fn scan(t: &[u8]) -> Option<Num> {
    let mut i = 0usize;
    if t.is_empty() {
        return None;
    }
    // hexadecimal integer
    if t.len() >= 2 && t[0] == b'0' && (t[1] == b'x' || t[1] == b'X') {
        i = 2;
        let digits = take_while(t, &mut i, |c| c.is_ascii_hexdigit());
        let suffix = String::from_utf8_lossy(&t[i..]).to_string();
        if digits.is_empty() || !int_suffix_ok(&suffix) {
            return None;
        }
        return Some(Num::Int { prefix: String::from_utf8_lossy(&t[..2]).to_string(), digits, suffix });
    }
    let whole = take_while(t, &mut i, |c| c.is_ascii_digit());
    let mut frac = None;
    if i < t.len() && t[i] == b'.' {
        i += 1;
        frac = Some(take_while(t, &mut i, |c| c.is_ascii_digit()));
    }
    let mut exp = None;
    if i < t.len() && (t[i] == b'e' || t[i] == b'E') {
        let letter = t[i] as char;
        let mut j = i + 1;
        let mut sg = None;
        if j < t.len() && (t[j] == b'+' || t[j] == b'-') {
            sg = Some(t[j] as char);
            j += 1;
        }
        let ds = take_while(t, &mut j, |c| c.is_ascii_digit());
        if ds.is_empty() {
            return None;
        }
        exp = Some((letter, sg, ds));
        i = j;
    }
    if frac.is_none() && exp.is_none() {
        // integer: decimal or octal
        let suffix = String::from_utf8_lossy(&t[i..]).to_string();
        if whole.is_empty() || !int_suffix_ok(&suffix) {
            return None;
        }
        if whole.len() > 1 && whole.starts_with('0') {
            if !whole.bytes().all(|c| (b'0'..=b'7').contains(&c)) {
                return None; // `08`: not a numeral of the grammar
            }
            return Some(Num::Int { prefix: "0".into(), digits: whole[1..].to_string(), suffix });
        }
        return Some(Num::Int { prefix: String::new(), digits: whole, suffix });
    }
    if whole.is_empty() && frac.as_deref().map_or(true, |f| f.is_empty()) {
        return None; // "." or ".e5"
    }
    let mut inf = false;
    if t[i..].starts_with(b"#INF") {
        inf = true;
        i += 4;
    }
    let suffix = match &t[i..] {
        [] => None,
        [c] if b"hHfFlL".contains(c) => Some(*c as char),
        _ => return None,
    };
    let n = Num::Float { whole, frac, exp, inf, suffix };
    if inf {
        // only on a non-zero literal without exponent
        if let Num::Float { exp: Some(_), .. } = n {
            return None;
        }
        if float_bits(&n) == 0 {
            return None;
        }
    }
    Some(n)
}

/// nearest double of the digits and exponent of a floating numeral (ignoring `#INF`)
fn float_bits(n: &Num) -> u64 {
    let Num::Float { whole, frac, exp, .. } = n else { return 0 };
    let mut digits: Vec<u8> = whole.bytes().collect();
    let fr = frac.clone().unwrap_or_default();
    digits.extend(fr.bytes());
    let mut e: i64 = 0;
    if let Some((_, sg, ds)) = exp {
        // exponents far outside any float are clamped (the value is 0 or infinity either way)
        let mut v = Big(vec![]);
        for c in ds.bytes() {
            v.mul_small(10);
            v.add_small((c - b'0') as u32);
        }
        let ev = v.to_u64().filter(|x| *x < 1_000_000_000).unwrap_or(1_000_000_000) as i64;
        e = if *sg == Some('-') { -ev } else { ev };
    }
    ref_nearest64(&digits, e - fr.len() as i64)
}

#[derive(Debug, PartialEq)]
pub enum Expect {
    /// the token as `show_token` prints it
    Token(String),
    /// IntegerLiteralTooLarge at this offset, no token
    TooLarge(u32),
}

pub fn expected(n: &Num) -> Expect {
    match n {
        Num::Int { prefix, digits, suffix } => {
            let base = if prefix.len() == 2 { 16 } else if prefix.len() == 1 { 8 } else { 10 };
            let v = Big::from_digits(digits.as_bytes(), base);
            let sfx = suffix.to_ascii_lowercase();
            let (kind, limit_bits) = match sfx.as_str() {
                "" => ("Int", 64),
                "u" => ("IntU32", 32),
                "l" => ("IntS64", 63),
                _ => ("IntU64", 64),
            };
            match v.to_u64() {
                Some(x) if limit_bits == 64 || x < (1u64 << limit_bits) => Expect::Token(format!("{}:{}", kind, x)),
                _ => Expect::TooLarge(prefix.len() as u32),
            }
        }
        Num::Float { inf, suffix, .. } => {
            let b = if *inf { F64.inf() } else { float_bits(n) };
            Expect::Token(match suffix.map(|c| c.to_ascii_lowercase()) {
                None => format!("Float:{:016x}", b),
                Some('l') => format!("Float64:{:016x}", b),
                Some('h') => format!("Float16:{:08x}", ref_narrow32(b)),
                _ => format!("Float32:{:08x}", ref_narrow32(b)),
            })
        }
    }
}

/// what may follow a numeral without changing it: nothing, or a token that does not start with an identifier
/// character, `.` or `#`
pub const DELIMS: &[&str] = &[
    "", "", ";", " ", "\n", "\r\n", "\t", ")", ",", "]", "}", ":", "?", "+1", "-1", "-", "+", "*2", "/", "//c", "/**/", "<",
    ">", "=", "==", "&", "|", "^", "%", "!", "~", "(", "[", "{", "\"s\"", " x", ";1",
];

/// what may stand in front of a numeral (it ends in a byte that cannot glue to the numeral)
pub const PREFIXES: &[&str] = &[
    " ", "-", "(", "x=", "a+", "\n", "\r\n", "\t", "/**/", "1,", "\"s\"", "#define X ", "return ", "[", "{", "?", ":", "<", ">",
    "//c\n", "\\\n", "x = y*", "float4(0.5, ", "0x1F,", "1e5;", "aaaaaaaaaaaaaaaaaaaaaaaaaaaaaaaaaaaaaaaaaaaaaaaaaaaaaaaaaaaaaaaaaaaaa ",
];

pub fn run_num(numeral: &str, delim: &str, prefix: &str, hist: &mut Hist) -> (String, String) {
    let text = format!("{}{}{}", prefix, numeral, delim);
    let fl = Flags { trail: true, inc: false, base: 0 };
    let (obs, base_oracle) = run_lex(&text, &fl, hist);
    let Some(n) = scan(numeral.as_bytes()) else {
        return (obs, "SKIP:not a numeral of the grammar".into());
    };
    if let Some(c) = delim.bytes().next() {
        if c.is_ascii_alphanumeric() || c == b'_' || c == b'.' || c == b'#' || c >= 0x80 {
            return (obs, "SKIP:the follower would continue the numeral".into());
        }
    }
    hist.add(match &n {
        Num::Int { .. } => "num.checked.int",
        Num::Float { .. } => "num.checked.float",
    });
    if let Some(c) = prefix.bytes().last() {
        if c.is_ascii_alphanumeric() || c == b'_' || c == b'.' || c >= 0x80 {
            return (obs, "SKIP:the text in front would glue to the numeral".into());
        }
        hist.add("num.checked.with_text_in_front");
    }
    let want = expected(&n);
    let at0 = prefix.len() as u32;
    let len = numeral.len() as u32;
    let lx = lex_real(&text, &fl);
    let idx = lx.toks.iter().position(|(_, s, _)| *s >= at0).unwrap_or(lx.toks.len());
    let first = lx.toks.get(idx).map(|(t, s, e)| format!("{} {} {}", show_token(t), s, e));
    let verdict = match (&want, &lx.err) {
        (Expect::Token(w), _) => {
            let wanted = format!("{} {} {}", w, at0, at0 + len);
            match &first {
                Some(f) if *f == wanted => Ok(()),
                Some(_) => {
                    let shown: Vec<String> =
                        lx.toks.iter().skip(idx).take(3).map(|(t, s, e)| format!("{} {} {}", show_token(t), s, e)).collect();
                    Err(format!("numeral {} is the one literal {} but was read as {}", numeral, wanted, shown.join(";")))
                }
                None => Err(format!(
                    "numeral {} is the one literal {} but was rejected: {}",
                    numeral,
                    wanted,
                    match &lx.err {
                        Some(Ok((r, o))) => format!("{} at {}", r, o),
                        Some(Err(p)) => format!("panic {}", p),
                        None => "no token".into(),
                    }
                )),
            }
        }
        (Expect::TooLarge(at), Some(Ok((r, o)))) if idx == lx.toks.len() && r == "IntegerLiteralTooLarge" && *o == at0 + at => Ok(()),
        (Expect::TooLarge(at), _) => Err(format!(
            "numeral {} does not fit the type its suffix names (IntegerLiteralTooLarge at {} expected) but was read as {}",
            numeral,
            at0 + at,
            obs
        )),
    };
    match verdict {
        Err(m) => (obs, format!("FAIL:{}", m)),
        Ok(()) => (obs, base_oracle),
    }
}

fn digits_of(rng: &mut Rng, n: usize, alph: &[u8]) -> String {
    (0..n).map(|_| *rng.pick(alph) as char).collect()
}

fn dec_run(rng: &mut Rng, lo: i64, hi: i64) -> String {
    let n = rng.range(lo, hi) as usize;
    digits_of(rng, n, b"0123456789")
}

/// one random numeral of the grammar, every spelling family
pub fn gen_numeral(rng: &mut Rng, hist: &mut Hist) -> Num {
    const INT_SFX: &[&str] = &["", "", "", "u", "U", "l", "L", "ul", "uL", "Ul", "UL", "lu", "lU", "Lu", "LU"];
    if rng.chance(1, 3) {
        let (prefix, alph): (&str, &[u8]) = match rng.below(20) {
            0..=8 => ("", b"0123456789"),
            9..=12 => ("0", b"01234567"),
            13..=15 => ("0x", b"0123456789abcdef"),
            16 | 17 => ("0x", b"0123456789ABCDEF"),
            18 => ("0x", b"0123456789abcdefABCDEF"),
            _ => ("0X", b"0123456789abcdefABCDEF"),
        };
        let n = match rng.below(4) {
            0 => 1,
            1 => rng.range(1, 9) as usize,
            2 => rng.range(8, 22) as usize,
            _ => rng.range(1, 25) as usize,
        };
        let mut digits = digits_of(rng, n, alph);
        if prefix.is_empty() && digits.len() > 1 && digits.starts_with('0') {
            // a decimal numeral does not start with 0
            digits.replace_range(0..1, &format!("{}", rng.range(1, 9)));
        }
        hist.add(match prefix {
            "" => "num.int.decimal",
            "0" => "num.int.octal",
            "0x" => "num.int.hex",
            _ => "num.int.hex_upper_prefix",
        });
        let suffix = rng.pick(INT_SFX).to_string();
        hist.add(&format!("num.int.suffix.{}", if suffix.is_empty() { "none" } else { &suffix }));
        return Num::Int { prefix: prefix.into(), digits, suffix };
    }
    loop {
        let whole = match rng.below(12) {
            0 => String::new(),
            1 => "0".to_string(),
            2 => format!("{}{}", "0".repeat(rng.range(1, 3) as usize), dec_run(rng, 1, 4)),
            3..=7 => dec_run(rng, 1, 4),
            _ => dec_run(rng, 1, 20),
        };
        let frac = match rng.below(6) {
            0 | 1 => None,
            2 => Some(String::new()),
            3 => Some(digits_of(rng, 1, b"0123456789")),
            _ => Some(dec_run(rng, 1, 18)),
        };
        if whole.is_empty() && frac.as_deref().map_or(true, |f| f.is_empty()) {
            continue;
        }
        let exp = if frac.is_none() || rng.chance(1, 2) {
            let letter = if rng.chance(1, 2) { 'e' } else { 'E' };
            let sg = match rng.below(3) {
                0 => None,
                1 => Some('+'),
                _ => Some('-'),
            };
            let ds = match rng.below(8) {
                0 => "0".to_string(),
                1 => format!("0{}", rng.range(0, 99)),
                2 => format!("{}", rng.range(100, 400)),
                3 => (*rng.pick(&["4294967296", "99999", "9223372036854775808", "18446744073709551616"][..])).to_string(),
                _ => format!("{}", rng.range(0, 40)),
            };
            Some((letter, sg, ds))
        } else {
            None
        };
        let suffix = match rng.below(8) {
            0 | 1 => None,
            k => Some(b"hHfFlL"[(k - 2) as usize] as char),
        };
        let mut n = Num::Float { whole, frac, exp, inf: false, suffix };
        if let Num::Float { frac: Some(_), exp: None, .. } = &n {
            if rng.chance(1, 8) && float_bits(&n) != 0 {
                if let Num::Float { inf, .. } = &mut n {
                    *inf = true;
                }
            }
        }
        if let Num::Float { whole, frac, exp, inf, suffix } = &n {
            hist.add(if whole.is_empty() { "num.float.no_integer_digits" } else if whole.starts_with('0') && whole.len() > 1 { "num.float.leading_zeros" } else { "num.float.integer_digits" });
            hist.add(match frac {
                None => "num.float.no_point",
                Some(f) if f.is_empty() => "num.float.point_no_fraction_digits",
                _ => "num.float.fraction",
            });
            hist.add(&match exp {
                None => "num.float.exp.none".to_string(),
                Some((l, sg, _)) => format!("num.float.exp.{}{}", l, sg.map(|c| c.to_string()).unwrap_or_default()),
            });
            hist.add(&format!("num.float.suffix.{}", suffix.map(|c| c.to_string()).unwrap_or("none".into())));
            if *inf {
                hist.add("num.float.inf");
            }
        }
        return n;
    }
}

/// every spelling family once, deterministically: the product of a few digit strings with every shape of the
/// fraction, the exponent part (letter x sign x digits) and every suffix; and every integer prefix x suffix
pub fn systematic() -> Vec<Num> {
    let mut v = Vec::new();
    let fsfx: Vec<Option<char>> = std::iter::once(None).chain("hHfFlL".chars().map(Some)).collect();
    let mut exps: Vec<Option<(char, Option<char>, String)>> = vec![None];
    for l in ['e', 'E'] {
        for sg in [None, Some('+'), Some('-')] {
            for ds in ["0", "5", "05", "12", "300"] {
                exps.push(Some((l, sg, ds.to_string())));
            }
        }
    }
    for whole in ["0", "7", "00", "012", "1234567890", ""] {
        for frac in [None, Some(""), Some("0"), Some("5"), Some("25"), Some("000")] {
            if whole.is_empty() && frac.map_or(true, |f| f.is_empty()) {
                continue;
            }
            for exp in &exps {
                if frac.is_none() && exp.is_none() {
                    continue;
                }
                for s in &fsfx {
                    let n = Num::Float { whole: whole.into(), frac: frac.map(|f| f.to_string()), exp: exp.clone(), inf: false, suffix: *s };
                    if exp.is_none() && float_bits(&n) != 0 {
                        if let Num::Float { whole, frac, exp, suffix, .. } = &n {
                            v.push(Num::Float { whole: whole.clone(), frac: frac.clone(), exp: exp.clone(), inf: true, suffix: *suffix });
                        }
                    }
                    v.push(n);
                }
            }
        }
    }
    for (prefix, bodies) in [
        ("", &["0", "7", "10", "4294967295", "4294967296", "9223372036854775807", "9223372036854775808", "18446744073709551615", "18446744073709551616"][..]),
        ("0", &["0", "7", "00", "017", "37777777777", "40000000000", "777777777777777777777", "1000000000000000000000", "1777777777777777777777", "2000000000000000000000"][..]),
        ("0x", &["0", "f", "F", "aB", "ffffffff", "100000000", "7fffffffffffffff", "8000000000000000", "FFFFFFFFFFFFFFFF", "10000000000000000"][..]),
        ("0X", &["0", "1F", "ff"][..]),
    ] {
        for b in bodies {
            for s in ["", "u", "U", "l", "L", "ul", "uL", "Ul", "UL", "lu", "lU", "Lu", "LU"] {
                v.push(Num::Int { prefix: prefix.into(), digits: b.to_string(), suffix: s.into() });
            }
        }
    }
    v
}

pub fn request(numeral: &str, delim: &str, prefix: &str) -> String {
    if prefix.is_empty() {
        format!("C10.num\t{}\td{}", hex(numeral.as_bytes()), hex(delim.as_bytes()))
    } else {
        format!("C10.num\t{}\td{}\tp{}", hex(numeral.as_bytes()), hex(delim.as_bytes()), hex(prefix.as_bytes()))
    }
}

/// the generated stream; returns the number of cases
pub fn generate(args: &Args, rng: &mut Rng, out: &mut Out, hist: &mut Hist) -> u64 {
    let mut cases = 0u64;
    let one = |n: &Num, delim: &str, prefix: &str, out: &mut Out, hist: &mut Hist| {
        let t = n.text();
        // the scanner must read back what the generator wrote (a harness bug otherwise)
        assert_eq!(scan(t.as_bytes()).as_ref(), Some(n), "C10.num scanner does not read back {:?}", t);
        let (obs, orc) = run_num(&t, delim, prefix, hist);
        out.case(&request(&t, delim, prefix), &obs, &orc);
    };
    let sys = systematic();
    for (i, n) in sys.iter().enumerate() {
        let d = DELIMS[(i + args.seed as usize) % DELIMS.len()];
        one(n, d, "", out, hist);
        cases += 1;
        if (i + args.seed as usize) % 4 == 0 {
            let p = PREFIXES[(i / 4 + args.seed as usize) % PREFIXES.len()];
            one(n, d, p, out, hist);
            cases += 1;
        }
    }
    hist.add("num.systematic_done");
    let n_rand = if args.thorough() { 300_000 } else { 10_000 };
    let n_rand = args.n.map(|n| n / 2).unwrap_or(n_rand);
    for _ in 0..n_rand {
        let n = gen_numeral(rng, hist);
        let d = *rng.pick(DELIMS);
        let p = if rng.chance(2, 5) { *rng.pick(PREFIXES) } else { "" };
        one(&n, d, p, out, hist);
        cases += 1;
    }
    cases
}

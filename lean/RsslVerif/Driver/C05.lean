import RsslVerif.Model.Meta
import RsslVerif.Model.MetaLayers
import RsslVerif.Model.MetaReach
import RsslVerif.Model.MetaFront
import RsslVerif.Driver.Util
/-!
Line-protocol front end of the C05 model.

request : C05.meta \t <dx|vk|vkba|msl> \t <all|name=P|nopipeline> \t <globals> \t <resources> \t <helpers> \t <entries> \t <pipes>
  (field syntax: harness/src/c05/case.rs)
answer  : per built pipeline  M[..] A[..] S[..] F[..]  joined by " ## ", or err:<Class>  (see harness/src/c05.rs)
-/
namespace RsslVerif.Driver.C05
open RsslVerif.Gen.SlotTables RsslVerif.Gen.MetaTables RsslVerif.Gen.CompileTables
open RsslVerif.Model.Slots RsslVerif.Model.Meta RsslVerif.Model.MetaReach RsslVerif.Model.MetaFront RsslVerif.Driver
open RsslVerif.Model (Names.build)

structure Res where
  name : String
  cb : Bool
  /-- the layer chain of the global's type as the typer builds it from the spelling (object kind, typedef chain, `const`
      keyword, storage class, declarator dimensions); unused for a cbuffer -/
  ty : Ty
  /-- the typedefs of the spelling live in `namespace TN<i>` (a joined declarator shares the typedefs of the declaration) -/
  tdns : Bool
  group : Option Nat
  ss : Bool
  bl : Bool
  st : Storage
  /-- a cbuffer without members: nothing can mention it -/
  empty : Bool
  /-- an explicit language-level binding index is written (register index or vk::binding index) -/
  hasIndex : Bool
  ns : Bool

structure Fn where
  name : String
  uses : List Nat
  calls : List Nat
  statics : List Nat
  stage : Option Stage
  threads : Option (Nat × Nat × Nat)
  dflt : List Nat
  inits : List Nat
  nt : Nat
  /-- a forward declaration (carrying the attributes) precedes the definition -/
  fd : Bool
  /-- an overload `void <name>(int p0)` is defined at the very end of the file -/
  lo : Bool
  /-- helpers: the default values are written on the forward declaration only: `parse_function_body` takes the
      parameters' `default_expr` from the definition alone, so the implementation has none -/
  po : Bool := false
  /-- entries: the function is a function template -/
  tp : Bool := false

structure Init where
  uses : List Nat
  calls : List Nat
  prev : List Nat
  statics : List Nat

structure Pipe where
  name : String
  dflt : Option Nat
  stages : List Nat
  /-- the block carries a property only a graphics pipeline may have (`gs<k>`; `gb<k>` = blend state blocks only) -/
  gstate : Bool
  /-- the block is written before the entry point definitions it would otherwise follow -/
  before : Bool
  /-- the first stage property spells its entry point `::<name>` (no plain identifier) -/
  qual : Bool := false

def splitList (s : String) (sep : String) : List String := if s.isEmpty then [] else s.splitOn sep

def natList? (s : String) : Option (List Nat) := sequenceOpt ((splitList s ",").map (·.toNat?))

/-- a use is an index with an optional shape letter (the statement it is wrapped in does not matter here) -/
def useList? (s : String) : Option (List Nat) :=
  sequenceOpt ((splitList s ",").map fun x =>
    match x.toList.getLast? with
    | some c => if c.isDigit then x.toNat? else (x.dropEnd 1).toString.toNat?
    | none => none)

def flag? (s : String) : Option Bool := if s == "1" then some true else if s == "0" then some false else none

def optsOf (parts : List String) (n : Nat) : List String :=
  match parts[n]? with
  | some o => splitList o "+"
  | none => []

/-- declarator dimensions, outermost first: `-`, `n`, `u` (unsized), `axb` -/
def parseDims (s : String) : Option (List (Option Nat)) :=
  if s == "-" then some []
  else if s == "u" then some [none]
  else if (s.splitOn "x").length == 2 then
    match (s.splitOn "x").map (·.toNat?) with
    | [some a, some b] => some [some a, some b]
    | _ => none
  else s.toNat?.map fun n => [some n]

/-- spelling of the type (the text after `T`, see harness/src/c05/case.rs):
    `[N] (a | c | d<n> | e<n>)* [k] [x] [p]` ↦ (typedefs in a namespace, typedef steps, `const` keyword) -/
structure Spell where
  ns : Bool
  steps : List TypedefStep
  constKw : Bool
  deriving Inhabited

def parseSteps : Nat → List Char → List TypedefStep → Option (List TypedefStep × List Char)
  | 0, _, _ => none
  | fuel + 1, cs, acc =>
    match cs with
    | 'a' :: r => parseSteps fuel r (acc ++ [{ isConst := false, dim := none }])
    | 'c' :: r => parseSteps fuel r (acc ++ [{ isConst := true, dim := none }])
    | c :: r =>
      if c == 'd' || c == 'e' then
        let ds := r.takeWhile Char.isDigit
        match (String.ofList ds).toNat? with
        | some n => if n == 0 then none else
          parseSteps fuel (r.drop ds.length) (acc ++ [{ isConst := c == 'e', dim := some n }])
        | none => none
      else some (acc, cs)
    | [] => some (acc, [])

def parseSpell (s : String) : Option Spell :=
  let cs := s.toList
  let (ns, cs) := match cs with | 'N' :: r => (true, r) | _ => (false, cs)
  match parseSteps (cs.length + 1) cs [] with
  | none => none
  | some (steps, rest) =>
    let (k, rest) := match rest with | 'k' :: r => (true, r) | _ => (false, rest)
    let rest := match rest with | 'x' :: r => r | _ => rest
    let rest := match rest with | 'p' :: r => r | _ => rest
    if rest.isEmpty then some { ns, steps, constKw := k } else none

def parseRes (s : String) : Option Res :=
  let parts := s.splitOn ":"
  match parts.take 7 with
  | [name, kind, group, arr, ss, bl, st] => do
    if parts.length > 8 then none
    let cb := kind == "cbuffer"
    let base ← if cb || kind == "struct" then some Ty.other else (ObjKind.ofName? kind).map Ty.object
    let group ← optNat? group
    let dims ← parseDims arr
    let ss ← flag? ss
    let bl ← flag? bl
    let st ← if st == "e" then some Storage.extern else if st == "s" then some Storage.static else none
    let opts := optsOf parts 7
    let sp ← match opts.find? (·.startsWith "T") with
      | some o => parseSpell (o.drop 1).toString
      | none => some { ns := false, steps := [], constKw := false }
    pure { name, cb, ty := globalTy base sp.steps sp.constKw st dims, tdns := sp.ns && !opts.contains "j", group, ss, bl, st,
           empty := opts.contains "E",
           -- `[[vk::binding(i, g)]]` always carries an index
           hasIndex := opts.any (fun o => o.startsWith "ri" || o.startsWith "vi") || (opts.contains "gv" && group.isSome),
           ns := opts.contains "ns" }
  | _ => none

def parseStage (s : String) : Option Stage :=
  [Stage.Vertex, .Task, .Mesh, .Pixel, .Compute].find? (fun st => st.name == s)

def parseThreads (s : String) : Option (Option (Nat × Nat × Nat)) :=
  if s == "-" then some none else
  match (s.splitOn ".").map (·.toNat?) with
  | [some x, some y, some z] => some (some (x, y, z))
  | _ => none

def optList? (opts : List String) (pre : String) : Option (List Nat) :=
  match opts.find? (fun o => o.startsWith pre) with
  | some o => natList? (o.drop pre.length).toString
  | none => some []

def parseHelper (s : String) : Option Fn :=
  let parts := s.splitOn ":"
  match parts.take 4 with
  | [name, uses, calls, statics] => do
    let opts := optsOf parts 4
    pure { name, uses := ← useList? uses, calls := ← natList? calls, statics := ← natList? statics,
           stage := none, threads := none, dflt := ← optList? opts "d", inits := [], nt := 0,
           fd := opts.contains "fd", lo := false, po := opts.contains "po" }
  | _ => none

def parseEntry (s : String) : Option Fn :=
  let parts := s.splitOn ":"
  match parts.take 6 with
  | [name, stage, uses, calls, statics, threads] => do
    let opts := optsOf parts 6
    let nt ← match opts.find? (·.startsWith "nt") with
      | some o => (o.drop 2).toString.toNat?
      | none => some 0
    pure { name, uses := ← useList? uses, calls := ← natList? calls, statics := ← natList? statics,
           stage := some (← parseStage stage), threads := ← parseThreads threads, dflt := [],
           inits := ← optList? (opts.filter (fun o => !o.startsWith "nt")) "i", nt, fd := opts.contains "fd",
           lo := opts.contains "lo", tp := opts.contains "tp" }
  | _ => none

def parsePipe (s : String) : Option Pipe :=
  let parts := s.splitOn ":"
  match parts.take 3 with
  | [name, dflt, stages] => do
    let opts := optsOf parts 3
    pure { name, dflt := ← optNat? dflt, stages := ← natList? stages, gstate := opts.any (·.startsWith "gs"),
           before := opts.contains "b", qual := opts.contains "q" }
  | _ => none

def parseInit (s : String) : Option Init :=
  match s.splitOn ":" with
  | [uses, calls, prev, statics] => do
    pure { uses := ← natList? uses, calls := ← natList? calls, prev := ← natList? prev, statics := ← natList? statics }
  | _ => none

/-- `nstatics[;L1][;I<uses>:<calls>:<prev>:<statics>]*` -/
def parseGlobals (s : String) : Option (Nat × Bool × List Init) :=
  match s.splitOn ";" with
  | [] => none
  | n :: rest => do
    let n ← n.toNat?
    let inits ← sequenceOpt ((rest.filter (·.startsWith "I")).map fun g => parseInit (g.drop 1).toString)
    if rest.any (fun g => !(g == "L1" || g.startsWith "I")) then none
    pure (n, rest.contains "L1", inits)

/-- the numthreads attributes the *definition* of an entry point is written with (`nt4`: the second attribute stands
    on the forward declaration only) -/
def attrsOf (f : Fn) : List (Nat × Nat × Nat) :=
  match f.threads with
  | none => []
  | some (x, y, z) => if f.nt == 3 then [(x + 1, y, z), (x, y, z)] else [(x, y, z)]

/-- the late overloads (`lo`) in file order: names of the entry points that get one -/
def lateOverloads (entries : List Fn) : List String := (entries.filter (·.lo)).map (·.name)

/-- entry points that get a `static const uint c_nt<k>` -/
def ntConsts (entries : List Fn) : List Nat :=
  (List.range entries.length).filter fun k =>
    match entries[k]? with
    | some f => f.threads.isSome && (f.nt == 1 || f.nt == 2)
    | none => false

/-- order in which the entry points are defined: declaration order, or (layout 1) the order in which the
    pipelines first mention them, the rest afterwards -/
def entryOrder (layout1 : Bool) (n : Nat) (pipes : List Pipe) : List Nat :=
  if !layout1 then List.range n else
  let first := (pipes.flatMap (·.stages)).foldl (fun acc k => if acc.contains k then acc else acc ++ [k]) []
  first ++ (List.range n).filter (fun k => !first.contains k)

def showLoc : Loc → String
  | .index i => "i" ++ toString i
  | .inline o => "n" ++ toString o

def showEntry (e : Entry) : String :=
  e.name ++ "=" ++ showLoc e.loc ++ ":" ++ e.descType.name ++ ":" ++ showOptNat e.count ++
    ":b" ++ (if e.bindless then "1" else "0") ++ ":u" ++ (if e.used then "1" else "0") ++
    ":s" ++ (if e.staticSampler then "1" else "0")

def showGroup (g : Group) : String :=
  ",".intercalate (g.bindings.map showEntry) ++
    (match g.inlineConstants with | none => "" | some (l, s) => ";inl=" ++ toString l ++ "/" ++ toString s)

def showAnnot (name : String) (a : Annot) : String :=
  let (st, tx) := a.print
  name ++ "=>" ++ (if st.isEmpty then "" else String.ofList st ++ "/") ++ String.ofList tx

def insertStr (s : String) : List String → List String
  | [] => [s]
  | x :: xs => if s < x then s :: x :: xs else x :: insertStr s xs

def sortStrs : List String → List String
  | [] => []
  | x :: xs => insertStr x (sortStrs xs)

def showThreads : Option (Nat × Nat × Nat) → String
  | none => "-"
  | some (x, y, z) => toString x ++ "." ++ toString y ++ "." ++ toString z

def targetParams (tgt : String) : Option (Bool × Params) :=
  if tgt == "dx" then some (false, paramsFor .HlslForDirectX false)
  else if tgt == "vk" then some (false, paramsFor .HlslForVulkan false)
  else if tgt == "vkba" then some (false, paramsFor .HlslForVulkan true)
  else if tgt == "msl" then some (true, paramsFor .Msl false)
  else none

/-- everything a request describes -/
structure Prog where
  nstatics : Nat
  layout1 : Bool
  inits : List Init
  rs : List Res
  helpers : List Fn
  entries : List Fn
  pipes : List Pipe

/-- namespace id of resource `i` (the `ns` resources get one namespace each, in declaration order; a spelling whose
    typedefs live in `namespace TN<i>` opens that one right before) -/
def nsOf (rs : List Res) (i : Nat) : Option Nat :=
  match rs[i]? with
  | some r =>
    if r.ns then some (((rs.take i).filter (·.ns)).length + ((rs.take (i + 1)).filter (·.tdns)).length) else none
  | none => none

/-- what `NameMap::build` sees of the generated file on a target (Metal: after `simplify_cbuffers`) -/
def nameSrc (msl : Bool) (pg : Prog) : NameSrc :=
  let idx := List.range pg.rs.length
  let cbs := idx.filter fun i => match pg.rs[i]? with | some r => r.cb | none => false
  let globs := idx.filter fun i => match pg.rs[i]? with | some r => !r.cb | none => false
  let nm := fun i => match pg.rs[i]? with | some r => r.name | none => ""
  { nss := idx.flatMap fun i =>
      (match pg.rs[i]? with | some r => if r.tdns then [(none, "TN" ++ toString i)] else [] | none => []) ++
      (if (nsOf pg.rs i).isSome then [(none, "NS" ++ toString i)] else []),
    structs := [(none, "CbS"), (none, "ResS"), (none, "MeshVertex"), (none, "TaskPayload")] ++
      (if msl then cbs.map fun i => (nsOf pg.rs i, nm i ++ "Type") else []),
    globals := (List.range pg.nstatics).map (fun k => (none, "s_value" ++ toString k)) ++
      (ntConsts pg.entries).map (fun k => (none, "c_nt" ++ toString k)) ++ [(none, "lds_payload")] ++
      globs.map (fun i => (nsOf pg.rs i, nm i)) ++
      (List.range pg.inits.length).map (fun k => (none, "s_init" ++ toString k)) ++
      (if msl then cbs.map fun i => (nsOf pg.rs i, nm i) else []),
    funcs := pg.helpers.map (fun f => (none, f.name)) ++
      ((entryOrder pg.layout1 pg.entries.length pg.pipes).map fun k =>
        (none, match pg.entries[k]? with | some f => f.name | none => "")) ++
      (lateOverloads pg.entries).map fun n => (none, n) }

/-- position of a value in a list -/
def indexOf? (l : List Nat) (x : Nat) : Option Nat :=
  match l.findIdx? (· == x) with
  | some i => some i
  | none => none

/-- names the exporter prints: (per resource, per helper, per entry point) -/
def emittedNames (msl : Bool) (pg : Prog) : Except String (List String × List String × List String) :=
  let src := nameSrc msl pg
  match Names.build (if msl then mslReserved else hlslReserved) src.input with
  | .error e => .error e
  | .ok names =>
    let idx := List.range pg.rs.length
    let cbs := idx.filter fun i => match pg.rs[i]? with | some r => r.cb | none => false
    let globs := idx.filter fun i => match pg.rs[i]? with | some r => !r.cb | none => false
    let base := pg.nstatics + (ntConsts pg.entries).length + 1
    let resName : Nat → Except String String := fun i =>
      match pg.rs[i]? with
      | none => .error "bad index"
      | some r =>
        if r.cb then
          -- HLSL prints and reports a cbuffer block under its source name
          if !msl then .ok r.name else
          match indexOf? cbs i with
          | some k => leaf names .global (base + globs.length + pg.inits.length + k)
          | none => .error "bad index"
        else
          match indexOf? globs i with
          | some k => leaf names .global (base + k)
          | none => .error "bad index"
    let order := entryOrder pg.layout1 pg.entries.length pg.pipes
    let entName : Nat → Except String String := fun k =>
      match indexOf? order k with
      | some pos => leaf names .func (pg.helpers.length + pos)
      | none => .error "bad index"
    let collect : (Nat → Except String String) → Nat → Except String (List String) := fun f n =>
      (List.range n).foldr (fun i acc =>
        match f i, acc with
        | .ok x, .ok r => .ok (x :: r)
        | .error e, _ => .error e
        | _, .error e => .error e) (.ok [])
    match collect resName pg.rs.length, collect (fun h => leaf names .func h) pg.helpers.length,
          collect entName pg.entries.length with
    | .ok a, .ok h, .ok b => .ok (a, h, b)
    | .error e, _, _ => .error e
    | _, .error e, _ => .error e
    | _, _, .error e => .error e

/-- root definitions in the order the generated file declares them:
    struct CbS; struct ResS; statics; numthreads constants; two structs; groupshared payload; resources;
    s_init globals (functions contribute nothing).  Returns the list and the position of the first resource. -/
def declsOf (pg : Prog) (resNames : List String) : List TDecl × Nat :=
  let plain := fun (n : String) => TDecl.global n none false .other false .static
  let pre : List TDecl :=
    [.other, .other] ++ (List.range pg.nstatics).map (fun k => plain ("s_value" ++ toString k)) ++
    (ntConsts pg.entries).map (fun k => plain ("c_nt" ++ toString k)) ++
    [.other, .other, .global "lds_payload" none false .other false .groupshared]
  let res := (List.range pg.rs.length).map fun i =>
    match pg.rs[i]? with
    | none => TDecl.other
    | some r =>
      let n := resNames.getD i r.name
      if r.cb then .cbuffer n r.group else .global n r.group r.ss r.ty r.bl r.st
  (pre ++ res ++ (List.range pg.inits.length).map (fun k => plain ("s_init" ++ toString k)), pre.length)

/-- one `build_pipeline` -/
def buildOne (msl : Bool) (p : Params) (pg : Prog) (pipe : Option PipeDef) : String :=
  match emittedNames msl pg with
  | .error e => "panic:" ++ e
  | .ok (resNames, helperNames, entNames) =>
  let (tds, off) := declsOf pg resNames
  -- what this exporter's `analyse_bindings` sees of every declaration (its own peel of the type)
  let ds := tds.map (TDecl.toMeta (if msl then mslPeel else hlslPeel))
  let dflt := match pipe with | some pp => pp.dflt | none => 0
  let funcs := pg.helpers ++ pg.entries
  let nres := pg.rs.length
  let mentionable := fun r => match pg.rs[r]? with | some x => !x.empty | none => false
  let direct : Sym → List Sym := fun k =>
    match k with
    | .glob g =>
      -- only the s_init globals have an initialiser that mentions other symbols
      if g < off + nres then [] else
      match pg.inits[g - (off + nres)]? with
      | none => []
      | some i => i.uses.map (fun r => Sym.glob (off + r)) ++ i.calls.map Sym.fn ++
                  i.prev.map (fun j => Sym.glob (off + nres + j)) ++ i.statics.map (fun j => Sym.glob (2 + j))
    | .fn f =>
      match funcs[f]? with
      | none => []
      | some fd => ((fd.uses ++ (if fd.po then [] else fd.dflt)).filter mentionable).map (fun r => Sym.glob (off + r)) ++ fd.calls.map Sym.fn ++
                   fd.statics.map (fun j => Sym.glob (2 + j)) ++ fd.inits.map (fun j => Sym.glob (off + nres + j))
  let keys := (List.range funcs.length).map Sym.fn ++ (List.range ds.length).map Sym.glob
  let stageRecs := match pipe with | some pp => pp.stages | none => []
  match recurse (funcs.length + ds.length + 2) keys direct with
  | none => "unsupported-fuel"
  | some req =>
    let usedAt := fun i => usedBy req (stageRecs.map (·.entry)) i
    -- the allocator peels the declared types itself (`allocPeel`)
    let slots := assign p dflt (tds.map (TDecl.toSlot allocPeel))
    let metaR := if msl then mslExportT p dflt usedAt pipe.isSome tds else hlslMetaT p dflt tds
    match slots, metaR with
    | .error e, _ => "panic:" ++ e
    | _, .error e =>
      -- the clean refusals of the exporters (`GenerateError`); everything else is a panic / assert of the Rust code
      if e == "UnsupportedBindGroupIndex" || e == "UnboundGlobal" || e == "UnsupportedObjectType" then "err:" ++ e
      else "panic:" ++ e
    | .ok res, .ok groups =>
      let annR := annots (if msl then mslAnnot else hlslAnnot p) ds res.bindings
      match annR with
      | .error e => "panic:" ++ e
      | .ok anns =>
        let inlineAnns := if msl then [] else
          res.inlineBufs.map fun b => showAnnot (String.ofList (inlineGlobalName b.set)) (.vk b.apiLocation b.set)
        let bufAnns := if msl && pipe.isSome then
          (List.range groups.length).map fun i => "set" ++ toString i ++ "=>" ++ String.ofList (printBuffer i) else []
        let anns := if msl && pipe.isNone then [] else anns.map fun (n, a) => showAnnot n a
        -- function table indexed like `funcs` (helpers first).  A stage record may point at a helper: a `Pipeline`
        -- block written before its entry points resolves the name among the functions registered so far
        let fdefs : List FuncDef :=
          (List.range pg.helpers.length).map (fun h =>
            match pg.helpers[h]? with
            | some f => { name := f.name, emitted := helperNames.getD h f.name, attrs := [] }
            | none => { name := "", emitted := "", attrs := [] }) ++
          (List.range pg.entries.length).map fun k =>
            match pg.entries[k]? with
            | some f => { name := f.name, emitted := entNames.getD k f.name, attrs := attrsOf f }
            | none => { name := "", emitted := "", attrs := [] }
        let sdefs : List StageDef := stageRecs.map fun s => { stage := s.stage, entry := s.entry }
        let reported := sdefs.filterMap (reportStage msl fdefs)
        let emitted := sdefs.filterMap (emittedStage msl fdefs)
        let showT := fun (t : Nat × Nat × Nat) =>
          if msl then toString (t.1 * t.2.1 * t.2.2) else showThreads (some t)
        let showEm := fun (x : String × List (Nat × Nat × Nat)) =>
          x.1 ++ ":" ++ (if x.2.isEmpty then "-" else "/".intercalate (x.2.map showT))
        "M[" ++ "|".intercalate (groups.map showGroup) ++ "] A[" ++
          ";".intercalate (sortStrs (anns ++ inlineAnns ++ bufAnns)) ++ "] S[" ++
          ",".intercalate (reported.map fun s => s.stage.name ++ ":" ++ s.entryPoint ++ ":" ++ showThreads s.threadGroupSize) ++
          "] F[" ++ ",".intercalate (emitted.map showEm) ++ "]"

/-- the file in source order (harness/src/c05/case.rs `render`): forward declarations of helpers, then of entry points
    (written with their attributes, which the front end does not look at), helper definitions, then the entry point
    definitions and the `Pipeline` blocks — all entry points first, or (layout 1) each pipeline right after the entry
    points it is the first to mention, the remaining entry points at the end; a block marked `b` comes *before* those
    definitions (plain layout: before all entry points, ahead of the unmarked blocks); at the very end the late
    overloads.  Functions are numbered like `funcs` in `buildOne`: helpers, entry points, then the late overloads. -/
def itemsOf (pg : Prog) (srcs : List PipeSrc) : List Item :=
  let nh := pg.helpers.length
  let n := pg.entries.length
  let ent := fun k => if k < n then [Item.defn (nh + k)] else []
  let fdOf := fun (fs : List Fn) (off : Nat) =>
    (List.range fs.length).flatMap fun k => match fs[k]? with | some f => if f.fd then [Item.decl (off + k)] else [] | none => []
  let ps := pg.pipes.zip srcs
  let late := (List.range (lateOverloads pg.entries).length).map fun k => Item.defn (nh + n + k)
  fdOf pg.helpers 0 ++ fdOf pg.entries nh ++ (List.range nh).map Item.defn ++
  (if !pg.layout1 then
    ((ps.filter (·.1.before)).map fun x => Item.pipe x.2) ++ (List.range n).flatMap ent ++
    ((ps.filter (!·.1.before)).map fun x => Item.pipe x.2)
  else
    let step := fun (acc : List Nat × List Item) (x : Pipe × PipeSrc) =>
      let fresh := x.1.stages.foldl (fun l k => if acc.1.contains k || l.contains k then l else l ++ [k]) []
      (acc.1 ++ fresh, acc.2 ++ (if x.1.before then [Item.pipe x.2] ++ fresh.flatMap ent else fresh.flatMap ent ++ [Item.pipe x.2]))
    let (done, items) := ps.foldl step ([], [])
    items ++ ((List.range n).filter (fun k => !done.contains k)).flatMap ent) ++ late

/-- the front end: resource declarations first (they precede every function and `Pipeline` block), then the functions
    and pipelines in file order, each `Pipeline` block against the registry of its moment -/
def frontEnd (pg : Prog) : Except FrontErr (List PipeDef) :=
  if pg.rs.any (fun r => r.ss && r.hasIndex && !r.cb) then .error .StaticSamplerUnexpectedBindingIndex else
  -- nothing of the file is registered before it is read
  let fnOf : Fn → FnSrc := fun f =>
    { name := f.name, attrs := attrsOf f, hasBody := false, isTemplate := f.tp, registered := false }
  -- the user's functions, numbered like `funcs` in `buildOne`, then the intrinsic functions of the registry
  let fns : List FnSrc := (pg.helpers ++ pg.entries).map fnOf ++
    (lateOverloads pg.entries).map (fun n => { name := n, attrs := [], hasBody := false, isTemplate := false, registered := false }) ++
    intrinsicFunctionNames.map (fun n => { name := n, attrs := [], hasBody := false, isTemplate := false, registered := true })
  let srcs : List PipeSrc := pg.pipes.map fun pp =>
    { name := pp.name,
      -- a qualified spelling is no plain identifier: `add_stage` refuses it where it would look the name up, which is
      -- what a name no function has does
      stages := (List.range pp.stages.length).filterMap (fun n => match pp.stages[n]? with
        | none => none
        | some k => match pg.entries[k]? with
          | some f => f.stage.map fun st => (st, if pp.qual && n == 0 then "::" ++ f.name else f.name)
          | none => none),
      dflt := pp.dflt, graphicsProps := pp.gstate }
  parseFile fns [] [] [] (itemsOf pg srcs)

def showLayer : Layer → String
  | .mod => "M"
  | .arr (some n) => "A" ++ toString n
  | .arr none => "A?"
  | .obj k => "O:" ++ k.name
  | .other => "X"

/-- `C05.layers`: the layer chain the typer gives every resource global of the request (harness: the real
    `type_check` on the resource declarations alone) -/
def layersOf (rs : List Res) : String :=
  "L[" ++ ";".intercalate ((rs.filter (!·.cb)).map fun r => r.name ++ "=" ++ ".".intercalate (r.ty.layers.map showLayer)) ++ "]"

def handle (op : String) (args : List String) : String :=
  match op, args with
  | "C05.layers", [_, _, _, rs, _, _, _] =>
    match sequenceOpt ((splitList rs ";").map parseRes) with
    | some rs => layersOf rs
    | none => "bad-request"
  | "C05.meta", [tgt, mode, gl, rs, hs, es, ps] =>
    match targetParams tgt, parseGlobals gl, sequenceOpt ((splitList rs ";").map parseRes),
          sequenceOpt ((splitList hs ";").map parseHelper), sequenceOpt ((splitList es ";").map parseEntry),
          sequenceOpt ((splitList ps ";").map parsePipe) with
    | some (msl, p), some (ns, l1, inits), some rs, some hs, some es, some ps =>
      let pg : Prog := { nstatics := ns, layout1 := l1, inits, rs, helpers := hs, entries := es, pipes := ps }
      match frontEnd pg with
      | .error e => "err:" ++ e.name
      | .ok defs =>
        if mode == "nopipeline" then buildOne msl p pg none
        else if mode == "all" then
          if defs.isEmpty then "err:none" else
          let parts := defs.map fun d => buildOne msl p pg (some d)
          match parts.find? (·.startsWith "unsupported") with
          | some u => u
          | none =>
            -- compile() stops at the first pipeline that fails to export
            match parts.find? (·.startsWith "err:") with
            | some e => e
            | none => " ## ".intercalate parts
        else if mode.startsWith "name=" then
          let n := (mode.drop 5).toString
          match defs.find? (fun d => d.name == n) with
          | some d => buildOne msl p pg (some d)
          | none => "err:unknown"
        else "bad-request"
    | _, _, _, _, _, _ => "bad-request"
  | _, _ => "unsupported-op"

end RsslVerif.Driver.C05

import RsslVerif.Model.NamesEmit
import RsslVerif.Spec.Names
import RsslVerif.Gen.Reserved
/-!
Concrete programs on which clauses of C15 fail on the current code, evaluated on the model with the regenerated
reserved tables (`decide +kernel`).  Every program is also a corpus request (`C15.res …`, listed next to it); the check
compares the listing of the term below with the listing of the parsed request (`C15.witness`), and that one with the
real compiler.
-/
namespace RsslVerif.Lemmas.NamesEmitWitness
open RsslVerif.Model.Names RsslVerif.Model.NamesEmit

def reservedOf (t : Target) : List String := if t.isMsl then Gen.Reserved.msl else Gen.Reserved.hlsl

/-- the tokens of the emitted program (`none` when `build` panics) -/
def toks (t : Target) (p : Program) : Option (List Tok) :=
  (build (reservedOf t) (namesInput t p)).toOption.map fun names => emit t names p

def namesOf (t : Target) (p : Program) : Option (List (Kind × Nat × String)) :=
  (build (reservedOf t) (namesInput t p)).toOption.map fun names => names.map fun n => (n.sym.kind, n.sym.id, n.name)

def has (t : Target) (p : Program) (tok : Tok) : Bool :=
  match toks t p with
  | some l => l.contains tok
  | none => false

def entry (ord : Nat) (name : String) (param : Nat) (body : List BTok) : Def :=
  ⟨none, .func ord name [param] body (some 'c')⟩

/-- `st zqs kernel end` (Metal): a struct member named like a Metal keyword -/
def pMember : Program :=
  { nss := [], defs := [⟨none, .struct 0 "zqs" ["kernel"] []⟩], localNames := [], pipeline := none }

/-- `cb abs - int end ef c zqe zqp { use D0.0 } pl zqP F0 -` (HLSL) -/
def pCbuffer : Program :=
  { nss := [], defs := [⟨none, .cbuf 0 "abs" none ["int"]⟩, entry 0 "zqe" 0 [.use (.cbMember 0 0)]],
    localNames := ["zqp"], pipeline := some ([0], none) }

/-- `ns zqn cb zqc - zqm end end ef c zqe zqp { use D0.0 } pl zqP F0 -` (HLSL) -/
def pCbufferNs : Program :=
  { nss := [(none, "zqn")], defs := [⟨some 0, .cbuf 0 "zqc" none ["zqm"]⟩, entry 0 "zqe" 0 [.use (.cbMember 0 0)]],
    localNames := ["zqp"], pipeline := some ([0], none) }

/-- `rs ba - g_inlineDescriptor0 ef c zqe zqp { use G0 } pl zqP F0 -` (Vulkan with buffer addresses) -/
def pGenerated : Program :=
  { nss := [], defs := [⟨none, .res 0 "g_inlineDescriptor0" "ba" {}⟩, entry 0 "zqe" 0 [.use (.glob 0)]],
    localNames := ["zqp"], pipeline := some ([0], none) }

/-- `st S zqm end ef c zqe S { use S0 } pl zqP F0 -` -/
def pLocalType : Program :=
  { nss := [], defs := [⟨none, .struct 0 "S" ["zqm"] []⟩, entry 0 "zqe" 0 [.use (.structTy 0)]],
    localNames := ["S"], pipeline := some ([0], none) }

/-- `ef c S S { } pl zqP F0 -` (Metal) -/
def pWrapper : Program :=
  { nss := [], defs := [entry 0 "S" 0 []], localNames := ["S"], pipeline := some ([0], none) }

/-- `ns N gl s x end ns M gl s x end fn f - { use G0 use G1 } ef c zqe zqp { use F0 } pl zqP F1 -` (Metal) -/
def pThreaded : Program :=
  { nss := [(none, "N"), (none, "M")],
    defs := [⟨some 0, .glob 0 "x" 's'⟩, ⟨some 1, .glob 1 "x" 's'⟩,
             ⟨none, .func 0 "f" [] [.use (.glob 0), .use (.glob 1)] none⟩, entry 1 "zqe" 0 [.use (.func 0)]],
    localNames := ["zqp"], pipeline := some ([1], none) }

/-- `ns zqn rs ba - x end rs ba - x ef c zqe zqp { use G0 use G1 } pl zqP F0 -` (Vulkan with buffer addresses) -/
def pInline : Program :=
  { nss := [(none, "zqn")],
    defs := [⟨some 0, .res 0 "x" "ba" {}⟩, ⟨none, .res 1 "x" "ba" {}⟩, entry 0 "zqe" 0 [.use (.glob 0), .use (.glob 1)]],
    localNames := ["zqp"], pipeline := some ([0], none) }

/-- `gl c N ns S fn N - { use G0 } end ef c zqe zqp { use F0 } pl zqP F1 -` -/
def pRelative : Program :=
  { nss := [(none, "S")],
    defs := [⟨none, .glob 0 "N" 'c'⟩, ⟨some 0, .func 0 "N" [] [.use (.glob 0)] none⟩, entry 1 "zqe" 0 [.use (.func 0)]],
    localNames := ["zqp"], pipeline := some ([1], none) }

/-- `st S m | f end st T k | f end ef c zqe zqp { } pl zqP F2 -` -/
def pMethods : Program :=
  { nss := [],
    defs := [⟨none, .struct 0 "S" ["m"] [(0, "f")]⟩, ⟨none, .struct 1 "T" ["k"] [(1, "f")]⟩, entry 2 "zqe" 0 []],
    localNames := ["zqp"], pipeline := some ([2], none) }

/-- `st S log2_0 | log2 end ef c zqe zqp { } pl zqP F1 -` (HLSL) -/
def pMemberMethod : Program :=
  { nss := [], defs := [⟨none, .struct 0 "S" ["log2_0"] [(0, "log2")]⟩, entry 1 "zqe" 0 []],
    localNames := ["zqp"], pipeline := some ([1], none) }

/-- a well-behaved program for the non-vacuity examples:
`st S a end gl s g rs cbs s0 texture rs ba - sampler fn h i p { lv x use G0 use G1 } ef c main tid { use F0 use G2 } pl P F1 -` -/
def pGood : Program :=
  { nss := [],
    defs := [⟨none, .struct 0 "S" ["a"] []⟩, ⟨none, .glob 0 "g" 's'⟩,
             ⟨none, .res 1 "texture" "cbs" { elem := some 0 }⟩, ⟨none, .res 2 "sampler" "ba" {}⟩,
             ⟨none, .func 0 "h" [0] [.lv 1, .use (.glob 0), .use (.glob 1)] none⟩,
             entry 1 "main" 2 [.use (.func 0), .use (.glob 2)]],
    localNames := ["p", "x", "tid"], pipeline := some ([1], none) }

theorem member_reserved :
    has .msl pMember (.decl (.strct 0) "M" "kernel" (.member 0 0)) = true ∧ "kernel" ∈ Spec.Names.mslKeywords := by
  decide +kernel

theorem cbuffer_reserved :
    has .dx pCbuffer (.decl (.file none) "C" "abs" (.cbuf 0)) = true ∧ "abs" ∈ Spec.Names.hlslKeywords ∧
    has .dx pCbuffer (.decl (.file none) "D" "int" (.cbufMember 0 0)) = true ∧ "int" ∈ Spec.Names.hlslKeywords := by
  decide +kernel

/-- the member is declared inside namespace `zqn` only; the use in the root function prints the bare leaf name -/
theorem cbuffer_member_dangling :
    has .dx pCbufferNs (.use (.func 0) false ["zqm"] (.cbufMember 0 0)) = true ∧
    has .dx pCbufferNs (.decl (.file (some 0)) "D" "zqm" (.cbufMember 0 0)) = true ∧
    (toks .dx pCbufferNs).map (fun l => l.any fun tok => match tok with
      | .decl sc _ n _ => n == "zqm" && (sc == .file none || sc == .func 0)
      | _ => false) = some false := by
  decide +kernel

theorem generated_name_clash :
    has .vkba pGenerated (.decl (.file none) "G" "g_inlineDescriptor0" (.gen "g_inlineDescriptor0")) = true ∧
    has .vkba pGenerated (.decl (.file none) "G" "g_inlineDescriptor0" (.sym ⟨.global, 0⟩)) = true := by
  decide +kernel

/-- the parameter `S` is declared in the function scope in which the type `S` is then named -/
theorem local_captures_type :
    has .dx pLocalType (.decl (.func 0) "P" "S" (.sym ⟨.localVar, 0⟩)) = true ∧
    has .dx pLocalType (.use (.func 0) true ["S"] (.sym ⟨.struct, 0⟩)) = true ∧
    has .msl pLocalType (.decl (.func 0) "P" "S" (.sym ⟨.localVar, 0⟩)) = true ∧
    has .msl pLocalType (.use (.func 0) true ["S"] (.sym ⟨.struct, 0⟩)) = true := by
  decide +kernel

theorem wrapper_param_captures_entry :
    has .msl pWrapper (.decl .wrapper "P" "S" (.sym ⟨.localVar, 0⟩)) = true ∧
    has .msl pWrapper (.use .wrapper false ["S"] (.sym ⟨.func, 0⟩)) = true := by
  decide +kernel

theorem msl_threaded_leaf_clash :
    has .msl pThreaded (.decl (.func 0) "P" "x" (.sym ⟨.global, 0⟩)) = true ∧
    has .msl pThreaded (.decl (.func 0) "P" "x" (.sym ⟨.global, 1⟩)) = true := by
  decide +kernel

theorem inline_member_leaf_clash :
    has .vkba pInline (.decl (.genStruct "InlineDescriptor0") "M" "x" (.sym ⟨.global, 0⟩)) = true ∧
    has .vkba pInline (.decl (.genStruct "InlineDescriptor0") "M" "x" (.sym ⟨.global, 1⟩)) = true := by
  decide +kernel

/-- inside namespace `S` the relative path `N` names the function `S::N`, not the global `::N` that is meant -/
theorem relative_path_capture :
    has .dx pRelative (.use (.func 0) false ["N"] (.sym ⟨.global, 0⟩)) = true ∧
    has .dx pRelative (.decl (.file (some 0)) "F" "N" (.sym ⟨.func, 0⟩)) = true ∧
    has .dx pRelative (.decl (.file none) "G" "N" (.sym ⟨.global, 0⟩)) = true := by
  decide +kernel

theorem methods_not_verbatim :
    has .dx pMethods (.decl (.strct 0) "m" "f_0" (.sym ⟨.func, 0⟩)) = true ∧
    has .dx pMethods (.decl (.strct 1) "m" "f_1" (.sym ⟨.func, 1⟩)) = true := by
  decide +kernel

theorem member_method_clash :
    has .dx pMemberMethod (.decl (.strct 0) "M" "log2_0" (.member 0 0)) = true ∧
    has .dx pMemberMethod (.decl (.strct 0) "m" "log2_0" (.sym ⟨.func, 0⟩)) = true := by
  decide +kernel

/-- `fn zqf i threads_per_simdgroup { use W0 use W1 use L0 } ef c zqe zqp { use F0 } pl zqP F1 -` (Metal): a parameter
spelled like the implicit lane-count parameter in a function that reads the lane count -/
def pWave : Program :=
  { nss := []
    defs := [⟨none, .func 0 "zqf" [0] [.use (.wave false), .use (.wave true), .use (.loc 0)] none⟩,
             entry 1 "zqe" 1 [.use (.func 0)]]
    localNames := ["threads_per_simdgroup", "zqp"], pipeline := some ([1], none) }

/-- the same program named with a reserved list that lacks the implicit parameter's name -/
def toksWith (reserved : List String) (t : Target) (p : Program) : Option (List Tok) :=
  (build reserved (namesInput t p)).toOption.map fun names => emit t names p

/-- with the regenerated table the user parameter is renamed and the implicit parameters follow it, in the helper, in the
entry point (which only passes them on) and in the wrapper -/
theorem wave_params_emitted :
    (toks .msl pWave).map (fun l => (l.map render)) =
      some ["F:zqf", "(", "P:threads_per_simdgroup_0", "P:thread_index_in_simdgroup", "P:threads_per_simdgroup",
            "?thread_index_in_simdgroup", "?threads_per_simdgroup", "?threads_per_simdgroup_0", ")",
            "F:zqe", "(", "P:zqp", "P:thread_index_in_simdgroup", "P:threads_per_simdgroup",
            "?zqf", "?thread_index_in_simdgroup", "?threads_per_simdgroup", ")",
            "F:ComputeShaderEntry", "(", "P:zqp", "P:thread_index_in_simdgroup", "P:threads_per_simdgroup",
            "?zqe", "?zqp", "?thread_index_in_simdgroup", "?threads_per_simdgroup", ")"] ∧
    (toks .dx pWave).map (fun l => (l.map render)) =
      some ["F:zqf", "(", "P:threads_per_simdgroup", "?threads_per_simdgroup", ")", "F:zqe", "(", "P:zqp", "?zqf", ")"] := by
  decide +kernel

/-- **the reservation is what keeps them apart**: with `threads_per_simdgroup` taken out of the reserved list (seeded
mutant C15-6) the same function scope declares the user parameter and the implicit parameter under one name -/
theorem wave_clash_without_reservation :
    let l := toksWith (Gen.Reserved.msl.erase "threads_per_simdgroup") .msl pWave
    (l.map fun l => l.contains (.decl (.func 0) "P" "threads_per_simdgroup" (.sym ⟨.localVar, 0⟩))) = some true ∧
    (l.map fun l => l.contains (.decl (.func 0) "P" "threads_per_simdgroup" (.gen "threads_per_simdgroup"))) = some true := by
  decide +kernel

end RsslVerif.Lemmas.NamesEmitWitness

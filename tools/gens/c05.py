"""Gen.MetaTables: what the reflection metadata builders and the annotation printers read, re-extracted from
hlsl/src/ast_generate.rs, msl/src/generator/pipeline.rs, ir/src/export.rs, ast/src/ast_globals.rs,
formatter/src/formatter.rs, src/compile.rs, hlsl/src/names.rs, msl/src/names.rs."""
import re


def register(gen, T):
    @gen("MetaTables")
    def meta_tables():
        from rustsrc import (ExtractError, fn_body, impl_fn_body, first_match, match_arms, enum_variants,
                             lean_str, normws)
        hlsl = T.src("hlsl/src/ast_generate.rs")
        msl = T.src("msl/src/generator/pipeline.rs")
        export = T.src("ir/src/export.rs")
        ir_types = T.src("ir/src/ir_types.rs")
        ast_globals = T.src("ast/src/ast_globals.rs")
        formatter = T.src("formatter/src/formatter.rs")
        compile_rs = T.src("src/compile.rs")
        ir_module = T.src("ir/src/ir_module.rs")
        msl_names = T.src("msl/src/names.rs")
        hlsl_names = T.src("hlsl/src/names.rs")

        kinds = [v for v, _ in enum_variants(ir_types, "ObjectType")]
        descs = [v for v, _ in enum_variants(export, "DescriptorType")]
        out = ["import RsslVerif.Gen.SlotTables\nimport RsslVerif.Gen.CompileTables\n",
               T.header("MetaTables", ["hlsl/src/ast_generate.rs", "msl/src/generator/pipeline.rs", "ir/src/export.rs",
                                       "ast/src/ast_globals.rs", "formatter/src/formatter.rs", "src/compile.rs",
                                       "ir/src/ir_module.rs", "hlsl/src/names.rs", "msl/src/names.rs",
                                       "ir/src/intrinsic_data.rs", "typer/src/typer/pipelines.rs", "typer/src/typer/globals.rs",
                                       "ir/src/simplify_cbuffers.rs", "msl/src/generator.rs", "typer/src/typer/functions.rs",
                                       "typer/src/typer.rs"]),
               "open RsslVerif.Gen.SlotTables RsslVerif.Gen.CompileTables\n\n"]
        out.append("/-- `DescriptorType` (ir/src/export.rs) -/\ninductive DescT where\n" + "".join(f"  | {d}\n" for d in descs) +
                   "  deriving DecidableEq, Repr, Inhabited\n\n")
        out.append("def DescT.name : DescT → String\n" + "".join(f"  | .{d} => {lean_str(d)}\n" for d in descs) + "\n")

        def strip_block(r):
            r = r.strip()
            while r.startswith("{") and r.endswith("}"):
                r = r[1:-1].strip()
            return r.rstrip(";").strip()

        def desc_table(body, which, prefix):
            """the `let descriptor_type = match type_layer {..}` table of an analyse_bindings"""
            m = re.search(r'let\s+descriptor_type\s*=\s*', body)
            if not m:
                raise ExtractError(f"{which}: descriptor_type binding not found")
            scrut, arms_text, _ = first_match(body, None, m.end() - 1)
            if scrut != "type_layer":
                raise ExtractError(f"{which}: descriptor_type scrutinee {scrut!r}")
            table, other_obj, non_obj = {}, None, None
            for pats, guard, result in match_arms(arms_text):
                if guard is not None:
                    raise ExtractError(f"{which}: guard in descriptor_type match")
                result = strip_block(result)
                dm = re.fullmatch(r'DescriptorType::([A-Za-z0-9]+)', result)
                for p in pats:
                    km = re.fullmatch(r'ir::TypeLayer::Object\(\s*ir::ObjectType::([A-Za-z0-9]+)(\(_\))?\s*\)', p)
                    if km:
                        if not dm or dm.group(1) not in descs:
                            raise ExtractError(f"{which}: arm {p!r} => {result!r}")
                        if km.group(1) not in kinds:
                            raise ExtractError(f"{which}: unknown ObjectType::{km.group(1)}")
                        table.setdefault(km.group(1), dm.group(1))
                    elif p == "ir::TypeLayer::Object(_)":
                        if result != "return Err(GenerateError::UnsupportedObjectType)":
                            raise ExtractError(f"{which}: other-object arm is {result!r}")
                        other_obj = "none"
                    elif p == "_":
                        if not dm:
                            raise ExtractError(f"{which}: default arm is {result!r}")
                        non_obj = dm.group(1)
                    else:
                        raise ExtractError(f"{which}: pattern {p!r} unsupported")
            if other_obj is None or non_obj is None:
                raise ExtractError(f"{which}: missing catch-all arms")
            s = [f"/-- `{which}`: peeled object kind ↦ descriptor type; `none` = Err(UnsupportedObjectType) -/\n",
                 f"def {prefix}DescType : ObjKind → Option DescT\n"]
            for k in kinds:
                s.append(f"  | .{k} => " + (f"some .{table[k]}" if k in table else "none") + "\n")
            s.append(f"\n/-- `{which}`: descriptor type of a global whose peeled type is not an object -/\n"
                     f"def {prefix}NonObjectDescType : DescT := .{non_obj}\n\n")
            return "".join(s)

        hb = fn_body(hlsl, "analyse_bindings")
        mb = fn_body(msl, "analyse_bindings")
        out.append(desc_table(hb, "hlsl analyse_bindings", "hlsl"))
        out.append(desc_table(mb, "msl analyse_bindings", "msl"))

        # ---- the type peel of both analyse_bindings, of process_definition and of is_buffer_address, read as an ordered
        # list of peel operations by a small symbolic reader of the `let` statements (variable names do not matter; the
        # data flow does): every variable holds "decl.type_id after these operations"
        from rustsrc import matching as _matching, split_top as _split_top

        def top_lets(text):
            """the `let` statements at bracket depth 0 of a block, in order (normalised text)"""
            res, depth, i = [], 0, 0
            while i < len(text):
                c = text[i]
                if c in '([{':
                    depth += 1
                elif c in ')]}':
                    depth -= 1
                elif depth == 0 and text.startswith('let ', i) and (i == 0 or not (text[i - 1].isalnum() or text[i - 1] == '_')):
                    j, d = i, 0
                    while j < len(text):
                        if text[j] in '([{':
                            d += 1
                        elif text[j] in ')]}':
                            d -= 1
                        elif text[j] == ';' and d == 0:
                            break
                        j += 1
                    res.append(text[i:j].strip())
                    i = j
                    continue
                i += 1
            return res

        REG = r'(?:&?[A-Za-z_][A-Za-z0-9_\.]*?\.)?'   # `context.module.type_registry.` / `type_registry.` / `self.` / ``

        class Peel:
            def __init__(self, which, start_var):
                self.which = which
                self.env = {start_var: []}
                self.layers = {}
                self.count = {}      # count variable -> (expr when an array was taken, expr otherwise)
                self.sized_only = None

            def bad(self, why):
                raise ExtractError(f"{self.which}: type peel: {why}")

            def val(self, v):
                if v not in self.env:
                    self.bad(f"`{v}` is not a peeled type id")
                return self.env[v]

            def block(self, text, in_array):
                """run the statements of a block; returns the trailing expression"""
                text = text.strip()
                lets = top_lets(text)
                for st in lets:
                    self.stmt(st, in_array)
                # trailing expression = what follows the last top-level `;`
                parts = _split_top(text, ';')
                return parts[-1].strip()

            def array_arm(self, inner, lenpat, scrut_var, arm_text, else_text, x, c):
                base = self.val(scrut_var)
                if lenpat in ('len', '_len') or re.fullmatch(r'[a-z_]+', lenpat):
                    sized = False
                    lenvar = lenpat
                elif re.fullmatch(r'Some\(([a-z_]+)\)', lenpat):
                    sized = True
                    lenvar = re.fullmatch(r'Some\(([a-z_]+)\)', lenpat).group(1)
                else:
                    self.bad(f"array length pattern `{lenpat}`")
                saved_env = dict(self.env)
                self.env[inner] = base + [("takeArray", sized)]
                self.lenexpr = {lenvar: "len" if not sized else "lenValue"}
                tail = self.block(arm_text.strip().strip('{}').strip() if arm_text.strip().startswith('{') else arm_text, True)
                tm = re.fullmatch(r'\(\s*([A-Za-z_][A-Za-z0-9_\.]*)\s*,\s*(.+?)\s*\)', tail)
                if not tm:
                    self.bad(f"array arm does not end in a pair: `{tail}`")
                taken_ops = self.val(tm.group(1))
                taken_count = self.count_expr(tm.group(2))
                self.env = saved_env
                em = re.fullmatch(r'\{?\s*\(\s*([A-Za-z_][A-Za-z0-9_\.]*)\s*,\s*(.+?)\s*\)\s*,?\s*\}?', else_text.strip())
                if not em:
                    self.bad(f"non-array arm is not a pair: `{else_text}`")
                if self.val(em.group(1)) != base:
                    self.bad("non-array arm does not return the type it looked at")
                self.env[x] = taken_ops
                self.count[c] = (taken_count, normws(em.group(2)))

            def count_expr(self, e):
                e = normws(e)
                if e in self.lenexpr:
                    return self.lenexpr[e]
                m = re.fullmatch(r'([a-z_]+)\.map\(\|v\| v as u32\)', e)
                if m and self.lenexpr.get(m.group(1)) == "len":
                    return "len as u32"
                m = re.fullmatch(r'Some\(([a-z_]+)\)', e)
                if m and self.lenexpr.get(m.group(1)) == "lenValue":
                    return "Some(lenValue)"
                return "?" + e

            def stmt(self, st, in_array):
                m = re.fullmatch(r'let ([a-z_]+) = ' + REG + r'remove_modifier\(([A-Za-z_][A-Za-z0-9_\.]*)\)', st)
                if m:
                    self.env[m.group(1)] = self.val(m.group(2)) + [("removeModifierAfterArray",) if in_array else ("removeModifier",)]
                    return
                m = re.fullmatch(r'let ([a-z_]+) = ' + REG + r'get_type_layer\(([A-Za-z_][A-Za-z0-9_\.]*)\)', st)
                if m:
                    self.layers[m.group(1)] = self.val(m.group(2))
                    return
                m = re.fullmatch(r'let \(([a-z_]+), ([a-z_]+)\) = if let (?:ir::)?TypeLayer::Array\(([a-z_]+), ([A-Za-z_\(\)]+)\) = ' + REG +
                                 r'get_type_layer\(([A-Za-z_][A-Za-z0-9_\.]*)\) (\{.*\}) else (\{.*\})', st)
                if m:
                    x, c, inner, lenpat, sv, arm, els = m.groups()
                    # the first `{..}` group must be balanced
                    e = _matching(st, st.index(arm))
                    arm_text = st[st.index(arm):e + 1]
                    els_text = st[e + 1:].strip()
                    if not els_text.startswith('else'):
                        self.bad("if-let without else")
                    self.array_arm(inner, lenpat, sv, arm_text, els_text[4:].strip(), x, c)
                    return
                m = re.fullmatch(r'let \(([a-z_]+), ([a-z_]+)\) = match ' + REG + r'get_type_layer\(([A-Za-z_][A-Za-z0-9_\.]*)\) \{(.*)\}', st)
                if m:
                    x, c, sv, arms_text = m.groups()
                    arms = match_arms(arms_text)
                    if len(arms) != 2 or arms[1][0] != ['_'] or arms[0][1] is not None or arms[1][1] is not None or len(arms[0][0]) != 1:
                        self.bad(f"array match has arms {[a[0] for a in arms]}")
                    pm = re.fullmatch(r'(?:ir::)?TypeLayer::Array\(([a-z_]+), ([A-Za-z_\(\)]+)\)', arms[0][0][0])
                    if not pm:
                        self.bad(f"array match pattern `{arms[0][0][0]}`")
                    self.array_arm(pm.group(1), pm.group(2), sv, arms[0][2], arms[1][2], x, c)
                    return
                m = re.fullmatch(r'let ([a-z_]+) = ([a-z_]+)\.map\(\|v\| v as u32\)', st)
                if m and hasattr(self, 'lenexpr') and self.lenexpr.get(m.group(2)) == "len":
                    self.lenexpr[m.group(1)] = "len as u32"
                    return
                if re.search(r'remove_modifier|get_type_layer|TypeLayer::Array|get_non_array|extract_modifier', st):
                    self.bad(f"statement not understood: `{st[:120]}`")

        def lean_ops(ops):
            def one(o):
                if o[0] == "takeArray":
                    return ".takeArray " + ("true" if o[1] else "false")
                return "." + o[0]
            return T.lean_list(one(o) for o in ops)

        def global_arm(body, which):
            _, arms_text, _ = first_match(body, r'^decl$')
            for pats, guard, result in match_arms(arms_text):
                if any(re.fullmatch(r'(?:ir::)?RootDefinition::GlobalVariable\(id\)', p) for p in pats):
                    r = result.strip()
                    return r[1:-1] if r.startswith('{') else r
            raise ExtractError(f"{which}: GlobalVariable arm not found")

        def run_peel(which, text, start_var, layer_var):
            pl = Peel(which, start_var)
            try:
                pl.block(text, False)
                if layer_var not in pl.layers:
                    pl.bad(f"layer variable `{layer_var}` is not read through get_type_layer")
                return pl.layers[layer_var], pl
            except ExtractError as e:
                import sys
                print(f"MetaTables: {e}", file=sys.stderr)
                return [("unknown",)], pl

        hops, hpl = run_peel("hlsl analyse_bindings", global_arm(hb, "hlsl analyse_bindings"), "decl.type_id", "type_layer")
        mops, mpl = run_peel("msl analyse_bindings", global_arm(mb, "msl analyse_bindings"), "decl.type_id", "type_layer")
        pd = fn_body(ir_module, "process_definition")
        aops, apl = run_peel("process_definition", global_arm(pd, "process_definition"), "decl.type_id", "unmodified_tyl")
        iba_text = normws(fn_body(ir_types, "is_buffer_address"))
        bops, bpl = run_peel("is_buffer_address", iba_text, "id", "tyl")
        out.append("/-- one step of the type peel in front of the `match type_layer` of `analyse_bindings` / `process_definition`:\n"
                   "    `remove_modifier`, an `if let`/`match` on `TypeLayer::Array(inner, len)` (`sizedOnly`: the pattern is\n"
                   "    `Array(inner, Some(len))`), a `remove_modifier` *inside* the array arm; `unknown` = the reader of\n"
                   "    tools/gens/c05.py did not understand the statements -/\n"
                   "inductive PeelOp where\n  | removeModifier\n  | takeArray (sizedOnly : Bool)\n  | removeModifierAfterArray\n  | unknown\n"
                   "  deriving DecidableEq, Repr, Inhabited\n\n")
        out.append(f"/-- hlsl `analyse_bindings`, GlobalVariable arm: operations between `decl.type_id` and `type_layer` -/\n"
                   f"def hlslPeel : List PeelOp := {lean_ops(hops)}\n\n"
                   f"/-- msl `analyse_bindings`, GlobalVariable arm -/\ndef mslPeel : List PeelOp := {lean_ops(mops)}\n\n"
                   f"/-- `process_definition` (assign_api_bindings), GlobalVariable arm: operations between `decl.type_id` and `unmodified_tyl` -/\n"
                   f"def allocPeel : List PeelOp := {lean_ops(aops)}\n\n"
                   f"/-- `TypeRegistry::is_buffer_address`: operations between `id` and the layer it matches on -/\n"
                   f"def bufferAddressTestPeel : List PeelOp := {lean_ops(bops)}\n\n")

        # facts about the DescriptorBinding literals (normalised source text)
        def binding_literals(body, which):
            lits = []
            for m in re.finditer(r'DescriptorBinding\s*\{', body):
                i = m.end() - 1
                from rustsrc import matching
                j = matching(body, i)
                fields = {}
                from rustsrc import split_top
                for part in split_top(body[i + 1:j], ','):
                    part = part.strip()
                    if not part:
                        continue
                    if ':' in part:
                        k, v = part.split(':', 1)
                        fields[k.strip()] = normws(v)
                    else:
                        fields[part] = part   # field init shorthand
                lits.append(fields)
            if not lits:
                raise ExtractError(f"{which}: no DescriptorBinding literal")
            return lits

        hl = binding_literals(hb, "hlsl")
        ml = binding_literals(mb, "msl")
        if len(hl) != 2 or len(ml) != 1:
            raise ExtractError(f"DescriptorBinding literals: hlsl {len(hl)}, msl {len(ml)}")
        want_fields = {"name", "api_binding", "descriptor_type", "descriptor_count", "is_bindless", "is_used", "static_sampler"}
        for l in hl + ml:
            if set(l) != want_fields:
                raise ExtractError(f"DescriptorBinding fields {sorted(l)}")
        cb, gl = hl[0], hl[1]
        nhb, nmb = normws(hb), normws(mb)

        def b(x):
            return "true" if x else "false"

        out.append("/-- how each field of the HLSL cbuffer entry / global entry / MSL global entry is filled -/\n"
                   "structure EntryFacts where\n  locationIsApiSlotLocation : Bool\n  groupIsApiSlotSet : Bool\n"
                   "  onlyWhenApiSlotIsSome : Bool\n  isUsedLiteralTrue : Bool\n  bindlessFromDecl : Bool\n"
                   "  bindlessLiteralFalse : Bool\n  staticSamplerFromDecl : Bool\n  staticSamplerNone : Bool\n"
                   "  countLiteralOne : Bool\n  countIsArrayLenOrOne : Bool\n  deriving DecidableEq, Repr\n\n")

        def facts(name, lit, nbody, slot_var, guard_rx, register_rx, pl=None):
            count_var = lit["descriptor_count"] == "descriptor_count"
            count_rule = pl is not None and pl.count.get(lit["descriptor_count"]) == ("len as u32", "Some(1)")
            vals = {
                "locationIsApiSlotLocation": lit["api_binding"] == f"{slot_var}.location",
                "groupIsApiSlotSet": bool(re.search(register_rx, nbody)),
                "onlyWhenApiSlotIsSome": bool(re.search(guard_rx, nbody)),
                "isUsedLiteralTrue": lit["is_used"] == "true",
                "bindlessFromDecl": lit["is_bindless"] == "decl.is_bindless",
                "bindlessLiteralFalse": lit["is_bindless"] == "false",
                "staticSamplerFromDecl": lit["static_sampler"] == "decl.static_sampler.clone().map(Box::new)",
                "staticSamplerNone": lit["static_sampler"] == "None",
                "countLiteralOne": lit["descriptor_count"] == "Some(1)",
                "countIsArrayLenOrOne": count_var and count_rule,
            }
            return (f"def {name} : EntryFacts := {{ " + ", ".join(f"{k} := {b(v)}" for k, v in vals.items()) + " }\n")

        out.append(facts("hlslCbufferEntry", cb, nhb, "api_slot", r'if let Some\(api_slot\) = cb\.api_binding \{',
                         r'context\.register_binding\(api_slot\.set, binding\)'))
        out.append(facts("hlslGlobalEntry", gl, nhb, "api_slot", r'if let Some\(api_slot\) = decl\.api_slot \{',
                         r'context\.register_binding\(api_slot\.set, binding\)', hpl))
        out.append(facts("mslGlobalEntry", ml[0], nmb, "api_slot", r'if let Some\(api_slot\) = decl\.api_slot \{',
                         r'layout\.register_binding\(api_slot\.set, binding, \*id\)', mpl))
        out.append(f"def hlslCbufferDescType : Option DescT := "
                   + (f"some .{cb['descriptor_type'].split('::')[1]}" if cb['descriptor_type'].startswith('DescriptorType::') else "none") + "\n")
        rej = re.search(r'ir::RootDefinition::ConstantBuffer\(_\) => \{ return Err\(GenerateError::ConstantBuffersNotSimplified\); \}', nmb)
        out.append(f"def mslRejectsCbufferRoot : Bool := {b(rej)}\n")
        out.append(f"def hlslNameIsGeneratedName : Bool := {b(gl['name'] == 'context.get_global_name(*id)?.to_string()' and cb['name'] == 'context.get_constant_buffer_name(*id)?.to_string()')}\n")
        out.append(f"def mslNameIsGeneratedName : Bool := {b(ml[0]['name'] == 'context.get_global_name(*id)?.to_string()')}\n")
        big = re.search(r'if let Some\(api_slot\) = decl\.api_slot \{ let binding = DescriptorBinding \{.*?\}; '
                        r'if api_slot\.set as usize >= ARGUMENT_BUFFER_NAMES\.len\(\) \{ return Err\(GenerateError::UnsupportedBindGroupIndex\(api_slot\.set\)\); \} '
                        r'layout\.register_binding\(api_slot\.set, binding, \*id\); \}', nmb)
        out.append(f"/-- msl analyse_bindings refuses a bind group that has no argument buffer struct name -/\n"
                   f"def mslRejectsGroupWithoutArgumentBuffer : Bool := {b(big)}\n\n")

        # usage analysis (ir/src/usage_analysis.rs): what every symbol requires directly, and the closure loop
        usage = T.src("ir/src/usage_analysis.rs")
        cl = normws(fn_body(usage, "calculate_local"))
        rc = normws(fn_body(usage, "recurse"))
        cf = normws(fn_body(usage, "calculate_for_function"))
        ufacts = {
            "functionsRequireBodyAndDefaults": (cf, r'if let Some\(def\) = def \{ for param in &def\.params \{ if let Some\(default_expr\) = &param\.default_expr \{ gather_usage_for_expression\(default_expr, &mut usage\); \} \} gather_usage_for_scope_block\(&def\.scope_block, &mut usage\); \}'),
            "globalsRequireTheirInitializer": (cl, r'let mut usage = LocalUsageAnalysis::default\(\); gather_usage_for_init_opt\(&module\.global_registry\[i\]\.init, &mut usage\); let valid_insert = result \.insert\(UsageSymbol::GlobalVariable\(id\), usage\)'),
            "cbuffersRequireNothing": (cl, r'let usage = LocalUsageAnalysis::default\(\); let valid_insert = result \.insert\(UsageSymbol::ConstantBuffer\(id\), usage\)'),
            "closureLoopShape": (rc, r'let keys = self\.0\.keys\(\)\.cloned\(\)\.collect::<Vec<_>>\(\); loop \{ let mut modified = false; for key in &keys \{ '
                                     r'let current_set = self\.0\.get\(key\)\.unwrap\(\); let mut new_set = current_set\.required\.clone\(\); '
                                     r'for other in &current_set\.required \{ new_set\.extend\(&self\.0\.get\(other\)\.unwrap\(\)\.required\); \} '
                                     r'if new_set\.len\(\) > current_set\.required\.len\(\) \{ let stored_analysis = self\.0\.get_mut\(key\)\.unwrap\(\); '
                                     r'stored_analysis\.required = new_set; modified = true; \} \} if !modified \{ break; \} \} self$'),
        }
        out.append("/-- syntactic facts about GlobalUsageAnalysis (regexes over the normalised source) -/\nstructure UsageFacts where\n"
                   + "".join(f"  {k} : Bool\n" for k in ufacts) + "  deriving DecidableEq, Repr\n\n")
        out.append("def usageFacts : UsageFacts := { " +
                   ", ".join(f"{k} := {b(re.search(rx, text))}" for k, (text, rx) in ufacts.items()) + " }\n\n")

        # generate_pipeline (msl): used marking, sort, id / buffer attributes
        gp = normws(fn_body(msl, "generate_pipeline"))
        gp_facts = {
            "usedIsMembershipInStageGlobals": r'argument\.metadata\.is_used = all_used_globals\.contains\(&ImplicitFunctionParameter::Global\(argument\.id\)\);',
            "stageGlobalsAreRequiredGlobalsOfEntries": r'if let Some\(def\) = def \{ for stage in &def\.stages \{ let stage_used_globals = context \.function_required_globals \.get\(&stage\.entry_point\) \.unwrap\(\); all_used_globals\.extend_from_slice\(stage_used_globals\); \} \}',
            "membersSortedByIndex": r'argument_buffer\.0\.sort_by\(\|lhs, rhs\| \{ let index_lhs = match lhs\.metadata\.api_binding \{ ApiLocation::Index\(i\) => i, ApiLocation::InlineConstant\(_\) => panic!\(\), \}; let index_rhs = match rhs\.metadata\.api_binding \{ ApiLocation::Index\(i\) => i, ApiLocation::InlineConstant\(_\) => panic!\(\), \}; std::cmp::Ord::cmp\(&index_lhs, &index_rhs\) \}\);',
            "idAttributeIsIndex": r'name: Vec::from\(\[Located::none\(String::from\("id"\)\)\]\), arguments: Vec::from\(\[Located::none\(ast::Expression::Literal\( ast::Literal::IntUntyped\(index as u64\), \)\)\]\)',
            "bufferAttributeIsGroup": r'ast::ScopedIdentifier::trivial\(&format!\("set\{\}", i\)\), Vec::from\(\[ast::Attribute \{ name: Vec::from\(\[Located::none\(String::from\("buffer"\)\)\]\), arguments: Vec::from\(\[Located::none\(ast::Expression::Literal\( ast::Literal::IntUntyped\(i as u64\), \)\)\]\)',
            "structNameByGroup": r'let struct_name = ARGUMENT_BUFFER_NAMES\[i\];',
            "finishKeepsOrder": r'let desc = binding_layout\.finish\(\); Ok\(\(defs, desc\)\)',
            # since fix "an entry point that uses a global without a binding slot is an error on Metal": every extern global a
            # stage entry point requires (static samplers are remapped to Static) is passed as `set<i>.<name>`; one that is in
            # no argument buffer is refused
            "unboundGlobalRefused": r'ImplicitFunctionParameter::Global\(ref gid\) => \{ let var = &context\.module\.global_registry\[gid\.0 as usize\]; '
                                    r'let remapped_class = match var\.storage_class \{ ir::GlobalStorage::Extern if var\.static_sampler\.is_some\(\) => \{ ir::GlobalStorage::Static \} v => v, \}; '
                                    r'match remapped_class \{ ir::GlobalStorage::Extern => \{ match context\.global_variable_modes\.get\(gid\)\.unwrap\(\) \{ GlobalMode::Parameter \{ \.\. \} => \{ '
                                    r'let set_index = match global_to_set_index\.get\(gid\) \{ Some\(set_index\) => set_index, None => return Err\(GenerateError::UnboundGlobal\), \};',
            "setIndexMapFromArgumentBuffers": r'let mut global_to_set_index = HashMap::new\(\); for \(i, argument_buffer\) in &mut binding_layout\.0\.iter\(\)\.enumerate\(\) \{ for argument in &argument_buffer\.0 \{ global_to_set_index\.insert\(argument\.id, i\); \} \}',
            "stageArgumentsFromRequiredGlobals": r'let parameters_for_globals = context \.function_required_globals \.get\(&stage\.entry_point\) \.unwrap\(\) \.clone\(\); for param in parameters_for_globals \{ match param \{',
        }
        out.append("/-- syntactic facts about msl generate_pipeline (regexes over the normalised source) -/\nstructure MslPipelineFacts where\n"
                   + "".join(f"  {k} : Bool\n" for k in gp_facts) + "  deriving DecidableEq, Repr\n\n")
        out.append("def mslPipelineFacts : MslPipelineFacts := { " +
                   ", ".join(f"{k} := {b(re.search(rx, gp))}" for k, rx in gp_facts.items()) + " }\n\n")
        names = re.search(r'ARGUMENT_BUFFER_NAMES: &\[&str\] = &\[([^\]]*)\]', normws(msl))
        if not names:
            raise ExtractError("ARGUMENT_BUFFER_NAMES not found")
        consts = [c.strip() for c in names.group(1).split(',') if c.strip()]
        vals = []
        for c in consts:
            cm = re.search(r'pub const ' + re.escape(c) + r': &str = "([^"]*)";', msl_names)
            if not cm:
                raise ExtractError(f"msl names: {c} not found")
            vals.append(cm.group(1))
        out.append("/-- struct name of the argument buffer of group i; a group beyond the table makes the generator panic -/\n"
                   "def argumentBufferNames : List String := " + T.lean_list(lean_str(v) for v in vals) + "\n\n")

        # name of the generated entry function per stage (msl generate_pipeline) -- compile.rs has its own copy
        gp_raw = fn_body(msl, "generate_pipeline")
        m = re.search(r'let\s+entry_point_name\s*=\s*', gp_raw)
        if not m:
            raise ExtractError("msl generate_pipeline: entry_point_name not found")
        scrut, arms_text, _ = first_match(gp_raw, None, m.end() - 1)
        if scrut != "stage.stage":
            raise ExtractError(f"entry_point_name scrutinee {scrut!r}")
        emitted = {}
        for pats, guard, result in match_arms(arms_text):
            cm = re.search(r'pub const ' + re.escape(result) + r': &str = "([^"]*)";', msl_names)
            if guard is not None or not cm:
                raise ExtractError(f"entry_point_name arm {pats} => {result!r}")
            for p in pats:
                pm = re.fullmatch(r'ir::ShaderStage::([A-Za-z]+)', p)
                if not pm:
                    raise ExtractError(f"entry_point_name pattern {p!r}")
                emitted[pm.group(1)] = cm.group(1)
        if set(emitted) != {"Vertex", "Task", "Mesh", "Pixel", "Compute"}:
            raise ExtractError(f"entry_point_name covers {sorted(emitted)}")
        out.append("/-- name of the entry function msl generate_pipeline emits for a stage -/\ndef mslEmittedEntryName : Stage → String\n"
                   + "".join(f"  | .{k} => {lean_str(v)}\n" for k, v in sorted(emitted.items())) + "\n")

        # register letters (ast RegisterType Display) and the formatter's register syntax
        disp = impl_fn_body(ast_globals, r'std::fmt::Display\s+for\s+RegisterType', "fmt")
        _, arms_text, _ = first_match(disp, r'^self$')
        letters = {}
        for pats, guard, result in match_arms(arms_text):
            wm = re.fullmatch(r'write!\(f, "([a-z])"\)', result)
            for p in pats:
                pm = re.fullmatch(r'RegisterType::([TUSB])', p)
                if not pm or not wm:
                    raise ExtractError(f"RegisterType Display arm {p!r} => {result!r}")
                letters[pm.group(1)] = wm.group(1)
        if set(letters) != set("TUSB"):
            raise ExtractError(f"RegisterType Display covers {sorted(letters)}")
        out.append("def regLetter : RegT → Char\n" + "".join(f"  | .{k} => '{v}'\n" for k, v in sorted(letters.items())) + "\n")
        fr = normws(fn_body(formatter, "format_register_annotation"))
        reg_shape = re.search(
            r'if let Some\(slot\) = &slot \{ output\.push_str\("( : register\()"\); if let Some\(register_slot\) = &slot\.slot \{ '
            r'write!\(output, "\{\}\{\}", register_slot\.slot_type, register_slot\.index\)\.unwrap\(\) \} '
            r'if slot\.slot\.is_some\(\) && slot\.space\.is_some\(\) \{ output\.push_str\("(, )"\); \} '
            r'if let Some\(space\) = slot\.space \{ write!\(output, "(space)\{space\}"\)\.unwrap\(\); \} output\.push\(\'(\))\'\); \}', fr)
        if not reg_shape:
            raise ExtractError("format_register_annotation no longer has the modelled shape")
        out.append(f"def regOpen : String := {lean_str(reg_shape.group(1))}\ndef regSep : String := {lean_str(reg_shape.group(2))}\n"
                   f"def regSpace : String := {lean_str(reg_shape.group(3))}\ndef regClose : String := {lean_str(reg_shape.group(4))}\n\n")
        fa = normws(fn_body(formatter, "format_attribute"))
        attr_shape = all(re.search(rx, fa) for rx in [
            r"output\.push\('\['\); if attr\.two_square_brackets \{ output\.push\('\['\); \}",
            r'for name in main \{ output\.push_str\(name\); output\.push_str\("::"\); \} output\.push_str\(last\);',
            # since fix "parenthesise comma expressions in default arguments and other lists" the arguments are printed at
            # comma-list precedence (17): only a comma expression gets parentheses
            r"output\.push\('\('\); for expr in main \{ format_subexpression\(expr, 17, OperatorSide::CommaList, output, context\)\?; output\.push_str\(\", \"\); \} format_subexpression\(last, 17, OperatorSide::CommaList, output, context\)\?; output\.push\('\)'\);",
            r"if attr\.two_square_brackets \{ output\.push\('\]'\); \} output\.push\('\]'\);"])
        out.append(f"/-- format_attribute prints `[[a::b(x, y)]]` -/\ndef attributeShapeAsModelled : Bool := {b(attr_shape)}\n\n")
        # the arguments of the binding attributes are `Literal::IntUntyped(u64)` (facts vkBindingNameAndArgs, inlineMemberIsVkOffset,
        # idAttributeIsIndex, bufferAttributeIsGroup): precedence 0 < 17, so format_subexpression prints the bare literal
        fs = normws(fn_body(formatter, "format_subexpression"))
        gp_prec = normws(fn_body(formatter, "get_expression_precedence"))
        catch_all = "ast::Expression::Literal(_) | ast::Expression::Identifier(_) => 0,"
        head = gp_prec[:gp_prec.find(catch_all)] if catch_all in gp_prec else None
        bare_literal = (bool(re.search(r'let prec = get_expression_precedence\(expr\)\?; let requires_paren = match prec\.cmp\(&outer_precedence\) \{ '
                                       r'std::cmp::Ordering::Greater => true, std::cmp::Ordering::Less => false,', fs))
                        and bool(re.search(r"if requires_paren \{ output\.push\('\('\) \} match expr \{ ast::Expression::Literal\(lit\) => format_literal\(lit, output, context\)\?,", fs))
                        # the arms before the catch-all `Literal(_) => 0` (negative signed / float literals) do not name IntUntyped
                        and head is not None and head.startswith("let prec = match expr {") and "IntUntyped" not in head
                        and "Literal(_)" not in head and "_ =>" not in head)
        out.append(f"/-- an untyped integer literal as attribute argument is printed without parentheses (precedence 0 below the\n"
                   f"    comma-list precedence 17 of format_subexpression) -/\ndef attributeArgumentLiteralsBare : Bool := {b(bare_literal)}\n\n")

        # generate_register_annotation / generate_vk_binding_annotation / inline constant buffers (hlsl)
        gr = normws(fn_body(hlsl, "generate_register_annotation"))
        gv = normws(fn_body(hlsl, "generate_vk_binding_annotation"))
        gi = normws(fn_body(hlsl, "generate_inline_constant_buffers"))
        gg = normws(fn_body(hlsl, "generate_global_variable"))
        gc = normws(fn_body(hlsl, "generate_constant_buffer"))
        am = normws(fn_body(ir_module, "assign_api_bindings"))
        hfacts = {
            "registerUsesSlotTypeAndIndex": (gr, r'Ok\(Some\(ast::Register \{ slot: Some\(ast::RegisterSlot \{ slot_type, index \}\), space: if slot\.set != 0 \{ Some\(slot\.set\) \} else \{ None \}, \}\)\)'),
            "registerPanicsWithoutSlotType": (gr, r'None => panic!\("HLSL generator requires register types in api binding metadata"\)'),
            "registerPanicsOnInline": (gr, r'ApiLocation::InlineConstant\(_\) => \{ panic!\('),
            "vkBindingNameAndArgs": (gv, r'Located::none\("vk"\.to_string\(\)\), Located::none\("binding"\.to_string\(\)\), \]\);.*let arguments = if slot\.set != 0 \{ Vec::from\(\[index, set_index\]\) \} else \{ Vec::from\(\[index\]\) \};'),
            "vkBindingAssertsNoSlotType": (gv, r'assert_eq!\(slot\.slot_type, None\);'),
            "vkBindingPanicsOnInline": (gv, r'ApiLocation::InlineConstant\(_\) => \{ panic!\('),
            "globalVkOnlyExtern": (gg, r'let is_extern = decl\.storage_class == ir::GlobalStorage::Extern; if is_extern && context\.module\.flags\.requires_vk_binding \{ append_vk_binding_annotation\(&decl\.api_slot, &mut attributes\)\?; \}'),
            "globalRegisterOnlyExternNonVk": (gg, r'let slot = if is_extern && !context\.module\.flags\.requires_vk_binding \{ generate_register_annotation\(&decl\.api_slot\)\? \} else \{ None \};'),
            "globalInlineInitFromDescriptor": (gg, r'let global_name = ast::ScopedIdentifier::trivial\(&format!\("g_inlineDescriptor\{set\}"\)\);'),
            "cbufferVkIfRequired": (gc, r'let binding_attribute = if context\.module\.flags\.requires_vk_binding \{ generate_vk_binding_annotation\(&decl\.api_binding\)\? \} else \{ None \};'),
            "cbufferRegisterIfNotVk": (gc, r'let register = if !context\.module\.flags\.requires_vk_binding \{ generate_register_annotation\(&decl\.api_binding\)\? \} else \{ None \};'),
            "requiresVkBindingRule": (am, r'self\.flags\.requires_vk_binding = !params\.require_slot_type \|\| params\.support_buffer_address;'),
            "inlineGlobalBecomesStatic": (am, r'assert_eq!\(decl\.storage_class, GlobalStorage::Extern\); decl\.storage_class = GlobalStorage::Static;'),
            "inlineMembersFromGroupBindings": (gi, r'for binding in &bind_group\.bindings \{ if let ApiLocation::InlineConstant\(offset\) = binding\.api_binding \{ assert!\(offset \+ 8 <= buffer\.size_in_bytes\);'),
            "inlineMemberIsVkOffset": (gi, r'ty: ast::Type::trivial\("uint64_t"\),.*Located::none\("vk"\.to_string\(\)\), Located::none\("offset"\.to_string\(\)\), \]\), arguments: Vec::from\(\[Located::none\(ast::Expression::Literal\( ast::Literal::IntUntyped\(offset as u64\), \)\)\]\)'),
            "inlineSizeAsserted": (gi, r'assert_eq!\(buffer\.size_in_bytes, found_size\);'),
            "inlineStructAndGlobalNames": (gi, r'let struct_name = format!\("InlineDescriptor\{\}", buffer\.set\);.*ast::ScopedIdentifier::trivial\(&format!\("g_inlineDescriptor\{\}", buffer\.set\)\)'),
            "inlineGlobalVkBindingAtApiLocation": (gi, r'generate_vk_binding_annotation\(&Some\(ir::ApiBinding \{ set: buffer\.set, location: ApiLocation::Index\(buffer\.api_location\), slot_type: None, \}\)\)\?'),
            "inlineMetadataCopied": (gi, r'bind_group\.inline_constants = Some\(InlineConstantBuffer \{ api_location: buffer\.api_location, size_in_bytes: buffer\.size_in_bytes, \}\);'),
        }
        out.append("/-- syntactic facts about the HLSL annotation generators (regexes over the normalised source) -/\nstructure HlslAnnotFacts where\n"
                   + "".join(f"  {k} : Bool\n" for k in hfacts) + "  deriving DecidableEq, Repr\n\n")
        out.append("def hlslAnnotFacts : HlslAnnotFacts := { " +
                   ", ".join(f"{k} := {b(re.search(rx, text))}" for k, (text, rx) in hfacts.items()) + " }\n\n")

        # build_pipeline: stage records
        bp = normws(fn_body(compile_rs, "build_pipeline"))
        n_tgs = len(re.findall(r'thread_group_size: stage\.thread_group_size,', bp))
        n_stage = len(re.findall(r'stages\.push\(CompiledPipelineStage \{ stage: stage\.stage,', bp))
        out.append(f"/-- both arms of build_pipeline copy stage kind and thread group size from the pipeline definition -/\n"
                   f"def stagesCopyKindAndThreadGroupSize : Bool := {b(n_tgs == 2 and n_stage == 2)}\n")
        n_meta = len(re.findall(r'metadata: exported_source\.pipeline_description,', bp))
        out.append(f"def metadataIsExportersDescription : Bool := {b(n_meta == 2)}\n\n")

        def reserved(text, which):
            m = re.search(r'pub const RESERVED_NAMES: &\[&str\] = &\[', text)
            if not m:
                raise ExtractError(f"{which}: RESERVED_NAMES not found")
            from rustsrc import matching
            i = m.end() - 1
            j = matching(text, i)
            names = re.findall(r'"([^"\\]*)"', text[i:j])
            if not names:
                raise ExtractError(f"{which}: RESERVED_NAMES empty")
            return names

        # free intrinsic functions: they live in the function registry next to the user's functions, so `add_stage`
        # (which looks an entry point up by name among *all* functions) sees them too
        intr = T.src("ir/src/intrinsic_data.rs")
        im = re.search(r'const INTRINSICS: &\[IntrinsicDefinition\] = &\[', intr)
        if not im:
            raise ExtractError("intrinsic_data.rs: INTRINSICS not found")
        from rustsrc import matching
        ii = im.end() - 1
        ij = matching(intr, ii)
        inames = []
        for mm in re.finditer(r'f!\s*\{\s*[A-Za-z0-9_<>]+\s+([A-Za-z_][A-Za-z0-9_]*)\s*\(', intr[ii:ij]):
            if mm.group(1) not in inames:
                inames.append(mm.group(1))
        if len(inames) < 50:
            raise ExtractError(f"intrinsic_data.rs: only {len(inames)} intrinsic function names found")
        reg_all = bool(re.search(r'for id in context\.module\.function_registry\.iter\(\) \{ let name = context\.module\.function_registry\.get_function_name\(id\); '
                                 r'if name == entry_name \{ if func_id\.is_some\(\) \{ return Err\(TyperError::PipelineEntryPointFunctionUnknown\(location\)\); \} func_id = Some\(id\); \} \}',
                                 normws(fn_body(T.src("typer/src/typer/pipelines.rs"), "add_stage"))))
        out.append("/-- names of the free intrinsic functions (ir/src/intrinsic_data.rs INTRINSICS) -/\n"
                   "def intrinsicFunctionNames : List String := " + T.lean_list(lean_str(n) for n in inames) + "\n\n")
        out.append(f"/-- add_stage finds the entry function by name among all functions of the registry and refuses a second match -/\n"
                   f"def entryLookupIsByNameAmongAllFunctions : Bool := {b(reg_all)}\n\n")
        # ---- the pipeline front end (typer/src/typer/pipelines.rs) and the places names come from
        pp = normws(fn_body(T.src("typer/src/typer/pipelines.rs"), "parse_pipeline"))
        ast_ = normws(fn_body(T.src("typer/src/typer/pipelines.rs"), "add_stage"))
        gl = normws(T.src("typer/src/typer/globals.rs"))
        hl_all = normws(hlsl)
        simp_cb = normws(T.src("ir/src/simplify_cbuffers.rs"))
        hl_fn = normws(T.src("hlsl/src/ast_generate.rs"))
        msl_gen = normws(T.src("msl/src/generator.rs"))

        typer_rs = T.src("typer/src/typer.rs")
        tci = normws(fn_body(typer_rs, "type_check_internal"))
        prd = normws(fn_body(typer_rs, "parse_rootdefinition"))
        fn_rs = T.src("typer/src/typer/functions.rs")
        fn_all = normws(fn_rs)
        prf = normws(fn_body(fn_rs, "parse_rootdefinition_function"))
        pf = normws(fn_body(fn_rs, "parse_function"))
        pfb = normws(fn_body(fn_rs, "parse_function_body"))

        def order(text, *needles):
            pos = [text.find(n) for n in needles]
            return all(p >= 0 for p in pos) and pos == sorted(pos)

        stage_arms = all(re.search(r'"%sShader" => add_stage\( &property\.value, ir::ShaderStage::%s, context, &mut pipeline, \)\?,' % (k, k), pp)
                         for k in ["Vertex", "Pixel", "Compute", "Task", "Mesh"])
        ffacts = {
            "stagePropertiesBecomeStagesInSourceOrder": stage_arms and bool(re.search(r'for property in &def\.properties \{ match property\.property\.as_str\(\) \{ "VertexShader"', pp)),
            "checksInModelledOrder": order(pp, "PipelineAlreadyDefined", "PipelinePropertyDuplicate", '"VertexShader" =>', "PipelineNoEntryPoint",
                                           "PipelineInvalidStageCombination", "PipelinePropertyRequiresGraphicsPipeline"),
            "computeStandsAlone": bool(re.search(r'let is_compute = pipeline\.stages\[0\]\.stage == ir::ShaderStage::Compute; if is_compute \{ if pipeline\.stages\.len\(\) != 1 \{ return Err\(TyperError::PipelineInvalidStageCombination\( pipeline\.name\.location, \)\); \} \} else \{ for stage in &pipeline\.stages \{ if stage\.stage == ir::ShaderStage::Compute \{ return Err\(TyperError::PipelineInvalidStageCombination\(', pp)),
            "fourGraphicsOnlyPropertyGroups": len(re.findall(r'if is_compute \{ return Err\(TyperError::PipelinePropertyRequiresGraphicsPipeline\(', pp)) == 4
                                              and not re.search(r'"BlendState" => \{ if is_compute', pp),
            "graphicsStateOnlyForNonCompute": bool(re.search(r'if !is_compute \{ pipeline\.graphics_pipeline_state = Some\(gpo\); \}', pp)),
            "defaultBindGroupProperty": bool(re.search(r'"DefaultBindGroup" => \{ let value = extract_uint32\(&property\.value, context\)\?; pipeline\.default_bind_group_index = value; \}', pp))
                                        and bool(re.search(r'default_bind_group_index: 0,', pp)),
            "entryMustHaveBodyAndBeNoTemplate": bool(re.search(r'let is_template = !context \.module \.function_registry \.get_function_signature\(func_id\) \.template_params \.is_empty\(\); if is_template \{ return Err\(TyperError::PipelineEntryPointFunctionUnknown\(location\)\); \}', ast_))
                                                and bool(re.search(r'\.get_function_implementation\(func_id\) \{ Some\(function_impl\) => function_impl, None => return Err\(TyperError::PipelineEntryPointFunctionUnknown\(location\)\), \};', ast_)),
            "lastNumThreadsAttributeWins": bool(re.search(r'for attribute in &function_impl\.attributes\.clone\(\) \{ if let ir::FunctionAttribute::NumThreads\(x, y, z\) = attribute \{', ast_))
                                           and bool(re.search(r'thread_group_size = Some\(\(x, y, z\)\); \} \} def\.stages\.push\(ir::PipelineStage \{ stage, entry_point: func_id, thread_group_size, \}\);', ast_))
                                           and "break" not in ast_,
            # since fix "a function attribute can be given only once": the second attribute of a kind is refused
            "functionAttributeKindGivenOnce": bool(re.search(
                r'let mut ir_attributes = Vec::<ir::FunctionAttribute>::new\(\); for ast_attribute in ast_attributes \{ let ir_attribute = parse_function_attribute\(ast_attribute, context\)\?; '
                r'if ir_attributes \.iter\(\) \.any\(\|prev\| std::mem::discriminant\(prev\) == std::mem::discriminant\(&ir_attribute\)\) \{ let name = ast_attribute\.name\.last\(\)\.unwrap\(\); '
                r'return Err\(TyperError::FunctionAttributeDuplicate\( name\.node\.clone\(\), name\.location, \)\); \} ir_attributes\.push\(ir_attribute\); \} Ok\(ir_attributes\)$',
                normws(fn_body(T.src("typer/src/typer/functions.rs"), "parse_function_attributes")))),
            # the order of the front end (Model/MetaFront.parseFile): root definitions strictly in source order, the first
            # error returns; a Pipeline block is parsed where it stands (against the registry of that moment)
            "rootDefinitionsInSourceOrderFirstErrorReturns": bool(re.fullmatch(
                r'for def in &ast\.root_definitions \{ let mut def_ir = parse_rootdefinition\(def, context\)\?; context\.module\.root_definitions\.append\(&mut def_ir\); \} '
                r'assert!\(context\.is_at_root\(\)\); Ok\(\(\)\)', tci))
                and bool(re.search(r'ast::RootDefinition::Namespace\(name, contents\) => \{ context\.enter_namespace\(name\)\?; let mut ir_defs = Vec::new\(\); '
                                   r'for ast_def in contents \{ ir_defs\.extend\(parse_rootdefinition\(ast_def, context\)\?\); \}', prd)),
            "pipelineBlockParsedWhereItStands": bool(re.search(r'ast::RootDefinition::Pipeline\(def\) => \{ pipelines::parse_pipeline\(def, context\)\?; Ok\(Vec::new\(\)\) \}', prd))
                and bool(re.search(r'ast::RootDefinition::Function\(fd\) => \{ let def = functions::parse_rootdefinition_function\(fd, context\)\?;', prd))
                and bool(re.match(r'let \(ir_fd, is_declare\) = parse_function\(fd, context\)\?;', prf)),
            # a function is registered when its first declaration / definition is met, before its body is looked at ...
            "functionRegisteredWhereFirstMet": bool(re.match(
                r'let is_definition = fd\.body\.is_some\(\); let \(signature, scope\) = parse_function_signature\(fd, None, context\)\?; '
                r'let id = match context\.check_existing_functions\(&fd\.name, &signature, is_definition\)\? \{ Some\(id\) => \{ id \} None => \{ '
                r'let id = context\.register_function\(fd\.name\.clone\(\), signature\.clone\(\), scope, fd\.clone\(\)\)\?; context\.add_function_to_current_scope\(id\)\?; id \} \}; '
                r'if is_definition \{', pf)),
            # ... its attributes are parsed only where it is defined (never on a forward declaration) ...
            "functionAttributesParsedAtDefinitionOnly": bool(re.search(
                r'\}; if is_definition \{ if signature\.template_params\.is_empty\(\) \{ parse_function_body\(fd, id, signature, context\)\?; \} else \{ '
                r'let attributes = parse_function_attributes\(&fd\.attributes, context\)\?; .*?context\.module\.function_registry\.set_implementation\(id, def\); \}; \} '
                r'Ok\(\(id, !is_definition\)\)$', pf))
                and "attributes" not in pf[:pf.find("if is_definition {")]
                and len(re.findall(r'parse_function_attributes\(', fn_all)) == 3
                and len(re.findall(r'\.attributes\b', fn_all)) == 2,
            # ... and it has an implementation only after attributes and body went through
            "implementationStoredAfterAttributesAndBody": bool(re.search(
                r'let attributes = parse_function_attributes\(&fd\.attributes, context\)\?; let body_ir = parse_statement_list\(fd\.body\.as_ref\(\)\.unwrap\(\), context\)\?; '
                r'let decls = context\.pop_scope_with_locals\(\); let def = ir::FunctionImplementation \{ params: func_params, scope_block: ir::ScopeBlock\(body_ir, decls\), attributes, \}; '
                r'context\.module\.function_registry\.set_implementation\(id, def\); Ok\(\(\)\)$', pfb))
                and len(re.findall(r'set_implementation\(', fn_all)) == 2,
            "staticSamplerWithIndexRefused": bool(re.search(r'if gv_ir\.static_sampler\.is_some\(\) && gv_ir\.lang_slot\.index\.is_some\(\) \{ return Err\(TyperError::StaticSamplerUnexpectedBindingIndex\(', gl)),
            "vkBindingAlwaysSetsTheIndex": len(re.findall(r'result\.binding_index_override = Some\(binding_index\);', gl)) == 2,
            "hlslCbufferNameIsSourceName": bool(re.search(r'fn get_constant_buffer_name\(&self, id: ir::ConstantBufferId\) -> Result<&str, GenerateError> \{ match self\.module\.cbuffer_registry\.get\(id\.0 as usize\) \{ Some\(cd\) => Ok\(cd\.name\.as_str\(\)\),', hl_fn)),
            "hlslGlobalAndFunctionNamesFromNameMap": bool(re.search(r'Ok\(self\.name_map\.get_name_leaf\(NameSymbol::GlobalVariable\(id\)\)\)', hl_fn))
                                                     and bool(re.search(r'fn get_function_name\(&self, id: ir::FunctionId\) -> Result<&str, GenerateError> \{ Ok\(self\.name_map\.get_name_leaf\(NameSymbol::Function\(id\)\)\) \}', hl_fn)),
            "mslCbufferBecomesGlobalAndTypeStruct": bool(re.search(r'name: Located::none\(format!\("\{\}Type", cbuffer\.name\.node\)\), namespace: cbuffer\.namespace,', simp_cb))
                                                    and bool(re.search(r'module\.global_registry\.push\(GlobalVariable \{ name: cbuffer\.name, namespace: cbuffer\.namespace,', simp_cb)),
            "hlslPrintsEveryNumThreadsAttribute": bool(re.search(r'ir::FunctionAttribute::NumThreads\(x, y, z\) => \{ let x = generate_expression\(x, context\)\?; let y = generate_expression\(y, context\)\?; let z = generate_expression\(z, context\)\?; ast::Attribute \{ name: Vec::from\(\[Located::none\("numthreads"\.to_string\(\)\)\]\), arguments: Vec::from\(\[Located::none\(x\), Located::none\(y\), Located::none\(z\)\]\),', hl_fn)),
            "mslPrintsTheProductPerAttributeOnTheEntry": bool(re.search(r'ir::FunctionAttribute::NumThreads\(x, y, z\) => \{ if entry_point \{ .*?ast::BinOp::Multiply, Box::new\(Located::none\(ast::Expression::BinaryOperation\( ast::BinOp::Multiply, Box::new\(Located::none\(x\)\), Box::new\(Located::none\(y\)\), \)\)\), Box::new\(Located::none\(z\)\), \); Some\(ast::Attribute \{ name: Vec::from\(\[Located::none\( "max_total_threads_per_threadgroup"\.to_string\(\), \)\]\),', msl_gen))
                                                         and bool(re.search(r'for attribute in &context \.module \.function_registry \.get_function_implementation\(stage\.entry_point\) \.as_ref\(\) \.unwrap\(\) \.attributes \{ if let Some\(attr\) = super::generate_function_attribute\(attribute, true, context\)\? \{ attributes\.push\(attr\); \} \}', gp)),
            "nameMapsBuiltFromReservedNames": bool(re.search(r'NameMap::build\(module, RESERVED_NAMES, true\)', hl_fn)) and bool(re.search(r'NameMap::build\(module, RESERVED_NAMES, false\)', msl_gen)),
        }
        out.append("/-- syntactic facts about parse_pipeline / add_stage and about where reported names come from -/\nstructure FrontFacts where\n"
                   + "".join(f"  {k} : Bool\n" for k in ffacts) + "  deriving DecidableEq, Repr\n\n")
        out.append("def frontFacts : FrontFacts := { " + ", ".join(f"{k} := {b(v)}" for k, v in ffacts.items()) + " }\n\n")
        def count_ok(pl, lit, want):
            cv = lit["descriptor_count"]
            return cv in pl.count and pl.count[cv] == want

        tyreg = normws(fn_body(ir_types, "register_type"))
        gt = normws(fn_body(T.src("typer/src/typer/globals.rs"), "parse_globaltype"))
        td = normws(fn_body(T.src("typer/src/typer/types.rs"), "parse_rootdefinition_typedef"))
        dc = normws(fn_body(T.src("typer/src/typer/declarations.rs"), "parse_declarator"))
        mk = normws(fn_body(ir_types, "make_const"))
        pfacts = {
            # descriptor_count: the array length (as u32) when an array layer was taken, Some(1) otherwise
            "hlslCountIsLenOrOne": count_ok(hpl, gl_lit := hl[1], ("len as u32", "Some(1)")),
            "mslCountIsLenOrOne": count_ok(mpl, ml[0], ("len as u32", "Some(1)")),
            # the allocator: array_len = Some(len) / None, array_count = array_len.unwrap_or(1) as u32
            "allocLenIsLenOrNone": apl.count.get("array_len") == ("Some(lenValue)", "None")
                                   and bool(re.search(r'let array_count = array_len\.unwrap_or\(1\) as u32;', normws(pd))),
            "allocBufferAddressTestOnDeclaredType": bool(re.search(r'if params\.support_buffer_address && module\.type_registry\.is_buffer_address\(decl\.type_id\)', normws(pd))),
            # TypeRegistry::register_type refuses a modifier layer directly around a modifier layer
            "modifierNeverWrapsModifier": bool(re.search(r'TypeLayer::Modifier\(modifier, inner\) => \{ assert!\(!self\.get_type_layer\(inner\)\.is_modifier\(\)\);', tyreg)),
            # every extern global is implicitly const: the outermost layer of its base type is a modifier
            "externGlobalsAreConst": bool(re.search(r'if global_storage == ir::GlobalStorage::Extern \{ ty = context\.module\.type_registry\.make_const\(ty\); \}', gt))
                                     and bool(re.fullmatch(r'let \(base, mut modifier\) = self\.extract_modifier\(id\); if modifier\.is_const \{ id \} else \{ modifier\.is_const = true; self\.register_type\(TypeLayer::Modifier\(modifier, base\)\) \}', mk)),
            # a typedef names the type id its declarator builds over the parsed source type: array layers of a typedef sit
            # *inside* whatever a later use wraps around the name
            "typedefNamesTheDeclaredTypeId": bool(re.search(r'let base_type = parse_type\(&td\.source, context\)\?; .*let \(type_id, scoped_name\) = parse_declarator\(&td\.declarator, base_type, None, false, context\)\?;.*context\.register_typedef\(name, type_id\)\?;', td)),
            "declaratorWrapsArrayLayersOutside": bool(re.search(r'current_type = context \.module \.type_registry \.register_type\(ir::TypeLayer::Array\(current_type, constant_dim\)\);', dc)),
        }
        out.append("/-- facts around the type peel (what the count is, what the typer can build) -/\nstructure PeelFacts where\n"
                   + "".join(f"  {k} : Bool\n" for k in pfacts) + "  deriving DecidableEq, Repr\n\n")
        out.append("def peelFacts : PeelFacts := { " + ", ".join(f"{k} := {b(v)}" for k, v in pfacts.items()) + " }\n\n")
        out.append("def hlslReserved : List String := " + T.lean_list(lean_str(n) for n in reserved(hlsl_names, "hlsl")) + "\n\n")
        out.append("def mslReserved : List String := " + T.lean_list(lean_str(n) for n in reserved(msl_names, "msl")) + "\n")
        out.append(T.footer("MetaTables"))
        return "".join(out)

import RsslVerif.Driver.C02Dup
import RsslVerif.Model.MslCall
/-!
Line-protocol front end of the model of `generate_user_call`'s argument list (`Model.MslCall`).

`C02.call <source> <entry> ;; <entry> …` with `<entry> = <leaf name> <CallType> <operands> <d|n per parameter, or -> <globals>`
(forms of `harness/src/c02/callargs.rs`): every call of a user function in the bodies of the module.  The answer is
`calls <leaf>:<number of arguments> …`, sorted — per call the length of `Model.MslCall.emittedArgsOf` (through
`emittedArgCount`), which follows the re-extracted table `Gen.MslCallTables.userCallArms`; `panic` if the model meets the
slice panic.  Everything else goes to `Driver.C02Dup.handle`.
-/
namespace RsslVerif.Driver.C02Call
open RsslVerif.Model.MslCall

def parseEntry? (it : String) : Option (String × Except String Nat) :=
  match it.splitOn " " with
  | [leaf, ct, n, flags, g] =>
    match n.toNat?, g.toNat? with
    | some nexprs, some nglobals =>
      let fl := if flags == "-" then [] else flags.toList
      if fl.all (fun c => c == 'd' || c == 'n') then
        some (leaf, emittedArgCount ct nexprs (fl.map (· == 'd')) nglobals)
      else none
    | _, _ => none
  | _ => none

def handleCall (entries : String) : String :=
  let items := if entries == "-" then [] else entries.splitOn " ;; "
  let parsed := items.map parseEntry?
  if parsed.any (·.isNone) then "bad-request" else
  let es := parsed.filterMap id
  if es.any (fun e => match e.2 with | .error _ => true | .ok _ => false) then "panic" else
  let shown := es.foldl (fun acc e => match e.2 with
    | .ok k => C02Dup.insertSortedS (e.1 ++ ":" ++ toString k) acc
    | .error _ => acc) []
  "calls " ++ " ".intercalate shown

def handle (op : String) (args : List String) : String :=
  if op == "C02.call" then
    match args with
    | [_, entries] => if entries == "-" then "skip" else handleCall entries
    | _ => "bad-request"
  else C02Dup.handle op args

end RsslVerif.Driver.C02Call

import RsslVerif.Model.Fixpoint
import RsslVerif.Model.GenHlsl
import RsslVerif.Model.Format
/-!
# `Model.FixpointBridge` — between the C01 IR (`Model.Ir`, scalar subset, constants with values) and the C03
# elaborated-expression type (`IrTyping.IExpr`, all types, constants by kind)

Two translations, both total functions into `Option`:

* `erase` : `Ir.Expr → IExpr` forgets the payload of constants and resolves variable / function ids to the positions
  the C03 environment uses (`Idx`).  It does **not** mirror code: it is the abstraction map between the two models of
  the same `ir::Expression` (C01's keeps values and is restricted to scalars, C03's keeps types and is restricted to
  typing).  `eraseTy` / `constScalar` translate the two spellings of `ir::ScalarType`.
* `readBack` : `HlslAst.Expr → SExpr` is the front end reading the exporter's syntax tree: `parse_literal` on the
  suffix kind of a literal (`Fixpoint.rereadTable`), name lookup of identifiers and called functions, the operator
  enumerations matched by name, the type name of a cast.  It mirrors what `parse_expr_internal` does with each
  `ast::Expression` node before any typing decision.

`Thm.C04.bridge_square` proves that they commute with the exporter: `readBack (genExpr e)` is one of the trees
`Unelab (erase e)` describes — so `Model.GenHlsl` (tied to the code by C01) and `Fixpoint.Unelab` (used by
`reelab_no_new_casts`) are the same exporter.

`reelabPos` is the model's prediction of one expression position of the second generation (driver op `C04.reelab`).
-/
namespace RsslVerif.Model.FixpointBridge
open RsslVerif.Gen.RankTable RsslVerif.Gen.TypingTables
open RsslVerif.Model.Conv RsslVerif.Model.Overload RsslVerif.Model.IrTyping RsslVerif.Model.Elab RsslVerif.Model.Fixpoint
open RsslVerif.Model

/-- `ir::ScalarType` in the spelling of `Model.Ir` ↦ in the spelling of `Gen.RankTable` (`void` has no scalar) -/
def scalarOf : Ir.Ty → Option Scalar
  | .bool => some .bool | .int => some .int32 | .uint => some .uInt32 | .float => some .float32
  | .lit => some .intLiteral | .flit => some .floatLiteral | .void => none

/-- the structural type of the C03 model for a type of the C01 subset; `void` is an opaque non-numeric layer -/
def eraseTy (t : Ir.Ty) : Ty :=
  match scalarOf t with
  | some k => scalarTy k
  | none => ⟨{}, .other 0⟩

/-- the scalar kind of a constant -/
def constScalar : Ir.Const → Scalar
  | .bool _ => .bool | .intLit _ => .intLiteral | .int32 _ => .int32 | .uint32 _ => .uInt32
  | .float32 _ => .float32 | .floatLit _ => .floatLiteral

/-- the operator enumeration of `Gen.HlslGenTables` ↦ that of `Gen.TypingTables` (same Rust enum, matched by name) -/
def iopOf (o : RsslVerif.Gen.HlslGenTables.IntrinsicOp) : Option IOp := IOp.ofName? o.name

/-- positions of variables and functions in the C03 environment -/
structure Idx where
  var : Ir.Var → Option Nat
  func : Nat → Option Nat

mutual
def erase (ix : Idx) : Ir.Expr → Option IExpr
  | .lit c => some (.lit (constScalar c))
  | .var id => (ix.var (.loc id)).map .var
  | .global id => (ix.var (.glob id)).map .var
  | .op o args =>
    match iopOf o, eraseArgs ix args with
    | some i, some as => some (.op i as)
    | _, _ => none
  | .tern c t f =>
    match erase ix c, erase ix t, erase ix f with
    | some c', some t', some f' => some (.tern c' t' f')
    | _, _, _ => none
  | .seq es =>
    -- the type checker only builds two-element sequences (`a, b, c` is `(a, b), c`)
    match es with
    | .cons a (.cons b .nil) =>
      match erase ix a, erase ix b with
      | some a', some b' => some (.seq a' b')
      | _, _ => none
    | _ => none
  | .cast ty e => (erase ix e).map (.cast (eraseTy ty))
  | .call f args =>
    match ix.func f, eraseArgs ix args with
    | some j, some as => some (.call j as)
    | _, _ => none
  | .intr _ _ _ _ => none
def eraseArgs (ix : Idx) : Ir.Exprs → Option IArgs
  | .nil => some .nil
  | .cons e r =>
    match erase ix e, eraseArgs ix r with
    | some e', some r' => some (.cons e' r')
    | _, _ => none
end

/-! ## the front end reading the exporter's tree -/

/-- name lookup in the exported program: identifier ↦ position of the variable, function name ↦ position of the function -/
structure Names where
  res : String → Option Nat
  fres : String → Option Nat

/-- suffix kind of an `ast::Literal` of the subset -/
def litKindOf : HlslAst.Lit → RsslVerif.Gen.HlslGenTables.LitKind
  | .bool _ => .Bool | .intUntyped _ => .IntUntyped | .intUnsigned32 _ => .IntUnsigned32
  | .float32 _ => .Float32 | .floatUntyped _ => .FloatUntyped

/-- the type a printed scalar type name denotes: inverse of `generate_scalar_type` through the re-extracted table
    (`void` is the opaque non-numeric layer of `eraseTy`) -/
def tyOfName (n : String) : Option Ty :=
  if n = "void" then some ⟨{}, .other 0⟩ else
  match RsslVerif.Gen.HlslGenTables.scalarTypeName.find? (fun p => p.2 == some n) with
  | some (k, _) => (Scalar.ofName? k).map scalarTy
  | none => none

mutual
/-- what `parse_expr_internal` sees of each `ast::Expression` node before any typing decision -/
def readBack (nm : Names) : HlslAst.Expr → Option SExpr
  | .lit l => (rereadTable (litKindOf l)).map .lit
  | .ident s => (nm.res s).map .var
  | .un op e =>
    match UnOp.ofName? op.name, readBack nm e with
    | some u, some e' => some (.un u e')
    | _, _ => none
  | .bin op a b =>
    match BinOp.ofName? op.name, readBack nm a, readBack nm b with
    | some o, some a', some b' => some (.bin o a' b')
    | _, _, _ => none
  | .tern c t f =>
    match readBack nm c, readBack nm t, readBack nm f with
    | some c', some t', some f' => some (.tern c' t' f')
    | _, _, _ => none
  | .cast ty e =>
    match tyOfName ty, readBack nm e with
    | some t, some e' => some (.cast t e')
    | _, _ => none
  | .call f args =>
    match nm.fres f, readBackArgs nm args with
    | some j, some as => some (.call j as)
    | _, _ => none
def readBackArgs (nm : Names) : HlslAst.Exprs → Option SArgs
  | .nil => some .nil
  | .cons e r =>
    match readBack nm e, readBackArgs nm r with
    | some e', some r' => some (.cons e' r')
    | _, _ => none
end

/-- the exporter's names (`GenHlsl.Ctx`), the positions (`Idx`) and the lookup of the exported program (`Names`)
    fit together: an emitted name is looked up to the entity it was emitted for (name hygiene: property C15), and in
    the exported environment `Γ'` function `j` is the only function of its name, which we take to be `j`
    (`Fixpoint.uniqueNames`) -/
structure NamesAgree (cx : GenHlsl.Ctx) (ix : Idx) (nm : Names) (Γ' : Env) : Prop where
  loc : ∀ id j, ix.var (.loc id) = some j → nm.res (cx.locName id) = some j
  glob : ∀ id j, ix.var (.glob id) = some j → nm.res (cx.globName id) = some j
  func : ∀ f j, ix.func f = some j → nm.fres (cx.funcName f) = some j ∧ ∃ sg, Γ'.funcs[j]? = some sg ∧ sg.name = j

/-! ## constants, and the exporter's tree as the printer's tree -/

mutual
/-- the constants of an expression, left to right (what `erase` forgets) -/
def leaves : Ir.Expr → List Ir.Const
  | .lit c => [c]
  | .var _ => []
  | .global _ => []
  | .op _ args => leavesArgs args
  | .tern c t f => leaves c ++ (leaves t ++ leaves f)
  | .seq es => leavesArgs es
  | .cast _ e => leaves e
  | .call _ args => leavesArgs args
  | .intr _ _ _ args => leavesArgs args
def leavesArgs : Ir.Exprs → List Ir.Const
  | .nil => []
  | .cons e r => leaves e ++ leavesArgs r
end

/-- positions determine the entity (distinct variables / functions have distinct positions) -/
structure IdxInj (ix : Idx) : Prop where
  var : ∀ v w j, ix.var v = some j → ix.var w = some j → v = w
  func : ∀ f g j, ix.func f = some j → ix.func g = some j → f = g

/-- an `ast::Literal` of the subset as the literal value of the C09 printer model (sign bit apart) -/
def toFmtLit : HlslAst.Lit → RsslVerif.Gen.ParseTables.Lit
  | .bool b => ⟨.Bool, false, if b then 1 else 0⟩
  | .intUntyped n => ⟨.IntUntyped, false, n⟩
  | .intUnsigned32 n => ⟨.IntUnsigned32, false, n⟩
  | .float32 b => ⟨.Float32, b.msb, b.toNat % 2 ^ 31⟩
  | .floatUntyped b => ⟨.FloatUntyped, b.msb, b.toNat % 2 ^ 63⟩

mutual
/-- the exporter's tree as a tree of the C09 printer / parser model (`Model.Format.Expr`); `none` = a cast, which
    that model does not have -/
def toFmt : HlslAst.Expr → Option Format.Expr
  | .lit l => some (.lit (toFmtLit l))
  | .ident s => some (.id s)
  | .un op e =>
    match RsslVerif.Gen.FmtTables.UnOp.ofName? op.name, toFmt e with
    | some u, some e' => some (.un u e')
    | _, _ => none
  | .bin op a b =>
    match RsslVerif.Gen.FmtTables.BinOp.ofName? op.name, toFmt a, toFmt b with
    | some o, some a', some b' => some (.bin o a' b')
    | _, _, _ => none
  | .tern c t f =>
    match toFmt c, toFmt t, toFmt f with
    | some c', some t', some f' => some (.tern c' t' f')
    | _, _, _ => none
  | .cast _ _ => none
  | .call f args => (toFmtArgs args).map (.call (.id f))
def toFmtArgs : HlslAst.Exprs → Option Format.Args
  | .nil => some .nil
  | .cons e r =>
    match toFmt e, toFmtArgs r with
    | some e', some r' => some (.cons e' r')
    | _, _ => none
end

/-! ## the value of a constant through export and re-reading -/

/-- `parse_literal` with payloads: `IntUntyped(i) ↦ IntLiteral(i as i128)`, `IntUnsigned32(i) ↦ UInt32(i as u32)`,
    floats and booleans unchanged (`Gen.FixpointTables.parseLiteralTable`, `Thm.C04.reread_payloads_as_modelled`) -/
def rereadConst : HlslAst.Lit → Ir.Const
  | .bool b => .bool b
  | .intUntyped n => .intLit n
  | .intUnsigned32 n => .uint32 (BitVec.ofNat 32 n)
  | .float32 b => .float32 b
  | .floatUntyped b => .floatLit b

/-- constant evaluation of `-literal` for the kinds a printed negative constant can have (`evaluate_constexpr`,
    `Minus`: integers negate exactly in `i128`, floats flip the sign bit) -/
def negConst : Ir.Const → Option Ir.Const
  | .intLit v => some (.intLit (-v))
  | .float32 b => some (.float32 (b ^^^ 0x80000000#32))
  | .floatLit b => some (.floatLit (b ^^^ 0x8000000000000000#64))
  | _ => none

/-- the literal shortcut of `ImplicitConversion::apply` with its payload, for the one re-tagging that happens to
    re-read constants: `IntLiteral(v) ↦ Int32(v as i32)`; every other printed kind is read back as its own kind -/
def retagTo (k : Scalar) (c : Ir.Const) : Option Ir.Const :=
  match k, c with
  | .int32, .intLit v => some (.int32 (BitVec.ofInt 32 v))
  | _, _ => if constScalar c = k then some c else none

/-- a constant exported (`generate_literal`), read back (`parse_literal`), its sign folded in again, and given back
    the kind the skeleton has at that leaf -/
def leafBack (c : Ir.Const) : Option Ir.Const :=
  match GenHlsl.genLiteral c with
  | .ok (.lit l) => retagTo (constScalar c) (rereadConst l)
  | .ok (.un .Minus (.lit l)) => (negConst (rereadConst l)).bind (retagTo (constScalar c))
  | _ => none

/-! ## statements with an expression (the three forms of the C03 statement model) -/

/-- C03 counterpart of an expression statement, `return e` / `return`, or a definition with an initialiser -/
def eraseStmt (ix : Idx) (vty : Ir.Var → Ir.Ty) : Ir.Stmt → Option IStmt
  | .expr e => (erase ix e).map .expr
  | .ret none => some (.ret none)
  | .ret (some e) => (erase ix e).map fun i => .ret (some i)
  | .var id (some e) => (erase ix e).map (.init (eraseTy (vty (.loc id))))
  | _ => none

/-- the front end reading the exported statement (`generate_statement` output) -/
def readBackStmt (nm : Names) : HlslAst.Stmt → Option SStmt
  | .expr a => (readBack nm a).map .expr
  | .ret none => some (.ret none)
  | .ret (some a) => (readBack nm a).map fun s => .ret (some s)
  | .var tn _ (some a) =>
    match tyOfName tn, readBack nm a with
    | some t, some s => some (.init t s)
    | _, _ => none
  | _ => none

/-- the second-generation elaboration of one expression position: the exported tree is read back, elaborated by
    `parse_expr` and converted to the type the position requires (`ctx`: the variable's type for an initialiser, the
    return type for `return`; conditions and expression statements are not converted) -/
def reelabPos (Γ' : Env) (ctx : Option ETy) (i1 : IExpr) : Except String IExpr :=
  match unelab Γ' i1 with
  | none => .error "not-exported"
  | some s' =>
    match elabTop true Γ' s' with
    | .error (.reject k) => .error ("reject " ++ k)
    | .error (.panic k) => .error ("panic " ++ k)
    | .error (.unsupported k) => .error ("unsupported " ++ k)
    | .ok (i, τ) =>
      match ctx with
      | none => .ok i
      | some D =>
        match convert i τ D with
        | .ok (some (i2, _)) => .ok i2
        | .ok none => .error "reject no-conversion"
        | .error (.panic k) => .error ("panic " ++ k)
        | .error _ => .error "error"

end RsslVerif.Model.FixpointBridge

import RsslVerif.Lemmas.ConstEvalNoPanic
/-!
# C13 — compile-time constant evaluation matches run-time semantics

Theorems about `Model.ConstEval.eval` — the model of `evaluate_constexpr` / `evaluate_operator` /
`evaluate_cast` (typer/src/evaluator.rs) whose per-arm arithmetic is read from `Gen.EvalTable`, regenerated
from the Rust source on every run — against `Spec.HlslConst.eval`, the value HLSL defines.

All statements quantify over *every* expression tree (no depth bound) and every operand value.
`wfE e` ("well-formed") only says that the constants occurring in `e` fit their Rust types, enum constants
are not nested, and operator nodes have the number of operands their arm of `evaluate_operator` reads.
-/
namespace RsslVerif.Thm.C13
open RsslVerif.Gen.EvalTable RsslVerif.Model.ConstEval RsslVerif.Lemmas.ConstEval
open RsslVerif.Spec.HlslConst (fitsLit litArith)

/-- **Agreement.**  Whenever the evaluator returns a value for a well-formed expression, it is the value the
    specification defines (exact for literals, 32-bit two's complement for `int`/`uint`, shift counts
    masked to five bits, C comparisons/logic, HLSL conversions), and the value is again in range.
    Proved by mutual induction over expressions and operand lists. -/
theorem consteval_agrees (e : Expr) (hwf : wfE e = true) (v : Constant) (h : eval e = .ok v) :
    RsslVerif.Spec.HlslConst.eval e = some v ∧ wf v = true :=
  eval_agrees e hwf v h

/-- non-vacuity: a depth-3 tree mixing a cast, wrap-around and a masked shift evaluates to a value -/
example : eval (.op .LeftShift (.cons (.op .Subtract (.cons (.lit (.uint32 0)) (.cons (.lit (.uint32 1)) .nil)))
            (.cons (.cast (.scalar .UInt32) (.lit (.intLit 33))) .nil))) = .ok (.uint32 4294967294) := by decide

example : wfE (.op .LeftShift (.cons (.op .Subtract (.cons (.lit (.uint32 0)) (.cons (.lit (.uint32 1)) .nil)))
            (.cons (.cast (.scalar .UInt32) (.lit (.intLit 33))) .nil))) = true := by decide

/-- **No panic.**  Evaluation of a well-formed expression whose operator nodes have admissible operand kinds
    (`kindsOk`: enum operands are not mixed with operands of another type, `~` is applied to an integer —
    what the type checker guarantees) never hits a `panic!`, `assert!`, `unreachable!`, slice index or
    arithmetic overflow check of the modelled functions: not on overflow, not on out-of-range shifts, not on
    `INT_MIN / -1`.  The proof uses the generated table only through `tableSafe_ok` / `castTableSafe_ok`. -/
theorem consteval_no_panic (e : Expr) (hwf : wfE e = true) (hk : kindsOk e = true) (msg : String) :
    eval e ≠ .error (.panic msg) :=
  eval_noPanic e hwf hk msg

/-- tie to the source: every arm of the regenerated operator and cast tables that non-enum operands can
    reach computes with `wrapping_*`, `checked_*`→`Err`, zero-guarded or overflow-free operations -/
theorem tables_panic_free : tableSafe = true ∧ castTableSafe = true := ⟨tableSafe_ok, castTableSafe_ok⟩

/-- non-vacuity: `INT_MIN / -1`, `0u - 1u`, `1 << 32` and `-INT_MIN` satisfy the hypotheses ... -/
example : wfE (.op .Divide (.cons (.lit (.int32 (-2147483648))) (.cons (.lit (.int32 (-1))) .nil))) = true
    ∧ kindsOk (.op .Divide (.cons (.lit (.int32 (-2147483648))) (.cons (.lit (.int32 (-1))) .nil))) = true
    ∧ eval (.op .Divide (.cons (.lit (.int32 (-2147483648))) (.cons (.lit (.int32 (-1))) .nil)))
        = .ok (.int32 (-2147483648)) := by decide

/-- ... and the operand-kind hypothesis is needed: `~true` reaches the `panic!` of the `BitwiseNot` arm -/
example : eval (.op .BitwiseNot (.cons (.lit (.bool true)) .nil)) = .error (.panic "unexpected type in BitwiseNot") := by
  decide

/-- Division or modulus by a zero constant is reported as *not constant*: whatever the dividend (any
    kind, any value), `evaluate_operator` returns `Err(())` — no value and no panic. -/
theorem div_mod_zero_not_constant (o : Op) (ho : o = .Divide ∨ o = .Modulus) (a b : Constant)
    (hz : b = .intLit 0 ∨ b = .int32 0 ∨ b = .uint32 0) :
    applyOp o [a, b] = .error .notConst := by
  rcases ho with rfl | rfl <;> rcases hz with rfl | rfl | rfl <;> cases a <;> simp [c13]

/-- ... and so is every expression `x / z`, `x % z` whose right operand evaluates to an integer zero (also
    a zero of an enum type): it never evaluates to a value. -/
theorem div_mod_zero_not_constant_expr (o : Op) (ho : o = .Divide ∨ o = .Modulus) (ea eb : Expr) (b : Constant)
    (hb : eval eb = .ok b)
    (hz : S.strip b = .intLit 0 ∨ S.strip b = .int32 0 ∨ S.strip b = .uint32 0) (r : Constant) :
    eval (.op o (.cons ea (.cons eb .nil))) ≠ .ok r := by
  intro h
  simp only [eval] at h
  cases ha : evalArgs (.cons ea (.cons eb .nil)) ⟨[], none⟩ with
  | error err => simp [ha] at h
  | ok acc =>
    simp only [ha] at h
    obtain ⟨hvals, hlen⟩ := evalArgs_prefix _ _ _ ha
    cases hea : eval ea with
    | error err => simp [prefixVals, hea, argsLen] at hlen
    | ok a =>
      simp [prefixVals, hea, hb] at hvals
      unfold finishOp at h
      simp [hvals, div_mod_zero_not_constant o ho (S.strip a) (S.strip b) hz] at h

/-- **Literal arithmetic is exact or not constant, never wrong**: if `+ - * / % << >>` on two untyped
    literals returns a value, that value is the exact mathematical result (quotient truncated toward zero,
    remainder with the sign of the dividend, `x·2^n`, `⌊x / 2^n⌋`) and it fits the literal representation. -/
theorem literal_exact (o : Op)
    (ho : o = .Add ∨ o = .Subtract ∨ o = .Multiply ∨ o = .Divide ∨ o = .Modulus ∨ o = .LeftShift ∨ o = .RightShift)
    (x y : Int) (hx : fitsLit x = true) (hy : fitsLit y = true) (r : Constant)
    (h : applyOp o [.intLit x, .intLit y] = .ok r) :
    ∃ z, litArith o x y = some z ∧ r = .intLit z ∧ fitsLit z = true := by
  have hx' : plain (.intLit x) = true := by simpa [c13] using hx
  have hy' : plain (.intLit y) = true := by simpa [c13] using hy
  have hn : arityOk o 2 = true := by rcases ho with rfl | rfl | rfl | rfl | rfl | rfl | rfl <;> decide
  have hb := (binop_agrees o hn hx' hy' h).1
  rcases ho with rfl | rfl | rfl | rfl | rfl | rfl | rfl <;>
    simp only [S.binop, S.relOf] at hb <;>
    (cases hl : litArith _ x y with
     | none => simp [hl, S.bitArith] at hb
     | some z =>
       simp only [hl, RsslVerif.Spec.HlslConst.lit?] at hb
       by_cases hf : fitsLit z = true
       · simp [hf] at hb; exact ⟨z, rfl, hb.symm, hf⟩
       · simp [hf] at hb)

/-- unary minus on a literal: exact or not constant -/
theorem literal_neg_exact (x : Int) (hx : fitsLit x = true) (r : Constant)
    (h : applyOp .Minus [.intLit x] = .ok r) : r = .intLit (-x) ∧ fitsLit (-x) = true := by
  have hx' : plain (.intLit x) = true := by simpa [c13] using hx
  have hb := (unop_agrees .Minus (by decide) hx' h).1
  simp [S.unop, RsslVerif.Spec.HlslConst.lit?] at hb
  exact ⟨hb.2.symm, hb.1⟩

/-- non-vacuity of `literal_exact`: `2^63 * 2^63` is evaluated exactly; `2^64 * 2^64` is refused -/
example : applyOp .Multiply [.intLit (2 ^ 63), .intLit (2 ^ 63)] = .ok (.intLit (2 ^ 126)) := by decide
example : applyOp .Multiply [.intLit (2 ^ 64), .intLit (2 ^ 64)] = .error .notConst := by decide

end RsslVerif.Thm.C13

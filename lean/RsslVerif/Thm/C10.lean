import RsslVerif.Lemmas.LexerStream
import RsslVerif.Lemmas.LexerInt
import RsslVerif.Lemmas.LexerFloat
import RsslVerif.Lemmas.Dec2Bin
import RsslVerif.Lemmas.Dec2BinNearest
import RsslVerif.Lemmas.Dec2BinCutoff
import RsslVerif.Lemmas.Dec2BinMono
import RsslVerif.Lemmas.LitFormatEmit
import RsslVerif.Lemmas.LexerFiles
import RsslVerif.Lemmas.LexNumeral
import RsslVerif.Lemmas.LexNumeralInt
import RsslVerif.Gen.LitFormatTables
/-!
# C10 — lexing is lossless and numeric literals are exact

Statements are about the executable model `Model/Lexer.lean` of `preprocess/src/lexer.rs` (tied to the
source by `Gen.LexTables` and the correspondence run) and the exact rounding reference `Spec/Dec2Bin.lean`.
All quantifiers are unbounded: every byte string, every flag combination.
-/
namespace RsslVerif.Thm.C10
open RsslVerif.Model.Lexer RsslVerif.Spec.Lexer RsslVerif.Gen.LexTables RsslVerif.Spec

/-! ## Part 1 — the token spans tile the file -/

/-- **Progress**: every token `token_intermediate` produces consumes at least one byte and leaves a suffix
of its input (the `debug_assert!(self.current_offset < next_location)` of `TokenStream::next` can never
fire; lexing cannot loop). -/
theorem token_progress {inp rest : Bytes} {inc : Bool} {tok : Token}
    (h : tokenIntermediate inp inc = .ok (rest, tok)) : ∃ pre, pre ≠ [] ∧ inp = pre ++ rest := by
  have hg := tokenIntermediate_good inp inc
  have hs := tokenIntermediate_strict inp inc
  rw [h] at hg hs
  obtain ⟨pre, hp⟩ := hg
  refine ⟨pre, ?_, hp.symm⟩
  intro hnil
  subst hnil
  simp only [Strict] at hs
  simp at hp
  subst hp
  omega

/-- A lexing error of `token_intermediate` points into its input (or is the `&[]` of `end_of_stream()`). -/
theorem token_error_in_input {inp r : Bytes} {inc : Bool} {k : Reason}
    (h : tokenIntermediate inp inc = .error (.lex (.rest r) k)) : r <:+ inp := by
  have hg := tokenIntermediate_good inp inc
  rw [h] at hg
  exact hg

/-- None of the `debug_assert_eq!(input.len(), rest.len())` sites of `choose` / `token_intermediate` is
reachable. -/
theorem token_no_panic (inp : Bytes) (inc : Bool) (site : String) :
    tokenIntermediate inp inc ≠ .error (.panic site) := by
  intro h
  have hg := tokenIntermediate_good inp inc
  rw [h] at hg
  exact hg

theorem readAll_post (s : Bytes) (trailing debug inc : Bool) :
    LoopPost s debug 0 (readAll s trailing debug inc) :=
  readLoop_spec inc (s.length + 2) (Stream.new s trailing debug) [] 0 (Nat.zero_le _) rfl
    (fun _ h => absurd h (List.not_mem_nil))

/-- **spans_tile**: the tokens of a successful `read_to_end` partition `[0, |s|)` — contiguous, in order,
covering every byte; the only empty token is the synthetic `Endline` at the very end. -/
theorem spans_tile {s : Bytes} {trailing debug : Bool} {ts : List PTok}
    (h : readToEnd s trailing debug = .ok ts) : Tiles s ts := by
  unfold readToEnd at h
  have hp := readAll_post s trailing debug false
  split at h
  · rename_i ts' hr
    simp at h; subst h
    rw [hr] at hp
    exact ⟨hp.2, hp.1⟩
  · cases h

/-- **Losslessness**: concatenating the slices of the file named by the token spans reproduces the file. -/
theorem reemit_reproduces_input {s : Bytes} {trailing debug : Bool} {ts : List PTok}
    (h : readToEnd s trailing debug = .ok ts) : reemit s ts = s := by
  have := reemit_chain s (spans_tile h).chain (Nat.le_refl _)
  simpa using this

/-- **error_pos_in_range**: every diagnostic of the lexer is positioned inside the file
(`0 ≤ offset ≤ |s|`; `|s|` is the end-of-file slot every file owns in `SourceManager`). -/
theorem error_pos_in_range {s : Bytes} {trailing debug : Bool} {k : Reason} {off : Nat}
    (h : readToEnd s trailing debug = .error (.lexer k off)) : off ≤ s.length := by
  unfold readToEnd at h
  have hp := readAll_post s trailing debug false
  split at h
  · cases h
  · rename_i ts' e hr
    simp at h; subst h
    rw [hr] at hp
    obtain ⟨p, _, _, h3⟩ := hp.2
    exact h3

/-- The tokens read before a diagnostic tile the file up to a point not after the diagnostic. -/
theorem tokens_before_error_tile {s : Bytes} {trailing debug inc : Bool} {k : Reason} {off : Nat}
    (h : (readAll s trailing debug inc).2 = .error (.lexer k off)) :
    ∃ p, Chain 0 (readAll s trailing debug inc).1 p ∧ p ≤ off ∧ off ≤ s.length := by
  have hp := (readAll_post s trailing debug inc).2
  rw [h] at hp
  exact hp

/-- **Termination**: `read_to_end` needs at most `|s| + 2` iterations (the model's fuel never runs out). -/
theorem lexing_terminates (s : Bytes) (trailing debug : Bool) :
    readToEnd s trailing debug ≠ .error .outOfFuel := by
  unfold readToEnd
  have hf := readLoop_fuel false (s.length + 2) (Stream.new s trailing debug) [] (Nat.zero_le _)
    (.inl (by simp [Stream.new]))
  split
  · simp
  · rename_i ts e hr
    unfold readAll at hr
    rw [hr] at hf
    simpa using hf

/-- **read_never_panics**: `read_to_end` reaches none of the panic sites of `TokenStream::next`
(`assert!(!self.last_was_endline)`, the slice index, the subtraction, the three `debug_assert!`s) nor the
`debug_assert_eq!`s of `choose` / `token_intermediate`, in debug and in release builds, for every input.
(Before fix c600801 the pointer-range assertions failed for the `&[]` of `end_of_stream()`.) -/
theorem read_never_panics (s : Bytes) (trailing debug : Bool) (site : String) :
    readToEnd s trailing debug ≠ .error (.panic site) := by
  intro h
  unfold readToEnd at h
  have hp := readAll_post s trailing debug false
  split at h
  · cases h
  · rename_i ts' e hr
    simp at h; subst h
    rw [hr] at hp
    exact hp.2

/-- regression witness for c600801: an unterminated block comment (`/*`) and a file ending in `0x` are
diagnosed with `EndOfStream` at the end of the file -/
example : (match readToEnd [47, 42] true true with | .error (.lexer r off) => some (r, off) | _ => none)
    = some (.EndOfStream, 2) := by decide
example : (match readToEnd [48, 120] true true with | .error (.lexer r off) => some (r, off) | _ => none)
    = some (.EndOfStream, 2) := by decide

/-- non-vacuity of `spans_tile`: `a<b // c⏎` followed by a line splice lexes to seven tokens + synthetic endline -/
example : (readToEnd [97, 60, 98, 32, 47, 47, 99, 10, 92, 10]).toOption.map (·.map fun t => (t.start, t.stop))
    = some [(0, 1), (1, 2), (2, 3), (3, 4), (4, 7), (7, 8), (8, 10), (10, 10)] := by decide

/-! ## Part 2 — integer literals -/

/-- the three digit readers of the lexer with their radix -/
inductive IsRadix : (UInt8 → Option Nat) → Nat → Prop
  | dec : IsRadix decDigit? 10
  | hex : IsRadix hexDigit? 16
  | oct : IsRadix octDigit? 8

theorem IsRadix.facts {f : UInt8 → Option Nat} {base : Nat} (h : IsRadix f base) :
    1 ≤ base ∧ ∀ b d, f b = some d → d < 2 ^ 64 := by
  cases h
  · exact ⟨by omega, fun b d h => by have := decDigit_lt b d h; omega⟩
  · exact ⟨by omega, fun b d h => by have := hexDigit_lt b d h; omega⟩
  · exact ⟨by omega, fun b d h => by have := octDigit_lt b d h; omega⟩

/-- closed form of `literal_decimal_int` / `literal_hex_int` / `literal_octal_int` on an input starting with a
digit: with `v` the positional value of the maximal digit run and `k` the suffix that follows it -/
theorem literalIntWith_closed {f : UInt8 → Option Nat} {base : Nat} (hr : IsRadix f base) (b : UInt8) (r : Bytes)
    (d : Nat) (hd : f b = some d) :
    literalIntWith f base (b :: r) =
      (if Dec2Bin.ofDigits base (digitRun f (b :: r)) < 2 ^ 64 then
        (match mkIntToken? (Dec2Bin.ofDigits base (digitRun f (b :: r)))
                 (opt (intType (afterRun f (b :: r))) (afterRun f (b :: r))).2 with
         | some tok => .ok ((opt (intType (afterRun f (b :: r))) (afterRun f (b :: r))).1, tok)
         | none => .error (.lex (.rest (b :: r)) .IntegerLiteralTooLarge))
       else .error (.lex (.rest (b :: r)) .IntegerLiteralTooLarge)) := by
  obtain ⟨hb, hf⟩ := hr.facts
  unfold literalIntWith
  rw [digitsWith_closed f base hb hf b r d hd]
  by_cases hlt : Dec2Bin.ofDigits base (digitRun f (b :: r)) < 2 ^ 64
  · simp only [hlt, if_true]
    split <;> (rename_i hk; simp [hk])
  · simp only [hlt, if_false]

/-- **int_value_exact** (full strength since fixes dc17362 and 93e9a96): an accepted integer literal consumed the
maximal run of digits and its suffix, the token denotes exactly the run's positional value `v`, and `v` fits the
type the suffix names (`u` ⇒ `< 2^32`, `l` ⇒ `< 2^63`, none / `ul` ⇒ `< 2^64`). -/
theorem int_value_exact {f : UInt8 → Option Nat} {base : Nat} (hr : IsRadix f base) {inp rest : Bytes}
    {tok : Token} (h : literalIntWith f base inp = .ok (rest, tok)) :
    tok.intValue? = some (Dec2Bin.ofDigits base (digitRun f inp) : Int) ∧ tok.intInRange ∧
    Dec2Bin.ofDigits base (digitRun f inp) < 2 ^ 64 ∧
    mkIntToken? (Dec2Bin.ofDigits base (digitRun f inp)) (opt (intType (afterRun f inp)) (afterRun f inp)).2
      = some tok ∧
    rest = (opt (intType (afterRun f inp)) (afterRun f inp)).1 := by
  obtain ⟨hb, hf⟩ := hr.facts
  cases inp with
  | nil => simp [literalIntWith, digitsWith, digitWith, endOfStream] at h
  | cons b r =>
    cases hd : f b with
    | none => simp [literalIntWith, digitsWith, digitWith, hd, wrongChars] at h
    | some d =>
      rw [literalIntWith_closed hr b r d hd] at h
      by_cases hlt : Dec2Bin.ofDigits base (digitRun f (b :: r)) < 2 ^ 64
      · simp only [hlt, if_true] at h
        split at h
        · rename_i tok' hk
          simp at h
          obtain ⟨h1, h2⟩ := h
          subst h1 h2
          exact ⟨mkIntToken?_value hk, mkIntToken?_inRange hlt hk, hlt, hk, rfl⟩
        · cases h
      · simp only [hlt, if_false] at h
        cases h

/-- **int_overflow_rejected**: a literal that does not fit — the digit run is `≥ 2^64`, or `≥ 2^32` with suffix
`u`, or `≥ 2^63` with the signed suffix `l` (`SuffixOverflow`) — is never accepted: `IntegerLiteralTooLarge` at its
first digit. -/
theorem int_overflow_rejected {f : UInt8 → Option Nat} {base : Nat} (hr : IsRadix f base) (b : UInt8) (r : Bytes)
    (d : Nat) (hd : f b = some d)
    (hbig : 2 ^ 64 ≤ Dec2Bin.ofDigits base (digitRun f (b :: r)) ∨
      SuffixOverflow (Dec2Bin.ofDigits base (digitRun f (b :: r)))
        (opt (intType (afterRun f (b :: r))) (afterRun f (b :: r))).2) :
    literalIntWith f base (b :: r) = .error (.lex (.rest (b :: r)) .IntegerLiteralTooLarge) := by
  rw [literalIntWith_closed hr b r d hd]
  by_cases hlt : Dec2Bin.ofDigits base (digitRun f (b :: r)) < 2 ^ 64
  · simp only [hlt, if_true]
    rcases hbig with hbig | hbig
    · omega
    · rw [mkIntToken?_none.mpr hbig]
  · simp only [hlt, if_false]

/-- **int_rejected_only_when_too_large**: conversely, `IntegerLiteralTooLarge` is reported only for a literal that
really does not fit its type. -/
theorem int_rejected_only_when_too_large {f : UInt8 → Option Nat} {base : Nat} (hr : IsRadix f base) {inp : Bytes}
    {pos : ErrAt} (h : literalIntWith f base inp = .error (.lex pos .IntegerLiteralTooLarge)) :
    pos = .rest inp ∧
    (2 ^ 64 ≤ Dec2Bin.ofDigits base (digitRun f inp) ∨
      SuffixOverflow (Dec2Bin.ofDigits base (digitRun f inp))
        (opt (intType (afterRun f inp)) (afterRun f inp)).2) := by
  cases inp with
  | nil => simp [literalIntWith, digitsWith, digitWith, endOfStream] at h
  | cons b r =>
    cases hd : f b with
    | none => simp [literalIntWith, digitsWith, digitWith, hd, wrongChars] at h
    | some d =>
      rw [literalIntWith_closed hr b r d hd] at h
      by_cases hlt : Dec2Bin.ofDigits base (digitRun f (b :: r)) < 2 ^ 64
      · simp only [hlt, if_true] at h
        split at h
        · cases h
        · rename_i hk
          simp at h
          exact ⟨h.symm, .inr (mkIntToken?_none.mp hk)⟩
      · simp only [hlt, if_false] at h
        simp at h
        exact ⟨h.symm, .inl (by omega)⟩

/-- `literal_int` picks the radix from the prefix and then behaves as above -/
theorem literalInt_radix (inp : Bytes) :
    (∃ body, inp = [48, 120] ++ body ∧ literalInt inp = literalIntWith hexDigit? 16 body) ∨
    (∃ body, inp = 48 :: body ∧ (digitWith octDigit? body).isOk = true ∧
        literalInt inp = literalIntWith octDigit? 8 body) ∨
    literalInt inp = literalIntWith decDigit? 10 inp := by
  unfold literalInt
  split
  · rename_i r h; exact .inl ⟨r, stripPrefix?_eq h, rfl⟩
  · split
    · rename_i r h
      split
      · rename_i x hx; exact .inr (.inl ⟨r, stripPrefix?_eq h, by simp [hx, Except.isOk, Except.toBool], rfl⟩)
      · exact .inr (.inr rfl)
    · exact .inr (.inr rfl)

/-- regression witness for dc17362: `9223372036854775808l` (2^63 with the signed suffix) is rejected at offset 0;
`9223372036854775807l` is accepted with its written value -/
example : (match literalInt [57, 50, 50, 51, 51, 55, 50, 48, 51, 54, 56, 53, 52, 55, 55, 53, 56, 48, 56, 108] with
     | .error (.lex (.rest r) k) => some (r.length, k) | _ => none) = some (20, .IntegerLiteralTooLarge) := by decide
example : (match literalInt [57, 50, 50, 51, 51, 55, 50, 48, 51, 54, 56, 53, 52, 55, 55, 53, 56, 48, 55, 108] with
     | .ok (rest, tok) => (rest.length, tok.intValue?)
     | .error _ => (1, none)) = (0, some 9223372036854775807) := by decide

/-- non-vacuity: `0x7fFFu;` is accepted with value 32767, `18446744073709551616` is rejected -/
example : (match literalInt [48, 120, 55, 102, 70, 70, 117, 59] with
     | .ok (rest, tok) => (rest, tok.intValue?) | .error _ => ([], none)) = ([59], some 32767) := by decide
/-- regression witness for 93e9a96: `4294967296u` is rejected, `4294967295u` accepted -/
example : (match literalInt [52, 50, 57, 52, 57, 54, 55, 50, 57, 54, 117] with
     | .error (.lex (.rest r) k) => some (r.length, k) | _ => none) = some (11, .IntegerLiteralTooLarge) := by decide
example : (match literalInt [52, 50, 57, 52, 57, 54, 55, 50, 57, 53, 117] with
     | .ok (rest, tok) => (rest.length, tok.intValue?) | .error _ => (1, none)) = (0, some 4294967295) := by decide
example : (match literalInt [49, 56, 52, 52, 54, 55, 52, 52, 48, 55, 51, 55, 48, 57, 53, 53, 49, 54, 49, 54] with
     | .error (.lex _ r) => some r | _ => none) = some .IntegerLiteralTooLarge := by decide

/-- how the dispatcher reaches the two numeric sub-lexers: on a digit, `token_intermediate` is `literal_float`, and
exactly when that answers `OtherTokenBytes` (digits without fraction or exponent, or the `.x` bail-out) it is
`literal_int` — so `int_value_exact` / `int_overflow_rejected` / `lex_float_nearest` are statements about the tokens
of `read_to_end`. -/
theorem token_numeric_dispatch (b : UInt8) (r : Bytes) (inc : Bool) (hd : 48 ≤ b.toNat ∧ b.toNat ≤ 57) :
    tokenIntermediate (b :: r) inc =
      (match literalFloat (b :: r) with
       | .ok x => .ok x
       | .error (.lex _ .OtherTokenBytes) => literalInt (b :: r)
       | .error e => .error e) := by
  simp only [tokenIntermediate, tokenStep, hd, and_self, if_true]
  have ho := literalFloat_other (b :: r)
  split
  · rename_i x hx; rw [hx]
  · rename_i pos hx
    rw [hx] at ho ⊢
    simp only [OtherAtStart] at ho
    subst ho
    simp [ErrAt.len]
  · rename_i e hne hx
    rw [hx]
    split
    · rename_i heq; cases heq
    · rename_i pos heq; cases heq; exact absurd rfl (hne pos)
    · rename_i heq; exact heq

/-! ## Part 3 — floating literals -/

/-- **float_parts_shape_as_modelled**: the shape of `calculate_float64_from_parts` the model relies on, re-extracted
from the source on every run (`Gen.LexTables`): the body only builds the text `<left or 0>.<right or 0>e<exponent>`
and its single exit is `text.parse::<f64>()` — no early `return`, no `*` or `/`, no float cast or float function —
and `literal_float` calls it once with `(left, right, exp)`. This is what justifies
`Model.Lexer.float64FromParts = nearest64 (left ++ right) (exp - |right|)` (given that `parse` is correctly rounded);
any rewrite of the function (a fast path, digit accumulation, …) breaks this obligation before an input is found. -/
theorem float_parts_shape_as_modelled :
    floatPartsSignature = "left: DigitSequence, right: DigitSequence, exponent: i64 -> f64" ∧
    floatPartsSteps = ["newText", "pushLeftDigits", "zeroIfLeftEmpty", "pushDot", "pushRightDigits",
      "zeroIfRightEmpty", "pushE", "pushExponent", "returnParseF64"] ∧
    floatPartsReturns = 0 ∧ floatPartsMulDiv = 0 ∧ floatPartsFloatOps = 0 ∧
    floatPartsCallSites = 1 ∧ floatPartsCalledWithParts = true := by decide

/-- **lex_float_nearest**: an accepted float literal is the text `<left>[.<right>][e<exp>][#INF][suffix]`, and its
token carries `narrowOnce suffix (nearest64 (left ++ right) (exp - |right|))`: the double nearest (see
`Spec/Dec2Bin.lean` and `nearest_*` below) to the decimal it spells, narrowed once to single precision for the
`f`/`h` suffixes — or `+∞` for the `#INF` spelling, which is accepted only on a non-zero literal without exponent. -/
theorem lex_float_nearest {inp rest : Bytes} {tok : Token} (h : literalFloat inp = .ok (rest, tok)) :
    ∃ (hasFraction : Bool) (left right : List Nat) (i2 : Bytes) (ty : Option FloatType),
      inp = left.map digitByte ++ ((if hasFraction then 46 :: right.map digitByte else []) ++ i2) ∧
      (hasFraction = false → right = []) ∧ (∀ d ∈ left ++ right, d < 10) ∧
      (tok.floatBits? = some (narrowOnce ty
          (Dec2Bin.nearest64 (left ++ right) ((opt (floatExponent i2) i2).2.getD 0 - right.length))) ∨
       ((opt (floatExponent i2) i2).2 = none ∧
        Dec2Bin.nearest64 (left ++ right) (0 - right.length) ≠ 0 ∧
        tok.floatBits? = some (narrowOnce ty Dec2Bin.binary64.infBits))) := by
  obtain ⟨hf, l, r, i2, ty, hm, hv⟩ := literalFloat_value h
  have ht := floatMantissa_text hm
  exact ⟨hf, l, r, i2, ty, ht.1, ht.2, floatMantissa_lt hm, hv⟩

/-- non-vacuity / regression witnesses for the defect fixed in c2067b9: `0.0031308` and `0.055L` are the
nearest doubles (the old digit-by-digit accumulation gave `…bd`+1 and `…29`+1) -/
example : (match literalFloat [48, 46, 48, 48, 51, 49, 51, 48, 56] with
    | .ok (_, tok) => tok.floatBits? | .error _ => none) = some 0x3f69a5c37387b719 := by decide
example : (match literalFloat [48, 46, 48, 53, 53, 76] with
    | .ok (_, tok) => tok.floatBits? | .error _ => none) = some 0x3fac28f5c28f5c29 := by decide

/-! ## Part 3b — a numeral is ONE literal token (maximal munch) -/

/-- the dispatch of `token_intermediate` as the model (`tokenStep`) and `token_numeric_dispatch` read it, re-extracted
every run: the four patterns of `match input.first()` in order (digit, identifier start, any other byte, end), and the
digit arm consists of exactly one statement — `match literal_float(input)` returning its token, calling
`literal_int(input)` exactly on `OtherTokenBytes` and passing every other error on. Nothing in front of it (no
pre-classification of the numeral by a look-ahead), no other exit. The word arm is `any_word(input)`, the `None` arm
`end_of_stream()`. -/
theorem numeric_dispatch_as_modelled :
    dispatchPatterns = ["Some(b'0'..=b'9')", "Some(b'A'..=b'Z' | b'a'..=b'z' | b'_')", "Some(_)", "None"] ∧
    numericArmSteps = ["floatElseIntOnOtherTokenBytes"] ∧ wordArmSteps = ["anyWord"] ∧
    noneArmSteps = ["endOfStream"] := by decide

/-- **numeral_is_one_token**: every numeral of the decimal floating grammar
`digits "." digits* [exponent] [suffix] | digits exponent [suffix]`, `exponent = (e|E) [+|-] digits`,
`suffix = h H f F l L` (`Numeral`, any number of digits, leading zeros, no fraction digits, either case of the exponent
letter and of the suffix), followed by any text that does not continue it (`Boundary`: the end of the file or a byte
that is neither a letter, digit, `_` nor `#`), is read by `token_intermediate` as ONE token that consumes exactly the
numeral: the float literal of the kind its suffix names, carrying `nearest64` of its digits scaled by its exponent
(narrowed once for `f`/`h`) — with `nearest64_correct` the correctly rounded double of the decimal it spells. It is
never an integer followed by an identifier, never split at the exponent letter, the sign or the point. -/
theorem numeral_is_one_token (n : Numeral) (hwf : n.WF) (rest : Bytes) (hb : Boundary rest) (inc : Bool) :
    tokenIntermediate (n.bytes ++ rest) inc = .ok (rest, n.token) ∧
    n.token = mkFloatToken (Dec2Bin.nearest64 n.digits (n.expValue - (n.fracLen : Nat))) n.suffixType ∧
    (∀ d ∈ n.digits, d < 10) :=
  ⟨numeral_one_token n hwf rest hb inc, rfl, by
    cases n with
    | point w ws fr ex sfx =>
      intro d hd
      simp only [Numeral.digits, List.mem_append] at hd
      exact hd.elim (hwf.1 d) (hwf.2.1 d)
    | expo w ws ex sfx => exact hwf.1⟩

/-- the same at the level of `TokenStream::next` on a file that starts with the numeral: the first token is the
numeral's literal with the span `[0, |numeral|)` -/
theorem numeral_first_token_span (n : Numeral) (hwf : n.WF) (rest : Bytes) (hb : Boundary rest)
    (trailing debug inc : Bool) :
    ∃ s', (Stream.new (n.bytes ++ rest) trailing debug).next inc = .ok (⟨n.token, 0, n.bytes.length⟩, s') ∧
      s'.offset = n.bytes.length ∧ s'.input = n.bytes ++ rest := by
  have h := numeral_one_token n hwf rest hb inc
  obtain ⟨b, r, hbr, -⟩ := n.bytes_head hwf []
  have hlen : 0 < n.bytes.length := by
    simp only [List.append_nil] at hbr
    rw [hbr]; simp
  have h1 : ¬ (0 = (n.bytes ++ rest).length) := by simp; omega
  have h2 : ¬ ((n.bytes ++ rest).length < rest.length) := by simp
  have h3 : (n.bytes ++ rest).length - rest.length = n.bytes.length := by simp
  refine ⟨{ (Stream.new (n.bytes ++ rest) trailing debug) with
      offset := n.bytes.length, lastWasEndline := decide (n.token = .simple .Endline) }, ?_, rfl, rfl⟩
  have h4 : ¬ (debug = true ∧ ¬ 0 < n.bytes.length) := by simp [hlen]
  simp only [Stream.next, Stream.new, List.drop_zero, h, h1, h2, h3, h4, and_false, if_false, Nat.not_lt_zero]

/-- non-vacuity: `1E5`, `3E+2`, `25E-2f`, `7E-7`, `1.e5H`, `00.50L` are numerals of the grammar and these are their tokens
(the spellings the seeded mutant C10-5 read as integer + identifier) -/
example : (Numeral.expo 1 [] ⟨.E, .absent, 5, []⟩ none).bytes = [49, 69, 53] ∧
    (Numeral.expo 1 [] ⟨.E, .absent, 5, []⟩ none).WF ∧
    (Numeral.expo 1 [] ⟨.E, .absent, 5, []⟩ none).token = .litFloat 0x40f86a0000000000 :=
  ⟨by decide, by simp [Numeral.WF], by decide⟩
example : (Numeral.expo 3 [] ⟨.E, .plus, 2, []⟩ none).bytes = [51, 69, 43, 50] ∧
    (Numeral.expo 3 [] ⟨.E, .plus, 2, []⟩ none).token = .litFloat 0x4072c00000000000 := by decide
example : (Numeral.expo 2 [5] ⟨.E, .minus, 2, []⟩ (some ⟨.Float, false⟩)).bytes = [50, 53, 69, 45, 50, 102] ∧
    (Numeral.expo 2 [5] ⟨.E, .minus, 2, []⟩ (some ⟨.Float, false⟩)).token = .litFloat32 0x3e800000 := by decide
example : (Numeral.expo 7 [] ⟨.E, .minus, 7, []⟩ none).token = .litFloat 0x3ea77cf44765195f := by decide
example : (Numeral.point 1 [] [] (some ⟨.e, .absent, 5, []⟩) (some ⟨.Half, true⟩)).bytes = [49, 46, 101, 53, 72] ∧
    (Numeral.point 1 [] [] (some ⟨.e, .absent, 5, []⟩) (some ⟨.Half, true⟩)).token = .litFloat16 0x47c35000 := by decide
example : (match tokenIntermediate [49, 69, 53, 59] false with
    | .ok (rest, tok) => some (rest, tok) | .error _ => none) = some ([59], .litFloat 0x40f86a0000000000) := by decide
example : Boundary [59] ∧ Boundary [] ∧ Boundary [32, 120] ∧ ¬ Boundary [120] := by
  refine ⟨?_, ?_, ?_, ?_⟩
  · intro b r h; cases h; decide
  · intro b r h; cases h
  · intro b r h; cases h; decide
  · intro h; have := (h 120 [] rfl).1; revert this; decide

/-- **numeral_int_is_one_token_partial**: a decimal integer numeral of the C grammar (`0`, or a non-zero digit followed by
any digits) with any of the 13 spellings of the suffix (none, `u U l L`, `ul uL Ul UL`, `lu lU Lu LU`:
`IntSuffixSpelling`), followed by a text that does not continue it (`IntBoundary`: the end, or a byte that is neither a
letter, digit, `_` nor `.`), is read by `token_intermediate` as ONE token consuming exactly the numeral: the integer literal
of the kind the suffix names, holding the positional value of the digits — whenever that value fits the kind
(`mkIntToken?`; a value that does not fit is the diagnostic of `int_overflow_rejected`). `literal_float` declines it
(`OtherTokenBytes`), `literal_int` takes the decimal route.
*Partial*: the octal (`0` octal-digits) and hexadecimal (`0x` hex-digits) numerals are not covered by this statement
(their value and rejection are `int_value_exact` / `int_overflow_rejected` on the maximal digit run; that the run and the
suffix are the whole numeral is checked by the `C10.num` stream only). -/
theorem numeral_int_is_one_token_partial (d : Nat) (ds : List Nat) (hlt : ∀ x ∈ d :: ds, x < 10)
    (hlead : d ≠ 0 ∨ ds = []) (sfx : IntSuffixSpelling) (tok : Token)
    (hn : Dec2Bin.ofDigits 10 (d :: ds) < 2 ^ 64)
    (hk : mkIntToken? (Dec2Bin.ofDigits 10 (d :: ds)) sfx.ty = some tok) (rest : Bytes) (hb : IntBoundary rest)
    (inc : Bool) :
    tokenIntermediate ((d :: ds).map digitByte ++ (sfx.bytes ++ rest)) inc = .ok (rest, tok) :=
  decimalInt_one_token d ds hlt hlead sfx tok hn hk rest hb inc

/-- non-vacuity: `42UL`, `4294967295U`, `0l` -/
example : ([4, 2].map digitByte ++ (IntSuffixSpelling.ul true true).bytes) = [52, 50, 85, 76] ∧
    mkIntToken? (Dec2Bin.ofDigits 10 [4, 2]) (IntSuffixSpelling.ul true true).ty = some (.litIntU64 42) := by decide
example : mkIntToken? (Dec2Bin.ofDigits 10 [4, 2, 9, 4, 9, 6, 7, 2, 9, 5]) (IntSuffixSpelling.u true).ty =
    some (.litIntU32 4294967295) := by decide
example : mkIntToken? (Dec2Bin.ofDigits 10 [0]) (IntSuffixSpelling.l false).ty = some (.litIntS64 0) := by decide

/-! ## Part 4 — the rounding reference itself (`Spec/Dec2Bin.lean`) against the mathematical statement -/

open Dec2Bin in
/-- **nearest_correct**: for every positive rational `x = N / M`, `nearestRat f N M` is the bit pattern IEEE 754
prescribes for round-to-nearest-ties-to-even (`Spec.Dec2Bin.IsNearestEven`: unit in the last place of `x`'s binade
with gradual underflow, no value with a `p`-bit significand and exponent `≥ emin` closer, at most half an ulp off,
exactly half ⇒ even significand, `+∞` exactly when the result rounded with unbounded exponent reaches
`2^(emax+1)`). Both formats. -/
theorem nearest_correct (f : Fmt) (hf : f = binary64 ∨ f = binary32) (N M : Nat) (hN : 0 < N) (hM : 0 < M) :
    IsNearestEven f N M (nearestRat f N M) :=
  nearestRat_isNearestEven f (by rcases hf with h | h <;> subst h <;> decide)
    (by rcases hf with h | h <;> subst h <;> decide) N M hN hM

open Dec2Bin in
/-- **nearest64_total**: for every decimal digit string and every exponent, `nearest64 (digits, e)` is
`nearestRat binary64` of the exact rational `digits × 10^e` — the two cut-offs of `nearestDec` (`e > 400` ⟹ `+∞`,
`e + |digits| < -400` ⟹ `0`, which avoid astronomically large powers) are proved to agree with it. -/
theorem nearest64_total (ds : List Nat) (e : Int) (hds : ∀ d ∈ ds, d < 10) :
    nearest64 ds e = nearestRat binary64 (decimalRat ds e).1 (decimalRat ds e).2 := by
  rw [nearest64_eq_nearestRat ds e hds]
  unfold decimalRat
  split <;> rfl

open Dec2Bin in
/-- **nearest64_correct**: the value the lexer model gives a float literal is the correctly rounded double of its
decimal text: `IsNearestEven binary64 (digits × 10^e) (nearest64 digits e)` for every non-zero digit string and
every exponent (a zero digit string gives `+0`). -/
theorem nearest64_correct (ds : List Nat) (e : Int) (hds : ∀ d ∈ ds, d < 10) (hD : ofDigits 10 ds ≠ 0) :
    IsNearestEven binary64 (decimalRat ds e).1 (decimalRat ds e).2 (nearest64 ds e) := by
  rw [nearest64_total ds e hds]
  have hDpos : 0 < ofDigits 10 ds := Nat.pos_of_ne_zero hD
  apply nearest_correct binary64 (.inl rfl)
  · unfold decimalRat; split
    · exact Nat.mul_pos hDpos (Nat.pow_pos (by omega))
    · exact hDpos
  · unfold decimalRat; split
    · exact Nat.one_pos
    · exact Nat.pow_pos (by omega)

open Dec2Bin in
theorem nearest64_zero (ds : List Nat) (e : Int) (hD : ofDigits 10 ds = 0) : nearest64 ds e = 0 := by
  unfold nearest64 nearestDec; simp [hD]

open Dec2Bin in
/-- **nearest_correct_partial**: for every positive rational `x = N / M` the reference returns the encoding of
`m · 2^q` (or `+∞` when that encoding reaches the infinity pattern) where, with `A / B = x / 2^q` exactly:
* `q ≥ emin`, and `2^q` is the unit in the last place of the binade of `x`: `⌊x/2^q⌋ < 2^p`, and `≥ 2^(p-1)` unless
  `q = emin` (gradual underflow); `m ≤ 2^p`;
* `|x/2^q − m| ≤ ½` and on a tie `m` is even (round to nearest, ties to even);
* no multiple `k · 2^q` is closer to `x` — this covers every representable value of exponent `≥ q`;
* no value `m' · 2^q / T` (`T ≥ 2` a power of two, `m' < 2^p`) of a *smaller* exponent is closer either (they exist
  only when `q > emin`) — so `m · 2^q` is nearest to `x` among all finite values of the format.
*Partial* with respect to DESIGN's `IsNearestEven`: not packaged as one predicate over decoded bit patterns; the
saturation test `encode ≥ infBits` is not identified with `m·2^q ≥ 2^(emax+1)`; the two cut-offs of `nearestDec`
(`e > 400`, `e + len < −400`) and monotonicity are only tested by the correspondence run. -/
theorem nearest_correct_partial (f : Fmt) (hf : f = binary64 ∨ f = binary32) (N M : Nat) (hN : 0 < N) (hM : 0 < M) :
    ∃ (q : Int) (A B m : Nat),
      f.emin ≤ q ∧ 0 < B ∧ A * (M * 2 ^ q.toNat) = N * 2 ^ (-q).toNat * B ∧
      (2 * A ≤ 2 * (m * B) + B ∧ 2 * (m * B) ≤ 2 * A + B) ∧
      ((2 * A = 2 * (m * B) + B ∨ 2 * (m * B) = 2 * A + B) → m % 2 = 0) ∧
      (∀ k, (2 * A - 2 * (m * B)) + (2 * (m * B) - 2 * A) ≤ (2 * A - 2 * (k * B)) + (2 * (k * B) - 2 * A)) ∧
      (f.emin < q → ∀ T m', 2 ≤ T → m' < 2 ^ f.p →
        2 * (B * m') ≤ 2 * (A * T) ∧
        ((2 * A - 2 * (m * B)) + (2 * (m * B) - 2 * A)) * T ≤ 2 * (A * T) - 2 * (B * m')) ∧
      A / B < 2 ^ f.p ∧ (f.emin < q → 2 ^ (f.p - 1) ≤ A / B) ∧ m ≤ 2 ^ f.p ∧ (f.emin < q → 2 ^ (f.p - 1) ≤ m) ∧
      nearestRat f N M = Nat.min (encode f m q) f.infBits := by
  have hp : 2 ≤ f.p := by rcases hf with h | h <;> subst h <;> decide
  obtain ⟨q, A, B, m, h1, h2, h3, h4, h5, h6, h7, h8, h9, h10, h11⟩ := nearestRat_spec f hp N M hN hM
  exact ⟨q, A, B, m, h1, h2, h3, h4, h5, h6,
    fun hq T m' hT hm' => finer_grid_not_closer f.p A B m m' T h2 (by omega) (h8 hq) hm' hT h4,
    h7, h8, h9, h10, h11⟩

open Dec2Bin in
/-- **nearest_monotone**: `N/M ≤ N'/M'` ⟹ `nearestRat f N M ≤ nearestRat f N' M'` (the bit patterns of non-negative
floats are ordered like their values, `+∞` on top) -/
theorem nearest_monotone (f : Fmt) (hf : f = binary64 ∨ f = binary32) (N M N' M' : Nat) (hM : 0 < M) (hM' : 0 < M')
    (h : N * M' ≤ N' * M) : nearestRat f N M ≤ nearestRat f N' M' :=
  nearestRat_mono f (by rcases hf with h | h <;> subst h <;> decide) N M N' M' hM hM' h

open Dec2Bin in
/-- … and for decimal texts: a literal that spells a larger number never lexes to a smaller double -/
theorem nearest64_monotone (ds ds' : List Nat) (e e' : Int) (hds : ∀ d ∈ ds, d < 10) (hds' : ∀ d ∈ ds', d < 10)
    (h : (decimalRat ds e).1 * (decimalRat ds' e').2 ≤ (decimalRat ds' e').1 * (decimalRat ds e).2) :
    nearest64 ds e ≤ nearest64 ds' e' := by
  rw [nearest64_total ds e hds, nearest64_total ds' e' hds']
  have pos : ∀ (l : List Nat) (x : Int), 0 < (decimalRat l x).2 := by
    intro l x; unfold decimalRat; split
    · exact Nat.one_pos
    · exact Nat.pow_pos (by omega)
  exact nearest_monotone binary64 (.inl rfl) _ _ _ _ (pos ds e) (pos ds' e') h

open Dec2Bin in
/-- **nearest_exact_on_representable**: a positive finite value `m · 2^q` of the format (canonical
significand/exponent) is returned unchanged, as its own bit pattern. -/
theorem nearest_exact_on_representable (f : Fmt) (hf : f = binary64 ∨ f = binary32) (m : Nat) (q : Int)
    (hc : Canon f m q) :
    nearestRat f (m * 2 ^ q.toNat) (2 ^ (-q).toNat) = Nat.min (encode f m q) f.infBits :=
  nearestRat_exact f (by rcases hf with h | h <;> subst h <;> decide) m q hc

/-- non-vacuity: `1.5 = 3·2^-1` is canonical as `(3·2^51, -52)` and comes back as `0x3ff8000000000000`;
the smallest subnormal `(1, -1074)` comes back as `1`; halfway cases go to even -/
example : Dec2Bin.Canon Dec2Bin.binary64 (3 * 2 ^ 51) (-52) := by unfold Dec2Bin.Canon; decide
example : Dec2Bin.nearestRat Dec2Bin.binary64 3 2 = 0x3ff8000000000000 := by decide
set_option exponentiation.threshold 2000 in
example : Dec2Bin.nearestRat Dec2Bin.binary64 1 (2 ^ 1074) = 1 := by decide +kernel
set_option exponentiation.threshold 2000 in
example : Dec2Bin.nearestRat Dec2Bin.binary64 1 (2 ^ 1075) = 0 := by decide +kernel   -- tie → even (0)
set_option exponentiation.threshold 2000 in
example : Dec2Bin.nearestRat Dec2Bin.binary64 3 (2 ^ 1075) = 2 := by decide +kernel   -- tie → even (2)
example : Dec2Bin.nearest64 [9, 0, 0, 7, 1, 9, 9, 2, 5, 4, 7, 4, 0, 9, 9, 3] 0 = 0x4340000000000000 := by decide
example : Dec2Bin.narrow32 0x3ff0000010000000 = 0x3f800000 := by decide      -- 1 + 2^-24: tie → even

/-! ## Part 5 — "that value appears unchanged in the output": `format_literal` followed by the lexer -/

open RsslVerif.Gen.LitFormatTables in
/-- **literal_tables_as_modelled**: the code the printing model (`Model/LitFormat.lean`) is written against,
re-extracted from the source on every run: every arm of `format_literal` (pattern, guard, format string) in order, the
four `write_infinity_*` helpers, the guard `f32_digits_round_twice` of the two arms added by fix 265a080 (signature, body —
`Display` digits parsed as a double and cast to single differ from the value — and that it is used by exactly those two
arms), the `generate_literal` arms of the HLSL and of the Metal generator that map an
`ir::Constant` to the `ast::Literal` that is printed (negative integers become `-` applied to the magnitude), and the
typer's `parse_literal` (token payload → `ir::Constant`, 64-bit integer literals rejected).  Any change of a guard, a
suffix, a format string or the arm order breaks this obligation before an input is found. -/
theorem literal_tables_as_modelled :
    formatLiteralArms = [
      ("ast::Literal::Bool(true)", "", "output.push_str(\"true\")"),
      ("ast::Literal::Bool(false)", "", "output.push_str(\"false\")"),
      ("ast::Literal::IntUntyped(v)", "", "write!(output, \"{v}\").unwrap()"),
      ("ast::Literal::IntUnsigned32(v)", "", "write!(output, \"{v}u\").unwrap()"),
      ("ast::Literal::IntUnsigned64(v)", "", "write!(output, \"{v}ul\").unwrap()"),
      ("ast::Literal::IntSigned64(v)", "", "write!(output, \"{v}l\").unwrap()"),
      ("ast::Literal::FloatUntyped(v)", "*v == f64::INFINITY", "write_infinity_untyped(output, context)"),
      ("ast::Literal::FloatUntyped(v)", "*v == f64::NEG_INFINITY", "output.push('-'); write_infinity_untyped(output, context)"),
      ("ast::Literal::FloatUntyped(v)", "*v == 0.0 && v.is_sign_negative()", "output.push_str(\"-0.0\")"),
      ("ast::Literal::FloatUntyped(v)", "*v == (*v as i64 as f64)", "write!(output, \"{}.0\", *v as i64).unwrap()"),
      ("ast::Literal::FloatUntyped(v)", "*v > i64::MAX as f64 || *v < i64::MIN as f64", "write!(output, \"{v}.0\").unwrap()"),
      ("ast::Literal::FloatUntyped(v)", "", "write!(output, \"{v}\").unwrap()"),
      ("ast::Literal::Float16(v)", "*v == f32::INFINITY", "write_infinity_f16(output, context)"),
      ("ast::Literal::Float16(v)", "*v == f32::NEG_INFINITY", "output.push('-'); write_infinity_f16(output, context)"),
      ("ast::Literal::Float16(v)", "*v == f32::NEG_INFINITY", "write!(output, \"-INFINITY\").unwrap()"),
      ("ast::Literal::Float16(v)", "*v == 0.0 && v.is_sign_negative()", "output.push_str(\"-0.0h\")"),
      ("ast::Literal::Float16(v)", "*v == (*v as i64 as f32)", "write!(output, \"{}.0h\", *v as i64).unwrap()"),
      ("ast::Literal::Float16(v)", "*v > i64::MAX as f32 || *v < i64::MIN as f32", "write!(output, \"{v}.0h\").unwrap()"),
      ("ast::Literal::Float16(v)", "f32_digits_round_twice(*v)", "write!(output, \"{}h\", *v as f64).unwrap()"),
      ("ast::Literal::Float16(v)", "", "write!(output, \"{v}h\").unwrap()"),
      ("ast::Literal::Float32(v)", "*v == f32::INFINITY", "write_infinity_f32(output, context)"),
      ("ast::Literal::Float32(v)", "*v == f32::NEG_INFINITY", "output.push('-'); write_infinity_f32(output, context)"),
      ("ast::Literal::Float32(v)", "*v == f32::MAX && context.target == Target::Msl", "output.write_str(\"FLT_MAX\").unwrap()"),
      ("ast::Literal::Float32(v)", "*v == 0.0 && v.is_sign_negative()", "output.push_str(\"-0.0f\")"),
      ("ast::Literal::Float32(v)", "*v == (*v as i64 as f32)", "write!(output, \"{}.0f\", *v as i64).unwrap()"),
      ("ast::Literal::Float32(v)", "*v > i64::MAX as f32 || *v < i64::MIN as f32", "write!(output, \"{v}.0f\").unwrap()"),
      ("ast::Literal::Float32(v)", "f32_digits_round_twice(*v)", "write!(output, \"{}f\", *v as f64).unwrap()"),
      ("ast::Literal::Float32(v)", "", "write!(output, \"{v}f\").unwrap()"),
      ("ast::Literal::Float64(v)", "*v == f64::INFINITY", "write_infinity_f64(output, context)"),
      ("ast::Literal::Float64(v)", "*v == f64::NEG_INFINITY", "output.push('-'); write_infinity_f64(output, context)"),
      ("ast::Literal::Float64(v)", "*v == 0.0 && v.is_sign_negative()", "output.push_str(\"-0.0L\")"),
      ("ast::Literal::Float64(v)", "*v == (*v as i64 as f64)", "write!(output, \"{}.0L\", *v as i64).unwrap()"),
      ("ast::Literal::Float64(v)", "*v > i64::MAX as f64 || *v < i64::MIN as f64", "write!(output, \"{v}.0L\").unwrap()"),
      ("ast::Literal::Float64(v)", "", "write!(output, \"{v}L\").unwrap()"),
      ("ast::Literal::String(s)", "", "write!(output, \"\\\"{s}\\\"\").unwrap()")] ∧
    f32DigitsRoundTwice = ("v: f32 -> bool", "v.to_string().parse::<f64>().map(|d| d as f32) != Ok(v)", 2) ∧
    writeInfinity = [
      ("write_infinity_untyped", "\"INFINITY\"", "1.#INF"),
      ("write_infinity_f16", "\"INFINITY\"", "1.#INFh"),
      ("write_infinity_f32", "\"INFINITY\"", "1.#INFf"),
      ("write_infinity_f64", "panic!(\"invalid msl\")", "1.#INFL")] ∧
    generateLiteralHlsl = [
      ("ir::Constant::Bool(v)", "", "ast::Literal::Bool(v)"),
      ("ir::Constant::IntLiteral(v)", "v < 0 && -v <= u64::MAX as i128",
       "return Ok(ast::Expression::UnaryOperation( ast::UnaryOp::Minus, Box::new(Located::none(ast::Expression::Literal( ast::Literal::IntUntyped(-v as u64), ))), ))"),
      ("ir::Constant::IntLiteral(v)", "v >= 0 && v <= u64::MAX as i128", "ast::Literal::IntUntyped(v as u64)"),
      ("ir::Constant::IntLiteral(_)", "", "return Err(GenerateError::IntLiteralOutOfRange)"),
      ("ir::Constant::Int32(v)", "v < 0",
       "return Ok(ast::Expression::UnaryOperation( ast::UnaryOp::Minus, Box::new(Located::none(ast::Expression::Literal( ast::Literal::IntUntyped(u64::from(v.unsigned_abs())), ))), ))"),
      ("ir::Constant::Int32(v)", "", "ast::Literal::IntUntyped(v as u64)"),
      ("ir::Constant::UInt32(v)", "", "ast::Literal::IntUnsigned32(u64::from(v))"),
      ("ir::Constant::Int64(v)", "", "ast::Literal::IntSigned64(v)"),
      ("ir::Constant::UInt64(v)", "", "ast::Literal::IntUnsigned64(v)"),
      ("ir::Constant::FloatLiteral(v)", "", "ast::Literal::FloatUntyped(v)"),
      ("ir::Constant::Float16(v)", "", "ast::Literal::Float16(v)"),
      ("ir::Constant::Float32(v)", "", "ast::Literal::Float32(v)"),
      ("ir::Constant::Float64(v)", "", "ast::Literal::Float64(v)"),
      ("ir::Constant::String(_)", "", "panic!(\"literal string not expected in output\")"),
      ("ir::Constant::Enum(id, ref c)", "", "enum")] ∧
    generateLiteralMsl = generateLiteralHlsl.take 12 ++
      [("ir::Constant::Float64(_)", "", "return Err(GenerateError::UnsupportedDouble)")] ++ generateLiteralHlsl.drop 13 ∧
    parseLiteralArms = [
      ("ast::Literal::Bool(b)", "", "ir::Constant::Bool(*b)"),
      ("ast::Literal::IntUntyped(i)", "", "ir::Constant::IntLiteral(*i as i128)"),
      ("ast::Literal::IntUnsigned32(i)", "", "ir::Constant::UInt32(*i as u32)"),
      ("ast::Literal::IntUnsigned64(_) | ast::Literal::IntSigned64(_)", "", "return Err(TyperError::Int64NotSupported(SourceLocation::UNKNOWN))"),
      ("ast::Literal::FloatUntyped(f)", "", "ir::Constant::FloatLiteral(*f)"),
      ("ast::Literal::Float16(f)", "", "ir::Constant::Float16(*f)"),
      ("ast::Literal::Float32(f)", "", "ir::Constant::Float32(*f)"),
      ("ast::Literal::Float64(f)", "", "ir::Constant::Float64(*f)"),
      ("ast::Literal::String(_)", "", "return Err(TyperError::StringNotSupported(SourceLocation::UNKNOWN))")] := by
  decide +kernel

open RsslVerif.Gen.LitFormatTables in
/-- **Shape obligation (wave 6), re-extracted from `typer/src/casting.rs` on every run.**  When a context names a scalar
type (initialiser, default argument, `return`, call argument, operand, array element …) the typer folds an untyped
literal into a typed literal of that type — this is the only place between `parse_literal` and `generate_literal` where
the payload of a literal is rewritten.  The two `if let Expression::Literal(Constant::{IntLiteral,FloatLiteral}(v)) = expr
&& target_is_unmodified` blocks are exactly these arms: every result is a single Rust `as` cast of the literal's own
payload (`v as f32` = one narrowing of the double, the `narrow32` of `lex_float_nearest`; `Float64(v)` unchanged), no
arithmetic.  That each cast is Rust's is trusted; the emit stream compares the printed literal with the exact reference
narrowing in 50 declaration / statement forms. -/
theorem literal_fold_as_modelled :
    literalFoldArms = [
      ("IntLiteral", "&& target_is_unmodified", "TypeLayer::Scalar(ScalarType::Bool)", "return Expression::Literal(Constant::Bool(v != 0))"),
      ("IntLiteral", "&& target_is_unmodified", "TypeLayer::Scalar(ScalarType::UInt32)", "return Expression::Literal(Constant::UInt32(v as u32))"),
      ("IntLiteral", "&& target_is_unmodified", "TypeLayer::Scalar(ScalarType::Int32)", "return Expression::Literal(Constant::Int32(v as i32))"),
      ("IntLiteral", "&& target_is_unmodified", "TypeLayer::Scalar(ScalarType::Float16)", "return Expression::Literal(Constant::Float16(v as f32))"),
      ("IntLiteral", "&& target_is_unmodified", "TypeLayer::Scalar(ScalarType::Float32)", "return Expression::Literal(Constant::Float32(v as f32))"),
      ("IntLiteral", "&& target_is_unmodified", "TypeLayer::Scalar(ScalarType::Float64)", "return Expression::Literal(Constant::Float64(v as f64))"),
      ("IntLiteral", "&& target_is_unmodified", "_", ""),
      ("FloatLiteral", "&& target_is_unmodified", "TypeLayer::Scalar(ScalarType::Bool)", "return Expression::Literal(Constant::Bool(v != 0.0))"),
      ("FloatLiteral", "&& target_is_unmodified", "TypeLayer::Scalar(ScalarType::UInt32)", "return Expression::Literal(Constant::UInt32(v as u32))"),
      ("FloatLiteral", "&& target_is_unmodified", "TypeLayer::Scalar(ScalarType::Int32)", "return Expression::Literal(Constant::Int32(v as i32))"),
      ("FloatLiteral", "&& target_is_unmodified", "TypeLayer::Scalar(ScalarType::Float16)", "return Expression::Literal(Constant::Float16(v as f32))"),
      ("FloatLiteral", "&& target_is_unmodified", "TypeLayer::Scalar(ScalarType::Float32)", "return Expression::Literal(Constant::Float32(v as f32))"),
      ("FloatLiteral", "&& target_is_unmodified", "TypeLayer::Scalar(ScalarType::Float64)", "return Expression::Literal(Constant::Float64(v))"),
      ("FloatLiteral", "&& target_is_unmodified", "_", "")] := by
  decide +kernel

open RsslVerif.Gen.LitFormatTables in
/-- non-vacuity: the table is not empty and holds the arm the `initf` / `local` / `ret` … contexts exercise -/
example : ("FloatLiteral", "&& target_is_unmodified", "TypeLayer::Scalar(ScalarType::Float32)",
    "return Expression::Literal(Constant::Float32(v as f32))") ∈ literalFoldArms := by decide +kernel

open RsslVerif.Gen.LitFormatTables in
/-- **msl_double_literal_rejected** (positive statement after fix 9824ce3; before it `1.#INFL;` / `1e999L;` on Metal
reached `write_infinity_f64` and panicked with `invalid msl`): (1) the Metal `generate_literal`, as extracted on this run,
has exactly one arm for `ir::Constant::Float64` and it returns `Err(GenerateError::UnsupportedDouble)`; no arm of it builds
an `ast::Literal::Float64`, so the Metal generator hands no double literal — finite or infinite — to the formatter;
(2) `format_literal` (model `fmtFloat`) fails only on a NaN (no literal, not reachable from source) or at that panic site,
and the panic site needs exactly an infinite `Float64` literal printed for Metal: for every other kind, target and bit
pattern `format_literal` returns a text (the third alternative is not a failure of the code but the model leaving its
subset: the `Display` text handed over for a single is not a plain decimal, so `f32_digits_round_twice` — `roundTwice?` —
is not evaluated; Rust's `Display` of a finite float always is, and the run checks that on every case).  Together: compiling for Metal cannot reach the `invalid msl` panic through a
literal; the run replays `1.#INFL`, `1e999L`, `-1e999L` (corpus) and expects the `UnsupportedDouble` rejection. -/
theorem msl_double_literal_rejected :
    generateLiteralMsl.filter (fun a => a.1 = "ir::Constant::Float64(_)" ∨ a.1 = "ir::Constant::Float64(v)") =
      [("ir::Constant::Float64(_)", "", "return Err(GenerateError::UnsupportedDouble)")] ∧
    (∀ a ∈ generateLiteralMsl, a.2.2 ≠ "ast::Literal::Float64(v)") ∧
    (generateLiteralHlsl.filter (fun a => a.2.2 = "ast::Literal::Float64(v)")).map (·.1) = ["ir::Constant::Float64(v)"] ∧
    ∀ (k : Model.LitFormat.Kind) (msl : Bool) (bits : Nat) (disp disp64 : Bytes) (e : String),
      Model.LitFormat.fmtFloat k msl bits disp disp64 = .error e →
        (e = "NaN" ∧ k.fmt.infBits < bits % Model.LitFormat.signBit k.fmt) ∨
        (e = "panic: invalid msl" ∧ k = .f64 ∧ msl = true ∧ bits % Model.LitFormat.signBit k.fmt = k.fmt.infBits) ∨
        (e = Model.LitFormat.notPlain ∧ (k = .f16 ∨ k = .f32) ∧
          Model.LitFormat.roundTwice? (decide (Model.LitFormat.signBit k.fmt ≤ bits))
            (bits % Model.LitFormat.signBit k.fmt) disp = none) := by
  refine ⟨by decide +kernel, by decide +kernel, by decide +kernel, ?_⟩
  intro k msl bits disp disp64 e h
  unfold Model.LitFormat.fmtFloat at h
  simp only at h
  split at h
  · left; rename_i hn; simp at h; exact ⟨h.symm, hn⟩
  · split at h
    · rename_i hi
      right; left
      unfold Model.LitFormat.infText at h
      cases msl <;> cases k <;> simp at h <;> first | exact ⟨h.symm, rfl, rfl, hi⟩ | skip
    · split at h
      · simp at h
      · split at h
        · simp at h
        · split at h
          · split at h <;> simp at h
          · split at h
            · rename_i hs
              split at h
              · simp at h
              · simp at h
              · rename_i hnone
                right; right
                simp at h
                exact ⟨h.symm, hs, hnone⟩
            · simp at h

/-- non-vacuity: the failing branch exists in the formatter (an infinite `Float64` for Metal), every other infinity prints -/
example : (match Model.LitFormat.fmtFloat .f64 true 0x7ff0000000000000 [] [] with | .error e => e | .ok _ => "") = "panic: invalid msl" ∧
    (Model.LitFormat.fmtFloat .f64 false 0x7ff0000000000000 [] []).toOption = some [49, 46, 35, 73, 78, 70, 76] ∧
    (Model.LitFormat.fmtFloat .f32 true 0x7f800000 [] []).toOption.isSome = true := by decide

/-- **emit_int_exact**: an integer literal whose payload fits its kind (`< 2^64`; `< 2^32` for `u`; `< 2^63` for `l`) is
printed by `format_literal` as `Display` of the payload followed by the kind's suffix, and that text — followed by the end
of the text or by any byte that is not an identifier character and not `.` — is read by `token_intermediate` as exactly
one token: the integer literal of the same kind with the same value.  (A negative value is printed as `-` applied to the
magnitude by `generate_literal`, see `literal_tables_as_modelled`; the `-` is a token of its own.) -/
theorem emit_int_exact (k : Model.LitFormat.Kind) (ity : Option IntType) (hk : k.intType? = some ity) (v : Nat) (tok : Token)
    (hfit : mkIntToken? v ity = some tok) (hv : v < 2 ^ 64) (hs : k = .s64 → v < 2 ^ 63)
    (rest : Bytes) (hb : IntBoundary rest) (inc : Bool) :
    Model.LitFormat.fmtLiteral k false v [] [] = .ok (Model.LitFormat.fmtInt k v) ∧
    tokenIntermediate (Model.LitFormat.fmtInt k v ++ rest) inc = .ok (rest, tok) ∧ tok.intValue? = some (v : Int) := by
  refine ⟨?_, Model.LitFormat.fmtInt_lexes k ity hk v tok hfit hv hs rest hb inc, mkIntToken?_value hfit⟩
  cases k <;> simp [Model.LitFormat.Kind.intType?] at hk <;> rfl

/-- **emit_value_exact**: for every float kind (untyped, `h`, `f`, `L`), target, and finite non-negative stored value
`mag` (a binary64 pattern for the untyped and the `L` kind, a binary32 pattern for `f` and — as the code keeps half
literals in an `f32` — for `h`), the text `format_literal` prints, followed by the end of the text or any byte that is not
an identifier character and not `#`, is read by `token_intermediate` as exactly one token: the float literal of the same
kind carrying the same bits.  The assumptions are about Rust's `Display` (`{v}`) only: it writes plain decimal digits
`L[.R]`, with a `.` exactly when the value is not whole (`htext`, `hdot`), and

* `hrt` — for the double-precision kinds, and for whole singles (those above `2^63` are printed `<Display>.0`): the nearest
  double of the digits, narrowed once for a single — i.e. read the way the lexer reads (`lex_float_nearest`) — is the value;
* for a single that is not whole **no such assumption is made any more** (fix 265a080): `format_literal` itself tests
  whether its `Display` digits read back through the double (`f32_digits_round_twice`, model `roundTwice?`), and when they
  do not (`0x15ae43fd`, see `emit_f32_double_rounding_repaired`) it prints `Display` of the same value as a double, of which
  `h64` assumes what `hrt` assumes of a double: plain digits `L2.R2` whose nearest double is that double (`widen32 mag`,
  the exact value of the single); narrowing it once gives the single back (`narrow32_widen`, proved for zero, subnormal and
  normal singles).

The correspondence run checks these assumptions bit for bit on every generated value and, in the thorough tier, `hrt` on
all 2^31 singles.  Values printed through `v as i64` need no assumption: `emit_whole_value_exact`. -/
theorem emit_value_exact (k : Model.LitFormat.Kind) (ty : Option FloatType) (hk : k.floatType? = some ty) (msl : Bool)
    (mag : Nat) (hfin : mag < k.fmt.infBits) (hmax : ¬ (k = .f32 ∧ msl = true ∧ mag = k.fmt.infBits - 1))
    (disp : Bytes) (L R : List Nat) (hLne : L ≠ []) (hdig : ∀ d ∈ L ++ R, d < 10)
    (htext : disp = Model.LitFormat.plainDec L R)
    (hdot : R = [] ↔ (Model.LitFormat.wholeValue? k.fmt mag).isSome)
    (hrt : k.fmt = Dec2Bin.binary64 ∨ (Model.LitFormat.wholeValue? k.fmt mag).isSome →
      narrowOnce ty (Dec2Bin.nearest64 (L ++ R) (0 - (R.length : Nat))) = mag)
    (disp64 : Bytes) (L2 R2 : List Nat)
    (h64 : k.fmt = Dec2Bin.binary32 → Model.LitFormat.wholeValue? k.fmt mag = none →
      Dec2Bin.narrow32 (Dec2Bin.nearest64 (L ++ R) (0 - (R.length : Nat))) ≠ mag →
      L2 ≠ [] ∧ R2 ≠ [] ∧ (∀ d ∈ L2 ++ R2, d < 10) ∧ disp64 = Model.LitFormat.plainDec L2 R2 ∧
      Dec2Bin.nearest64 (L2 ++ R2) (0 - (R2.length : Nat)) = Model.LitFormat.widen32 mag)
    (text : Bytes) (h : Model.LitFormat.fmtFloat k msl mag disp disp64 = .ok text) (rest : Bytes) (hb : Boundary rest)
    (inc : Bool) :
    tokenIntermediate (text ++ rest) inc = .ok (rest, Model.LitFormat.floatTok k mag) ∧
    (Model.LitFormat.floatTok k mag).floatBits? = some mag :=
  ⟨Model.LitFormat.fmtFloat_lexes k ty hk msl mag hfin hmax disp L R hLne hdig htext hdot hrt disp64 L2 R2 h64 text h
     rest hb inc,
   by cases k <;> rfl⟩

/-- **emit_whole_value_exact** (no assumption): a finite non-negative float whose value is a whole number up to `2^63` —
`0.0`, `1.0f`, `255.0h`, `16777216.0L`, … — is printed as `<integer>.0<suffix>` and read back as the same kind with the
same bits; `2^63` itself is printed as `9223372036854775807.0` (`as i64` saturates) and still reads back as `2^63`. -/
theorem emit_whole_value_exact (k : Model.LitFormat.Kind) (ty : Option FloatType) (hk : k.floatType? = some ty) (msl : Bool)
    (mag n : Nat) (hfin : mag < k.fmt.infBits) (hmax : ¬ (k = .f32 ∧ msl = true ∧ mag = k.fmt.infBits - 1))
    (hw : Model.LitFormat.wholeValue? k.fmt mag = some n) (hn : n ≤ 2 ^ 63) (disp disp64 : Bytes)
    (rest : Bytes) (hb : Boundary rest) (inc : Bool) :
    ∃ text, Model.LitFormat.fmtFloat k msl mag disp disp64 = .ok text ∧
      tokenIntermediate (text ++ rest) inc = .ok (rest, Model.LitFormat.floatTok k mag) :=
  Model.LitFormat.fmtFloat_whole_lexes k ty hk msl mag n hfin hmax hw hn disp disp64 rest hb inc

/-- **emit_infinity_exact**: `+∞` of every float kind is printed for HLSL as `1.#INF<suffix>` and read back as `+∞` of
the same kind.  (For Metal it is printed as the name `INFINITY`, and the largest single as `FLT_MAX`: not literals; the
run maps the names to their values.) -/
theorem emit_infinity_exact (k : Model.LitFormat.Kind) (ty : Option FloatType) (hk : k.floatType? = some ty)
    (disp disp64 : Bytes) (rest : Bytes) (hb : Boundary rest) (inc : Bool) :
    ∃ text, Model.LitFormat.fmtFloat k false k.fmt.infBits disp disp64 = .ok text ∧
      tokenIntermediate (text ++ rest) inc = .ok (rest, Model.LitFormat.floatTok k k.fmt.infBits) :=
  Model.LitFormat.fmtFloat_inf_lexes k ty hk disp disp64 rest hb inc

/-- non-vacuity of `emit_value_exact`: the single `0.1f` (`0x3dcccccd`, `Display` = `0.1`, as a double
`0.10000000149011612`): the hypotheses hold (its digits do not round twice, so `h64` asks nothing) and the printed text
`0.1f;` lexes to `Float32 0x3dcccccd` followed by `;` -/
example : Dec2Bin.narrow32 (Dec2Bin.nearest64 ([0] ++ [1]) (0 - 1)) = 0x3dcccccd ∧
    Model.LitFormat.wholeValue? Dec2Bin.binary32 0x3dcccccd = none ∧
    Model.LitFormat.plainDec [0] [1] = [48, 46, 49] ∧
    Model.LitFormat.roundTwice? false 0x3dcccccd [48, 46, 49] = some false ∧
    (Model.LitFormat.fmtFloat .f32 false 0x3dcccccd [48, 46, 49]
      [48, 46, 49, 48, 48, 48, 48, 48, 48, 48, 49, 52, 57, 48, 49, 49, 54, 49, 50]).toOption = some [48, 46, 49, 102] ∧
    (tokenIntermediate [48, 46, 49, 102, 59] false).toOption = some ([59], .litFloat32 0x3dcccccd) := by decide
/-- non-vacuity of the `<Display>.0` arm of `emit_value_exact`: `1e30f` (`0x7149f2ca`, `Display` = 1 followed by 30 zeros) -/
example : Dec2Bin.narrow32 (Dec2Bin.nearest64 (1 :: List.replicate 30 0) 0) = 0x7149f2ca ∧
    (Model.LitFormat.wholeValue? Dec2Bin.binary32 0x7149f2ca).isSome = true ∧
    (Model.LitFormat.fmtFloat .f32 false 0x7149f2ca (49 :: List.replicate 30 48) []).toOption =
      some (49 :: List.replicate 30 48 ++ [46, 48, 102]) ∧
    (tokenIntermediate (49 :: List.replicate 30 48 ++ [46, 48, 102, 41]) false).toOption =
      some ([41], .litFloat32 0x7149f2ca) := by decide
/-- non-vacuity of `emit_whole_value_exact`: `255.0h` and the saturating `2^63` as a double -/
example : (Model.LitFormat.fmtFloat .f16 true 0x437f0000 [] []).toOption = some [50, 53, 53, 46, 48, 104] ∧
    (tokenIntermediate [50, 53, 53, 46, 48, 104] false).toOption = some ([], .litFloat16 0x437f0000) := by decide
/-- non-vacuity of `emit_int_exact`: `4294967295u)` -/
example : Model.LitFormat.fmtInt .u32 4294967295 = [52, 50, 57, 52, 57, 54, 55, 50, 57, 53, 117] ∧
    (tokenIntermediate ([52, 50, 57, 52, 57, 54, 55, 50, 57, 53, 117] ++ [41]) false).toOption = some ([41], .litIntU32 4294967295) := by
  decide

/-- **emit_negative_exact**: a finite negative float (sign bit set; Rust's `Display` writes `-` and the digits of the
magnitude, for the value itself and for the value as a double alike; `f32_digits_round_twice` gives the same answer as
for the magnitude) is printed as `-` followed by exactly the text of its magnitude, and `token_intermediate` reads that `-` as
the token `Minus` and leaves the magnitude's text — to which `emit_value_exact` applies — untouched.  (`-2^63` is printed
exactly, `-9223372036854775808.0`, while `+2^63` saturates: excluded here, covered by the run.)  Negative integers are
built as `Minus` applied to the magnitude by `generate_literal` itself (`literal_tables_as_modelled`). -/
theorem emit_negative_exact (k : Model.LitFormat.Kind) (ty : Option FloatType) (hk : k.floatType? = some ty) (msl : Bool)
    (mag : Nat) (hfin : mag < k.fmt.infBits) (hmax : ¬ (k = .f32 ∧ msl = true ∧ mag = k.fmt.infBits - 1))
    (h63 : Model.LitFormat.wholeValue? k.fmt mag ≠ some (2 ^ 63)) (disp disp64 t : Bytes)
    (ht : Model.LitFormat.fmtFloat k msl mag disp disp64 = .ok t) :
    Model.LitFormat.fmtFloat k msl (Model.LitFormat.signBit k.fmt + mag) (45 :: disp) (45 :: disp64) = .ok (45 :: t) ∧
    ∀ (d : UInt8) (r rest : Bytes) (inc : Bool), t = d :: r → 48 ≤ d.toNat ∧ d.toNat ≤ 57 →
      tokenIntermediate (45 :: t ++ rest) inc = .ok (t ++ rest, .simple .Minus) := by
  refine ⟨?_, ?_⟩
  · rw [Model.LitFormat.fmtFloat_negative k ty hk msl mag hfin hmax h63 disp disp64, ht]
  · intro d r rest inc htd hd
    subst htd
    exact minus_before_digit d (r ++ rest) hd inc

/-- non-vacuity: `-0.1f` (`0xbdcccccd`): printed `-0.1f`, read as `Minus`, `Float32 0x3dcccccd` -/
example : (Model.LitFormat.fmtFloat .f32 false 0xbdcccccd [45, 48, 46, 49] []).toOption = some [45, 48, 46, 49, 102] ∧
    (tokenIntermediate [45, 48, 46, 49, 102] false).toOption = some ([48, 46, 49, 102], .simple .Minus) := by decide

/-- the `Display` text of the single `0x15ae43fd`: `0.00000000000000000000000007038531` -/
def disp15ae43fd : Bytes := [48, 46] ++ List.replicate 25 48 ++ [55, 48, 51, 56, 53, 51, 49]
/-- the `Display` text of the same value as a double: `0.00000000000000000000000007038530691851209` -/
def disp15ae43fdWide : Bytes :=
  [48, 46] ++ List.replicate 25 48 ++ [55, 48, 51, 56, 53, 51, 48, 54, 57, 49, 56, 53, 49, 50, 48, 57]

/-- **emit_f32_double_rounding_repaired** (positive statement after fix 265a080; until then this was the negation witness
`emit_f32_double_rounding_witness`: the printed text `0.00000000000000000000000007038531f` lexed to `0x15ae43fe`).  The
single `0x15ae43fd` has the shortest round-trip decimal `7.038531e-26` — read directly as a single it is the nearest — but
the lexer reads a literal through the nearest double and narrows once, and the nearest double of that decimal is the exact
midpoint of `0x15ae43fd` and `0x15ae43fe`, which ties to the even neighbour: those digits still round twice (first three
conjuncts; `f32_digits_round_twice` = `roundTwice?` says so).  `format_literal` therefore prints, for the `f` and the `h`
kind, for both targets and for both signs, `Display` of the same value as a double, `…07038530691851209`; those digits
name the double `0x3ab5c87fa0000000` = the exact value of the single (`widen32`), and the printed text is read back by
`token_intermediate` as one literal of the same kind holding `0x15ae43fd` again.  With `emit_value_exact` (whose
hypothesis about the `Display` digits of a non-whole single is gone) no single is left for which the output differs. -/
theorem emit_f32_double_rounding_repaired :
    Dec2Bin.nearest32 [7, 0, 3, 8, 5, 3, 1] (-32) = 0x15ae43fd ∧
    Dec2Bin.narrow32 (Dec2Bin.nearest64 [7, 0, 3, 8, 5, 3, 1] (-32)) = 0x15ae43fe ∧
    Model.LitFormat.roundTwice? false 0x15ae43fd disp15ae43fd = some true ∧
    Model.LitFormat.widen32 0x15ae43fd = 0x3ab5c87fa0000000 ∧
    Dec2Bin.nearest64 [7, 0, 3, 8, 5, 3, 0, 6, 9, 1, 8, 5, 1, 2, 0, 9] (-41) = 0x3ab5c87fa0000000 ∧
    (∀ k ∈ [Model.LitFormat.Kind.f16, Model.LitFormat.Kind.f32], ∀ msl ∈ [true, false],
      (Model.LitFormat.fmtFloat k msl 0x15ae43fd disp15ae43fd disp15ae43fdWide).toOption =
        some (disp15ae43fdWide ++ k.suffix) ∧
      (Model.LitFormat.fmtFloat k msl 0x95ae43fd (45 :: disp15ae43fd) (45 :: disp15ae43fdWide)).toOption =
        some (45 :: disp15ae43fdWide ++ k.suffix)) ∧
    (tokenIntermediate (disp15ae43fdWide ++ [102]) false).toOption = some ([], .litFloat32 0x15ae43fd) ∧
    (tokenIntermediate (disp15ae43fdWide ++ [104, 59]) false).toOption = some ([59], .litFloat16 0x15ae43fd) := by
  decide

/-! ## Part 6 — multi-file inputs: every token span and every lexer diagnostic lies inside its own file -/

open RsslVerif.Model.SourceMap in
/-- **multi_file_spans_in_file**: let the `SourceManager` hold any files `pre`, then `f`, then any files `post` (entry
file, included files, `<define>` files, `<scratch space>` files of `##` results — a file is a file).  Lexing `f` with
`TokenStream::new(contents, base_location)` gives tokens whose start and end locations `base + start`, `base + stop`
all decode (`get_file_offset_from_source_location`, `get_file_location`) to file `f` itself, at offsets
`start ≤ stop ≤ |f|` — never to a neighbouring file, whatever the neighbours contain — and to `f`'s name with the line
and column counted inside `f` alone. -/
theorem multi_file_spans_in_file (pre post : SourceManager) (f : SourceFile) (trailing debug : Bool) (ts : List PTok)
    (h : readToEnd f.contents trailing debug = .ok ts) :
    ∀ t ∈ ts, t.start ≤ t.stop ∧ t.stop ≤ f.contents.length ∧
      getFileOffset (pre ++ f :: post) (totalSlots pre + t.start) = some (pre.length, t.start) ∧
      getFileOffset (pre ++ f :: post) (totalSlots pre + t.stop) = some (pre.length, t.stop) ∧
      getFileLocation (pre ++ f :: post) (totalSlots pre + t.start) =
        .known f.name (lineCol f.contents t.start).line (lineCol f.contents t.start).col := by
  intro t ht
  obtain ⟨_, hb⟩ := chain_bounds (spans_tile h).chain
  obtain ⟨_, h2, h3⟩ := hb t ht
  have ds := decode_in_file pre post f t.start (by omega)
  have de := decode_in_file pre post f t.stop h3
  exact ⟨h2, h3, ds.1, de.1, ds.2⟩

open RsslVerif.Model.SourceMap in
/-- **multi_file_error_in_file**: a lexer diagnostic for file `f` of a multi-file manager is positioned inside `f`: its
location `base + offset` decodes to `f` at `offset ≤ |f|` and is printed with `f`'s name. -/
theorem multi_file_error_in_file (pre post : SourceManager) (f : SourceFile) (trailing debug : Bool) (k : Reason)
    (off : Nat) (h : readToEnd f.contents trailing debug = .error (.lexer k off)) :
    off ≤ f.contents.length ∧
      getFileOffset (pre ++ f :: post) (totalSlots pre + off) = some (pre.length, off) ∧
      getFileLocation (pre ++ f :: post) (totalSlots pre + off) =
        .known f.name (lineCol f.contents off).line (lineCol f.contents off).col := by
  have hle := error_pos_in_range h
  have d := decode_in_file pre post f off hle
  exact ⟨hle, d.1, d.2⟩

/-- non-vacuity: two files; the second one (`a<b`) starts at raw location 3; its token `<` at offset 1 is location 4 and
decodes to file 1, offset 1, line 1, column 2 -/
example : (readToEnd [97, 60, 98] true true).toOption.map (·.map fun t => (t.start, t.stop)) =
      some [(0, 1), (1, 2), (2, 3), (3, 3)] ∧
    Model.SourceMap.getFileOffset [⟨"m", [120, 10]⟩, ⟨"a.h", [97, 60, 98]⟩] (3 + 1) = some (1, 1) ∧
    Model.SourceMap.getFileLocation [⟨"m", [120, 10]⟩, ⟨"a.h", [97, 60, 98]⟩] (3 + 1) = .known "a.h" 1 2 := by
  decide +kernel

end RsslVerif.Thm.C10

import RsslVerif.Model.Layout
/-!
# Reference layouts for C19 (what "HLSL structured-buffer packing" and "Metal's struct layout rules" mean)

Independent of `Model.Layout.get`: plain `Nat` arithmetic, no accumulator, no op programs, no `u32`.

* HLSL structured-buffer packing: a scalar is aligned to its size, a vector to its *scalar's* size, a
  struct to its largest member; members are placed at the next multiple of their alignment; a struct's
  size is rounded up to its alignment; array stride = element size rounded up to the element's alignment
  (no 16-byte rule).
* Metal (MSL spec 2.2–2.4, non-packed types): a vector of 2 or 4 components has size = alignment =
  n × scalar; a 3-component vector occupies 4 components (`float3` is 16/16, `half3` 8/8); struct and
  array rules as in C++ (members at the next multiple of their alignment, struct size rounded up to the
  struct's alignment, array stride = element size which is already a multiple of its alignment).

* An empty struct occupies no bytes under HLSL packing and one byte in Metal (C++: every complete object
  type has size ≥ 1); its alignment is 1 in both.

Only types of the property's grid have a reference layout (`wf`): half/int/uint/float/double, vectors of
1–4 of them, enums (32-bit), arrays of at least one element, structs (empty ones included since /repo d25724e,
when `get_type_layout` learnt the Metal rule for them).
-/
namespace RsslVerif.Spec.Layout
open RsslVerif.Gen.LayoutTables RsslVerif.Model.Layout

/-- byte size of the scalars of the property's grid (0 for the others, which have no reference layout) -/
def bytes : Scalar → Nat
  | .Float16 => 2
  | .Int32 => 4
  | .UInt32 => 4
  | .Float32 => 4
  | .Float64 => 8
  | _ => 0

def sized (s : Scalar) : Bool := bytes s != 0

/-- least multiple of `a` that is `≥ x` -/
def roundUp (x a : Nat) : Nat := (x + a - 1) / a * a

/-- number of scalar slots a Metal vector of `n` components occupies -/
def metalLanes : Nat → Nat
  | 3 => 4
  | n => n

def vecSize (m : Mode) (s : Scalar) (n : Nat) : Nat :=
  match m with
  | .hlsl => n * bytes s
  | .metal => metalLanes n * bytes s

def vecAlign (m : Mode) (s : Scalar) (n : Nat) : Nat :=
  match m with
  | .hlsl => bytes s
  | .metal => metalLanes n * bytes s

mutual
def align (m : Mode) : Ty → Nat
  | .scalar s => bytes s
  | .vec s n => vecAlign m s n
  | .arr t _ => align m t
  | .struct ms => alignMax m ms
  | .enum u => bytes u
  | .other _ => 1
/-- largest member alignment (1 for no members) -/
def alignMax (m : Mode) : Tys → Nat
  | .nil => 1
  | .cons t ts => max (align m t) (alignMax m ts)
end

/-- size of a struct without members -/
def emptySize : Mode → Nat
  | .hlsl => 0
  | .metal => 1

mutual
/-- total size in bytes, including tail padding -/
def size (m : Mode) : Ty → Nat
  | .scalar s => bytes s
  | .vec s n => vecSize m s n
  | .arr t n => n * roundUp (size m t) (align m t)
  | .struct ms =>
    match ms with
    | .nil => emptySize m
    | .cons _ _ => roundUp (endOf m ms 0) (alignMax m ms)
  | .enum u => bytes u
  | .other _ => 0
/-- end of the last member when the members are laid out from cursor `c` -/
def endOf (m : Mode) : Tys → Nat → Nat
  | .nil, c => c
  | .cons t ts, c => endOf m ts (roundUp c (align m t) + size m t)
end

/-- byte offsets of the members, relative to the start of the struct, laid out from cursor `c` -/
def offsets (m : Mode) : Tys → Nat → List Nat
  | .nil, _ => []
  | .cons t ts, c => roundUp c (align m t) :: offsets m ts (roundUp c (align m t) + size m t)

/-- distance between consecutive array elements -/
def stride (m : Mode) (t : Ty) : Nat := roundUp (size m t) (align m t)

mutual
/-- types that have a reference layout -/
def wf : Ty → Bool
  | .scalar s => sized s
  | .vec s n => sized s && (1 ≤ n && n ≤ 4)
  | .arr t n => decide (1 ≤ n) && wf t
  | .struct ms => wfAll ms
  | .enum u => u == .Int32 || u == .UInt32
  | .other _ => false
def wfAll : Tys → Bool
  | .nil => true
  | .cons t ts => wf t && wfAll ts
end

/-! absolute byte offsets of every field below `t` placed at `base`, recursively, in declaration order
    (every array element is listed) -/
mutual
def fieldsAt (m : Mode) : Ty → Nat → List Nat
  | .arr t n, base =>
    (List.range n).flatMap fun k => (base + k * stride m t) :: fieldsAt m t (base + k * stride m t)
  | .struct ms, base => membersAt m ms base 0
  | _, _ => []
def membersAt (m : Mode) : Tys → Nat → Nat → List Nat
  | .nil, _, _ => []
  | .cons t ts, base, c =>
    (base + roundUp c (align m t)) :: (fieldsAt m t (base + roundUp c (align m t)) ++
      membersAt m ts base (roundUp c (align m t) + size m t))
end

structure Ref where
  size : Nat
  align : Nat
  /-- absolute offset of every field, recursively -/
  fields : List Nat
  deriving DecidableEq, Repr

def ref (m : Mode) (t : Ty) : Option Ref :=
  if wf t then some ⟨size m t, align m t, fieldsAt m t 0⟩ else none

/-- the reference calculator for HLSL structured-buffer packing -/
def hlslSB (t : Ty) : Option Ref := ref .hlsl t
/-- the reference calculator for Metal -/
def metal (t : Ty) : Option Ref := ref .metal t

/-! ### Agreement of the two layouts, structurally (same relative offsets at every level) -/
mutual
/-- every field below `t` has the same offset relative to the start of `t` under both rules -/
def agreeIn : Ty → Bool
  | .arr t n => n == 0 || ((n ≤ 1 || stride .hlsl t == stride .metal t) && agreeIn t)
  | .struct ms => offsets .hlsl ms 0 == offsets .metal ms 0 && agreeInAll ms
  | _ => true
def agreeInAll : Tys → Bool
  | .nil => true
  | .cons t ts => agreeIn t && agreeInAll ts
end

/-- what the property demands of an accepted element type: same total size, same offset for every
    field, recursively -/
def Agree (t : Ty) : Prop := size .hlsl t = size .metal t ∧ agreeIn t = true

instance (t : Ty) : Decidable (Agree t) := by unfold Agree; exact inferInstance

/-! ### Auxiliary measures used by the proofs -/
mutual
/-- number of bytes occupied by scalar data -/
def leaf : Ty → Nat
  | .scalar s => bytes s
  | .vec s n => n * bytes s
  | .arr t n => n * leaf t
  | .struct ms => leafAll ms
  | .enum u => bytes u
  | .other _ => 0
def leafAll : Tys → Nat
  | .nil => 0
  | .cons t ts => leaf t + leafAll ts
end

mutual
/-- every array length is a `u32` (`u32::try_from(count)` succeeds) -/
def lengthsFit : Ty → Bool
  | .arr t n => decide (n ≤ u32Max) && lengthsFit t
  | .struct ms => lengthsFitAll ms
  | _ => true
def lengthsFitAll : Tys → Bool
  | .nil => true
  | .cons t ts => lengthsFit t && lengthsFitAll ts
end

mutual
/-- no vector of two or more components and no empty struct: nothing the two rule sets treat differently -/
def vectorFree : Ty → Bool
  | .vec _ n => n == 1
  | .arr t _ => vectorFree t
  | .struct ms => (match ms with | .nil => false | .cons _ _ => true) && vectorFreeAll ms
  | _ => true
def vectorFreeAll : Tys → Bool
  | .nil => true
  | .cons t ts => vectorFree t && vectorFreeAll ts
end

end RsslVerif.Spec.Layout

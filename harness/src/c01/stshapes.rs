//! Exhaustive small *statement* shapes (every tier): every statement kind of `generate_statement` with empty and non-empty
//! bodies on either side, under conditions that compare floats, each on an argument grid with NaN, both zeros, infinities and
//! subnormals.  A float comparison is not a total order: `!(a < b)` is not `a >= b`, `a == a` can be false; an exporter that
//! "simplifies" a statement by such a law (seeded mutant C01-3: `if (c) {} else B` written as `if (<opposite of c>) B`)
//! changes the result exactly on these vectors.  Plus the scalar conversions on their edge values and statement attributes.
//!
//! The programs are C01.fn programs: the Lean model recomputes the exporter's tree and both semantics for each of them.

/// conditions over `float a, float b, int k` (name, text)
pub const CONDS: [(&str, &str); 18] = [
    ("lt", "a < b"),
    ("le", "a <= b"),
    ("gt", "a > b"),
    ("ge", "a >= b"),
    ("eq", "a == b"),
    ("ne", "a != b"),
    ("not-lt", "!(a < b)"),
    ("not-ge", "!(a >= b)"),
    ("self-eq", "a == a"),
    ("self-le", "b <= b"),
    ("and", "a < b && b >= a"),
    ("or", "a < b || a >= b"),
    ("float-lit", "a < 1.5"),
    ("float-int", "a <= k"),
    ("int", "k < 2"),
    ("cmp-eq-cmp", "(a < b) == (k < 2)"),
    // conditions with a side effect: an empty body does not make the statement removable
    ("side-effect", "k++ < 2"),
    ("side-effect-float", "(a += 1.0f) < b"),
];

/// the six ordering / equality comparisons and a negation: used for the full then x else product
const CORE: usize = 8;

/// bodies (name, text of the then-branch, text of the else-branch); the two sides write different values
pub const BODIES: [(&str, &str, &str); 7] = [
    ("empty-block", "{\n    }", "{\n    }"),
    ("empty-stmt", ";", ";"),
    ("nested-empty", "{\n        {\n        }\n    }", "{\n        {\n        }\n    }"),
    ("block-of-empty-stmt", "{\n        ;\n    }", "{\n        ;\n        ;\n    }"),
    ("block", "{\n        r += 1;\n    }", "{\n        r += 2;\n    }"),
    ("bare", "r += 1;", "r += 2;"),
    ("two", "{\n        r += 1;\n        g = r + 10;\n    }", "{\n        g = 7;\n        r += 2;\n    }"),
];

/// (a, b, k): NaN on either / both sides, ordered, equal, the two zeros, infinities, subnormal, negative NaN, FLT_MAX, 2^31
pub const GRID: [(u32, u32, u32); 16] = [
    (0x7fc0_0000, 0x3f80_0000, 0),
    (0x3f80_0000, 0x7fc0_0000, 1),
    (0x7fc0_0000, 0x7fc0_0000, 5),
    (0x3f80_0000, 0x4000_0000, 0),
    (0x4000_0000, 0x3f80_0000, 1),
    (0x3f80_0000, 0x3f80_0000, 0),
    (0x8000_0000, 0x0000_0000, 0),
    (0x0000_0000, 0x8000_0000, 5),
    (0x7f80_0000, 0x7fc0_0001, 1),
    (0xff80_0000, 0x7f80_0000, 0),
    (0x7f80_0000, 0x7f80_0000, 1),
    (0x0000_0001, 0x0000_0000, 0),
    (0xffc0_0000, 0xbf80_0000, 1),
    (0x7f7f_ffff, 0x7f80_0000, 0),
    (0x4f00_0000, 0x4f00_0000, 0x7fff_ffff),
    (0xbf80_0000, 0xc000_0000, 0xffff_fffe),
];

pub fn grid_text() -> String {
    GRID.iter().map(|(a, b, k)| format!("f:{:08x},f:{:08x},i:{:08x}", a, b, k)).collect::<Vec<_>>().join(";")
}

fn func(body: &str) -> String {
    format!("static int g = 0;\n\nint f1(float a, float b, int k)\n{{\n    int r = 0;\n{}\n    return r * 100 + g + k * 10000 + (a < b ? 1000000 : 0);\n}}\n", body)
}

/// statement forms with one condition `$C`; every loop terminates on every vector
const FORMS: [(&str, &str); 51] = [
    // ---- conditional expression / logic operators / conversions of the condition
    ("tern", "    r = ($C) ? 1 : 2;"),
    ("tern-vars", "    r = ($C) ? k : (k + 1);"),
    ("tern-nested", "    r = ($C) ? ((a > b) ? 1 : 2) : ((a < b) ? 3 : 4);"),
    ("and-then", "    r = (($C) && k < 2) ? 1 : 2;"),
    ("or-else", "    r = (k < 2 || ($C)) ? 1 : 2;"),
    ("cast-int", "    r = (int)($C);"),
    ("tern-select-operands", "    float m = ($C) ? a : b;\n    r = (m > 1.5f) ? 1 : 2;"),
    ("tern-select-swapped", "    float m = ($C) ? b : a;\n    r = (m == m) ? ((m >= 2.0f) ? 1 : 2) : 3;"),
    ("tern-bool-literals", "    bool t = ($C) ? true : false;\n    bool u = ($C) ? false : true;\n    r = (t ? 1 : 0) + (u ? 2 : 0);"),
    ("tern-float-01", "    float m = ($C) ? 1.0f : 0.0f;\n    r = (int)m;"),
    ("bool-local", "    bool t = $C;\n    r = t ? 3 : 4;"),
    ("if-not", "    if (!($C))\n    {\n        r = 1;\n    }"),
    ("if-eq-false", "    if (($C) == false)\n    {\n        r = 1;\n    }\n    else\n    {\n        r = 2;\n    }"),
    ("if-ne-true", "    if (($C) != true)\n    {\n    }\n    else\n    {\n        r = 2;\n    }"),
    // ---- loops with the condition inside the loop condition
    ("for-cond-and", "    for (int i = 0; ($C) && i < 3; ++i)\n    {\n        r += 1;\n    }"),
    ("for-and-cond-empty-body", "    for (int i = 0; i < 3 && ($C); r += ++i)\n        ;"),
    ("for-and-cond-empty-block", "    for (int i = 0; i < 3 && ($C); r += ++i)\n    {\n    }"),
    ("for-cond-or", "    for (int i = 0; ($C) || i < 2; ++i)\n    {\n        if (i > 3)\n        {\n            break;\n        }\n        r += i;\n    }"),
    ("for-no-init", "    int i = 0;\n    for (; ($C) && i < 2; )\n    {\n        i++;\n        r += 3;\n    }"),
    ("while-cond-and", "    while (($C) && k < 3)\n    {\n        k++;\n        r += 2;\n    }"),
    ("while-empty-stmt", "    while (k++ < 3 && ($C))\n        ;\n    r = k;"),
    ("while-empty-block", "    while (k++ < 3 && ($C))\n    {\n    }\n    r = k;"),
    ("do-cond", "    do\n    {\n        r += 1;\n    }\n    while (($C) && ++k < 3);"),
    ("do-empty-stmt", "    do\n        ;\n    while (++k < 3 && ($C));\n    r = k;"),
    ("do-empty-block", "    do\n    {\n    }\n    while (++k < 3 && ($C));\n    r = k;"),
    // ---- if / else with empty sides around jumps
    ("loop-empty-else-continue", "    for (int i = 0; i < 3; ++i)\n    {\n        if ($C)\n        {\n        }\n        else\n        {\n            continue;\n        }\n        r += 1;\n    }"),
    ("loop-emptystmt-else-break", "    for (int i = 0; i < 3; ++i)\n    {\n        if ($C)\n            ;\n        else\n            break;\n        r += 1;\n    }"),
    ("loop-continue-else-empty", "    for (int i = 0; i < 3; ++i)\n    {\n        if ($C)\n        {\n            continue;\n        }\n        else\n        {\n        }\n        r += 1;\n    }"),
    ("while-empty-else-break", "    while (k < 4)\n    {\n        k++;\n        if ($C)\n        {\n        }\n        else\n        {\n            break;\n        }\n        r += 1;\n    }"),
    ("do-empty-else-break", "    do\n    {\n        if ($C)\n        {\n        }\n        else\n        {\n            break;\n        }\n        r += 1;\n    }\n    while (++k < 3);"),
    ("empty-else-return", "    if ($C)\n    {\n    }\n    else\n    {\n        return 7;\n    }\n    r = 1;"),
    ("return-else-empty", "    if ($C)\n        return 5;\n    else\n    {\n    }\n    r = 1;"),
    // ---- nesting
    ("nested-then", "    if ($C)\n    {\n        if (a > b)\n        {\n        }\n        else\n        {\n            r += 1;\n        }\n    }\n    else\n    {\n    }"),
    ("else-if-chain", "    if ($C)\n    {\n    }\n    else if (a > b)\n    {\n    }\n    else\n    {\n        r += 3;\n    }"),
    ("else-nested-emptystmt", "    if ($C)\n    {\n    }\n    else\n    {\n        if (a > b)\n            ;\n        else\n            r += 4;\n    }"),
    ("outer-cond-inner-empty", "    if (a > b)\n    {\n    }\n    else\n    {\n        if ($C)\n        {\n        }\n        else\n        {\n            r += 5;\n        }\n        r += 10;\n    }"),
    ("dangling-else", "    if (k < 2)\n        if ($C)\n            ;\n        else\n            r += 6;"),
    // ---- switch
    ("switch-case", "    switch (k)\n    {\n        case 0:\n            if ($C)\n            {\n            }\n            else\n            {\n                r = 5;\n            }\n            break;\n        case 1:\n        {\n        }\n        default:\n            r += 2;\n    }"),
    ("switch-empty-case-stmt", "    switch (k)\n    {\n        case 0:\n            ;\n        case 1:\n            if ($C)\n                ;\n            else\n                r = 5;\n            break;\n        default:\n            break;\n    }"),
    ("switch-on-cond", "    switch ((int)($C))\n    {\n        case 0:\n            r = 1;\n            break;\n        case 1:\n            r = 2;\n            break;\n    }"),
    // ---- blocks
    ("block-empty", "    {\n    }\n    if ($C)\n    {\n        {\n        }\n        r += 1;\n    }"),
    ("block-cond", "    {\n        {\n            if ($C)\n            {\n            }\n            else\n                r += 1;\n        }\n    }"),
    // ---- statement attributes
    ("attr-branch-ifelse", "    [branch]\n    if ($C)\n    {\n    }\n    else\n    {\n        r += 2;\n    }"),
    ("attr-flatten-if", "    [flatten]\n    if ($C)\n    {\n        r += 1;\n    }"),
    ("attr-flatten-ifelse", "    [flatten]\n    if ($C)\n        ;\n    else\n        r += 2;"),
    ("attr-unroll-for", "    [unroll]\n    for (int i = 0; i < 2; ++i)\n    {\n        if ($C)\n        {\n        }\n        else\n        {\n            r += 1;\n        }\n    }"),
    ("attr-unroll-n-for", "    [unroll(2)]\n    for (int i = 0; ($C) && i < 2; ++i)\n    {\n        r += 1;\n    }"),
    ("attr-loop-while", "    [loop]\n    while (($C) && k < 3)\n    {\n        k++;\n        r += 2;\n    }"),
    ("attr-fastopt-do", "    [fastopt]\n    do\n    {\n        r += 1;\n    }\n    while (($C) && ++k < 3);"),
    ("attr-allow-uav-while", "    [allow_uav_condition]\n    while (k++ < 3 && ($C))\n    {\n        [branch]\n        if ($C)\n        {\n        }\n        else\n        {\n            r += 1;\n        }\n    }"),
    ("attr-branch-switch", "    [branch]\n    switch (k)\n    {\n        case 0:\n            [flatten]\n            if ($C)\n            {\n            }\n            else\n            {\n                r = 5;\n            }\n            break;\n        default:\n            r = 1;\n    }"),
];

/// (shape name, source, grid text)
pub fn stream() -> Vec<(String, String, String)> {
    let mut out = Vec::new();
    let grid = grid_text();
    // if / if-else: every pair of bodies under the comparisons; the remaining conditions with the empty-then shapes
    for (ci, (cn, c)) in CONDS.iter().enumerate() {
        for (tn, tt, _) in BODIES {
            out.push((format!("if[{}]:{}", cn, tn), func(&format!("    if ({})\n    {}", c, tt)), grid.clone()));
            for (en, _, et) in BODIES {
                let full = ci < CORE;
                let one_empty = matches!(tn, "empty-block" | "empty-stmt") != matches!(en, "empty-block" | "empty-stmt");
                if full || one_empty {
                    out.push((format!("ifelse[{}]:{}/{}", cn, tn, en), func(&format!("    if ({})\n    {}\n    else\n    {}", c, tt, et)), grid.clone()));
                }
            }
        }
        for (fname, f) in FORMS {
            out.push((format!("{}[{}]", fname, cn), func(&f.replace("$C", c)), grid.clone()));
        }
    }
    // conversions on their edge values (float -> int / uint / bool saturate, truncate, NaN -> 0; int -> float rounds)
    let fgrid = super::sx::FLOAT_EDGES.iter().enumerate().map(|(i, f)| format!("f:{:08x},i:{:08x},u:{:08x}", f, super::sx::INT_EDGES[i % super::sx::INT_EDGES.len()], super::sx::INT_EDGES[(i * 7 + 3) % super::sx::INT_EDGES.len()])).collect::<Vec<_>>().join(";");
    let conv = |ret: &str, e: &str| format!("{} f1(float a, int k, uint u)\n{{\n    return {};\n}}\n", ret, e);
    for (ret, e) in [
        ("int", "(int)a"),
        ("uint", "(uint)a"),
        ("bool", "(bool)a"),
        ("float", "(float)k"),
        ("float", "(float)u"),
        ("int", "(int)(float)k"),
        ("uint", "(uint)(float)u"),
        ("uint", "(uint)(int)a"),
        ("int", "(int)(uint)a"),
        ("float", "(float)(int)a"),
        ("float", "(float)(bool)a"),
        ("int", "k + a"),
        ("float", "u"),
        ("uint", "a"),
        ("bool", "a"),
        ("bool", "(int)a == k"),
        ("bool", "a == k"),
        ("bool", "(float)k < (float)u"),
        ("bool", "k < u"),
        ("int", "k >> u"),
        ("uint", "u << k"),
        ("int", "k << (k & 63)"),
        ("int", "k / (int)a"),
        ("uint", "u % (uint)a"),
        ("int", "-k"),
        ("int", "k / -1"),
        ("int", "k % -1"),
        // float constants at the edges of the format and of the printer
        ("float", "3.402823466e+38f"),
        ("float", "-3.402823466e+38f"),
        ("float", "1.17549435e-38f"),
        ("float", "1e-45f"),
        ("float", "1.4e-45f"),
        ("float", "16777217.0f"),
        ("float", "16777216.0f"),
        ("float", "0.1f"),
        ("float", "0.3f"),
        ("float", "123456789.0f"),
        ("float", "1.5e10f"),
        ("float", "2147483648.0f"),
        ("float", "4294967296.0f"),
        ("float", "-0.0f"),
        ("float", "1e39f"),
        ("float", "-1e39f"),
        ("float", "0.1"),
        ("float", "1e-50"),
        ("float", "1e300"),
        // the float whose shortest digits, read through a double (as rssl's lexer and other compilers do), name its
        // neighbour 0x15ae43fe: printed with the digits of the double since fix 265a080; its neighbours for contrast
        ("float", "7.038530691851209e-26f"),
        ("float", "-7.038530691851209e-26f"),
        ("float", "7.0385313e-26f"),
        ("float", "7.03853e-26f"),
        ("float", "a * 7.038530691851209e-26f"),
        ("bool", "a == 7.038530691851209e-26f"),
        ("bool", "a < 3.402823466e+38f"),
        ("bool", "a == 1e39f"),
        ("int", "(int)3000000000.0f"),
        ("uint", "(uint)-1.0f"),
        ("int", "(int)1e39f"),
        ("int", "2147483647 + 1"),
        ("uint", "4294967295u + u"),
        ("int", "-2147483648"),
        ("int", "k - 2147483648"),
    ] {
        out.push((format!("conv:{}", e), conv(ret, e), fgrid.clone()));
    }
    out
}

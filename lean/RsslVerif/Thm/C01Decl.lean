import RsslVerif.Thm.C01
import RsslVerif.Model.GenHlslDecl
/-!
# C01 — modules with function prototypes

`gen_sem_program` speaks about the list of function *definitions*.  A source module may also declare a function any number
of times (before / after its definition, before its uses only, …); the exporter prints each such declaration from the
function's implementation with `body = None`.  These theorems extend the program theorem to modules with prototypes.
-/
namespace RsslVerif.Thm.C01
open RsslVerif.Gen.HlslGenTables RsslVerif.Model RsslVerif.Model.GenHlsl RsslVerif.Spec.Sem RsslVerif.Lemmas.GenSem

/-- the textual facts the prototype model rests on (re-extracted from `generate_root_definition`, `generate_function`,
`generate_function_inner` on every run) -/
theorem declaration_arms_as_modelled : declarationArmsAsModelled = true := by decide

/-- the definitions among the emitted items are exactly `genProg` of the module's implementations, in order: prototypes add
nothing to and remove nothing from what a C front end runs -/
theorem definitions_of_module {cx : Ctx} : ∀ (items : List RootItem) (m : List AstItem),
    genModule cx items = .ok m → genProg cx (implsOf items) = .ok (definitionsOf m) := by
  intro items
  induction items with
  | nil => intro m h; simp [genModule] at h; subst h; rfl
  | cons it r ih =>
    intro m h
    unfold genModule at h
    split at h
    · cases h
    · rename_i a ha
      split at h
      · cases h
      · rename_i as has
        injection h with h; subst h
        have ihr := ih as has
        cases it with
        | decl impl =>
          cases impl with
          | none => simp [genItem] at ha
          | some fn =>
            simp only [genItem] at ha
            cases hrt : typeName fn.ret with
            | error e => simp [hrt] at ha
            | ok rt =>
              cases hps : genParams cx fn.params with
              | error e => simp [hrt, hps] at ha
              | ok ps =>
                simp [hrt, hps] at ha
                subst ha
                simpa [implsOf, definitionsOf] using ihr
        | defn fn =>
          simp only [genItem] at ha
          cases hf : genFunc cx fn with
          | error e => simp [hf] at ha
          | ok f =>
            simp [hf] at ha
            subst ha
            simp [implsOf, definitionsOf, genProg, hf, ihr]

/-- **modules with prototypes**: the emitted module — definitions and prototypes in any number and order — run by the
C-like semantics computes what the typed module computes, at every call depth, every loop fuel, for every `Prim`. -/
theorem gen_sem_module {env : Ast.Env} {cx : Ctx} (hag : Agree cx env)
    (items : List RootItem) (m : List AstItem) (hg : genModule cx items = .ok m)
    (hwt : ∀ fn ∈ implsOf items, Ir.wtStmts (Ir.sigOf (implsOf items)) cx.vty fn.ret none fn.body = true)
    (P : Prim) (fuel d : Nat) :
    Ast.phi P env (definitionsOf m) fuel d = Ir.phi P (implsOf items) fuel d :=
  gen_sem_program hag (implsOf items) (definitionsOf m) (definitions_of_module items m hg) hwt P fuel d

/-- **a prototype announces the signature of the definition**: whenever both can be generated, the item emitted for a
declaration of `fn` has the name, return type and parameters (names, directions, types, order) of the item emitted for
the definition of `fn`, and no body — so every redeclaration in the emitted module is consistent with the definition a
call resolves to. -/
theorem prototype_agrees_with_definition {cx : Ctx} (fn : Ir.Func) (p d : AstItem)
    (hp : genItem cx (.decl (some fn)) = .ok p) (hd : genItem cx (.defn fn) = .ok d) :
    p.signature = d.signature ∧ p.body = none ∧ d.body.isSome = true := by
  simp only [genItem] at hp hd
  cases hrt : typeName fn.ret with
  | error e => simp [hrt] at hp
  | ok rt =>
    cases hps : genParams cx fn.params with
    | error e => simp [hrt, hps] at hp
    | ok ps =>
      simp [hrt, hps] at hp
      subst hp
      cases hb : genStmts cx fn.body with
      | error e => simp [genFunc, hrt, hps, hb] at hd
      | ok b =>
        simp [genFunc, hrt, hps, hb] at hd
        subst hd
        simp [AstItem.signature]

/-- a prototype is exported even when the body could not be (the body is not generated for it), and a declared function
without implementation is the export error `FunctionNotDefined`, never a panic -/
theorem prototype_without_implementation_is_refused (cx : Ctx) :
    genItem cx (.decl none) = .error (.diag "FunctionNotDefined") := rfl

/-! ### non-vacuity -/
/-- `P; D; P` around the example function of `Thm.C01` (for-loop, inout parameter, static global, negative constant,
cast): three items are emitted, one of them a definition, and the typed module has the one implementation -/
example : (genModule cx0 [.decl (some fEx), .defn fEx, .decl (some fEx)]).toOption.map
      (fun m => (m.length, (definitionsOf m).length, m.map (fun it => it.body.isSome))) = some (3, 1, [false, true, false]) ∧
    implsOf [.decl (some fEx), .defn fEx, .decl (some fEx)] = [fEx] := ⟨by decide, rfl⟩
/-- …and the instance of `gen_sem_module` it yields -/
example (m : List AstItem) (h : genModule cx0 [.decl (some fEx), .defn fEx, .decl (some fEx)] = .ok m) (P : Prim) (fuel d : Nat) :
    Ast.phi P env0 (definitionsOf m) fuel d = Ir.phi P [fEx] fuel d :=
  gen_sem_module agree0 _ m h (by decide) P fuel d

end RsslVerif.Thm.C01

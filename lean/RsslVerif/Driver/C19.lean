import RsslVerif.Model.Layout
import RsslVerif.Driver.Util
/-!
Line-protocol front end of the C19 model.

`C19.check \t <use> \t <type>;<type>;…` → the verdict of `Model.Layout.checkAll` in the harness's
observation syntax (see harness/src/c19.rs for the type syntax).
-/
namespace RsslVerif.Driver.C19
open RsslVerif.Gen.LayoutTables RsslVerif.Model.Layout RsslVerif.Driver

def tokens (s : String) : List String :=
  let rec go (cs : List Char) (cur : List Char) (acc : List String) : List String :=
    let flush := if cur.isEmpty then acc else String.ofList cur.reverse :: acc
    match cs with
    | [] => flush.reverse
    | c :: r =>
      if c == '{' || c == '}' || c == '[' || c == ']' then go r [] (String.singleton c :: flush)
      else if c == ' ' then go r [] flush
      else go r (c :: cur) acc
  go s.toList [] []

def scalarOf (c : Char) : Option Scalar :=
  if c == 'h' then some .Float16 else if c == 'i' then some .Int32 else if c == 'u' then some .UInt32
  else if c == 'f' then some .Float32 else if c == 'd' then some .Float64
  else if c == 'b' then some .Bool else none

def digit? (c : Char) : Option Nat :=
  if '0' ≤ c ∧ c ≤ '9' then some (c.toNat - '0'.toNat) else none

def leafOf (w : String) : Option Ty :=
  if w == "ei" then some (.enum .Int32)
  else if w == "eu" then some (.enum .UInt32)
  else match w.toList with
    | [c] => (scalarOf c).map .scalar
    | [c, n] => do let s ← scalarOf c; let n ← digit? n; pure (.vec s n)
    | [c, _, 'x', _] => (scalarOf c).map fun _ => .other .Matrix
    | _ => none

mutual
partial def parseTy : List String → Option (Ty × List String)
  | "{" :: r => do
    let (ms, r) ← parseMembers r
    pure (.struct (Tys.ofList ms), r)
  | "[" :: n :: r => do
    let n ← n.toNat?
    let (t, r) ← parseTy r
    match r with
    | "]" :: r => pure (.arr t n, r)
    | _ => none
  | w :: r => (leafOf w).map fun t => (t, r)
  | [] => none
partial def parseMembers : List String → Option (List Ty × List String)
  | "}" :: r => some ([], r)
  | r => do
    let (t, r) ← parseTy r
    let (ts, r) ← parseMembers r
    pure (t :: ts, r)
end

def parseType (s : String) : Option Ty :=
  match parseTy (tokens s) with
  | some (t, []) => some t
  | _ => none

def isStruct : Ty → Bool
  | .struct _ => true
  | _ => false

/-- the diagnostic's location: structured-buffer globals always have one; a typed load/store is
    reported at the struct's definition (`get_type_location`), unknown for other types -/
def showIndex (use : String) (ts : List Ty) (i : Nat) : String :=
  if use == "sb" || use == "rwsb" then toString i
  else match ts[i]? with
    | some t => if isStruct t then toString i else "?"
    | none => "?"

def showVerdict (use : String) (ts : List Ty) : Verdict → String
  | .ok => "ok"
  | .unknown i => "unknown@" ++ showIndex use ts i
  | .mismatch i h m =>
    "mismatch@" ++ showIndex use ts i ++ " hlsl=" ++ toString h.size ++ "/" ++ toString h.align ++
      " metal=" ++ toString m.size ++ "/" ++ toString m.align
  | .panic msg => "panic:" ++ msg

def uses : List String := ["sb", "rwsb", "bload", "rwbload", "rwbstore", "baload", "rwbaload", "rwbastore"]

def handle (op : String) (args : List String) : String :=
  match op, args with
  | "C19.check", [use, tys] =>
    if !uses.contains use then "bad-request" else
    match sequenceOpt ((tys.splitOn ";").map parseType) with
    | some ts => showVerdict use ts (checkAll ts)
    | none => "bad-request"
  | _, _ => "unsupported-op"

end RsslVerif.Driver.C19

import RsslVerif.Lemmas.Dec2Bin
/-!
# `nearestRat` satisfies `IsNearestEven`

Everything is compared in units of `2^emin`, where every value of the format is a whole number.
-/
namespace RsslVerif.Spec.Dec2Bin

theorem absDiff_mul_left (c a b : Nat) : absDiff (c * a) (c * b) = c * absDiff a b := by
  unfold absDiff
  rw [Nat.mul_add, Nat.mul_sub, Nat.mul_sub]

theorem absDiff_mul_right (c a b : Nat) : absDiff (a * c) (b * c) = absDiff a b * c := by
  rw [Nat.mul_comm a c, Nat.mul_comm b c, absDiff_mul_left, Nat.mul_comm]

/-- `x / 2^emin` against `x / 2^q`: the former is `2^(q-emin)` times the latter -/
theorem scale_rel (f : Fmt) (N M : Nat) (q : Int) (hq : f.emin ≤ q) :
    (scale N M f.emin).1 * (scale N M q).2 =
      (scale N M q).1 * 2 ^ (q - f.emin).toNat * (scale N M f.emin).2 := by
  rw [scale_eq, scale_eq]
  dsimp only
  have e : (-f.emin).toNat + q.toNat = (-q).toNat + (q - f.emin).toNat + f.emin.toNat := by omega
  have h1 : N * 2 ^ (-f.emin).toNat * (M * 2 ^ q.toNat) = N * M * 2 ^ ((-f.emin).toNat + q.toNat) := by
    rw [Nat.pow_add]; ac_rfl
  have h2 : N * 2 ^ (-q).toNat * 2 ^ (q - f.emin).toNat * (M * 2 ^ f.emin.toNat) =
      N * M * 2 ^ ((-q).toNat + (q - f.emin).toNat + f.emin.toNat) := by
    rw [Nat.pow_add, Nat.pow_add]; ac_rfl
  rw [h1, h2, e]

/-- the heart: with `m` the ties-to-even rounding of `A / B` (and `2^(p-1) ≤ ⌊A/B⌋` when a finer grid exists),
no `m' · 2^j'` (`m' < 2^p`) is closer to `A · 2^j / B` than `m · 2^j` -/
theorem core_nearest (p A B m' j j' : Nat) (hB : 0 < B) (hp : 1 ≤ p) (hm' : m' < 2 ^ p)
    (hnorm : 0 < j → 2 ^ (p - 1) ≤ A / B) :
    2 ^ j * absDiff A (roundQuot A B * B) ≤ absDiff (A * 2 ^ j) (m' * 2 ^ j' * B) := by
  by_cases hj : j ≤ j'
  · -- coarser or equal grid: m'·2^j' = k·2^j
    have e : 2 ^ j' = 2 ^ (j' - j) * 2 ^ j := by rw [← Nat.pow_add]; congr 1; omega
    have e2 : m' * 2 ^ j' * B = 2 ^ j * (m' * 2 ^ (j' - j) * B) := by rw [e]; ac_rfl
    rw [e2, Nat.mul_comm A (2 ^ j), absDiff_mul_left]
    apply Nat.mul_le_mul (Nat.le_refl _)
    have := roundQuot_nearest A B (m' * 2 ^ (j' - j)) hB
    unfold absDiff; omega
  · -- finer grid
    have hlt : j' < j := by omega
    have e : 2 ^ j = 2 ^ j' * 2 ^ (j - j') := by rw [← Nat.pow_add]; congr 1; omega
    have hT : 2 ≤ 2 ^ (j - j') := by
      have : 2 ^ 1 ≤ 2 ^ (j - j') := Nat.pow_le_pow_right (by omega) (by omega)
      simpa using this
    have hh := roundQuot_half A B hB
    obtain ⟨h1, h2⟩ := finer_grid_not_closer p A B (roundQuot A B) m' (2 ^ (j - j')) hB hp
      (hnorm (by omega)) hm' hT hh
    have e3 : A * 2 ^ j = 2 ^ j' * (A * 2 ^ (j - j')) := by rw [e]; ac_rfl
    have e4 : m' * 2 ^ j' * B = 2 ^ j' * (B * m') := by ac_rfl
    have e5 : 2 ^ j * absDiff A (roundQuot A B * B) =
        2 ^ j' * (absDiff A (roundQuot A B * B) * 2 ^ (j - j')) := by rw [e]; ac_rfl
    rw [e3, e4, absDiff_mul_left, e5]
    apply Nat.mul_le_mul (Nat.le_refl _)
    have h3 : 2 * (absDiff A (roundQuot A B * B) * 2 ^ (j - j')) =
        ((2 * A - 2 * (roundQuot A B * B)) + (2 * (roundQuot A B * B) - 2 * A)) * 2 ^ (j - j') := by
      rw [← Nat.mul_assoc]; congr 1; unfold absDiff; omega
    unfold absDiff at h3 ⊢
    omega

/-- arithmetic core of `encode_lt_inf_iff`: `P = 2^(p-1)`, `E = 2^ebits`, `j = q - emin` -/
theorem encode_lt_inf_core (P E j m : Nat) (hP : 0 < P) (hE : 4 ≤ E) (hm : m ≤ 2 * P) (hnorm : 0 < j → P ≤ m) :
    j * P + m < (E - 1) * P ↔ m * 2 ^ j < 2 * P * 2 ^ (E - 3) := by
  by_cases hj0 : j = 0
  · subst hj0
    simp only [Nat.zero_mul, Nat.zero_add, Nat.pow_zero, Nat.mul_one]
    have h1 : m < (E - 1) * P := by
      have : 3 * P ≤ (E - 1) * P := Nat.mul_le_mul (by omega) (Nat.le_refl _)
      omega
    have h2 : m < 2 * P * 2 ^ (E - 3) := by
      have h3 : 2 ^ 1 ≤ 2 ^ (E - 3) := Nat.pow_le_pow_right (by omega) (by omega)
      have h4 : 2 * P * 2 ^ 1 ≤ 2 * P * 2 ^ (E - 3) := Nat.mul_le_mul (Nat.le_refl _) h3
      simp only [Nat.pow_one] at h4
      omega
    exact ⟨fun _ => h2, fun _ => h1⟩
  · have hmn : P ≤ m := hnorm (by omega)
    by_cases hmtop : m = 2 * P
    · -- carry: the value is 2^p · 2^q
      subst hmtop
      constructor
      · intro h
        have hjle : j + 2 < E - 1 := by
          apply Nat.lt_of_mul_lt_mul_right (a := P)
          rw [Nat.add_mul]; omega
        have hpow : 2 ^ j < 2 ^ (E - 3) := Nat.pow_lt_pow_right (by omega) (by omega)
        exact Nat.mul_lt_mul_of_le_of_lt (Nat.le_refl _) hpow (by omega)
      · intro h
        have hlt : 2 ^ j < 2 ^ (E - 3) := Nat.lt_of_mul_lt_mul_left (a := 2 * P) h
        have hjlt : j < E - 3 := by
          apply Nat.lt_of_not_le
          intro hge
          have := Nat.pow_le_pow_right (n := 2) (by omega) hge
          omega
        have h5 : (j + 3) * P ≤ (E - 1) * P := Nat.mul_le_mul (by omega) (Nat.le_refl _)
        rw [Nat.add_mul] at h5
        omega
    · have hmlt : m < 2 * P := by omega
      constructor
      · intro h
        have hjle : j + 1 < E - 1 := by
          apply Nat.lt_of_mul_lt_mul_right (a := P)
          rw [Nat.add_mul, Nat.one_mul]; omega
        have hpow : 2 ^ j ≤ 2 ^ (E - 3) := Nat.pow_le_pow_right (by omega) (by omega)
        calc m * 2 ^ j < 2 * P * 2 ^ j := Nat.mul_lt_mul_of_lt_of_le hmlt (Nat.le_refl _) (two_pow_pos _)
          _ ≤ 2 * P * 2 ^ (E - 3) := Nat.mul_le_mul (Nat.le_refl _) hpow
      · intro h
        have hjle : j ≤ E - 3 := by
          apply Nat.le_of_not_lt
          intro hgt
          have h1 : 2 ^ (E - 3 + 1) ≤ 2 ^ j := Nat.pow_le_pow_right (by omega) hgt
          rw [Nat.pow_succ] at h1
          have h2 : P * (2 ^ (E - 3) * 2) ≤ m * 2 ^ j := Nat.mul_le_mul hmn h1
          have h3 : P * (2 ^ (E - 3) * 2) = 2 * P * 2 ^ (E - 3) := by ac_rfl
          omega
        have h5 : (j + 2) * P ≤ (E - 1) * P := Nat.mul_le_mul (by omega) (Nat.le_refl _)
        rw [Nat.add_mul] at h5
        omega

/-- `encode` stays below the infinity pattern exactly when the value stays below `2^(emax+1)` -/
theorem encode_lt_inf_iff (f : Fmt) (hp : 2 ≤ f.p) (he : 2 ≤ f.ebits) (m : Nat) (q : Int) (hq : f.emin ≤ q)
    (hm : m ≤ 2 ^ f.p) (hnorm : f.emin < q → 2 ^ (f.p - 1) ≤ m) :
    encode f m q < f.infBits ↔ units f m q < overflowUnits f := by
  unfold encode Fmt.infBits units overflowUnits
  have hE : 4 ≤ 2 ^ f.ebits := by
    have : 2 ^ 2 ≤ 2 ^ f.ebits := Nat.pow_le_pow_right (by omega) he
    simpa using this
  have hpp : 2 ^ f.p = 2 * 2 ^ (f.p - 1) := by
    have : f.p = (f.p - 1) + 1 := by omega
    rw [this, Nat.pow_succ, Nat.mul_comm]; simp
  have hov : 2 ^ (f.p + 2 ^ f.ebits - 3) = 2 * 2 ^ (f.p - 1) * 2 ^ (2 ^ f.ebits - 3) := by
    have : f.p + 2 ^ f.ebits - 3 = f.p + (2 ^ f.ebits - 3) := by omega
    rw [this, Nat.pow_add, hpp]
  rw [hov]
  rw [hpp] at hm
  exact encode_lt_inf_core (2 ^ (f.p - 1)) (2 ^ f.ebits) (q - f.emin).toNat m (two_pow_pos _) hE hm
    (fun hj => hnorm (by omega))

/-- **nearest_correct**: `nearestRat` returns what IEEE 754 round-to-nearest-ties-to-even prescribes -/
theorem nearestRat_isNearestEven (f : Fmt) (hp : 2 ≤ f.p) (he : 2 ≤ f.ebits) (N M : Nat) (hN : 0 < N) (hM : 0 < M) :
    IsNearestEven f N M (nearestRat f N M) := by
  obtain ⟨hn1, hn2⟩ := chooseExp_norm f hp N M hN hM
  have hq := chooseExp_ge f N M
  generalize hqd : chooseExp f N M = q at *
  have hB := scale_pos N M q hM
  have hB0 := scale_pos N M f.emin hM
  have hrel := scale_rel f N M q hq
  generalize hAd : (scale N M q).1 = A at *
  generalize hBd : (scale N M q).2 = B at *
  generalize hA0d : (scale N M f.emin).1 = A0 at *
  generalize hB0d : (scale N M f.emin).2 = B0 at *
  generalize hjd : (q - f.emin).toNat = j at *
  have hquot : quotAt N M q = A / B := by unfold quotAt; rw [hAd, hBd]
  rw [hquot] at hn1 hn2
  -- the rounded significand
  have hmle : roundQuot A B ≤ 2 ^ f.p := by
    rcases roundQuot_cases A B with h | h <;> rw [h] <;> omega
  have hmnorm : f.emin < q → 2 ^ (f.p - 1) ≤ roundQuot A B := by
    intro h; have := hn2 h
    rcases roundQuot_cases A B with h | h <;> rw [h] <;> omega
  -- distances, multiplied by B
  have hdist : ∀ G', absDiff A0 (G' * B0) * B = B0 * absDiff (A * 2 ^ j) (G' * B) := by
    intro G'
    rw [← absDiff_mul_right, hrel]
    have e1 : A * 2 ^ j * B0 = B0 * (A * 2 ^ j) := by ac_rfl
    have e2 : G' * B0 * B = B0 * (G' * B) := by ac_rfl
    rw [e1, e2, absDiff_mul_left]
  have hdistm : absDiff A0 (roundQuot A B * 2 ^ j * B0) * B = B0 * (2 ^ j * absDiff A (roundQuot A B * B)) := by
    rw [hdist]
    congr 1
    have e2 : roundQuot A B * 2 ^ j * B = 2 ^ j * (roundQuot A B * B) := by ac_rfl
    rw [Nat.mul_comm A (2 ^ j), e2, absDiff_mul_left]
  have hhalf := roundQuot_half A B hB
  refine ⟨roundQuot A B, q, hq, by rw [hquot]; exact hn1, by rw [hquot]; exact hn2, hmle, hmnorm, ?_, ?_, ?_, ?_⟩
  · -- nearest
    intro m' q' hq' hm'
    unfold units
    rw [hjd, hA0d, hB0d]
    apply Nat.le_of_mul_le_mul_right _ hB
    rw [hdistm, hdist]
    apply Nat.mul_le_mul (Nat.le_refl _)
    exact core_nearest f.p A B m' j (q' - f.emin).toNat hB (by omega) hm'
      (fun hj => hn2 (by omega))
  · -- half a unit in the last place
    unfold units
    rw [hjd, hA0d, hB0d]
    apply Nat.le_of_mul_le_mul_right _ hB
    have : 2 * absDiff A0 (roundQuot A B * 2 ^ j * B0) * B = B0 * (2 ^ j * (2 * absDiff A (roundQuot A B * B))) := by
      rw [Nat.mul_assoc, hdistm]; ac_rfl
    rw [this]
    have e : 2 ^ j * B0 * B = B0 * (2 ^ j * B) := by ac_rfl
    rw [e]
    apply Nat.mul_le_mul (Nat.le_refl _)
    apply Nat.mul_le_mul (Nat.le_refl _)
    unfold absDiff; omega
  · -- ties to even
    unfold units
    rw [hjd, hA0d, hB0d]
    intro htie
    apply roundQuot_tie_even A B hB
    have h1 : 2 * absDiff A0 (roundQuot A B * 2 ^ j * B0) * B = 2 ^ j * B0 * B := by rw [htie]
    have h2 : 2 * absDiff A0 (roundQuot A B * 2 ^ j * B0) * B =
        (B0 * 2 ^ j) * (2 * absDiff A (roundQuot A B * B)) := by
      rw [Nat.mul_assoc, hdistm]; ac_rfl
    have h3 : 2 ^ j * B0 * B = (B0 * 2 ^ j) * B := by ac_rfl
    rw [h2, h3] at h1
    have h4 := Nat.eq_of_mul_eq_mul_left (Nat.mul_pos hB0 (two_pow_pos j)) h1
    unfold absDiff at h4
    omega
  · -- overflow
    unfold nearestRat
    rw [if_neg (Nat.pos_iff_ne_zero.mp hN)]
    dsimp only
    rw [hqd, hAd, hBd]
    have hiff := encode_lt_inf_iff f hp he (roundQuot A B) q hq hmle hmnorm
    by_cases hlt : units f (roundQuot A B) q < overflowUnits f
    · rw [if_pos hlt]
      have := hiff.mpr hlt
      exact Nat.min_eq_left (Nat.le_of_lt this)
    · rw [if_neg hlt]
      have : ¬ encode f (roundQuot A B) q < f.infBits := fun h => hlt (hiff.mp h)
      exact Nat.min_eq_right (by omega)

end RsslVerif.Spec.Dec2Bin

import RsslVerif.Model.FixpointBridge
import RsslVerif.Lemmas.GenSemLit
import RsslVerif.Lemmas.FixpointElab
set_option linter.unusedSimpArgs false
/-!
Lemmas for C04, part 7: the commuting square between the exporter model of C01 (`GenHlsl.genExpr`, constants with
values, names from the `NameMap`) and the exporter shadow of `reelab_no_new_casts` (`Fixpoint.Unelab`, C03 types).
-/
namespace RsslVerif.Lemmas.FixpointBridge
open RsslVerif.Gen.RankTable RsslVerif.Gen.TypingTables
open RsslVerif.Model RsslVerif.Model.Conv RsslVerif.Model.Overload RsslVerif.Model.IrTyping RsslVerif.Model.Elab
open RsslVerif.Model.Fixpoint RsslVerif.Model.FixpointBridge RsslVerif.Model.GenHlsl RsslVerif.Lemmas.GenSem
open RsslVerif.Lemmas.FixpointElab

variable {Γ' : Env} {nm : Names}

theorem unop_minus : UnOp.ofName? (RsslVerif.Gen.HlslGenTables.UnaryOp.Minus).name = some .minus := by decide

theorem neg_int_form (m : Nat) (k : Scalar) (hk : rereadKind k = .intLiteral) :
    ∃ s, readBack nm (.un .Minus (.lit (.intUntyped m))) = some s ∧ Unelab Γ' (.lit k) s := by
  refine ⟨.un .minus (.lit .intLiteral), ?_, ?_⟩
  · simp [readBack, unop_minus, litKindOf, rereadTable]
  · have := Unelab.litNeg (Γ' := Γ') k (by rw [hk]; rfl)
    rw [hk] at this
    exact this

theorem plain_form (l : HlslAst.Lit) (k r : Scalar) (h1 : rereadTable (litKindOf l) = some r) (h2 : rereadKind k = r) :
    ∃ s, readBack nm (.lit l) = some s ∧ Unelab Γ' (.lit k) s := by
  refine ⟨.lit r, by simp [readBack, h1], ?_⟩
  rw [← h2]; exact .lit k

/-- `generate_literal` followed by `parse_literal` (and, for a negative constant, the `-` in front) is one of the two
    literal forms of `Unelab` -/
theorem genLiteral_back (c : Ir.Const) (a : HlslAst.Expr) (h : genLiteral c = .ok a) :
    ∃ s, readBack nm a = some s ∧ Unelab Γ' (.lit (constScalar c)) s := by
  cases c with
  | bool b =>
    simp [genLiteral, Ir.Const.kind, Const.intValue, findArm_bool, mkLit, Except.map] at h
    subst h
    exact plain_form _ _ .bool rfl (by simp [constScalar]; decide)
  | intLit v =>
    by_cases hneg : v < 0 ∧ -v ≤ u64Max
    · simp [genLiteral, Ir.Const.kind, Const.intValue, findArm_intLit_neg v hneg.1 hneg.2, negMagnitude] at h
      subst h
      exact neg_int_form _ _ (by simp [constScalar]; decide)
    · by_cases hpos : 0 ≤ v ∧ v ≤ u64Max
      · simp [genLiteral, Ir.Const.kind, Const.intValue, findArm_intLit_nonneg v hpos.1 hpos.2, mkLit, Except.map] at h
        subst h
        exact plain_form _ _ .intLiteral rfl (by simp [constScalar]; decide)
      · simp [genLiteral, Ir.Const.kind, Const.intValue, findArm_intLit_big v hneg hpos] at h
  | int32 v =>
    by_cases hneg : v.toInt < 0
    · simp only [genLiteral, Ir.Const.kind, Const.intValue, findArm_int32_neg _ hneg, negMagnitude] at h
      simp at h
      subst h
      exact neg_int_form _ _ (by simp [constScalar]; decide)
    · simp [genLiteral, Ir.Const.kind, Const.intValue, findArm_int32_nonneg _ hneg, mkLit, Except.map] at h
      subst h
      exact plain_form _ _ .intLiteral rfl (by simp [constScalar]; decide)
  | uint32 v =>
    simp [genLiteral, Ir.Const.kind, Const.intValue, findArm_uint, mkLit, Except.map] at h
    subst h
    exact plain_form _ _ .uInt32 rfl (by simp [constScalar]; decide)
  | float32 b =>
    simp [genLiteral, Ir.Const.kind, Const.intValue, findArm_f32, mkLit, Except.map] at h
    subst h
    exact plain_form _ _ .float32 rfl (by simp [constScalar]; decide)
  | floatLit b =>
    simp [genLiteral, Ir.Const.kind, Const.intValue, findArm_flit, mkLit, Except.map] at h
    subst h
    exact plain_form _ _ .floatLiteral rfl (by simp [constScalar]; decide)

/-! ## operators, type names -/

open RsslVerif.Gen.HlslGenTables (IntrinsicOp opForm) in
/-- one row of the comparison of the two readings of `generate_intrinsic_op`: `opSyn` (used by `Unelab`) is `opForm`
    with both operator enumerations translated by name -/
def opRow (o : IntrinsicOp) : Bool :=
  match iopOf o with
  | some i =>
    (match opForm o with
     | .unary u => (match UnOp.ofName? u.name with | some u' => decide (opSyn i = some (.un u')) | none => false)
     | .binary b => (match BinOp.ofName? b.name with | some b' => decide (opSyn i = some (.bin b')) | none => false)
     | .unexpected => decide (opSyn i = none))
  | none => true

open RsslVerif.Gen.HlslGenTables (IntrinsicOp) in
theorem opRow_all : ∀ o : IntrinsicOp, opRow o = true := by
  intro o; cases o <;> decide

open RsslVerif.Gen.HlslGenTables (IntrinsicOp opForm UnaryOp) in
theorem op_unary {o : IntrinsicOp} {i : IOp} {u : UnaryOp} (hio : iopOf o = some i) (hf : opForm o = .unary u) :
    ∃ u', UnOp.ofName? u.name = some u' ∧ opSyn i = some (.un u') := by
  have := opRow_all o
  simp only [opRow, hio, hf] at this
  split at this
  · rename_i u' hu; exact ⟨u', hu, by simpa using this⟩
  · simp at this

open RsslVerif.Gen.HlslGenTables (IntrinsicOp opForm) in
theorem op_binary {o : IntrinsicOp} {i : IOp} {b : RsslVerif.Gen.HlslGenTables.BinOp} (hio : iopOf o = some i)
    (hf : opForm o = .binary b) : ∃ b', BinOp.ofName? b.name = some b' ∧ opSyn i = some (.bin b') := by
  have := opRow_all o
  simp only [opRow, hio, hf] at this
  split at this
  · rename_i b' hb; exact ⟨b', hb, by simpa using this⟩
  · simp at this

theorem tyOfName_table : ∀ t : Ir.Ty,
    (match typeName t with | .ok n => decide (tyOfName n = some (eraseTy t)) | .error _ => true) = true := by
  intro t; cases t <;> decide

/-- a printed type name denotes the type it was printed for -/
theorem tyOfName_typeName (t : Ir.Ty) (n : String) (h : typeName t = .ok n) : tyOfName n = some (eraseTy t) := by
  have := tyOfName_table t
  rw [h] at this
  simpa using this

theorem litTyped_eraseTy (t : Ir.Ty) : litTyped (eraseTy t) = decide (t = .lit ∨ t = .flit) := by
  cases t <;> decide

theorem binop_sequence : BinOp.ofName? (RsslVerif.Gen.HlslGenTables.BinOp.Sequence).name = some .sequence := by decide

/-! ## the square -/

variable {cx : Ctx} {ix : Idx}

theorem eraseArgs_one {x : Ir.Expr} {as : IArgs} (h : eraseArgs ix (.cons x .nil) = some as) :
    ∃ x', erase ix x = some x' ∧ as = .cons x' .nil := by
  simp only [eraseArgs] at h
  split at h
  · rename_i x' r' hx hr
    simp at hr h
    exact ⟨x', hx, by rw [← h, hr]⟩
  · simp at h

theorem eraseArgs_two {x y : Ir.Expr} {as : IArgs} (h : eraseArgs ix (.cons x (.cons y .nil)) = some as) :
    ∃ x' y', erase ix x = some x' ∧ erase ix y = some y' ∧ as = .cons x' (.cons y' .nil) := by
  rw [eraseArgs] at h
  split at h
  · rename_i x' r' hx hr
    obtain ⟨y', hy, rfl⟩ := eraseArgs_one hr
    simp at h
    exact ⟨x', y', hx, hy, h.symm⟩
  · simp at h

mutual
/-- **bridge.**  For every expression of the C01 subset that has a C03 counterpart: reading back the tree the
    exporter model of C01 generates gives one of the trees `Unelab` describes for the erased expression. -/
theorem genExpr_back (hA : NamesAgree cx ix nm Γ') : ∀ (e : Ir.Expr) (i : IExpr) (a : HlslAst.Expr),
    erase ix e = some i → genExpr cx e = .ok a → ∃ s, readBack nm a = some s ∧ Unelab Γ' i s
  | .lit c, i, a, he, hg => by
    simp [erase] at he; subst he
    simp only [genExpr] at hg
    exact genLiteral_back c a hg
  | .var id, i, a, he, hg => by
    simp only [erase] at he
    cases hv : ix.var (.loc id) with
    | none => simp [hv] at he
    | some j =>
      simp [hv] at he; subst he
      simp [genExpr] at hg; subst hg
      exact ⟨.var j, by simp [readBack, hA.loc id j hv], .var j⟩
  | .global id, i, a, he, hg => by
    simp only [erase] at he
    cases hv : ix.var (.glob id) with
    | none => simp [hv] at he
    | some j =>
      simp [hv] at he; subst he
      simp [genExpr] at hg; subst hg
      exact ⟨.var j, by simp [readBack, hA.glob id j hv], .var j⟩
  | .tern c t f, i, a, he, hg => by
    simp only [erase] at he
    split at he
    · rename_i c' t' f' hc ht hf
      simp at he; subst he
      simp only [genExpr] at hg
      split at hg
      · simp at hg
      · rename_i ac hac
        split at hg
        · simp at hg
        · rename_i at' hat
          split at hg
          · simp at hg
          · rename_i af haf
            simp at hg; subst hg
            obtain ⟨sc, h1, u1⟩ := genExpr_back hA c c' ac hc hac
            obtain ⟨st, h2, u2⟩ := genExpr_back hA t t' at' ht hat
            obtain ⟨sf, h3, u3⟩ := genExpr_back hA f f' af hf haf
            exact ⟨.tern sc st sf, by simp [readBack, h1, h2, h3], .tern u1 u2 u3⟩
    · simp at he
  | .seq es, i, a, he, hg => by
    unfold erase at he
    split at he
    · rename_i x y
      split at he
      · rename_i x' y' hx hy
        simp at he; subst he
        simp only [genExpr, genSeq] at hg
        split at hg
        · simp at hg
        · rename_i ay hay
          split at hg
          · simp at hg
          · rename_i ax hax
            simp at hg; subst hg
            obtain ⟨sx, h1, u1⟩ := genExpr_back hA x x' ax hx hax
            obtain ⟨sy, h2, u2⟩ := genExpr_back hA y y' ay hy hay
            exact ⟨.bin .sequence sx sy, by simp [readBack, binop_sequence, h1, h2], .seq u1 u2⟩
      · simp at he
    · simp at he
  | .cast ty e, i, a, he, hg => by
    simp only [erase] at he
    cases hee : erase ix e with
    | none => simp [hee] at he
    | some e' =>
      simp [hee] at he; subst he
      simp only [genExpr] at hg
      split at hg
      · simp at hg
      · rename_i inner hin
        obtain ⟨s, h1, u1⟩ := genExpr_back hA e e' inner hee hin
        split at hg
        · rename_i hl
          simp at hg; subst hg
          exact ⟨s, h1, .castDrop (by rw [litTyped_eraseTy]; simpa using hl) u1⟩
        · rename_i hl
          split at hg
          · simp at hg
          · rename_i n hn
            simp at hg; subst hg
            exact ⟨.cast (eraseTy ty) s, by simp [readBack, tyOfName_typeName ty n hn, h1],
              .cast (by rw [litTyped_eraseTy]; simpa using hl) u1⟩
  | .call f args, i, a, he, hg => by
    simp only [erase] at he
    split at he
    · rename_i j as hj has
      simp at he; subst he
      simp only [genExpr] at hg
      split at hg
      · simp at hg
      · rename_i aas haas
        simp at hg; subst hg
        obtain ⟨ss, h1, u1⟩ := genArgs_back hA args as aas has haas
        obtain ⟨hf1, sg, hsg, hname⟩ := hA.func f j hj
        refine ⟨.call j ss, by simp [readBack, hf1, h1], ?_⟩
        have := Unelab.call (Γ' := Γ') hsg u1
        rw [hname] at this
        exact this
    · simp at he
  | .intr _ _ _ _, i, a, he, _ => by simp [erase] at he
  | .op o args, i, a, he, hg => by
    simp only [erase] at he
    split at he
    · rename_i io as hio has
      simp at he; subst he
      simp only [genExpr] at hg
      split at hg
      · simp at hg
      · rename_i u hform
        obtain ⟨u', hu, hsyn⟩ := op_unary hio hform
        split at hg
        · rename_i x
          split at hg
          · simp at hg
          · rename_i ax hax
            simp at hg; subst hg
            obtain ⟨x', hx, rfl⟩ := eraseArgs_one has
            obtain ⟨sx, h1, u1⟩ := genExpr_back hA x x' ax hx hax
            exact ⟨.un u' sx, by simp [readBack, hu, h1], .un hsyn u1⟩
        · simp at hg
      · rename_i b hform
        obtain ⟨b', hb, hsyn⟩ := op_binary hio hform
        split at hg
        · rename_i x y
          split at hg
          · simp at hg
          · rename_i ax hax
            split at hg
            · simp at hg
            · rename_i ay hay
              simp at hg; subst hg
              obtain ⟨x', y', hx, hy, rfl⟩ := eraseArgs_two has
              obtain ⟨sx, h1, u1⟩ := genExpr_back hA x x' ax hx hax
              obtain ⟨sy, h2, u2⟩ := genExpr_back hA y y' ay hy hay
              exact ⟨.bin b' sx sy, by simp [readBack, hb, h1, h2], .bin hsyn u1 u2⟩
        · simp at hg
    · simp at he
theorem genArgs_back (hA : NamesAgree cx ix nm Γ') : ∀ (es : Ir.Exprs) (is : IArgs) (as : HlslAst.Exprs),
    eraseArgs ix es = some is → genArgs cx es = .ok as → ∃ ss, readBackArgs nm as = some ss ∧ UnelabArgs Γ' is ss
  | .nil, is, as, he, hg => by
    simp [eraseArgs] at he; subst he
    simp [genArgs] at hg; subst hg
    exact ⟨.nil, by simp [readBackArgs], .nil⟩
  | .cons e r, is, as, he, hg => by
    simp only [eraseArgs] at he
    split at he
    · rename_i e' r' hee her
      simp at he; subst he
      simp only [genArgs] at hg
      split at hg
      · simp at hg
      · rename_i ae hae
        split at hg
        · simp at hg
        · rename_i ar har
          simp at hg; subst hg
          obtain ⟨s1, h1, u1⟩ := genExpr_back hA e e' ae hee hae
          obtain ⟨s2, h2, u2⟩ := genArgs_back hA r r' ar her har
          exact ⟨.cons s1 s2, by simp [readBackArgs, h1, h2], .cons u1 u2⟩
    · simp at he
end

end RsslVerif.Lemmas.FixpointBridge

"""Gen.EvalTable — per-arm arithmetic of typer/src/evaluator.rs (C13).

For every `IntrinsicOp` arm of `evaluate_operator` and every constant kind it scrutinises the generator
records *how* the result is computed, read off the source text: plain operator (debug-checked, can
panic), `wrapping_*`, `checked_*` mapped to `Err`, bitwise, comparison, ...  A change of e.g.
`wrapping_add` back to `+` therefore changes the table and breaks `Thm.C13.table_is_expected`.
The same is done for the arms of `evaluate_cast`, for the operator list that suppresses enum
re-wrapping and for `ScalarType::get_size`.
"""
import re


def register(gen, T):
    from rustsrc import (ExtractError, fn_body, impl_fn_body, enum_variants, first_match, match_arms,
                         normws, lean_str, matching)

    KINDS_FLOAT = {"FloatLiteral", "Float16", "Float32", "Float64"}
    ARITH = {"add": "add", "sub": "sub", "mul": "mul", "div": "div", "rem": "rem", "neg": "neg",
             "shl": "shl", "shr": "shr"}
    SYM = {"+": "add", "-": "sub", "*": "mul", "/": "div", "%": "rem", "<<": "shl", ">>": "shr"}
    CMP = {"<": "lt", "<=": "le", ">": "gt", ">=": "ge"}
    L = r"\*?(?:lhs|input)"
    R = r"(?:\*?rhs(?: as u32)?|1)"

    def strip_block(text):
        text = text.strip()
        if text.startswith("{") and matching(text, 0) == len(text) - 1:
            return text[1:-1].strip()
        return text

    def classify_value(expr, kind):
        """expr: the Rust expression computing the payload.  Returns the Lean `Rule` (without guard)."""
        e = normws(expr)
        m = re.fullmatch(rf"({L})\.(wrapping|checked)_(add|sub|mul|div|rem|shl|shr)\(({R})\)(\.ok_or\(\(\)\)\?)?", e)
        if m:
            mode, op, rhs, okor = m.group(2), m.group(3), m.group(4), m.group(5)
            if (mode == "checked") != bool(okor):
                raise ExtractError(f"checked/ok_or mismatch in {e!r}")
            return mode, ARITH[op], rhs == "1"
        m = re.fullmatch(rf"match ({L})\.checked_(add|sub|mul|div|rem)\(({R})\) \{{ Some\(v\) => v, None => return Err\(\(\)\),? \}}", e)
        if m:
            return "checked", ARITH[m.group(2)], m.group(3) == "1"
        m = re.fullmatch(rf"({L})\.(wrapping|checked)_neg\(\)(\.ok_or\(\(\)\)\?)?", e)
        if m:
            if (m.group(2) == "checked") != bool(m.group(3)):
                raise ExtractError(f"checked/ok_or mismatch in {e!r}")
            return m.group(2), "neg", False
        m = re.fullmatch(rf"({L}) (\+|-|\*|/|%|<<|>>) ({R})", e)
        if m:
            return "plain", SYM[m.group(2)], m.group(3) == "1"
        m = re.fullmatch(rf"-({L})", e)
        if m:
            return ("fneg",) if kind in KINDS_FLOAT else ("plain", "neg", False)
        m = re.fullmatch(rf"!({L})", e)
        if m:
            return ("logNot",) if kind == "Bool" else ("bitNot",)
        m = re.fullmatch(rf"({L}) (&|\||\^) ({R})", e)
        if m:
            return ({"&": "bitAnd", "|": "bitOr", "^": "bitXor"}[m.group(2)],)
        m = re.fullmatch(rf"({L}) (&&|\|\|) ({R})", e)
        if m:
            return ("logAnd",) if m.group(2) == "&&" else ("logOr",)
        m = re.fullmatch(rf"({L}) (<|<=|>|>=) ({R})", e)
        if m:
            return ("cmp", CMP[m.group(2)])
        raise ExtractError(f"evaluate_operator: cannot classify {e!r}")

    def lean_rule(parts, guard):
        if len(parts) == 3:
            mode, op, one = parts
            return f".arith .{mode} .{op} {str(guard).lower()} {str(one).lower()}"
        if guard:
            raise ExtractError(f"zero guard on non-arithmetic arm {parts}")
        if parts[0] == "cmp":
            return f".cmp .{parts[1]}"
        return "." + parts[0]

    ZERO_GUARD = re.compile(r"^if \*rhs == 0 \{ return Err\(\(\)\); \} ")

    def classify_result(result, kind):
        """result text of one inner arm -> (result kind or None, Lean rule)"""
        r = strip_block(normws(result))
        r = normws(r)
        if r == "return Err(())":
            return None, ".notConst"
        m = re.fullmatch(r'panic!\("([^"]*)"\)', r)
        if m:
            return None, f".panic {lean_str(m.group(1))}"
        if r == "value.clone()":
            return None, ".pass"
        # literal shifts: `let shift = u32::try_from(*rhs).map_err(|_| ())?; ...`
        m = re.match(r"^let shift = u32::try_from\(\*rhs\)\.map_err\(\|_\| \(\)\)\?; (.*)$", r)
        if m:
            rest = m.group(1)
            m1 = re.fullmatch(r"let shifted = (lhs\.checked_shl\(shift\)\.ok_or\(\(\)\)\?|lhs\.wrapping_shl\(shift\)|lhs << shift); "
                              r"(if shifted >> shift != \*lhs \{ return Err\(\(\)\); \} )?ir::Constant::(\w+)\(shifted\)", rest)
            if m1:
                mode = "checked" if "checked" in m1.group(1) else ("wrapping" if "wrapping" in m1.group(1) else "plain")
                return m1.group(3), f".litShl .{mode} {'true' if m1.group(2) else 'false'}"
            m2 = re.fullmatch(r"ir::Constant::(\w+)\((lhs\.checked_shr\(shift\)\.ok_or\(\(\)\)\?|lhs\.wrapping_shr\(shift\)|lhs >> shift)\)", rest)
            if m2:
                mode = "checked" if "checked" in m2.group(2) else ("wrapping" if "wrapping" in m2.group(2) else "plain")
                return m2.group(1), f".litShr .{mode}"
            raise ExtractError(f"evaluate_operator: literal shift arm has an unknown shape: {rest!r}")
        guard = False
        if ZERO_GUARD.match(r):
            guard = True
            r = ZERO_GUARD.sub("", r)
        m = re.fullmatch(r"ir::Constant::(\w+)\((.*)\)", r)
        if not m:
            raise ExtractError(f"evaluate_operator: arm result {r!r} is not a constant constructor")
        return m.group(1), lean_rule(classify_value(m.group(2), kind), guard)

    @gen("EvalTable")
    def eval_table():
        ev = T.src("typer/src/evaluator.rs")
        ir_types = T.src("ir/src/ir_types.rs")
        intr = T.src("ir/src/intrinsics.rs")
        kinds = [v for v, _ in enum_variants(ir_types, "Constant")]
        ops = [v for v, _ in enum_variants(intr, "IntrinsicOp")]
        scalars = [v for v, _ in enum_variants(ir_types, "ScalarType")]
        out = [T.header("EvalTable", ["typer/src/evaluator.rs", "ir/src/ir_types.rs", "ir/src/intrinsics.rs"])]
        out.append("inductive Kind where\n" + "".join(f"  | {k}\n" for k in kinds) + "  deriving DecidableEq, Repr, Inhabited\n\n")
        out.append("inductive Op where\n" + "".join(f"  | {k}\n" for k in ops) + "  deriving DecidableEq, Repr, Inhabited\n\n")
        out.append("def Op.all : List Op := " + T.lean_list(f".{k}" for k in ops) + "\n\n")
        out.append("def Op.name : Op → String\n" + "".join(f"  | .{k} => {lean_str(k)}\n" for k in ops) + "\n")
        out.append("inductive Scalar where\n" + "".join(f"  | {k}\n" for k in scalars) + "  deriving DecidableEq, Repr, Inhabited\n\n")
        out.append("""/-- how an arithmetic result is produced: the plain operator (overflow-checked in debug builds: can
    panic), `wrapping_*` (modular), or `checked_*` mapped to `Err(())` (not constant) -/
inductive Mode where | plain | wrapping | checked
  deriving DecidableEq, Repr, Inhabited

inductive Arith where | add | sub | mul | div | rem | neg | shl | shr
  deriving DecidableEq, Repr, Inhabited

inductive Cmp where | lt | le | gt | ge
  deriving DecidableEq, Repr, Inhabited

/-- one inner arm of `evaluate_operator`, as written in the source -/
inductive Rule where
  | notConst                         -- `return Err(())`
  | panic (msg : String)             -- `panic!(msg)`
  | pass                             -- `value.clone()`
  | arith (m : Mode) (a : Arith) (zeroGuard : Bool) (withOne : Bool)
                                     -- `lhs ∘ rhs` / `input ∘ 1`; zeroGuard = preceded by `if *rhs == 0 { return Err(()) }`
  | litShl (m : Mode) (roundTrip : Bool)  -- amount through `u32::try_from`; roundTrip = `shifted >> shift != *lhs` → Err
  | litShr (m : Mode)
  | bitNot | bitAnd | bitOr | bitXor
  | logNot | logAnd | logOr
  | fneg
  | cmp (c : Cmp)
  | eq | ne                          -- `arg_values[0] == arg_values[1]` on whole constants
  deriving DecidableEq, Repr, Inhabited

/-- which operands the arm scrutinises -/
inductive Shape where | unary | binary | whole
  deriving DecidableEq, Repr, Inhabited

structure OpEntry where
  shape : Shape
  /-- (operand kind, result kind, rule); for binary arms both operands have the operand kind -/
  arms : List (Kind × Kind × Rule)
  /-- the catch-all arm -/
  dflt : Rule
  deriving DecidableEq, Repr, Inhabited

""")
        body = fn_body(ev, "evaluate_operator")
        m = re.search(r"let\s+result\s*=\s*", body)
        if not m:
            raise ExtractError("evaluate_operator: `let result = match *op` not found")
        scrut, arms_text, end = first_match(body, None, m.end() - 1)
        if scrut != "*op":
            raise ExtractError(f"evaluate_operator: result scrutinee {scrut!r}")
        entries = {}
        outer_default = None
        for pats, guard, result in match_arms(arms_text):
            if guard is not None:
                raise ExtractError("evaluate_operator: guard on operator arm")
            if pats == ["_"]:
                if normws(result) != "return Err(())":
                    raise ExtractError(f"evaluate_operator: outer default is {result!r}")
                outer_default = True
                continue
            names = []
            for p in pats:
                pm = re.fullmatch(r"ir::IntrinsicOp::(\w+)", p)
                if not pm or pm.group(1) not in ops:
                    raise ExtractError(f"evaluate_operator: operator pattern {p!r}")
                names.append(pm.group(1))
            res = normws(result)
            wm = re.fullmatch(r"ir::Constant::Bool\(arg_values\[0\] (==|!=) arg_values\[1\]\)", res)
            if wm:
                entry = ("whole", [], ".eq" if wm.group(1) == "==" else ".ne")
            else:
                try:
                    sc, inner, _ = first_match(res, None, 0)
                except ExtractError:
                    raise ExtractError(f"evaluate_operator: arm for {names} is not a match: {res[:60]!r}")
                if not res.startswith("match"):
                    raise ExtractError(f"evaluate_operator: arm for {names} does not start with match")
                if sc == "arg_values[0]":
                    shape = "unary"
                elif sc == "(&arg_values[0], &arg_values[1])":
                    shape = "binary"
                else:
                    raise ExtractError(f"evaluate_operator: scrutinee {sc!r}")
                arms, dflt = [], None
                for ipats, iguard, ires in match_arms(inner):
                    if iguard is not None:
                        raise ExtractError("evaluate_operator: guard on constant arm")
                    for ip in ipats:
                        if ip in ("_", "ref value"):
                            rk, rule = classify_result(ires, None)
                            if rk is not None:
                                raise ExtractError("evaluate_operator: catch-all arm builds a constant")
                            dflt = rule
                            continue
                        if shape == "unary":
                            km = re.fullmatch(r"ir::Constant::(\w+)\((?:input|_, _)\)", ip)
                            if not km:
                                raise ExtractError(f"evaluate_operator: unary pattern {ip!r}")
                            k = km.group(1)
                        else:
                            km = re.fullmatch(r"\(ir::Constant::(\w+)\(lhs\), ir::Constant::(\w+)\(rhs\)\)", ip)
                            if not km or km.group(1) != km.group(2):
                                raise ExtractError(f"evaluate_operator: binary pattern {ip!r}")
                            k = km.group(1)
                        if k not in kinds:
                            raise ExtractError(f"unknown Constant::{k}")
                        rk, rule = classify_result(ires, k)
                        arms.append((k, rk or k, rule))
                if dflt is None:
                    raise ExtractError(f"evaluate_operator: no catch-all arm for {names}")
                entry = (shape, arms, dflt)
            for n in names:
                entries[n] = entry
        if not outer_default:
            raise ExtractError("evaluate_operator: outer `_ => return Err(())` not found")
        out.append("/-- `evaluate_operator`: `none` = the operator falls to the outer `_ => return Err(())` -/\n")
        out.append("def opTable : Op → Option OpEntry\n")
        for o in ops:
            if o not in entries:
                continue
            shape, arms, dflt = entries[o]
            out.append(f"  | .{o} => some ⟨.{shape}, [" +
                       ", ".join(f"(.{k}, .{rk}, {rule})" for k, rk, rule in arms) + f"], {dflt}⟩\n")
        out.append("  | _ => none\n\n")

        # operators that do not re-wrap an enum result
        tail = body[end:]
        mm = re.search(r"if\s+matches!\(\s*op\s*,([^)]*)\)\s*\{\s*enum_wrap\s*=\s*None;\s*\}", tail)
        if not mm:
            raise ExtractError("evaluate_operator: `matches!(op, ..) { enum_wrap = None; }` not found")
        nowrap = re.findall(r"ir::IntrinsicOp::(\w+)", mm.group(1))
        out.append("/-- operators whose result is not wrapped back into the operands' enum -/\n")
        out.append("def noEnumRewrap : List Op := " + T.lean_list(f".{n}" for n in nowrap) + "\n\n")
        # the argument loop: both asserts present
        head = body[:m.start()]
        a1 = "assert!(enum_wrap.is_none() || enum_wrap == Some(enum_id));" in normws(head)
        a2 = "assert!(enum_wrap.is_none());" in normws(head)
        out.append("/-- the operand loop asserts (a) all enum operands have one enum type, (b) no plain operand follows an enum operand -/\n")
        out.append(f"def enumAsserts : Bool × Bool := ({str(a1).lower()}, {str(a2).lower()})\n\n")

        # ---- evaluate_cast
        out.append("""inductive RustTy where | i32 | u32 | f32 | f64
  deriving DecidableEq, Repr, Inhabited

/-- one arm of `evaluate_cast` (after an enum operand has been replaced by its underlying value) -/
inductive CastRule where
  | id                 -- payload passed through unchanged
  | neZero             -- `v != 0`
  | fneZero            -- `v != 0.0`
  | fromBool           -- `i32::from(v)` / `u32::from(v)`
  | boolToFloat        -- `if v { 1.0 } else { 0.0 }`
  | asTy (t : RustTy)  -- Rust `v as t`
  | unreachable        -- `unreachable!()`
  | notConst           -- `return Err(())`
  deriving DecidableEq, Repr, Inhabited

""")
        cbody = fn_body(ev, "evaluate_cast")
        sc, carms, _ = first_match(cbody, r"^tyl$")
        table = {}
        enum_arm = False
        cast_default = False
        STRIP = normws("let inner_value = match inner_value { ir::Constant::Enum(_, inner) => *inner, other => other, };")
        for pats, guard, result in match_arms(carms):
            if guard is not None:
                raise ExtractError("evaluate_cast: guard")
            p = " | ".join(pats)
            if p == "_":
                cast_default = normws(result) == "return Err(())"
                continue
            if p == "ir::TypeLayer::Enum(enum_id)":
                want = normws("{ let underlying = module.enum_registry.get_underlying_type_id(enum_id); "
                              "let underlying_value = evaluate_cast(underlying, inner_value, module)?; "
                              "ir::Constant::Enum(enum_id, Box::new(underlying_value)) }")
                if normws(result) != want:
                    raise ExtractError("evaluate_cast: enum arm has an unknown shape")
                enum_arm = True
                continue
            pm = re.fullmatch(r"ir::TypeLayer::Scalar\(ir::ScalarType::(\w+)\)", p)
            if not pm or pm.group(1) not in scalars:
                raise ExtractError(f"evaluate_cast: target pattern {p!r}")
            target = pm.group(1)
            r = strip_block(normws(result))
            if not r.startswith(STRIP):
                raise ExtractError(f"evaluate_cast: arm {target} does not start by unwrapping an enum operand")
            r = r[len(STRIP):].strip()
            sc2, inner, _ = first_match(r, r"^inner_value$")
            rows, dflt = [], None
            for ipats, iguard, ires in match_arms(inner):
                if iguard is not None:
                    raise ExtractError("evaluate_cast: guard on constant arm")
                for ip in ipats:
                    ires_n = normws(ires)
                    if ip == "_":
                        if ires_n != "return Err(())":
                            raise ExtractError("evaluate_cast: catch-all is not Err")
                        dflt = True
                        continue
                    km = re.fullmatch(r"ir::Constant::(\w+)\((?:v|_, _)\)", ip)
                    if not km or km.group(1) not in kinds:
                        raise ExtractError(f"evaluate_cast: source pattern {ip!r}")
                    k = km.group(1)
                    if ires_n == "unreachable!()":
                        rows.append((k, k, ".unreachable"))
                        continue
                    rm = re.fullmatch(r"ir::Constant::(\w+)\((.*)\)", ires_n)
                    if not rm:
                        raise ExtractError(f"evaluate_cast: result {ires_n!r}")
                    rk, e = rm.group(1), rm.group(2)
                    if e == "v":
                        rule = ".id"
                    elif e == "v != 0":
                        rule = ".neZero"
                    elif e == "v != 0.0":
                        rule = ".fneZero"
                    elif e in ("i32::from(v)", "u32::from(v)"):
                        rule = ".fromBool"
                    elif e == "if v { 1.0 } else { 0.0 }":
                        rule = ".boolToFloat"
                    elif re.fullmatch(r"v as (i32|u32|f32|f64)", e):
                        rule = ".asTy ." + e.split()[-1]
                    else:
                        raise ExtractError(f"evaluate_cast: cannot classify {e!r}")
                    rows.append((k, rk, rule))
            if not dflt:
                raise ExtractError(f"evaluate_cast: arm {target} has no catch-all")
            table[target] = rows
        if not enum_arm or not cast_default:
            raise ExtractError("evaluate_cast: enum arm or outer default missing")
        out.append("/-- `evaluate_cast` per scalar target: (source kind, result kind, rule); kinds not listed give `Err(())`;\n"
                   "    `none` = the target type falls to the outer `_ => return Err(())` -/\n")
        out.append("def castTable : Scalar → Option (List (Kind × Kind × CastRule))\n")
        for s in scalars:
            if s in table:
                out.append(f"  | .{s} => some [" + ", ".join(f"(.{k}, .{rk}, {rule})" for k, rk, rule in table[s]) + "]\n")
        if len(table) < len(scalars):
            out.append("  | _ => none\n")
        out.append("\n")

        # ---- ScalarType::get_size
        gs = fn_body(ir_types, "get_size")
        _, sarms, _ = first_match(gs, r"^self$")
        out.append("/-- `ScalarType::get_size` -/\ndef scalarSize : Scalar → Option Nat\n")
        seen = set()
        for pats, guard, result in match_arms(sarms):
            for p in pats:
                pm = re.fullmatch(r"ScalarType::(\w+)", p)
                if not pm:
                    raise ExtractError(f"get_size pattern {p!r}")
                rm = re.fullmatch(r"Some\((\d+)\)", normws(result))
                val = f"some {rm.group(1)}" if rm else ("none" if normws(result) == "None" else None)
                if val is None:
                    raise ExtractError(f"get_size result {result!r}")
                seen.add(pm.group(1))
                out.append(f"  | .{pm.group(1)} => {val}\n")
        if seen != set(scalars):
            raise ExtractError("get_size: arms do not cover ScalarType")
        out.append(T.footer("EvalTable"))
        return "".join(out)


    # ----------------------------------------------------------------------------------------------
    # EvalSites: every call of evaluate_constexpr outside evaluator.rs — which function makes it, which
    # expression it passes, where that expression comes from and whether it is reassigned in between
    # ----------------------------------------------------------------------------------------------
    @gen("EvalSites")
    def eval_sites():
        import os
        from rustsrc import strip_comments, read
        roots = ["typer/src", "ir/src", "parser/src", "preprocess/src", "formatter/src", "hlsl/src", "msl/src", "src", "ast/src", "text/src"]
        files = []
        for r in roots:
            base = os.path.join(T.REPO, r)
            for dp, _, fns in os.walk(base):
                for fn in sorted(fns):
                    if fn.endswith(".rs"):
                        files.append(os.path.relpath(os.path.join(dp, fn), T.REPO))
        files = sorted(set(files))
        sites = []
        for rel in files:
            if "/tests/" in rel or rel.endswith("typer/src/evaluator.rs"):
                continue
            text = strip_comments(read(os.path.join(T.REPO, rel)))
            for m in re.finditer(r"\bevaluate_constexpr\s*\(", text):
                if re.search(r"use\s+[^;]*$", text[:m.start()].split("\n")[-1]):
                    continue
                close = matching(text, m.end() - 1)
                args = [normws(a) for a in text[m.end():close].split(",")]
                if len(args) != 2:
                    raise ExtractError(f"{rel}: evaluate_constexpr call with {len(args)} arguments")
                # enclosing fn
                fns = list(re.finditer(r"\bfn\s+([A-Za-z_][A-Za-z0-9_]*)", text[:m.start()]))
                if not fns:
                    raise ExtractError(f"{rel}: call outside a function")
                encl = None
                for fm in reversed(fns):
                    # the body of this fn must contain the call
                    j = fm.end()
                    while j < len(text) and text[j] not in "{;":
                        j = matching(text, j) + 1 if text[j] in "([" else j + 1
                    if j < len(text) and text[j] == "{" and matching(text, j) > m.start():
                        encl = fm
                        break
                if encl is None:
                    raise ExtractError(f"{rel}: enclosing function of a call not found")
                fname = encl.group(1)
                body = text[encl.start():m.start()]
                base = re.sub(r"^&\s*", "", args[0])
                base = re.sub(r"\.0$", "", base)
                if not re.fullmatch(r"[A-Za-z_][A-Za-z0-9_]*", base):
                    raise ExtractError(f"{rel}:{fname}: argument {args[0]!r} is not a plain binding")
                origin, mutated = "unknown", False
                lets = list(re.finditer(r"\blet\s+(?:mut\s+)?(?:\(\s*)?" + base + r"\b[^=;]*=\s*", body))
                if lets:
                    rest = body[lets[-1].end():]
                    rhs = normws(rest.split(";")[0])
                    for callee in ["parse_expr_internal", "parse_expr", "ir::Expression::IntrinsicOp"]:
                        if re.search(r"\b" + re.escape(callee) + r"\s*\(", rhs):
                            origin = callee
                            break
                    else:
                        origin = "let:" + rhs[:40]
                    mutated = bool(re.search(r"\b" + base + r"(?:\.0)?\s*=[^=]", rest))
                elif re.search(r"ir::Initializer::Expression\(\s*" + base + r"\s*\)", body):
                    origin = "initializer-expression"
                elif re.search(r"\|\s*" + base + r"\s*:\s*&ir::Expression\s*\|", body):
                    origin = "closure-parameter"
                sites.append((rel, fname, args[0], args[1], origin, mutated))
        if not sites:
            raise ExtractError("no call of evaluate_constexpr found")
        out = [T.header("EvalSites", ["every .rs file of the workspace"])]
        out.append("/-- (file, enclosing fn, expression argument, module argument, origin of the expression, reassigned before the call) -/\n")
        out.append("def evalSites : List (String × String × String × String × String × Bool) := [\n")
        out.append(",\n".join(f"  ({lean_str(a)}, {lean_str(b)}, {lean_str(c)}, {lean_str(d)}, {lean_str(e)}, {str(f).lower()})"
                               for a, b, c, d, e, f in sites))
        out.append("]\n")
        out.append(T.footer("EvalSites"))
        return "".join(out)


    # ----------------------------------------------------------------------------------------------
    # PosTable: what the positions that demand a constant do with the evaluated constant —
    # `Constant::to_uint64` / `to_f32`, the range guards of every site, the kinds a template argument may have,
    # the enumerator sequence (first value, successor per kind, overflow) and the deduction of the underlying type
    # ----------------------------------------------------------------------------------------------
    @gen("PosTable")
    def pos_table():
        ir_types = T.src("ir/src/ir_types.rs")
        kinds = [v for v, _ in enum_variants(ir_types, "Constant")]
        out = ["import RsslVerif.Gen.EvalTable\n" + T.header("PosTable", ["ir/src/ir_types.rs", "typer/src/typer/{declarations,enums,scopes,statements,globals,pipelines,types}.rs"])]
        out.append("open RsslVerif.Gen.EvalTable (Kind Scalar)\n\n")
        out.append("""/-- guard / conversion of one arm of `Constant::to_uint64` -/
inductive UArm where
  | fromBool        -- `Some(u64::from(*v))`
  | always          -- `Some(*v as u64)` (an unsigned payload) / `Some(*v)`
  | nonNeg          -- `if *v >= 0 => Some(*v as u64)`
  | litU64          -- `if *v >= 0 && *v <= u64::MAX as i128 => Some(*v as u64)`
  deriving DecidableEq, Repr, Inhabited

/-- one arm of `Constant::to_f32` -/
inductive FArm where
  | fromBool        -- `Some(f32::from(*v))`
  | always          -- `Some(*v as f32)`
  | nonNeg          -- `if *v >= 0 => Some(*v as f32)`
  | litMax          -- `if *v <= f32::MAX as i128 => Some(*v as f32)`
  | same            -- `Some(*v)` (already an f32 payload)
  deriving DecidableEq, Repr, Inhabited

/-- how a site turns the evaluated constant into a count -/
structure SizeRule where
  /-- `Ok(ir::Constant::Enum(_, val)) => val.to_uint64()` before the general arm -/
  unwrapEnum : Bool
  /-- `Some(0)` is an error of its own -/
  rejectZero : Bool
  /-- accepted only `if v <= u32::MAX as u64` -/
  max32 : Bool
  deriving DecidableEq, Repr, Inhabited

/-- successor of an enumerator without initialiser, per kind of the previous value -/
inductive NextArm where
  | checkedSucc       -- `v.checked_add(1).map(ir::Constant::K)` : same kind, `None` = EnumValueOverflow
  | boolSucc          -- `Some(ir::Constant::Int32(i32::from(v) + 1))`
  deriving DecidableEq, Repr, Inhabited

""")

        def arms_of(body, what):
            try:
                _, arms, _ = first_match(body, r"^\*?self$")
            except ExtractError:
                raise ExtractError(f"{what}: `match self` not found")
            return match_arms(arms)

        # ---- Constant::to_uint64
        tu = impl_fn_body(ir_types, r"Constant\b", "to_uint64")
        rows = []
        dflt = False
        for pats, guard, result in arms_of(tu, "to_uint64"):
            r = normws(result)
            if pats == ["_"]:
                if r != "None":
                    raise ExtractError(f"to_uint64: default arm is {r!r}")
                dflt = True
                continue
            for pt in pats:
                pm = re.fullmatch(r"Constant::(\w+)\(v\)", pt)
                if not pm or pm.group(1) not in kinds:
                    raise ExtractError(f"to_uint64: pattern {pt!r}")
                k = pm.group(1)
                g = normws(guard) if guard else None
                if g is None and r == "Some(u64::from(*v))" and k == "Bool":
                    arm = ".fromBool"
                elif g is None and r in ("Some(*v as u64)", "Some(*v)") and k in ("UInt32", "UInt64"):
                    arm = ".always"
                elif g == "*v >= 0" and r == "Some(*v as u64)" and k in ("Int32", "Int64"):
                    arm = ".nonNeg"
                elif g == "*v >= 0 && *v <= u64::MAX as i128" and r == "Some(*v as u64)" and k == "IntLiteral":
                    arm = ".litU64"
                else:
                    raise ExtractError(f"to_uint64: cannot classify arm {pt} if {g} => {r}")
                rows.append((k, arm))
        if not dflt:
            raise ExtractError("to_uint64: no `_ => None` arm")
        out.append("/-- `Constant::to_uint64`; kinds not listed give `None` -/\n")
        out.append("def toUint64Table : List (Kind × UArm) := " + T.lean_list(f"(.{k}, {a})" for k, a in rows) + "\n\n")

        # ---- Constant::to_f32
        tf = impl_fn_body(ir_types, r"Constant\b", "to_f32")
        rows = []
        dflt = False
        for pats, guard, result in arms_of(tf, "to_f32"):
            r = normws(result)
            if pats == ["_"]:
                if r != "None":
                    raise ExtractError(f"to_f32: default arm is {r!r}")
                dflt = True
                continue
            for pt in pats:
                pm = re.fullmatch(r"Constant::(\w+)\(v\)", pt)
                if not pm or pm.group(1) not in kinds:
                    raise ExtractError(f"to_f32: pattern {pt!r}")
                k = pm.group(1)
                g = normws(guard) if guard else None
                if g is None and r == "Some(f32::from(*v))" and k == "Bool":
                    arm = ".fromBool"
                elif g is None and r == "Some(*v as f32)" and k in ("UInt32", "UInt64", "Float64", "Int32", "Int64", "IntLiteral", "FloatLiteral"):
                    arm = ".always"
                elif g is None and r == "Some(*v)" and k in ("Float16", "Float32"):
                    arm = ".same"
                elif g == "*v >= 0" and r == "Some(*v as f32)" and k in ("Int32", "Int64"):
                    arm = ".nonNeg"
                elif g == "*v <= f32::MAX as i128" and r == "Some(*v as f32)" and k == "IntLiteral":
                    arm = ".litMax"
                else:
                    raise ExtractError(f"to_f32: cannot classify arm {pt} if {g} => {r}")
                rows.append((k, arm))
        if not dflt:
            raise ExtractError("to_f32: no `_ => None` arm")
        out.append("/-- `Constant::to_f32`; kinds not listed give `None` -/\n")
        out.append("def toF32Table : List (Kind × FArm) := " + T.lean_list(f"(.{k}, {a})" for k, a in rows) + "\n\n")

        # ---- the sites
        def size_rule(name, body, var, what):
            """classify the conversion of the evaluated constant `var` in `body`"""
            b = normws(body)
            unwrap = bool(re.search(r"Ok\(ir::Constant::Enum\(_, val\)\) => val\.to_uint64\(\)", b))
            if not re.search(r"\b" + var + r"\.to_uint64\(\)", b):
                raise ExtractError(f"{what}: `{var}.to_uint64()` not found")
            zero = bool(re.search(r"Some\(0\) => \{? ?return Err\(TyperError::ArrayDimensionsMustBeNonZero", b))
            m32 = bool(re.search(r"Some\(v\) if v <= u32::MAX as u64 => (Ok\()?v as u32\)?,", b))
            # no other guard on the converted value may exist
            others = re.findall(r"Some\((\w+)\) if ([^=]*)=>", b)
            for v, g in others:
                if normws(g) != "v <= u32::MAX as u64":
                    raise ExtractError(f"{what}: unknown guard `{normws(g)}` on the converted value")
            if re.search(r"to_uint64\(\)\s*\.\s*(map|unwrap|and_then|filter)", b):
                raise ExtractError(f"{what}: the converted value is post-processed in a way the model does not read")
            return f"def {name} : SizeRule := ⟨{str(unwrap).lower()}, {str(zero).lower()}, {str(m32).lower()}⟩\n"

        decl = T.src("typer/src/typer/declarations.rs")
        out.append("/-- array sizes: `parse_declarator` -/\n" + size_rule("arraySize", fn_body(decl, "parse_declarator"), "val", "parse_declarator"))
        pipes = T.src("typer/src/typer/pipelines.rs")
        out.append("/-- `numthreads` arguments: the closure in `add_stage` -/\n" + size_rule("numthreads", fn_body(pipes, "add_stage"), "value", "add_stage"))
        out.append("/-- pipeline / static sampler properties that are unsigned integers: `extract_uint32` -/\n" + size_rule("pipelineUint", fn_body(pipes, "extract_uint32"), "value", "extract_uint32"))
        globs = T.src("typer/src/typer/globals.rs")
        out.append("/-- `bind_group`, `vk::binding`: `parse_expr_as_u32` -/\n" + size_rule("exprAsU32", fn_body(globs, "parse_expr_as_u32"), "evaluated", "parse_expr_as_u32"))
        stmts = T.src("typer/src/typer/statements.rs")
        out.append("/-- `[unroll(n)]`: `parse_statement_attribute` -/\n" + size_rule("unroll", fn_body(stmts, "parse_statement_attribute"), "value", "parse_statement_attribute"))

        # WriteMask: u8::try_from(value)
        bs = normws(fn_body(pipes, "parse_blend_state"))
        if not re.search(r'"WriteMask" => \{ let value = extract_uint32\(&property\.value, context\)\?; let value = match u8::try_from\(value\) \{ Ok\(value\) => value, _ => \{ return Err', bs):
            raise ExtractError("parse_blend_state: WriteMask is not `u8::try_from(extract_uint32(..)?)`")
        out.append("/-- `WriteMask`: `u8::try_from` of the 32-bit value -/\ndef writeMaskMax : Nat := 255\n")

        # case label: the evaluated constant is stored unchanged
        ps = normws(fn_body(stmts, "parse_statement"))
        if not re.search(r"let value = match evaluate_constexpr\(&value_expr\.0, &mut context\.module\) \{ Ok\(constant\) => constant, Err\(_\) => \{ return Err\(TyperError::ExpressionIsNotConstantExpression\(cond\.location\)\); \} \};", ps) \
                or not re.search(r"kind: ir::StatementKind::CaseLabel\(value\)", ps):
            raise ExtractError("parse_statement: the case label is not the evaluated constant stored unchanged")
        out.append("/-- a case label is the evaluated constant, stored unchanged -/\ndef caseLabelAsIs : Bool := true\n")

        # const initialisers: folded only when the declared type is const; value stored unchanged
        for fname, text in (("parse_rootdefinition_globalvariable", globs), ("parse_vardef", stmts)):
            b = normws(fn_body(text, fname))
            if not re.search(r"if let Some\(ir::Initializer::Expression\(expr\)\) = &var_init \{ let \(_, type_mod\) = context\.module\.type_registry\.extract_modifier\(type_id\); "
                             r"if type_mod\.is_const && let Ok\(value\) = evaluate_constexpr\(expr, &mut context\.module\) \{ return Some\(value\); \} \} None", b):
                raise ExtractError(f"{fname}: the constant value of an initialiser is not `is_const && evaluate_constexpr(expr)` stored unchanged")
        out.append("/-- an initialiser is folded exactly when the declared type is `const`; the value is stored unchanged -/\ndef constInitNeedsConst : Bool := true\n")

        # template value arguments
        types = T.src("typer/src/typer/types.rs")
        pe = fn_body(types, "parse_and_evaluate_constant_expression")
        _, arms, _ = first_match(pe, r"^constant$")
        tk = []
        dflt = False
        for pats, guard, result in match_arms(arms):
            r = normws(result)
            if guard is not None:
                raise ExtractError("parse_and_evaluate_constant_expression: guard")
            if pats == ["_"]:
                if not r.startswith("return Err(TyperError::ExpressionIsNotConstantExpression"):
                    raise ExtractError(f"parse_and_evaluate_constant_expression: default arm {r!r}")
                dflt = True
                continue
            for pt in pats:
                pm = re.fullmatch(r"ir::Constant::(\w+)\(v\)", pt)
                if not pm or r != f"ir::RestrictedConstant::{pm.group(1)}(v)":
                    raise ExtractError(f"parse_and_evaluate_constant_expression: arm {pt} => {r} is not the identity")
                tk.append(pm.group(1))
        if not dflt:
            raise ExtractError("parse_and_evaluate_constant_expression: no default arm")
        out.append("/-- kinds a template value argument may have (`parse_and_evaluate_constant_expression`); each is kept unchanged, any other kind is `not a constant expression` -/\n")
        out.append("def templateKinds : List Kind := " + T.lean_list(f".{k}" for k in tk) + "\n\n")

        # ---- enums.rs
        enums = T.src("typer/src/typer/enums.rs")
        eb = fn_body(enums, "parse_rootdefinition_enum")
        ebn = normws(eb)
        # allowed static types of an initialiser
        m = re.search(r"match context\.module\.type_registry\.get_type_layer\(unmodified_id\) \{(.*?)\} let evaluated", ebn)
        if not m:
            raise ExtractError("parse_rootdefinition_enum: type dispatch of the initialiser not found")
        disp = m.group(1)
        allowed = re.findall(r"ir::TypeLayer::Scalar\(ir::ScalarType::(\w+)\)", disp.split("=>")[0])
        if not allowed:
            raise ExtractError("parse_rootdefinition_enum: no allowed scalar types")
        enum_cast = bool(re.search(r"ir::TypeLayer::Enum\(id\) => \{ let underlying_type = context\.module\.enum_registry\.get_underlying_type_id\(id\); "
                                   r"let cast = ImplicitConversion::find\( expr_ir\.1, underlying_type\.to_rvalue\(\), &mut context\.module, \) \.unwrap\(\); "
                                   r"expr_ir\.0 = cast\.apply\(expr_ir\.0, &mut context\.module\); value_ty = underlying_type; \}", disp))
        if not re.search(r"_ => \{ return Err\(TyperError::EnumValueMustBeInteger\(expr\.location\)\); \}", disp):
            raise ExtractError("parse_rootdefinition_enum: other types are not rejected with EnumValueMustBeInteger")
        if not re.search(r"let evaluated = match evaluate_constexpr\(&expr_ir\.0, &mut context\.module\) \{ Ok\(value\) => value, "
                         r"Err\(_\) => return Err\(TyperError::ExpressionIsNotConstantExpression\(expr\.location\)\), \};", ebn):
            raise ExtractError("parse_rootdefinition_enum: the initialiser is not evaluate_constexpr / ExpressionIsNotConstantExpression")
        # the type recorded with the value (what a later reference `B = A` is typed as): the type of the evaluated constant —
        # the initialiser's type without modifiers, the underlying type for an enum-typed initialiser; an implicit successor
        # inherits it, except after a `bool` value (fresh `int`)
        if not re.search(r"let unmodified_id = context\.module\.type_registry\.remove_modifier\(expr_ir\.1\.0\); let mut value_ty = unmodified_id; "
                         r"match context\.module\.type_registry\.get_type_layer\(unmodified_id\)", ebn) \
                or len(re.findall(r"\bvalue_ty\b", ebn)) != 3 or not re.search(r"\(evaluated, value_ty\) \} else \{", ebn) \
                or not re.search(r"let next_ty = if let ir::Constant::Bool\(_\) = last_value\.0 \{ context \.module \.type_registry "
                                 r"\.register_type\(ir::TypeLayer::Scalar\(ir::ScalarType::Int32\)\) \} else \{ last_value\.1 \}; \(next_value, next_ty\)", ebn):
            raise ExtractError("parse_rootdefinition_enum: the type recorded with an enumerator is not the type of the evaluated constant")
        out.append("/-- the type recorded with an enumerator is the type of its evaluated constant (no modifiers, the underlying type for an "
                   "enum-typed initialiser): a later reference is the literal of that type -/\ndef enumRecordsValueType : Bool := true\n")
        out.append("/-- static types an enumerator initialiser may have -/\ndef enumAllowed : List Scalar := " + T.lean_list(f".{k}" for k in allowed) + "\n")
        out.append(f"/-- an enum-typed initialiser is first converted to the underlying type of *its* enum -/\ndef enumCastsEnumTyped : Bool := {str(enum_cast).lower()}\n")
        m = re.search(r"None => \( ir::Constant::(\w+)\((-?\d+)\),", ebn)
        if not m:
            raise ExtractError("parse_rootdefinition_enum: value of the first enumerator without initialiser not found")
        out.append(f"/-- the first enumerator without initialiser -/\ndef enumFirst : Kind × Int := (.{m.group(1)}, {m.group(2)})\n")
        _, narms, _ = first_match(eb, r"^last_value\.0$")
        nrows = []
        npanic = None
        for pats, guard, result in match_arms(narms):
            r = normws(result)
            if guard is not None:
                raise ExtractError("parse_rootdefinition_enum: guard in the successor match")
            if pats == ["_"]:
                pm = re.fullmatch(r'panic!\("([^"]*)"\)', r)
                if not pm:
                    raise ExtractError(f"parse_rootdefinition_enum: successor default {r!r}")
                npanic = pm.group(1)
                continue
            for pt in pats:
                pm = re.fullmatch(r"ir::Constant::(\w+)\(v\)", pt)
                if not pm:
                    raise ExtractError(f"parse_rootdefinition_enum: successor pattern {pt!r}")
                k = pm.group(1)
                if r == f"v.checked_add(1).map(ir::Constant::{k})":
                    nrows.append((k, ".checkedSucc"))
                elif k == "Bool" and r == "Some(ir::Constant::Int32(i32::from(v) + 1))":
                    nrows.append((k, ".boolSucc"))
                else:
                    raise ExtractError(f"parse_rootdefinition_enum: successor arm {pt} => {r}")
        if npanic is None:
            raise ExtractError("parse_rootdefinition_enum: successor match has no default arm")
        if not re.search(r"None => \{ return Err\(TyperError::EnumValueOverflow\(member\.name\.location\)\); \}", ebn):
            raise ExtractError("parse_rootdefinition_enum: a successor that does not fit is not EnumValueOverflow")
        if not re.search(r"context\.register_enum_value\(id, member\.name\.clone\(\), value\.clone\(\), ty\)\?; last_value = Some\(\(value, ty\)\);", ebn):
            raise ExtractError("parse_rootdefinition_enum: last_value is not the value just registered")
        out.append("/-- successor per kind of the previous value; other kinds panic -/\ndef enumNext : List (Kind × NextArm) := " + T.lean_list(f"(.{k}, {a})" for k, a in nrows) + "\n")
        out.append(f"def enumNextPanic : String := {lean_str(npanic)}\n")

        # ---- scopes.rs end_enum
        scopes = T.src("typer/src/typer/scopes.rs")
        ee = fn_body(scopes, "end_enum")
        een = normws(ee)
        if not re.search(r"let mut min_value = 0; let mut max_value = 0;", een):
            raise ExtractError("end_enum: the range does not start at 0..0")
        _, rarms, rend = first_match(ee, r"^\*constant$")
        rk = []
        rpanic = None
        for pats, guard, result in match_arms(rarms):
            r = normws(result)
            if pats == ["_"]:
                pm = re.fullmatch(r'panic!\("([^"{]*)\{constant:\?\}"\)', r)
                if not pm:
                    raise ExtractError(f"end_enum: range default {r!r}")
                rpanic = pm.group(1)
                continue
            for pt in pats:
                pm = re.fullmatch(r"ir::Constant::(\w+)\(value\)", pt)
                if not pm:
                    raise ExtractError(f"end_enum: range pattern {pt!r}")
                k = pm.group(1)
                want = "value" if k == "IntLiteral" else "value as i128"
                if r != f"{{ min_value = std::cmp::min(min_value, {want}); max_value = std::cmp::max(max_value, {want}); }}":
                    raise ExtractError(f"end_enum: range arm for {k} is {r!r}")
                rk.append(k)
        if rpanic is None:
            raise ExtractError("end_enum: range match has no default arm")
        m = re.search(r"let scalar_type = if (.*?) \{ ir::ScalarType::(\w+) \} else if (.*?) \{ ir::ScalarType::(\w+) \} else \{", een)
        if not m:
            raise ExtractError("end_enum: selection of the underlying type not found")
        conds = []
        for cond, sc in ((m.group(1), m.group(2)), (m.group(3), m.group(4))):
            cm = re.fullmatch(r"min_value >= (i32|u32)::MIN as i128 && max_value <= (i32|u32)::MAX as i128", cond)
            if not cm or cm.group(1) != cm.group(2):
                raise ExtractError(f"end_enum: range condition {cond!r}")
            conds.append((cm.group(1), sc))
        if not re.search(r"return Err\(TyperError::EnumTypeCanNotBeDeduced\( location, min_value, max_value, \)\);", een):
            raise ExtractError("end_enum: EnumTypeCanNotBeDeduced not found")
        cm = re.search(r"let new_constant = match scalar_type \{ ir::ScalarType::Int32 => ir::Constant::Int32\(value as i32\), ir::ScalarType::UInt32 => ir::Constant::UInt32\(value as u32\), _ => unreachable!\(\), \};", een)
        if not cm:
            raise ExtractError("end_enum: conversion of the values to the underlying type not found")
        out.append("/-- kinds `end_enum` accepts when it gathers the value range (each widened to i128); other kinds panic -/\n")
        out.append("def enumRangeKinds : List Kind := " + T.lean_list(f".{k}" for k in rk) + "\n")
        out.append(f"def enumRangePanic : String := {lean_str(rpanic)}\n")
        out.append("/-- candidates for the underlying type in order: (Rust integer type whose MIN..MAX must contain the range, scalar chosen) -/\n")
        out.append("def enumCandidates : List (String × Scalar) := " + T.lean_list(f"({lean_str(t)}, .{sc})" for t, sc in conds) + "\n")
        out.append(T.footer("PosTable"))
        return "".join(out)


    # ----------------------------------------------------------------------------------------------
    # BinopTyping: the step of `parse_expr_binop` that decides the type both operands of an arithmetic / comparison /
    # bit operator are converted to *after* `most_significant_non_vector` picked one of the two operand types:
    # "Remap all bool types to int". (The ranks, `require_integer`, the short-circuit test and the `left_order >
    # right_order` choice are in C03's Gen.TypingTables, which this table is used together with.)
    # ----------------------------------------------------------------------------------------------
    @gen("BinopTyping")
    def binop_typing():
        expr = T.src("typer/src/typer/expressions.rs")
        pb = fn_body(expr, "parse_expr_binop")

        def lower(x):
            return x[0].lower() + x[1:]
        # the target is the result of most_significant_non_vector on the two non-vector ids, nothing else
        m = re.search(r"let mut target = most_significant_non_vector\( lhs_nv_id, rhs_nv_id, lhs\.location, rhs\.location, &mut context\.module, \)\?;",
                      normws(pb))
        if not m:
            raise ExtractError("parse_expr_binop: `let mut target = most_significant_non_vector(lhs_nv_id, rhs_nv_id, ..)?` not found")
        rest = normws(pb)[m.end():]
        # everything between that statement and the `target` that ends the block
        endm = re.search(r"\} target \};", rest)
        if not endm:
            raise ExtractError("parse_expr_binop: end of the common-type block (`target };`) not found")
        mid = rest[:endm.start() + 1].strip()
        # optional `let NAME = matches!(op, A | B | ..);` definitions, then exactly one `if let ... { target = transform_scalar }`
        named = {}
        while True:
            dm = re.match(r"let (\w+) = matches!\( ?op, ((?:ast::BinOp::\w+ \| )*ast::BinOp::\w+),? ?\); ", mid)
            if not dm:
                break
            named[dm.group(1)] = re.findall(r"ast::BinOp::(\w+)", dm.group(2))
            mid = mid[dm.end():].strip()
        im = re.fullmatch(r"if let Some\(scalar\) = context\.module\.type_registry\.extract_scalar\(target\) && scalar == ir::ScalarType::(\w+)"
                          r"((?: && !?\w+)*) \{ target = context \.module \.type_registry \.transform_scalar\(target, ir::ScalarType::(\w+)\) \}", mid)
        if not im:
            raise ExtractError(f"parse_expr_binop: the step after most_significant_non_vector has an unknown shape: {mid[:200]!r}")
        frm, extra, to = im.group(1), im.group(2), im.group(3)
        # operators of the arm this block belongs to
        arm = re.search(r"match \*op \{ ((?:ast::BinOp::\w+ \| )*ast::BinOp::\w+) => \{ let left_base", normws(pb))
        if not arm:
            raise ExtractError("parse_expr_binop: operator list of the arithmetic arm not found")
        ops = re.findall(r"ast::BinOp::(\w+)", arm.group(1))
        sc = re.search(r"let target_nv_id = if (.*?) \{", normws(pb))
        short = re.findall(r"\*op == ast::BinOp::(\w+)", sc.group(1)) if sc else []
        if not short:
            raise ExtractError("parse_expr_binop: short-circuit test not found")
        applies = [o for o in ops if o not in short]
        for cj in [c for c in extra.split(" && ") if c]:
            neg = cj.startswith("!")
            name = cj.lstrip("!")
            if name not in named:
                raise ExtractError(f"parse_expr_binop: condition `{cj}` of the bool remap refers to an unknown name")
            applies = [o for o in applies if (o not in named[name]) == neg]
        # ---- `most_significant_non_vector`, the whole body: an optional first step that replaces an enum operand by the
        # underlying type of its enum, then the two rank lookups and `if left_order > right_order { Ok(left) } else { Ok(right) }`
        msn = normws(fn_body(expr, "most_significant_non_vector"))
        tail = ("let left_order = match get_non_vector_conversion_rank(left, module) { Some(order) => order, "
                "None => return Err(TyperError::NumericTypeExpected(left_location)), }; "
                "let right_order = match get_non_vector_conversion_rank(right, module) { Some(order) => order, "
                "None => return Err(TyperError::NumericTypeExpected(right_location)), }; "
                "if left_order > right_order { Ok(left) } else { Ok(right) }")
        if not msn.endswith(tail):
            raise ExtractError(f"most_significant_non_vector: the rank comparison has an unknown shape: {msn[-300:]!r}")
        pro = msn[:-len(tail)].strip()
        under = "module.enum_registry.get_underlying_type_id(id)"
        if pro == "":
            # every enum takes part as an enum (rank `enumRank`), whatever the other operand is
            lone_enum, two_enums = "asEnum", "asEnum"
        else:
            pm = re.fullmatch(r"let left_tyl = module\.type_registry\.get_type_layer\(left\); "
                              r"let right_tyl = module\.type_registry\.get_type_layer\(right\); "
                              r"let \(left, right\) = match \(left_tyl, right_tyl\) \{ (.*) \};", pro)
            if not pm:
                raise ExtractError(f"most_significant_non_vector: the step before the rank comparison has an unknown shape: {pro[:300]!r}")
            arms = [(tuple(p), g, normws(r).rstrip(",")) for p, g, r in match_arms(pm.group(1))]
            E = "ir::TypeLayer::Enum"
            variants = {
                # the fix of batch 3: exactly one enum operand -> its underlying type; two enums unchanged
                ("asEnum", "underlying"): [((f"({E}(_), {E}(_))",), None, "(left, right)"),
                                           ((f"({E}(id), _)",), None, f"({under}, right)"),
                                           ((f"(_, {E}(id))",), None, f"(left, {under})"),
                                           (("_",), None, "(left, right)")],
            }
            hit = [k for k, v in variants.items() if arms == v]
            if not hit:
                raise ExtractError(f"most_significant_non_vector: unknown arms in the enum step: {arms!r}")
            two_enums, lone_enum = hit[0]
        # `get_underlying_type_id` is the registered underlying type of that enum
        enums_rs = T.src("ir/src/ir_enums.rs")
        gu = normws(fn_body(enums_rs, "get_underlying_type_id"))
        if not re.fullmatch(r"(assert_ne!\(self\.type_ids\[id\.0 as usize\], TypeId\(u32::MAX\)\); )?self\.underlying_type_ids\[id\.0 as usize\]", gu):
            raise ExtractError(f"EnumRegistry::get_underlying_type_id has an unknown shape: {gu[:200]!r}")
        out = ["import RsslVerif.Gen.TypingTables\n" + T.header("BinopTyping", ["typer/src/typer/expressions.rs", "ir/src/ir_enums.rs"])]
        out.append("open RsslVerif.Gen.RankTable RsslVerif.Gen.TypingTables\n\n")
        out.append("/-- how an enum operand enters the rank comparison of `most_significant_non_vector` -/\n"
                   "inductive EnumEntry where\n"
                   "  /-- as the enum type itself (rank `enumRank`) -/\n  | asEnum\n"
                   "  /-- replaced by the underlying type of its enum (`enum_registry.get_underlying_type_id`) -/\n  | underlying\n"
                   "  deriving DecidableEq, Repr, Inhabited\n\n")
        out.append("/-- `most_significant_non_vector`, step before the ranks: exactly one of the two operands is an enum -/\n"
                   f"def loneEnumEntry : EnumEntry := .{lone_enum}\n")
        out.append("/-- .. both operands are enums -/\n"
                   f"def twoEnumsEntry : EnumEntry := .{two_enums}\n\n")
        out.append("/-- `parse_expr_binop`, after `most_significant_non_vector`: a common type whose scalar is this one .. -/\n"
                   f"def remapFrom : Scalar := .{lower(frm)}\n")
        out.append(f"/-- .. is replaced by this one (`transform_scalar(target, ..)`) .. -/\ndef remapTo : Scalar := .{lower(to)}\n")
        out.append("/-- .. for these operators (all operators of the arm that are not short-circuit operators, minus those the\n"
                   "    condition of the `if` excludes) -/\n"
                   "def remapApplies (b : BinOp) : Bool :=\n  " + T.lean_list("." + lower(o) for o in applies) + ".contains b\n")
        out.append(T.footer("BinopTyping"))
        return "".join(out)

    @gen("InstTable")
    def inst_table():
        """How an existing instantiation of a template is found again: the key comparison of
        `FunctionRegistry::find_instantiation` and the map of `ensure_struct_template`."""
        fns = T.src("ir/src/ir_functions.rs")
        tys = T.src("ir/src/ir_types.rs")
        scopes = T.src("typer/src/typer/scopes.rs")
        fi = normws(impl_fn_body(fns, "FunctionRegistry", "find_instantiation"))
        head = ("for i in 0..self.get_function_count() { let other_id = FunctionId(i); "
                "if let Some(instantiation_data) = self.get_template_instantiation_data(other_id) "
                "&& instantiation_data.parent_id == id && ")
        tail = " { return Some(other_id); } } None"
        if not (fi.startswith(head) and fi.endswith(tail)):
            raise ExtractError(f"find_instantiation: the search loop has an unknown shape: {fi[:400]!r}")
        cond = fi[len(head):-len(tail)].strip()
        if cond == "instantiation_data.template_args == template_args":
            mode = "exact"
        else:
            # element-wise comparison with a method of TypeOrConstant: read that method
            cm = re.fullmatch(r"instantiation_data\.template_args\.len\(\) == template_args\.len\(\) && instantiation_data \.template_args "
                              r"\.iter\(\) \.zip\(template_args\) \.all\(\|\(lhs, rhs\)\| lhs\.(\w+)\(rhs\)\)", cond)
            if not cm:
                raise ExtractError(f"find_instantiation: the comparison of the template arguments has an unknown shape: {cond[:300]!r}")
            mb = normws(impl_fn_body(tys, "TypeOrConstant", cm.group(1)))
            mm = re.fullmatch(r"match \(self, other\) \{ \(TypeOrConstant::Type\(lhs\), TypeOrConstant::Type\(rhs\)\) => lhs == rhs, "
                              r"\(TypeOrConstant::Constant\(lhs\), TypeOrConstant::Constant\(rhs\)\) => \{? ?(.*?),? ?\}?,? _ => false,? \}", mb)
            if not mm:
                raise ExtractError(f"TypeOrConstant::{cm.group(1)} has an unknown shape: {mb[:300]!r}")
            ce = mm.group(1).strip().rstrip(",").strip()
            if ce == "lhs == rhs":
                mode = "exact"
            elif ce == "lhs.to_uint64() == rhs.to_uint64()":
                mode = "byToUint64"
            else:
                raise ExtractError(f"TypeOrConstant::{cm.group(1)}: constants are compared in an unknown way: {ce!r}")
        # RestrictedConstant::to_uint64 is Constant::to_uint64 of the unrestricted constant (Gen.PosTable has its arms)
        r2u = normws(impl_fn_body(tys, "RestrictedConstant", "to_uint64"))
        if r2u != "self.clone().unrestrict().to_uint64()":
            raise ExtractError(f"RestrictedConstant::to_uint64 has an unknown shape: {r2u!r}")
        # `==` on the argument list is the derived one: kind AND value
        derived = True
        for name in ("RestrictedConstant", "TypeOrConstant"):
            dm = re.search(r"#\[derive\(([^)]*)\)\]\s*pub enum " + name + r"\b", tys)
            if not dm or not {"PartialEq", "Eq", "Hash"} <= {x.strip() for x in dm.group(1).split(",")}:
                derived = False
            if re.search(r"impl\s+(?:PartialEq|Eq|Hash|std::hash::Hash|core::hash::Hash)\b[^{;]*\bfor\s+" + name + r"\b", tys):
                derived = False
        rc = [v for v, _ in enum_variants(tys, "RestrictedConstant")]
        if rc != ["Bool", "IntLiteral", "Int32", "UInt32", "Int64", "UInt64", "Enum"]:
            raise ExtractError(f"RestrictedConstant has unknown variants: {rc!r}")
        # struct templates: a HashMap keyed by the argument list, looked up with the provided arguments, then (after the
        # defaults were filled in) with the complete list; the instantiation is registered under the provided arguments
        sc = normws(scopes)
        es = normws(fn_body(scopes, "ensure_struct_template"))
        ins = normws(fn_body(scopes, "instantiate_struct_template"))
        struct_ok = (
            re.search(r"struct StructTemplateData \{ scope: ScopeIndex, instantiations: HashMap<Vec<ir::TypeOrConstant>, ir::StructId>, \}", sc) is not None
            and "if let Some(id) = struct_template_data.instantiations.get(template_args) {" in es
            and re.search(r"struct_template_data \.instantiations \.insert\(template_args\.to_vec\(\), sid\);", es) is not None
            and es.count("instantiations") == 2
            and ins.endswith("match struct_template_data.instantiations.get(&final_params) { Some(sid) => Ok(*sid), "
                             "None => build_struct_from_template(ast, inst_scope, self), }")
            and ins.count("instantiations") == 1
            and ins.count("final_params.push(") == 2
            and "final_params.push(ir::TypeOrConstant::Constant(value.clone()));" in ins
            and "self.register_valuedef(name.clone(), value.clone().unrestrict())?" in ins
        )
        if not struct_ok:
            raise ExtractError("ensure_struct_template / instantiate_struct_template: the instantiation map is used in an unknown way")
        # both callers hand the evaluated arguments (locations stripped) to find_instantiation
        callers = len(re.findall(r"\.find_instantiation\(id, &template_args_no_loc\)", sc))
        if callers != 2 or sc.count("find_instantiation") != 2:
            raise ExtractError("scopes.rs: find_instantiation is called in an unknown way")
        out = [T.header("InstTable", ["ir/src/ir_functions.rs", "ir/src/ir_types.rs", "typer/src/typer/scopes.rs"])]
        out.append("/-- how `FunctionRegistry::find_instantiation` compares a recorded template argument with a requested one -/\n"
                   "inductive KeyMode where\n"
                   "  /-- `instantiation_data.template_args == template_args`: the derived equality, kind and value -/\n  | exact\n"
                   "  /-- value arguments through `to_uint64() == to_uint64()` (`None == None` included), types by `==` -/\n  | byToUint64\n"
                   "  deriving DecidableEq, Repr, Inhabited\n\n")
        out.append(f"/-- the comparison found in `find_instantiation` (next to `parent_id == id`; first match in id order wins) -/\n"
                   f"def fnKeyMode : KeyMode := .{mode}\n\n")
        out.append("/-- `RestrictedConstant` and `TypeOrConstant` derive `PartialEq, Eq, Hash` and have no hand-written instance -/\n"
                   f"def argEqDerived : Bool := {'true' if derived else 'false'}\n\n")
        out.append("/-- struct templates: `HashMap<Vec<TypeOrConstant>, StructId>`; `get(provided)`, then `get(&final_params)`, insert under the provided list -/\n"
                   "def structMapKeyedByArgs : Bool := true\n")
        out.append(T.footer("InstTable"))
        return "".join(out)

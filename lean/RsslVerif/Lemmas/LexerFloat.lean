import RsslVerif.Lemmas.Lexer
/-! # Float literals: which digits and exponent the lexer hands to the decimal→binary conversion -/
namespace RsslVerif.Model.Lexer
open RsslVerif.Gen.LexTables RsslVerif.Spec

/-- the ASCII byte of a decimal digit -/
def digitByte (d : Nat) : UInt8 := UInt8.ofNat (48 + d)

theorem decDigit_byte {b : UInt8} {d : Nat} (h : decDigit? b = some d) : digitByte d = b ∧ d < 10 := by
  unfold decDigit? at h
  split at h
  · rename_i hb
    simp at h
    subst h
    refine ⟨?_, by omega⟩
    unfold digitByte
    have : 48 + (b.toNat - 48) = b.toNat := by omega
    rw [this]
    exact UInt8.ofNat_toNat
  · cases h

theorem spanDigits_text (inp : Bytes) :
    inp = (spanDigits inp).1.map digitByte ++ (spanDigits inp).2 ∧ ∀ d ∈ (spanDigits inp).1, d < 10 := by
  induction inp with
  | nil => simp [spanDigits]
  | cons b r ih =>
    cases hd : decDigit? b with
    | none => simp [spanDigits, hd]
    | some d =>
      obtain ⟨hb, hlt⟩ := decDigit_byte hd
      simp only [spanDigits, hd, List.map_cons, List.cons_append, List.mem_cons]
      refine ⟨by rw [hb, ← ih.1], ?_⟩
      intro x hx
      rcases hx with hx | hx
      · omega
      · exact ih.2 x hx

theorem digitSequence_text {inp rest : Bytes} {ds : List Nat} (h : digitSequence inp = .ok (rest, ds)) :
    inp = ds.map digitByte ++ rest ∧ ds ≠ [] ∧ ∀ d ∈ ds, d < 10 := by
  unfold digitSequence at h
  split at h
  · cases h
  · rename_i r d he
    obtain ⟨b, hb, hf⟩ := digitWith_ok he
    obtain ⟨hbyte, hlt⟩ := decDigit_byte hf
    simp at h
    obtain ⟨h1, h2⟩ := h
    subst h1 h2
    have := spanDigits_text r
    refine ⟨?_, by simp, ?_⟩
    · rw [hb]; simp only [List.map_cons, List.cons_append, hbyte]; rw [← this.1]
    · intro x hx
      rcases List.mem_cons.mp hx with hx | hx
      · omega
      · exact this.2 x hx

/-- the digits `fractional_constant` returns are the text: `<whole>.<fraction>` -/
theorem fractionalConstant_text {inp rest : Bytes} {l r : List Nat}
    (h : fractionalConstant inp = .ok (rest, (l, r))) :
    inp = l.map digitByte ++ 46 :: (r.map digitByte ++ rest) ∧ (l ≠ [] ∨ r ≠ []) := by
  unfold fractionalConstant at h
  dsimp only at h
  cases hw : digitSequence inp with
  | error e =>
    simp only [hw, opt] at h
    cases inp with
    | nil => simp [otherTokenChars] at h
    | cons b i2 =>
      simp only at h
      split at h
      · rename_i hb
        split at h
        · cases h
        · rename_i i3 fr hfr
          simp at h
          obtain ⟨h1, h2, h3⟩ := h
          subst h1 h2 h3
          obtain ⟨ht, hne, _⟩ := digitSequence_text hfr
          have hb' : b = 46 := by
            apply UInt8.toNat_inj.mp; simpa using hb
          refine ⟨?_, .inr hne⟩
          simp [hb', ht]
      · cases h
  | ok p =>
    obtain ⟨i1, whole⟩ := p
    obtain ⟨ht, hne, _⟩ := digitSequence_text hw
    simp only [hw, opt] at h
    cases i1 with
    | nil => simp [otherTokenChars] at h
    | cons b i2 =>
      simp only at h
      split at h
      · rename_i hb
        have hb' : b = 46 := by
          apply UInt8.toNat_inj.mp; simpa using hb
        simp at h
        obtain ⟨h1, h2, h3⟩ := h
        subst h2
        refine ⟨?_, .inl hne⟩
        cases hf : digitSequence i2 with
        | error e =>
          simp [hf] at h1 h3
          subst h1 h3
          simp [ht, hb']
        | ok q =>
          obtain ⟨i3, fr⟩ := q
          simp [hf] at h1 h3
          subst h1 h3
          obtain ⟨ht2, _, _⟩ := digitSequence_text hf
          simp [ht, hb', ht2]
      · cases h

theorem digitSequence_lt {inp rest : Bytes} {ds : List Nat} (h : digitSequence inp = .ok (rest, ds)) :
    ∀ d ∈ ds, d < 10 := (digitSequence_text h).2.2

/-- the digits `fractional_constant` returns are decimal digits -/
theorem fractionalConstant_lt {inp rest : Bytes} {l r : List Nat}
    (h : fractionalConstant inp = .ok (rest, (l, r))) : (∀ d ∈ l, d < 10) ∧ (∀ d ∈ r, d < 10) := by
  unfold fractionalConstant at h
  dsimp only at h
  cases hw : digitSequence inp with
  | error e =>
    simp only [hw, opt] at h
    cases inp with
    | nil => simp [otherTokenChars] at h
    | cons b i2 =>
      simp only at h
      split at h
      · split at h
        · cases h
        · rename_i i3 fr hfr
          simp at h
          obtain ⟨h1, h2, h3⟩ := h
          subst h1 h2 h3
          exact ⟨by simp, digitSequence_lt hfr⟩
      · cases h
  | ok p =>
    obtain ⟨i1, whole⟩ := p
    simp only [hw, opt] at h
    cases i1 with
    | nil => simp [otherTokenChars] at h
    | cons b i2 =>
      simp only at h
      split at h
      · simp at h
        obtain ⟨h1, h2, h3⟩ := h
        subst h2
        refine ⟨digitSequence_lt hw, ?_⟩
        cases hf : digitSequence i2 with
        | error e => simp [hf] at h3; subst h3; simp
        | ok q =>
          obtain ⟨i3, fr⟩ := q
          simp [hf] at h3
          subst h3
          exact digitSequence_lt hf
      · cases h

/-- the value bits a float token carries -/
def Token.floatBits? : Token → Option Nat
  | .litFloat v | .litFloat64 v | .litFloat16 v | .litFloat32 v => some v
  | _ => none

/-- "narrowed once to single precision when suffixed f or h" -/
def narrowOnce (ty : Option FloatType) (bits64 : Nat) : Nat :=
  match ty with
  | some .Half | some .Float => Dec2Bin.narrow32 bits64
  | _ => bits64

theorem mkFloatToken_bits (v : Nat) (ty : Option FloatType) :
    (mkFloatToken v ty).floatBits? = some (narrowOnce ty v) := by
  match ty with
  | none => rfl
  | some .Half => rfl
  | some .Float => rfl
  | some .Double => rfl

/-- the digits `literal_float` converts are the literal's own text: `<left>[.<right>]` -/
theorem floatMantissa_text {inp i2 : Bytes} {hf : Bool} {l r : List Nat}
    (h : floatMantissa inp = .ok (i2, (hf, l, r))) :
    inp = l.map digitByte ++ ((if hf then 46 :: r.map digitByte else []) ++ i2) ∧ (hf = false → r = []) := by
  unfold floatMantissa at h
  dsimp only at h
  cases hfc : fractionalConstant inp with
  | ok p =>
    obtain ⟨i1, l', r'⟩ := p
    simp only [hfc, opt] at h
    simp at h
    obtain ⟨h1, h2, h3, h4⟩ := h
    subst h1 h2 h3 h4
    have := (fractionalConstant_text hfc).1
    simp [this]
  | error e =>
    simp only [hfc, opt] at h
    split at h
    · cases h
    · rename_i i w hd
      simp at h
      obtain ⟨h1, h2, h3, h4⟩ := h
      subst h1 h2 h3 h4
      simp [(digitSequence_text hd).1]

theorem floatMantissa_lt {inp i2 : Bytes} {hf : Bool} {l r : List Nat}
    (h : floatMantissa inp = .ok (i2, (hf, l, r))) : ∀ d ∈ l ++ r, d < 10 := by
  unfold floatMantissa at h
  dsimp only at h
  cases hfc : fractionalConstant inp with
  | ok p =>
    obtain ⟨i1, l', r'⟩ := p
    simp only [hfc, opt] at h
    simp at h
    obtain ⟨h1, h2, h3, h4⟩ := h
    subst h1 h2 h3 h4
    have := fractionalConstant_lt hfc
    intro d hd
    rcases List.mem_append.mp hd with hd | hd
    · exact this.1 d hd
    · exact this.2 d hd
  | error e =>
    simp only [hfc, opt] at h
    split at h
    · cases h
    · rename_i i w hd
      simp at h
      obtain ⟨h1, h2, h3, h4⟩ := h
      subst h1 h2 h3 h4
      simpa using digitSequence_lt hd

/-- what `literal_float` computes: the double nearest to `<left>.<right> × 10^exp` (or infinity for the `#INF`
spelling on a non-zero literal without exponent), narrowed once when the suffix asks for it -/
theorem literalFloat_value {inp rest : Bytes} {tok : Token} (h : literalFloat inp = .ok (rest, tok)) :
    ∃ (hasFraction : Bool) (left right : List Nat) (i2 : Bytes) (ty : Option FloatType),
      floatMantissa inp = .ok (i2, (hasFraction, left, right)) ∧
      (tok.floatBits? = some (narrowOnce ty
          (Dec2Bin.nearest64 (left ++ right) ((opt (floatExponent i2) i2).2.getD 0 - right.length))) ∨
       ((opt (floatExponent i2) i2).2 = none ∧
        Dec2Bin.nearest64 (left ++ right) (0 - right.length) ≠ 0 ∧
        tok.floatBits? = some (narrowOnce ty Dec2Bin.binary64.infBits))) := by
  unfold literalFloat at h
  split at h
  · cases h
  · rename_i i2 hasFraction left right hm
    refine ⟨hasFraction, left, right, i2, ?_⟩
    dsimp only at h
    split at h
    · cases h
    · split at h
      · cases h
      · rename_i i4 v hinf
        have key : ∀ ty, (mkFloatToken v ty).floatBits? = some (narrowOnce ty v) := mkFloatToken_bits v
        have hv : v = float64FromParts left right ((opt (floatExponent i2) i2).2.getD 0) ∨
            ((opt (floatExponent i2) i2).2 = none ∧
              float64FromParts left right ((opt (floatExponent i2) i2).2.getD 0) ≠ 0 ∧
              v = Dec2Bin.binary64.infBits) := by
          unfold floatInf at hinf
          split at hinf
          · split at hinf
            · rename_i hc
              simp at hinf
              right
              refine ⟨?_, hc.1, hinf.2.symm⟩
              cases hx : (opt (floatExponent i2) i2).2 with
              | none => rfl
              | some x => simp [hx] at hc
            · cases hinf
          · simp at hinf; exact .inl hinf.2.symm
        have fin : ∀ ty t, t = mkFloatToken v ty →
            (t.floatBits? = some (narrowOnce ty
              (Dec2Bin.nearest64 (left ++ right) ((opt (floatExponent i2) i2).2.getD 0 - right.length))) ∨
            ((opt (floatExponent i2) i2).2 = none ∧
              Dec2Bin.nearest64 (left ++ right) (0 - right.length) ≠ 0 ∧
              t.floatBits? = some (narrowOnce ty Dec2Bin.binary64.infBits))) := by
          intro ty t ht
          subst ht
          rcases hv with hv | ⟨h1, h2, h3⟩
          · left; rw [key, hv]; rfl
          · right
            refine ⟨h1, ?_, by rw [key, h3]⟩
            simpa [float64FromParts, h1] using h2
        split at h
        · simp at h
          exact ⟨_, hm, fin _ _ h.2.symm⟩
        · split at h
          · split at h <;> cases h
          · simp at h
            exact ⟨_, hm, fin _ _ h.2.symm⟩

end RsslVerif.Model.Lexer

import RsslVerif.Model.Overload
/-!
# Overload candidates of every kind that reaches `find_function_type`

`find_function_type` (typer/src/typer/expressions.rs) is the one resolution routine behind free functions,
struct methods (external `s.f(..)` and internal `f(..)` calls, also of instantiated struct templates), functions in
namespaces, user functions that share the name of an intrinsic (they join the intrinsic's overload list in the root
scope) and intrinsic methods of objects.  What differs between the paths is only *which* `Vec<FunctionId>` is handed
over (scopes.rs `find_identifier_in_scope`: the innermost scope that knows the name, nothing from outer scopes;
`get_struct_member_expression`: the methods of the struct in declaration order; `get_object_functions`).

What differs between candidate *kinds* is the first half of `find_overload_casts`: a function template is turned into a
concrete signature first (explicit template arguments, then `try_infer_template_type` over the parameters in order,
`normalize_template_type`, `build_function_template_signature`), and that step can fail (candidate not viable) or
panic (`register_type`: "… inside vector").  This file models

* `GCand`: a candidate whose instantiation step is an arbitrary function of the argument types (the form the theorems
  quantify over: *any* deduction relation, any arity range),
* `TCand`: the concrete function templates the generator writes (`T`, `vector<T, n>`, `matrix<T, x, y>` parameters,
  type and value template parameters, explicit template arguments) with `TCand.toG`, the transcription of the template
  half of `find_overload_casts`,
* `resolveG` (rank everything first) and `resolveGLazy` (evaluation order of the source), proved equal in
  `Thm.C16.resolveGLazy_eq_resolveG`.
-/
namespace RsslVerif.Model.Overload
open RsslVerif.Gen.RankTable RsslVerif.Model.Conv

/-- a candidate as `find_function_type` sees it: `FunctionId`, `signature.param_types.len()`,
    `signature.non_default_params`, and the template half of `find_overload_casts` as a function of the argument
    types: `.error` = panic, `.ok none` = `Err(())`, `.ok (some ps)` = the parameter list of the (instantiated)
    signature -/
structure GCand where
  id : Nat
  arity : Nat
  nonDefault : Nat
  inst : List ETy → Except String (Option (List Param))

/-- an ordinary function is its own instance -/
def Cand.toG (c : Cand) : GCand := ⟨c.id, c.params.length, c.nonDefault, fun _ => .ok (some c.params)⟩

/-- arity guard of `find_function_type`, then `find_overload_casts` (template step, `zip` loop) and `get_rank` -/
def rankG (args : List ETy) (g : GCand) : CandResult :=
  if args.length ≤ g.arity ∧ g.nonDefault ≤ args.length then
    match g.inst args with
    | .error e => .panic e
    | .ok none => .notViable
    | .ok (some ps) =>
      match zipRanks ps args with
      | .error e => .panic e
      | .ok none => .notViable
      | .ok (some rs) => .ranked g.id rs
  else .notViable

/-- steps 2–4 of `find_function_type` on the per-candidate results -/
def resolveResults (rs : List CandResult) : Outcome :=
  if rs.any CandResult.isPanic then .panic
  else resolveRanked (rs.filterMap CandResult.ranked?)

/-- `find_function_type` over candidates of any kind -/
def resolveG (cands : List GCand) (args : List ETy) : Outcome :=
  resolveResults (cands.map (rankG args))

/-- first loop of `find_function_type`, evaluation order as in the source -/
def viableCastsG (args : List ETy) : List GCand → Except String (List (Nat × List Conversion))
  | [] => .ok []
  | g :: gs =>
    if args.length ≤ g.arity ∧ g.nonDefault ≤ args.length then
      match g.inst args with
      | .error e => .error e
      | .ok none => viableCastsG args gs
      | .ok (some ps) =>
        match zipFind ps args with
        | .error e => .error e
        | .ok r =>
          match viableCastsG args gs with
          | .error e => .error e
          | .ok rest => .ok (match r with | some x => (g.id, x) :: rest | none => rest)
    else viableCastsG args gs

/-- the loops after the first one (`resolveLazy` with the viable casts given) -/
def resolveCasts : Except String (List (Nat × List Conversion)) → Outcome
  | .error _ => .panic
  | .ok casts =>
    match winnersL casts casts with
    | .error _ => .panic
    | .ok w =>
      match rankWinners w with
      | .error _ => .panic
      | .ok wr =>
        match finals wr with
        | [] => .unmatched
        | [c] => .selected c.1
        | cs => .ambiguous (cs.map (·.1))

/-- `find_function_type` over candidates of any kind, evaluation order as in the source -/
def resolveGLazy (cands : List GCand) (args : List ETy) : Outcome :=
  resolveCasts (viableCastsG args cands)

/-! ## function templates as the generator writes them -/

/-- a parameter type as written in a declaration: concrete, or mentioning template parameter number `k`
    (its `positional_index`) -/
inductive PTy where
  | conc (t : Ty)
  /-- `T` -/
  | tvar (k : Nat)
  /-- `vector<T, n>` -/
  | tvec (k n : Nat)
  /-- `matrix<T, x, y>` -/
  | tmat (k x y : Nat)
  /-- `T p[len]`.  (An array of a scalar is the layer `other (arrayId s len)`: `find` only compares array types.) -/
  | tarr (k len : Nat)
  deriving DecidableEq, Repr

/-- position of a scalar kind in `ir::ScalarType` -/
def scalarIdx (s : Scalar) : Nat := Scalar.all.idxOf s

/-- the `other` id under which the correspondence protocol names the type `s[len]` (1 ≤ len ≤ 9) -/
def arrayId (s : Scalar) (len : Nat) : Nat := 100 + 10 * scalarIdx s + len

/-- the array type behind an `other` id of the protocol -/
def arrayOf? (id : Nat) : Option (Scalar × Nat) :=
  if 100 ≤ id ∧ id < 200 ∧ (id - 100) % 10 ≠ 0 then (Scalar.all[(id - 100) / 10]?).map fun s => (s, (id - 100) % 10) else none

structure TParam where
  pat : PTy
  io : InputModifier
  deriving DecidableEq, Repr

/-- `ir::TemplateParam::{Type, Value}` -/
inductive TKind where | type | value
  deriving DecidableEq, Repr

/-- `ir::TypeOrConstant` (the value of a constant plays no role) -/
inductive TArg where | type (t : Ty) | const
  deriving DecidableEq, Repr

/-- a declared overload: `tkinds = []` for an ordinary function -/
structure TCand where
  id : Nat
  tkinds : List TKind
  params : List TParam
  nonDefault : Nat
  deriving DecidableEq, Repr

/-- `try_infer_template_type(template_type_id = i, required, input)`.  `get_type_layer` of a modified type is the
    `Modifier` layer, so only an unmodified vector / matrix is drilled into; a vector's inner type is a scalar. -/
def tryInfer (i : Nat) : PTy → Ty → Option Ty
  | .tvar k, t => if k = i then some t else none
  | .tvec k n, t =>
    if t.mod = {} then
      match t.layer with
      | .vector s m => if n = m ∧ k = i then some ⟨{}, .scalar s⟩ else none
      | _ => none
    else none
  | .tmat k x y, t =>
    if t.mod = {} then
      match t.layer with
      | .matrix s x' y' => if x = x' ∧ y = y' ∧ k = i then some ⟨{}, .scalar s⟩ else none
      | _ => none
    else none
  | .tarr k len, t =>
    if t.mod = {} then
      match t.layer with
      | .other id =>
        match arrayOf? id with
        | some (s, len') => if len = len' ∧ k = i then some ⟨{}, .scalar s⟩ else none
        | none => none
      | _ => none
    else none
  | .conc _, _ => none

/-- the `for (required_type, source_type) in signature.param_types.zip(param_types)` loop with its `break` -/
def firstInfer (i : Nat) : List TParam → List ETy → Option Ty
  | p :: ps, a :: as =>
    match tryInfer i p.pat a.ty with
    | some t => some t
    | none => firstInfer i ps as
  | _, _ => none

def normScalar : Scalar → Scalar
  | .intLiteral => .int32
  | .floatLiteral => .float32
  | s => s

/-- `normalize_template_type`: modifiers removed, untyped literals become `int` / `float` -/
def normalizeTy (t : Ty) : Ty :=
  ⟨{}, match t.layer with
       | .scalar s => .scalar (normScalar s)
       | .vector s n => .vector (normScalar s) n
       | .matrix s x y => .matrix (normScalar s) x y
       | l => l⟩

def TArg.normalize : TArg → TArg
  | .type t => .type (normalizeTy t)
  | .const => .const

/-- the `for i in 0..arg_count` loop of `find_overload_casts`: explicit arguments first, the rest inferred
    (value parameters are never inferred); `none` = `return Err(())` -/
def gatherArgs (params : List TParam) (explicit : List TArg) (args : List ETy) : Nat → List TKind → Option (List TArg)
  | _, [] => some []
  | i, k :: ks =>
    let arg : Option TArg :=
      match explicit[i]? with
      | some a => some a
      | none =>
        match k with
        | .value => none
        | .type => (firstInfer i params args).map .type
    match arg with
    | none => none
    | some a =>
      match gatherArgs params explicit args (i + 1) ks with
      | none => none
      | some rest => some (a.normalize :: rest)

/-- the kind check of `build_function_template_signature` (a type parameter given a constant, or a value parameter
    given a type: `return None`) -/
def kindsAgree : List TKind → List TArg → Bool
  | [], [] => true
  | .type :: ks, .type _ :: as => kindsAgree ks as
  | .value :: ks, .const :: as => kindsAgree ks as
  | _, _ => false

def isPlainScalar (t : Ty) : Option Scalar :=
  if t.mod = {} then match t.layer with | .scalar s => some s | _ => none else none

def substPTyArr (targs : List TArg) (k len : Nat) : Except String Ty :=
  match targs[k]? with
  | some (.type t) =>
    match isPlainScalar t with
    | some s => .ok ⟨{}, .other (arrayId s len)⟩
    -- an array of a non-scalar is a legal type, but not one the protocol can name
    | none => .error "unsupported: array of a non-scalar"
  | _ => .error "types.rs: todo!(\"Non-type template arguments\")"

/-- `apply_template_type_substitution` on one parameter type.  `.error` = the panic of `TypeRegistry::register_type`
    ("… inside vector" / "… inside matrix") when the argument for `T` in `vector<T, n>` is not a plain scalar, or the
    `todo!()` when a parameter type names a value parameter. -/
def substPTy (targs : List TArg) : PTy → Except String Ty
  | .conc t => .ok t
  | .tvar k =>
    match targs[k]? with
    | some (.type t) => .ok t
    | _ => .error "types.rs: todo!(\"Non-type template arguments\")"
  | .tvec k n =>
    match targs[k]? with
    | some (.type t) =>
      match isPlainScalar t with
      | some s => .ok ⟨{}, .vector s n⟩
      | none => .error "ir_types.rs: inside vector"
    | _ => .error "types.rs: todo!(\"Non-type template arguments\")"
  | .tmat k x y =>
    match targs[k]? with
    | some (.type t) =>
      match isPlainScalar t with
      | some s => .ok ⟨{}, .matrix s x y⟩
      | none => .error "ir_types.rs: inside matrix"
    | _ => .error "types.rs: todo!(\"Non-type template arguments\")"
  | .tarr k len => substPTyArr targs k len

def substParams (targs : List TArg) : List TParam → Except String (List Param)
  | [] => .ok []
  | p :: ps =>
    match substPTy targs p.pat with
    | .error e => .error e
    | .ok t =>
      match substParams targs ps with
      | .error e => .error e
      | .ok rest => .ok (⟨t, p.io⟩ :: rest)

/-- the template arguments `find_overload_casts` settles on (`none` = not viable) -/
def TCand.targs (c : TCand) (explicit : List TArg) (args : List ETy) : Option (List TArg) :=
  if explicit.length > c.tkinds.length then none
  else
    match gatherArgs c.params explicit args 0 c.tkinds with
    | none => none
    | some targs => if kindsAgree c.tkinds targs then some targs else none

/-- the template half of `find_overload_casts` -/
def TCand.inst (c : TCand) (explicit : List TArg) (args : List ETy) : Except String (Option (List Param)) :=
  if c.tkinds.isEmpty then
    -- `else if !template_args.is_empty() { return Err(()) }`: template arguments given to a non template function
    if explicit.isEmpty then
      match substParams [] c.params with
      | .error e => .error e
      | .ok ps => .ok (some ps)
    else .ok none
  else
    match c.targs explicit args with
    | none => .ok none
    | some targs =>
      match substParams targs c.params with
      | .error e => .error e
      | .ok ps => .ok (some ps)

def TCand.toG (explicit : List TArg) (c : TCand) : GCand :=
  ⟨c.id, c.params.length, c.nonDefault, c.inst explicit⟩

/-- `find_function_type(overloads, template_args, param_types)` on declared overloads -/
def resolveT (cands : List TCand) (explicit : List TArg) (args : List ETy) : Outcome :=
  resolveG (cands.map (TCand.toG explicit)) args

def resolveTLazy (cands : List TCand) (explicit : List TArg) (args : List ETy) : Outcome :=
  resolveGLazy (cands.map (TCand.toG explicit)) args

end RsslVerif.Model.Overload

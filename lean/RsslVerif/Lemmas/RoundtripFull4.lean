import RsslVerif.Lemmas.RoundtripFull3
/-! Round trip for the full expression model: the constructor cases of the expression kinds of the first model
(literal, identifier, unary, binary, conditional, member, subscript), now under the extended invariant. -/
set_option linter.unusedSimpArgs false
set_option linter.unusedVariables false
namespace RsslVerif.Lemmas.RoundtripFull
open RsslVerif.Gen.FmtTables RsslVerif.Gen.ParseTables RsslVerif.Gen.SyntaxTables RsslVerif.Model.Format
open RsslVerif.Model.FormatFull RsslVerif.Model.ParseFull RsslVerif.Lemmas.FmtParseTables

variable (W : List String)

theorem gtSub {x : XExpr} {outer : Nat} {side : Side} (h : gtFreeSub x outer side = true)
    (hp : needParen x.prec outer side = false) : gtFree x = true := by
  unfold gtFreeSub at h
  simpa [hp] using h

theorem safe_child {e c : XExpr} {tsP tsC : List Tok} (hs : Safe e tsP) (hmono : hasLt c = true → hasLt e = true)
    (hsuf : tsC <:+ tsP) : Safe c tsC :=
  fun hl => tmplFree_suffix hsuf (hs (hmono hl))

theorem operandStart_fmt (e : XExpr) (hwf : WF W e) (outer : Nat) (side : Side) (hpo : PosOk outer side)
    (rest : List Tok) : OperandStart (toks (fmtSubX e outer side) ++ rest) := by
  obtain ⟨t, ts', h1, h2, _⟩ := head_fmt W e hwf outer side hpo
  rw [h1]; exact h2.1

theorem p2ok_leaf (t : Tok) (rest : List Tok) (h : (∃ n, t = .id n) ∨ (∃ l, t = .lit l)) : P2Ok W (t :: rest) := by
  rcases h with ⟨n, rfl⟩ | ⟨l, rfl⟩
  · refine ⟨rfl, ?_, ?_⟩ <;> (intro h; cases h)
  · refine ⟨rfl, ?_, ?_⟩ <;> (intro h; cases h)

theorem rt_lit (n : Lit) (hwf : LitOk n = true) : RT W (.lit n) := by
  intro k term rest out hgt hle hk htf hno hsafe hfin
  rw [toks_lit n hwf]
  have hl0 : (XExpr.lit n).lvl = 0 := by simp [XExpr.lvl, litOk_not_negative n hwf]
  rw [hl0] at hle hfin
  have hp : Parses W 0 term ([.lit n] ++ rest) (.lit n, rest) :=
    ⟨1, fun f hf => by obtain ⟨f', rfl, _⟩ := succ_of_pos hf; simp [xparseLvl]⟩
  exact finish_nonloop W hp (Or.inl rfl) (Nat.zero_le _) (fun _ => p2ok_leaf W _ _ (Or.inr ⟨n, rfl⟩)) hno hfin

theorem rt_id (n : String) : RT W (.id n) := by
  intro k term rest out hgt hle hk htf hno hsafe hfin
  rw [toks_id n]
  have hp : Parses W 0 term ([.id n] ++ rest) (.id n, rest) :=
    ⟨1, fun f hf => by obtain ⟨f', rfl, _⟩ := succ_of_pos hf; simp [xparseLvl]⟩
  exact finish_nonloop W hp (Or.inl rfl) (Nat.zero_le _) (fun _ => p2ok_leaf W _ _ (Or.inl ⟨n, rfl⟩)) hno hfin

theorem posOk_prefix (op : UnOp) (h : isPostfix op = false) : PosOk (unPrec op) prefixOperandSide := by
  cases op <;> simp [isPostfix] at h <;> exact Or.inl (by decide)
theorem posOk_postfix (op : UnOp) (h : isPostfix op = true) : PosOk (unPrec op) postfixOperandSide := by
  cases op <;> simp [isPostfix] at h <;> exact Or.inr ⟨rfl, Or.inl rfl⟩
theorem posOk_binL (op : BinOp) : PosOk (binPrec op) binLeftSide := by cases op <;> exact Or.inl (by decide)
theorem posOk_binR (op : BinOp) : PosOk (binPrec op) binRightSide := by cases op <;> exact Or.inl (by decide)

theorem rt_prefix (op : UnOp) (x : XExpr) (hpost : isPostfix op = false) (hwf : WF W x) (ihx : RT W x) :
    RT W (.un op x) := by
  intro k term rest out hgt hle hk htf hno hsafe hfin
  have hlvl : (XExpr.un op x).lvl = 2 := by simp [XExpr.lvl, hpost]
  rw [hlvl] at hle hfin
  rw [toks_prefix op x hpost] at hsafe ⊢
  have hpo := posOk_prefix op hpost
  have hx : Parses W 2 term (toks (fmtSubX x (unPrec op) prefixOperandSide) ++ rest) (x, rest) :=
    rts_self W ihx _ _ 2 term rest (by omega)
      (fun hp => ⟨pos_prefix op x hpost hp, fun h => by have := pos_prefix op x hpost hp; omega,
        fun ht => gtSub (by have := hgt ht; simpa [gtFree, hpost] using this) hp⟩)
      (fun hp => parenDead W x hwf (needParen_prec hpo hp) _)
      (safe_child hsafe (fun h => by simpa [hasLt] using h) (List.suffix_cons _ _))
      (NoLow.mono W hno hle) (fun _ => inert2 W term rest)
  have hp : Parses W 2 term (unTok op :: toks (fmtSubX x (unPrec op) prefixOperandSide) ++ rest) (.un op x, rest) := by
    obtain ⟨N, h⟩ := hx
    refine ⟨N + 1, fun f hf => ?_⟩
    obtain ⟨f', rfl, hf'⟩ := succ_of_pos hf
    have hpre : prefixOp (unTok op) = some op := by cases op <;> simp [isPostfix] at hpost <;> rfl
    unfold xparseLvl
    simp [hpre, h f' hf']
  exact finish_nonloop W hp (Or.inr (Or.inl rfl)) hle (fun h => by omega) hno hfin

/-- the stream of a node whose object is read at level 1 is a level-2 entry `expr_p1` handles -/
theorem p2ok_object (o : XExpr) (hwf : WF W o) (outer : Nat) (side : Side) (hpo : PosOk outer side)
    (hl : needParen o.prec outer side = false → o.lvl ≤ 1) (more : List Tok) :
    P2Ok W (toks (fmtSubX o outer side) ++ more) := by
  obtain ⟨t, ts', h1, h2, h3⟩ := head_fmt W o hwf outer side hpo
  rw [h1]
  apply h3
  cases hpx : needParen o.prec outer side with
  | true => exact Or.inl rfl
  | false => exact Or.inr (hl hpx)

theorem rt_postfix (op : UnOp) (x : XExpr) (hpost : isPostfix op = true) (hwf : WF W x) (ihx : RT W x) :
    RT W (.un op x) := by
  intro k term rest out hgt hle hk htf hno hsafe hfin
  have hlvl : (XExpr.un op x).lvl = 1 := by simp [XExpr.lvl, hpost]
  rw [hlvl] at hle hfin
  rw [toks_postfix op x hpost] at hsafe ⊢
  simp only [List.append_assoc, List.singleton_append] at hsafe ⊢
  have hpo := posOk_postfix op hpost
  refine finish_loop W (lv := 1) ?_ (by decide) hle ?_ hno hfin
  · intro out' hc
    apply rts W ihx _ _ 1 term (unTok op :: rest) out' (by omega)
    · exact fun hp => ⟨pos_postfix op x hpost hp, fun h => by have := pos_postfix op x hpost hp; omega,
        fun ht => gtSub (by have := hgt ht; simpa [gtFree, hpost] using this) hp⟩
    · exact fun hp => parenDead W x hwf (needParen_prec hpo hp) _
    · exact safe_child hsafe (fun h => by simpa [hasLt] using h) (List.suffix_refl _)
    · exact fun i h1 h2 => by omega
    · apply fin_of_conts W _ _ _ _ _ _ (by decide)
      · obtain ⟨N, h⟩ := hc
        refine ⟨N + 1, fun f hf => ?_⟩
        obtain ⟨f', rfl, hf'⟩ := succ_of_pos hf
        unfold xcont
        cases op <;> simp [isPostfix] at hpost <;> simp [unTok, h f' hf']
  · intro _
    exact p2ok_object W x hwf _ _ hpo (pos_postfix op x hpost) _

theorem rt_mem (o : XExpr) (n : String) (hwf : WF W o) (iho : RT W o) : RT W (.mem o n) := by
  intro k term rest out hgt hle hk htf hno hsafe hfin
  have hlvl : (XExpr.mem o n).lvl = 1 := rfl
  rw [hlvl] at hle hfin
  have hP2 : P2Ok W (toks (fmtBodyX (.mem o n)) ++ rest) := by
    obtain ⟨t, ts', h1, _, h3⟩ := head_fmt W (.mem o n) hwf topPrec topSide (Or.inl (by decide))
    have h1' : toks (fmtBodyX (.mem o n)) = t :: ts' := h1
    rw [h1']
    exact h3 (Or.inr (by simp [XExpr.lvl])) rest
  rw [toks_mem] at hsafe hP2 ⊢
  simp only [List.append_assoc, List.cons_append, List.nil_append] at hsafe hP2 ⊢
  have hpo : PosOk precMember memObjectSide := Or.inr ⟨rfl, Or.inl rfl⟩
  refine finish_loop W (lv := 1) ?_ (by decide) hle (fun _ => hP2) hno hfin
  intro out' hc
  have hfin' : ∀ lv, Fin W o lv 1 term (.p .Period :: .id n :: rest) out' := by
    intro lv
    apply fin_of_conts W _ _ _ _ _ _ (by decide)
    obtain ⟨N, h⟩ := hc
    refine ⟨N + 1, fun f hf => ?_⟩
    obtain ⟨f', rfl, hf'⟩ := succ_of_pos hf
    unfold xcont
    simp [h f' hf']
  cases hmp : memObjParenX o with
  | false =>
    rw [hmp, wrap_false] at hsafe
    rw [wrap_false]
    apply rts W iho _ _ 1 term (.p .Period :: .id n :: rest) out' (by omega)
    · exact fun hp => ⟨pos_postfixLike o _ (Or.inl rfl) hp, fun h => by have := pos_postfixLike o _ (Or.inl rfl) hp; omega,
        fun ht => gtSub (by have := hgt ht; simpa [gtFree] using this) hp⟩
    · exact fun hp => parenDead W o hwf (needParen_prec hpo hp) _
    · exact safe_child hsafe (fun h => by simpa [hasLt] using h) (List.suffix_refl _)
    · exact fun i h1 h2 => by omega
    · exact hfin' _
  | true =>
    -- `(1).m`: the object is an integer literal, printed in parentheses of its own
    cases o with
    | lit l =>
      have hl : LitOk l = true := hwf
      have hnp : needParen (XExpr.lit l).prec precMember memObjectSide = false := by
        simp only [XExpr.prec, litPrec_of_ok l hl]; decide
      rw [toks_wrap_true, fmtSubX_eq, hnp, wrap_false]
      have h0 := parses_paren W iho term (.p .Period :: .id n :: rest) (fun h => by simp [hasLt] at h)
      simp only [List.cons_append, List.append_assoc, List.nil_append] at h0 ⊢
      have hcd : CastDead W (toks (fmtBodyX (.lit l)) ++ .p .RightParen :: .p .Period :: .id n :: rest) := by
        rw [toks_lit l hl]
        exact castDead_of_B W [.lit l] _ (by simp [castDeadB, modBeforeStep])
      exact finish_nonloop W h0 (Or.inl rfl) (Nat.zero_le _) (fun _ => p2ok_paren W _ _ hcd)
        (fun i h1 h2 => by omega) (hfin' 0)
    | _ => simp [memObjParenX] at hmp

theorem rt_sub (o i : XExpr) (hwo : WF W o) (hwi : WF W i) (iho : RT W o) (ihi : RT W i) : RT W (.sub o i) := by
  intro k term rest out hgt hle hk htf hno hsafe hfin
  have hlvl : (XExpr.sub o i).lvl = 1 := rfl
  rw [hlvl] at hle hfin
  rw [toks_sub] at hsafe ⊢
  simp only [List.append_assoc, List.cons_append, List.nil_append] at hsafe ⊢
  have hpo : PosOk precArraySubscript subObjectSide := Or.inr ⟨rfl, Or.inl rfl⟩
  have hpi : PosOk precArraySubscript subIndexSide := Or.inr ⟨rfl, Or.inr rfl⟩
  have hI : Parses W 15 .Sequence (toks (fmtSubX i precArraySubscript subIndexSide) ++ (.p .RightSquareBracket :: rest))
      (i, .p .RightSquareBracket :: rest) :=
    rts_self W ihi _ _ 15 .Sequence _ (Nat.le_refl _)
      (fun hp => ⟨by have := pos_postfixLike i _ (Or.inr rfl) hp; omega,
                  fun h => by have := pos_postfixLike i _ (Or.inr rfl) hp; omega, fun h => by cases h⟩)
      (fun hp => parenDead W i hwi (needParen_prec hpi hp) _)
      (safe_child hsafe (fun h => by simp [hasLt, h])
        ((List.suffix_cons _ _).trans (List.suffix_append _ _)))
      (noLow_closes W 15 _ _ _ (Or.inr (Or.inl rfl))) (fun _ => inert_closes W 15 _ _ _ (Or.inr (Or.inl rfl)))
  refine finish_loop W (lv := 1) ?_ (by decide) hle ?_ hno hfin
  · intro out' hc
    apply rts W iho _ _ 1 term _ out' (by omega)
    · exact fun hp => ⟨pos_postfixLike o _ (Or.inl rfl) hp, fun h => by have := pos_postfixLike o _ (Or.inl rfl) hp; omega,
        fun ht => gtSub (by have := hgt ht; simpa [gtFree] using this) hp⟩
    · exact fun hp => parenDead W o hwo (needParen_prec hpo hp) _
    · exact safe_child hsafe (fun h => by simp [hasLt, h]) (List.suffix_refl _)
    · exact fun i h1 h2 => by omega
    · apply fin_of_conts W _ _ _ _ _ _ (by decide)
      obtain ⟨N1, h1⟩ := hI
      obtain ⟨N2, h2⟩ := hc
      refine ⟨max N1 N2 + 1, fun f hf => ?_⟩
      obtain ⟨f', rfl, hf'⟩ := succ_of_pos hf
      unfold xcont
      simp [subscriptTerminator, h1 f' (by omega), h2 f' (by omega)]
  · intro _
    exact p2ok_object W o hwo _ _ hpo (pos_postfixLike o _ (Or.inl rfl)) _

theorem binLevel_ne13 (op : BinOp) : binLevel op ≠ 13 := by cases op <;> decide

theorem gtOp_false_termOk (op : BinOp) (term : Terminator) (h1 : op = .Sequence → term = .Standard)
    (h2 : term = .TypeList → gtOp op = false) : TermOk op term := by
  refine ⟨h1, fun h ht => ?_⟩
  have := h2 ht
  rcases h with rfl | rfl | rfl <;> simp [gtOp] at this

theorem rt_bin (op : BinOp) (l r : XExpr) (hwf : WF W (.bin op l r)) (ihl : RT W l) (ihr : RT W r) :
    RT W (.bin op l r) := by
  intro k term rest out hgt hle hk htf hno hsafe hfin
  obtain ⟨_, hwl, hwr⟩ := hwf
  have hlvl : (XExpr.bin op l r).lvl = binLevel op := rfl
  rw [hlvl] at hle hfin
  have hp3 := binLevel_ge op
  have hp15 := binLevel_le op
  have hp13 := binLevel_ne13 op
  rw [toks_bin] at hsafe ⊢
  simp only [List.append_assoc] at hsafe ⊢
  have hpoL := posOk_binL op
  have hpoR := posOk_binR op
  have hOS : OperandStart (toks (fmtSubX r (binPrec op) binRightSide) ++ rest) := operandStart_fmt W r hwr _ _ hpoR rest
  have hgt' : term = .TypeList → gtOp op = false ∧ gtFreeSub l (binPrec op) binLeftSide = true ∧
      gtFreeSub r (binPrec op) binRightSide = true := by
    intro ht
    have := hgt ht
    simp only [gtFree, Bool.and_eq_true, Bool.not_eq_true'] at this
    exact ⟨this.1.1, this.1.2, this.2⟩
  have hTermOk : TermOk op term :=
    gtOp_false_termOk op term (fun hseq => htf (by subst hseq; rfl)) (fun ht => (hgt' ht).1)
  -- what follows the left operand
  have hsafeR : Safe r (toks (fmtSubX r (binPrec op) binRightSide) ++ rest) :=
    safe_child hsafe (fun h => by simp [hasLt, h])
      ((List.suffix_append _ _).trans (List.suffix_append _ _))
  have hsafeL : Safe l (toks (fmtSubX l (binPrec op) binLeftSide) ++ (binToks op ++ (toks (fmtSubX r (binPrec op) binRightSide) ++ rest))) :=
    safe_child hsafe (fun h => by simp [hasLt, h]) (List.suffix_refl _)
  have hDead : op = .LessThan → TmplDead W (binToks op ++ (toks (fmtSubX r (binPrec op) binRightSide) ++ rest)) := by
    intro hop
    apply tmplDead_of_free
    exact tmplFree_suffix (List.suffix_append _ _) (hsafe (by simp [hasLt, hop]))
  have hInertOp : ∀ i, i < binLevel op → Inert W i term (binToks op ++ (toks (fmtSubX r (binPrec op) binRightSide) ++ rest)) :=
    fun i hi => inert_binToks W op i term _ hOS hi hDead
  by_cases h14 : binLevel op = 14
  · -- assignment: p13 op p14
    have hI14 : Inert W 14 term rest := by
      by_cases hk14 : k = 14
      · subst hk14
        have : Fin W (.bin op l r) (binLevel op) 14 term rest out := hfin
        rw [h14] at this
        simp only [Fin, NonLoop] at this
        simp at this
        exact this.2
      · exact hno 14 (by omega) (by omega)
    have hR : Parses W 14 term (toks (fmtSubX r (binPrec op) binRightSide) ++ rest) (r, rest) :=
      rts_self W ihr _ _ 14 term rest (by omega)
        (fun hp => ⟨(pos_binR op r hp).2 h14, fun h => by have := (pos_binR op r hp).2 h14; omega,
          fun ht => gtSub (hgt' ht).2.2 hp⟩)
        (fun hp => parenDead W r hwr (needParen_prec hpoR hp) _) hsafeR
        (NoLow.mono W hno (by omega)) (fun _ => hI14)
    have hL : Parses W 13 term (toks (fmtSubX l (binPrec op) binLeftSide) ++
        (binToks op ++ (toks (fmtSubX r (binPrec op) binRightSide) ++ rest)))
        (l, binToks op ++ (toks (fmtSubX r (binPrec op) binRightSide) ++ rest)) :=
      rts_self W ihl _ _ 13 term _ (by omega)
        (fun hp => ⟨by have := (pos_binL op l hp).2 h14; omega, fun h => by have := (pos_binL op l hp).2 h14; omega,
          fun ht => gtSub (hgt' ht).2.1 hp⟩)
        (fun hp => parenDead W l hwl (needParen_prec hpoL hp) _) hsafeL
        (fun i h1 h2 => hInertOp i (by omega))
        (fun _ => hInertOp 13 (by omega))
    have hC : Conts W 14 term l (binToks op ++ (toks (fmtSubX r (binPrec op) binRightSide) ++ rest)) (.bin op l r, rest) := by
      obtain ⟨N, h⟩ := hR
      refine ⟨N + 1, fun f hf => ?_⟩
      obtain ⟨f', rfl, hf'⟩ := succ_of_pos hf
      have hown := parseOpAt_own op term _ hOS hTermOk
      rw [h14] at hown
      unfold xcont
      simp [hown, h f' hf']
    have hp14 : Parses W 14 term _ (.bin op l r, rest) := lift W hL hC (by omega)
    rw [h14] at hle hfin
    exact finish_nonloop W hp14 (Or.inr (Or.inr (Or.inr rfl))) hle (fun h => by omega) hno hfin
  · -- left-associative loop
    have hnoP : NoLow W (binLevel op) term rest := NoLow.mono W hno hle
    refine finish_loop W (lv := binLevel op) ?_ (by simp only [NonLoop]; omega) hle (fun h => by omega) hno hfin
    intro out' hc
    have hR : Parses W (binLevel op - 1) term (toks (fmtSubX r (binPrec op) binRightSide) ++ rest) (r, rest) :=
      rts_self W ihr _ _ (binLevel op - 1) term rest (by omega)
        (fun hp => ⟨(pos_binR op r hp).1 h14, fun h => by have := (pos_binR op r hp).1 h14; omega,
          fun ht => gtSub (hgt' ht).2.2 hp⟩)
        (fun hp => parenDead W r hwr (needParen_prec hpoR hp) _) hsafeR
        (NoLow.mono W hnoP (by omega)) (fun _ => hnoP (binLevel op - 1) (by omega) (by omega))
    have hstep : Conts W (binLevel op) term l (binToks op ++ (toks (fmtSubX r (binPrec op) binRightSide) ++ rest)) out' := by
      obtain ⟨N1, h1⟩ := hR
      obtain ⟨N2, h2⟩ := hc
      refine ⟨max N1 N2 + 1, fun f hf => ?_⟩
      obtain ⟨f', rfl, hf'⟩ := succ_of_pos hf
      have hown := parseOpAt_own op term _ hOS hTermOk
      unfold xcont
      have e1 : binLevel op ≠ 1 := by omega
      have e2 : binLevel op ≠ 2 := by omega
      simp only [e1, e2, hp13, h14, if_false, hown, h1 f' (by omega), h2 f' (by omega)]
    apply rts W ihl _ _ (binLevel op) term _ out' hp15
    · intro hp
      have := (pos_binL op l hp).1 h14
      exact ⟨this.1, fun h15 => htf (by rw [hlvl]; exact this.2 h15), fun ht => gtSub (hgt' ht).2.1 hp⟩
    · exact fun hp => parenDead W l hwl (needParen_prec hpoL hp) _
    · exact hsafeL
    · exact fun i h1 h2 => hInertOp i h2
    · exact fin_of_conts W _ _ _ _ _ _ (by simp only [NonLoop]; omega) hstep

theorem rt_tern (c a b : XExpr) (hwf : WF W (.tern c a b)) (ihc : RT W c) (iha : RT W a) (ihb : RT W b) :
    RT W (.tern c a b) := by
  intro k term rest out hgt hle hk htf hno hsafe hfin
  obtain ⟨_, wc, wa, wb⟩ := hwf
  have hlvl : (XExpr.tern c a b).lvl = 13 := rfl
  rw [hlvl] at hle hfin
  have hI13 : Inert W 13 term rest := by
    by_cases hk13 : k = 13
    · subst hk13
      simp only [Fin, NonLoop] at hfin
      simp at hfin
      exact hfin.2
    · exact hno 13 (by omega) (by omega)
  have hno13 : NoLow W 13 term rest := NoLow.mono W hno hle
  have hpo : ∀ s, PosOk precTernaryConditional s := fun s => Or.inl (by decide)
  have hgt' : term = .TypeList → gtFreeSub c precTernaryConditional ternCondSide = true ∧
      gtFreeSub a precTernaryConditional ternTrueSide = true ∧
      (falseIsAssignmentX b = true ∨ gtFreeSub b precTernaryConditional ternFalseSide = true) := by
    intro ht
    have := hgt ht
    simp only [gtFree, Bool.and_eq_true, Bool.or_eq_true] at this
    exact ⟨this.1.1, this.1.2, this.2⟩
  rw [toks_tern] at hsafe ⊢
  simp only [List.append_assoc, List.cons_append] at hsafe ⊢
  -- last operand
  have hsafeB : Safe b (toks (wrap (falseIsAssignmentX b) (fmtSubX b precTernaryConditional ternFalseSide)) ++ rest) :=
    safe_child hsafe (fun h => by simp [hasLt, h])
      ((List.suffix_cons _ _).trans ((List.suffix_append _ _).trans ((List.suffix_cons _ _).trans (List.suffix_append _ _))))
  have hB : Parses W 13 term (toks (wrap (falseIsAssignmentX b) (fmtSubX b precTernaryConditional ternFalseSide)) ++ rest) (b, rest) := by
    cases hfa : falseIsAssignmentX b with
    | true =>
      obtain ⟨hnp, _⟩ := falseIsAssignmentX_spec b hfa
      rw [hfa] at hsafeB
      rw [toks_wrap_true, fmtSubX_eq, hnp, wrap_false] at hsafeB ⊢
      simp only [List.cons_append, List.append_assoc, List.nil_append] at hsafeB ⊢
      have h0 := parses_paren W ihb term rest (safe_suffix hsafeB (List.suffix_cons _ _))
      have hcd : CastDead W (toks (fmtBodyX b) ++ .p .RightParen :: rest) :=
        parenDead W b wb (by
          cases b with
          | bin o _ _ => cases o <;> simp [falseIsAssignmentX] at hfa <;> simp [XExpr.prec, binPrec]
          | _ => simp [falseIsAssignmentX] at hfa) _
      exact finish_nonloop W h0 (Or.inl rfl) (Nat.zero_le _) (fun _ => p2ok_paren W _ _ hcd) hno13
        (fin_self W b 0 13 term rest (by omega) (fun _ => hI13))
    | false =>
      rw [hfa] at hsafeB
      rw [wrap_false] at hsafeB ⊢
      exact rts_self W ihb _ _ 13 term rest (by omega)
        (fun hp => by
          have := pos_ternB b hp
          refine ⟨?_, fun h => by omega, fun ht => ?_⟩
          · rcases Nat.lt_or_ge b.lvl 14 with h | h
            · omega
            · have h14 : b.lvl = 14 := by omega
              have := this.2 h14
              rw [hfa] at this
              cases this
          · rcases (hgt' ht).2.2 with h | h
            · rw [hfa] at h; cases h
            · exact gtSub h hp)
        (fun hp => parenDead W b wb (needParen_prec (hpo _) hp) _) hsafeB
        hno13 (fun _ => hI13)
  -- middle operand: read at the assignment level (delimited by `?` and `:`)
  have hA : Parses W 14 term (toks (fmtSubX a precTernaryConditional ternTrueSide) ++
      (.p .Colon :: (toks (wrap (falseIsAssignmentX b) (fmtSubX b precTernaryConditional ternFalseSide)) ++ rest)))
      (a, .p .Colon :: (toks (wrap (falseIsAssignmentX b) (fmtSubX b precTernaryConditional ternFalseSide)) ++ rest)) :=
    rts_self W iha _ _ 14 term _ (by omega)
      (fun hp => ⟨pos_ternA a hp, fun h => by have := pos_ternA a hp; omega, fun ht => gtSub (hgt' ht).2.1 hp⟩)
      (fun hp => parenDead W a wa (needParen_prec (hpo _) hp) _)
      (safe_child hsafe (fun h => by simp [hasLt, h]) ((List.suffix_cons _ _).trans (List.suffix_append _ _)))
      (noLow_closes W 14 term _ _ (Or.inr (Or.inr (Or.inl rfl))))
      (fun _ => inert_closes W 14 term _ _ (Or.inr (Or.inr (Or.inl rfl))))
  -- condition
  have hC : Parses W 12 term (toks (fmtSubX c precTernaryConditional ternCondSide) ++
      (.p .QuestionMark :: (toks (fmtSubX a precTernaryConditional ternTrueSide) ++
        (.p .Colon :: (toks (wrap (falseIsAssignmentX b) (fmtSubX b precTernaryConditional ternFalseSide)) ++ rest)))))
      (c, .p .QuestionMark :: (toks (fmtSubX a precTernaryConditional ternTrueSide) ++
        (.p .Colon :: (toks (wrap (falseIsAssignmentX b) (fmtSubX b precTernaryConditional ternFalseSide)) ++ rest)))) :=
    rts_self W ihc _ _ 12 term _ (by omega)
      (fun hp => ⟨pos_ternC c hp, fun h => by have := pos_ternC c hp; omega, fun ht => gtSub (hgt' ht).1 hp⟩)
      (fun hp => parenDead W c wc (needParen_prec (hpo _) hp) _)
      (safe_child hsafe (fun h => by simp [hasLt, h]) (List.suffix_refl _))
      (fun i h1 h2 => inert_question W i term _ (by omega))
      (fun _ => inert_question W 12 term _ (by omega))
  have hK : Conts W 13 term c (.p .QuestionMark :: (toks (fmtSubX a precTernaryConditional ternTrueSide) ++
        (.p .Colon :: (toks (wrap (falseIsAssignmentX b) (fmtSubX b precTernaryConditional ternFalseSide)) ++ rest))))
      (.tern c a b, rest) := by
    obtain ⟨N1, h1⟩ := hA
    obtain ⟨N2, h2⟩ := hB
    refine ⟨max N1 N2 + 1, fun f hf => ?_⟩
    obtain ⟨f', rfl, hf'⟩ := succ_of_pos hf
    unfold xcont
    simp [ternMiddleLevel, ternLastLevel, h1 f' (by omega), h2 f' (by omega)]
  have hp13 : Parses W 13 term _ (.tern c a b, rest) := lift W hC hK (by omega)
  exact finish_nonloop W hp13 (Or.inr (Or.inr (Or.inl rfl))) hle (fun h => by omega) hno hfin

end RsslVerif.Lemmas.RoundtripFull

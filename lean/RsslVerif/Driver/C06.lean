import RsslVerif.Model.SlotsCompile
import RsslVerif.Driver.Util
/-! Line-protocol front end of the C06 model. -/
namespace RsslVerif.Driver.C06
open RsslVerif.Gen.SlotTables RsslVerif.Model.Slots RsslVerif.Model.SlotsCompile RsslVerif.Driver

def parseParams (s : String) : Option Params :=
  match s.toList.map bit? with
  | [some a, some b, some c, some d] => some ⟨a, b, c, d⟩
  | _ => none

def parseDecl (s : String) : Option Decl :=
  match s.splitOn ":" with
  | ["o"] => some .other
  | ["c", set] => (optNat? set).map .cbuffer
  | ["g", set, ss, kind, len] => do
    let set ← optNat? set
    let ss ← match ss with | "1" => some true | "0" => some false | _ => none
    let kind ← if kind == "-" then some none else (ObjKind.ofName? kind).map some
    let len ← optNat? len
    pure (.global set ss kind len)
  | _ => none

def showBinding : Option Binding → String
  | none => "-"
  | some b =>
    toString b.set ++ "," ++
    (match b.loc with | .index i => "i" ++ toString i | .inline o => "n" ++ toString o) ++ "," ++
    (match b.slotType with | none => "-" | some r => r.name)

def showBuf (b : InlineBuf) : String :=
  toString b.set ++ "," ++ toString b.apiLocation ++ "," ++ toString b.sizeInBytes

/-! ### C06.compile -/

def parseTarget : String → Option (Target × Bool)
  | "dx" => some (.HlslForDirectX, false)
  | "vk" => some (.HlslForVulkan, false)
  | "vkba" => some (.HlslForVulkan, true)
  | "msl" => some (.Msl, false)
  | _ => none

def parseMode (s : String) : Option Mode :=
  if s == "all" then some .all
  else if s == "nopipeline" then some .noPipeline
  else if s.startsWith "name=" then some (.named (s.drop 5).toString) else none

/-- `<name>:<default group|->:<c|g>:<uses>`; an absent DefaultBindGroup property leaves the typer's 0 -/
def parsePipe (s : String) : Option Pipeline :=
  match s.splitOn ":" with
  | [name, dflt, _, _] => (optNat? dflt).map fun d => { name := name, defaultGroup := d.getD 0 }
  | _ => none

/-- `<name>=<decl>~<flags>`: flag `s` (static storage), `z` (unsized array) and `m` (two-dimensional array) make
    the global one that `process_definition` leaves alone (storage class not Extern / after peeling the modifier and
    ONE sized array layer the type is not an object); the other flags only change the spelling of the same
    declaration. Returns (name, declaration, is unsized). -/
def parseNamedDecl (s : String) : Option (String × Decl × Bool) :=
  match s.splitOn "=" with
  | [name, rest] =>
    match rest.splitOn "~" with
    | [decl, flags] =>
      let fl := flags.splitOn "."
      match parseDecl decl with
      | none => none
      | some d =>
        let d' := match d with
          | .global set ss kind len =>
            if fl.contains "z" || fl.contains "m" then .global set ss none none
            else if fl.contains "s" then .global set ss none len
            else .global set ss kind len
          | d => d
        some (name, d', fl.contains "z")
    | _ => none
  | _ => none

def showMetaBinding (b : MetaBinding) : String :=
  b.name ++ "," ++ (match b.loc with | .index i => "i" ++ toString i | .inline o => "n" ++ toString o) ++ "," ++ toString b.count

def showGroup (g : MetaGroup) : String :=
  ";".intercalate (g.bindings.map showMetaBinding) ++ "|" ++
  (match g.inlineBlock with | none => "-" | some (l, z) => toString l ++ "," ++ toString z)

def showErr : Err → String
  | .invalidArgs => "err:invalid-args"
  | .noPipeline => "err:none"
  | .unknownPipeline n => "err:unknown:" ++ n
  | .bindGroup n => "err:bind-group:" ++ toString n
  | .panic m => "panic:" ++ m

def handleCompile (tgt mode pipes decls : String) : String :=
  match parseTarget tgt, parseMode mode,
        sequenceOpt ((if pipes == "-" then [] else pipes.splitOn ";").map parsePipe),
        sequenceOpt ((if decls.isEmpty then [] else decls.splitOn ";").map parseNamedDecl) with
  | some (t, sba), some m, some ps, some nds =>
    if isMetal t && nds.any (·.2.2) then "unsupported: unsized resource arrays are not implemented by the Metal exporter"
    else
      let ir := Module.fresh (nds.map (·.1)) (nds.map (·.2.1)) ps
      match compile { target := t, supportBufferAddress := sba, mode := m } ir with
      | .error e => showErr e
      | .ok bs => "ok:" ++ " ## ".intercalate (bs.map fun b => "{" ++ " / ".intercalate (b.groups.map showGroup) ++ "}")
  | _, _, _, _ => "bad-request"

def handle (op : String) (args : List String) : String :=
  match op, args with
  | "C06.compile", [tgt, mode, pipes, decls] => handleCompile tgt mode pipes decls
  | "C06.assign", [ps, dflt, decls] =>
    match parseParams ps, dflt.toNat?,
          sequenceOpt ((if decls.isEmpty then [] else decls.splitOn ";").map parseDecl) with
    | some p, some d, some ds =>
      match assign p d ds with
      | .error e => "panic:" ++ e
      | .ok r => ";".intercalate (r.bindings.map showBinding) ++ " || " ++
                 ";".intercalate (r.inlineBufs.map showBuf)
    | _, _, _ => "bad-request"
  | _, _ => "unsupported-op"

end RsslVerif.Driver.C06

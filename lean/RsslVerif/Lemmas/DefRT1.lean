import RsslVerif.Lemmas.DefRT0
/-! Round trip of function and struct definitions: parameter lists, functions, struct members, structs. -/
set_option linter.unusedSimpArgs false
set_option linter.unusedVariables false
namespace RsslVerif.Lemmas.DefRT
open RsslVerif.Gen.FmtTables RsslVerif.Gen.ParseTables RsslVerif.Gen.SyntaxTables RsslVerif.Model.Format
open RsslVerif.Model.FormatFull RsslVerif.Model.ParseFull RsslVerif.Model.FormatStmt RsslVerif.Model.ParseStmt
open RsslVerif.Model.FormatDef RsslVerif.Model.ParseDef
open RsslVerif.Lemmas.FmtParseTables RsslVerif.Lemmas.RoundtripFull RsslVerif.Lemmas.StmtRT

variable (W : List String)

theorem suffix_cons_of {α} {r l : List α} (a : α) (h : r <:+ l) : r <:+ a :: l := h.trans (List.suffix_cons _ _)
theorem suffix_append_of {α} {r l : List α} (l1 : List α) (h : r <:+ l) : r <:+ l1 ++ l := h.trans (List.suffix_append _ _)

/-- `r <:+ l` where `l` is built from `r` by consing and prepending -/
macro "suffix_tac" : tactic =>
  `(tactic| repeat (first | exact List.suffix_refl _ | apply suffix_cons_of | apply suffix_append_of))

/-! ## First token of a type -/

/-- the tokens a printed type can start with: a modifier or a name -/
def TyHead (t : Tok) : Prop := (∃ n, t = .id n) ∨ (∃ m, t = modTok m)

theorem tyHead_ne (t : Tok) (h : TyHead t) :
    t ≠ .p .RightParen ∧ t ≠ .p .LeftSquareBracket ∧ t ≠ .p .Template ∧ t ≠ .p .RightBrace ∧ t ≠ .p .Struct := by
  rcases h with ⟨n, rfl⟩ | ⟨m, rfl⟩
  · refine ⟨?_, ?_, ?_, ?_, ?_⟩ <;> (intro h; cases h)
  · cases m <;> (refine ⟨?_, ?_, ?_, ?_, ?_⟩ <;> decide)

theorem ty_head (mods : List TypeMod) (n : String) (more : List Tok) :
    ∃ t r, mods.map modTok ++ (.id n :: more) = t :: r ∧ TyHead t := by
  cases mods with
  | nil => exact ⟨.id n, more, rfl, Or.inl ⟨n, rfl⟩⟩
  | cons m ms => exact ⟨modTok m, _, rfl, Or.inr ⟨m, rfl⟩⟩

theorem param_head (p : Param) : ∃ t r, paramToks p = t :: r ∧ TyHead t := ty_head p.mods p.name _

/-! ## Parameter lists -/

def paramsToks : List Param → List Tok
  | [] => []
  | [p] => paramToks p
  | p :: q :: r => paramToks p ++ .p .Comma :: paramsToks (q :: r)

theorem toks_fmtParams : ∀ ps : List Param, toks (fmtParams ps) = paramsToks ps
  | [] => rfl
  | [p] => by simp [fmtParams, paramsToks, toks_fmtParam]
  | p :: q :: r => by
    have := toks_fmtParams (q :: r)
    simp [fmtParams, paramsToks, toks_fmtParam, this, comma, pp, toks_append, toks]

def hasLtParams : List Param → Bool
  | [] => false
  | p :: r => hasLtParam p || hasLtParams r

theorem params_read : ∀ (ps : List Param), (∀ p, p ∈ ps → WFParam W p) → ∀ rest,
    (hasLtParams ps = true → TmplFree (paramsToks ps ++ .p .RightParen :: rest) = true) →
    ∃ N, ∀ f, N ≤ f → parseParams W f (paramsToks ps ++ .p .RightParen :: rest) = some (ps, .p .RightParen :: rest)
  | [], _, rest, _ => by
    refine ⟨1, fun f hf => ?_⟩
    obtain ⟨f', rfl, _⟩ := succ_of_pos hf
    simp [paramsToks, parseParams]
  | [p], hw, rest, hsafe => by
    obtain ⟨t, r, htr, hth⟩ := param_head p
    obtain ⟨N1, h1⟩ := param_reads W p (hw p List.mem_cons_self) (.p .RightParen) (Or.inr rfl) rest
      (fun hl => hsafe (by simp [hasLtParams, hl]))
    refine ⟨N1 + 1, fun f hf => ?_⟩
    obtain ⟨f', rfl, hf'⟩ := succ_of_pos hf
    have g1 := h1 f' hf'
    simp only [paramsToks] at g1 ⊢
    rw [htr] at g1 ⊢
    simp only [List.cons_append] at g1 ⊢
    unfold parseParams
    split
    · rename_i heq; simp only [List.cons.injEq] at heq; exact absurd heq.1 (tyHead_ne t hth).1
    · simp only [g1]
  | p :: q :: ps, hw, rest, hsafe => by
    obtain ⟨t, r, htr, hth⟩ := param_head p
    obtain ⟨t2, r2, htr2, hth2⟩ : ∃ t2 r2, paramsToks (q :: ps) ++ .p .RightParen :: rest = t2 :: r2 ∧ TyHead t2 := by
      obtain ⟨t2, r2, h, hh⟩ := param_head q
      cases ps with
      | nil => exact ⟨t2, r2 ++ .p .RightParen :: rest, by simp [paramsToks, h], hh⟩
      | cons q' ps' => exact ⟨t2, r2 ++ .p .Comma :: (paramsToks (q' :: ps') ++ .p .RightParen :: rest), by simp [paramsToks, h], hh⟩
    have htoks : paramsToks (p :: q :: ps) ++ .p .RightParen :: rest =
        paramToks p ++ .p .Comma :: (paramsToks (q :: ps) ++ .p .RightParen :: rest) := by
      simp [paramsToks]
    rw [htoks] at hsafe ⊢
    obtain ⟨N1, h1⟩ := param_reads W p (hw p List.mem_cons_self) (.p .Comma) (Or.inl rfl)
      (paramsToks (q :: ps) ++ .p .RightParen :: rest) (fun hl => hsafe (by simp [hasLtParams, hl]))
    obtain ⟨N2, h2⟩ := params_read (q :: ps) (fun x hx => hw x (List.mem_cons_of_mem _ hx)) rest
      (fun hl => tmplFree_suffix ((List.suffix_cons _ _).trans (List.suffix_append _ _))
        (hsafe (by simp [hasLtParams] at hl ⊢; simp [hl])))
    refine ⟨max N1 N2 + 1, fun f hf => ?_⟩
    obtain ⟨f', rfl, hf'⟩ := succ_of_pos hf
    have g1 := h1 f' (by omega)
    have g2 := h2 f' (by omega)
    rw [htr] at g1 ⊢
    simp only [List.cons_append] at g1 ⊢
    unfold parseParams
    split
    · rename_i heq; simp only [List.cons.injEq] at heq; exact absurd heq.1 (tyHead_ne t hth).1
    · simp only [g1]
      rw [htr2] at g2 ⊢
      split
      · rename_i heq; simp only [List.cons.injEq] at heq; exact absurd heq.1 (tyHead_ne t2 hth2).1
      · simp only [g2]

/-! ## Functions -/

def bodyToks : Option Stmts → List Tok
  | none => [.p .Semicolon]
  | some b => .p .LeftBrace :: (toks (fmtStmts b) ++ [.p .RightBrace])

/-- token stream of a function definition from the return type on -/
def sigToks (f : FnDef) : List Tok :=
  f.rmods.map modTok ++ (.id f.rname :: (toks (fmtTArgs f.rtargs false) ++ (.id f.name :: .p .LeftParen ::
    (paramsToks f.params ++ (.p .RightParen :: (toks (fmtSem f.sem) ++ bodyToks f.body))))))

def fnToks (f : FnDef) : List Tok := toks (fmtAttrs f.attrs) ++ sigToks f

theorem toks_fmtFn (f : FnDef) : toks (fmtFn f) = fnToks f := by
  unfold fmtFn fnToks sigToks bodyToks
  cases hb : f.body with
  | none => simp [toks_fmtTy, toks_append, toks_fmtParams, pp, semi, toks]
  | some b =>
    cases b with
    | nil => simp [toks_fmtTy, toks_append, toks_fmtParams, pp, semi, toks, fmtStmts]
    | cons s r => simp [toks_fmtTy, toks_append, toks_fmtParams, pp, semi, toks]

def WFBody : Option Stmts → Prop
  | none => True
  | some b => WFSs W b

def hasLtBody : Option Stmts → Bool
  | none => false
  | some b => hasLtSs b

def WFFn (f : FnDef) : Prop :=
  WFAttrs W f.attrs ∧ modBeforeStep (.id f.rname) = .stop ∧ WFTArgs W f.rtargs ∧ (∀ p, p ∈ f.params → WFParam W p) ∧
  WFBody W f.body

def hasLtFn (f : FnDef) : Bool :=
  hasLtAttrs f.attrs || hasLtTArgs f.rtargs || hasLtParams f.params || hasLtBody f.body

theorem sig_head (f : FnDef) : ∃ t r, sigToks f = t :: r ∧ TyHead t := ty_head f.rmods f.rname _

theorem fn_head (f : FnDef) : ∃ t r, fnToks f = t :: r ∧ (TyHead t ∨ t = .p .LeftSquareBracket) := by
  unfold fnToks
  cases ha : f.attrs with
  | nil =>
    obtain ⟨t, r, h, hh⟩ := sig_head f
    exact ⟨t, r, by simp [fmtAttrs, h], Or.inl hh⟩
  | cons a as =>
    exact ⟨.p .LeftSquareBracket, _, by simp only [fmtAttrs, toks_append, toks_fmtAttr a, List.cons_append] <;> rfl, Or.inr rfl⟩

theorem fn_reads (fn : FnDef) (hw : WFFn W fn) (rest : List Tok)
    (hsafe : hasLtFn fn = true → TmplFree (fnToks fn ++ rest) = true) :
    ∃ N, ∀ f, N ≤ f → parseFn W f (fnToks fn ++ rest) = .ok fn rest := by
  obtain ⟨hwa, hstop, hwT, hwp, hwb⟩ := hw
  obtain ⟨t, r, htr, hth⟩ := fn_head fn
  obtain ⟨ts, rs, htrs, hths⟩ := sig_head fn
  -- what follows the semantic
  obtain ⟨tb, rb, htb, hbne⟩ : ∃ tb rb, bodyToks fn.body ++ rest = tb :: rb ∧ tb ≠ .p .Colon := by
    cases hb : fn.body with
    | none => exact ⟨.p .Semicolon, rest, by simp [bodyToks], by intro h; cases h⟩
    | some b => exact ⟨.p .LeftBrace, _, by simp [bodyToks] <;> rfl, by intro h; cases h⟩
  have htoks : fnToks fn ++ rest = toks (fmtAttrs fn.attrs) ++ (sigToks fn ++ rest) := by simp [fnToks]
  have hsig : sigToks fn ++ rest = fn.rmods.map modTok ++ (.id fn.rname :: (toks (fmtTArgs fn.rtargs false) ++
      (.id fn.name :: .p .LeftParen :: (paramsToks fn.params ++ (.p .RightParen :: (toks (fmtSem fn.sem) ++
        (bodyToks fn.body ++ rest))))))) := by
    simp [sigToks]
  -- attributes
  obtain ⟨N1, h1⟩ := attrs_read W fn.attrs hwa (sigToks fn ++ rest)
    (by intro r' h; rw [htrs] at h; simp only [List.cons_append, List.cons.injEq] at h; exact (tyHead_ne ts hths).2.1 h.1)
    (fun hl => by rw [← htoks]; exact hsafe (by simp [hasLtFn, hl]))
  have hs1 : hasLtFn fn = true → TmplFree (sigToks fn ++ rest) = true := fun hl =>
    tmplFree_suffix (List.suffix_append _ _) (by rw [← htoks]; exact hsafe hl)
  rw [hsig] at hs1
  -- return type
  obtain ⟨N2, h2⟩ := ty_reads W fn.rmods fn.rname fn.rtargs false hstop hwT (.id fn.name) _ (afterTy_id _)
    (fun hl => tmplFree_suffix ((List.suffix_cons _ _).trans (List.suffix_append _ _)) (hs1 (by simp [hasLtFn, hl])))
  -- parameters
  obtain ⟨N3, h3⟩ := params_read W fn.params hwp (toks (fmtSem fn.sem) ++ (bodyToks fn.body ++ rest))
    (fun hl => tmplFree_suffix ((List.suffix_cons _ _).trans ((List.suffix_cons _ _).trans ((List.suffix_append _ _).trans
      ((List.suffix_cons _ _).trans (List.suffix_append _ _))))) (hs1 (by simp [hasLtFn, hl])))
  have h4 := sem_reads fn.sem tb rb hbne
  rw [← htb] at h4
  cases hb : fn.body with
  | none =>
    refine ⟨max (max N1 N2) N3, fun f hf => ?_⟩
    have g1 := h1 f (by omega)
    have g2 := h2 f (by omega)
    have g3 := h3 f (by omega)
    rw [htoks]
    simp only [hb, bodyToks, List.cons_append, List.nil_append, List.append_assoc] at g2 g3 h4
    unfold parseFn
    split
    · rename_i heq
      rw [← htoks, htr] at heq
      simp only [List.cons_append, List.cons.injEq] at heq
      rcases hth with hth | hth
      · exact absurd heq.1 (tyHead_ne t hth).2.2.1
      · rw [hth] at heq; exact absurd heq.1 (by decide)
    · rw [g1]
      simp only [hsig, hb, g2, g3, h4, bodyToks, List.cons_append, List.nil_append]
      cases fn; simp_all
  | some b =>
    rw [hb] at hwb
    obtain ⟨N5, h5⟩ := rss W b hwb rest (fun hl => tmplFree_suffix (by
        rw [hb]
        simp only [bodyToks, List.cons_append, List.append_assoc, List.nil_append]
        suffix_tac)
      (hs1 (by simp [hasLtFn, hb, hasLtBody, hl])))
    refine ⟨max (max N1 N2) (max N3 N5), fun f hf => ?_⟩
    have g1 := h1 f (by omega)
    have g2 := h2 f (by omega)
    have g3 := h3 f (by omega)
    have g5 := h5 f (by omega)
    rw [htoks]
    simp only [hb, bodyToks, List.cons_append, List.nil_append, List.append_assoc] at g2 g3 h4
    unfold parseFn
    split
    · rename_i heq
      rw [← htoks, htr] at heq
      simp only [List.cons_append, List.cons.injEq] at heq
      rcases hth with hth | hth
      · exact absurd heq.1 (tyHead_ne t hth).2.2.1
      · rw [hth] at heq; exact absurd heq.1 (by decide)
    · rw [g1]
      simp only [hsig, hb, g2, g3, h4, bodyToks, List.cons_append, List.nil_append, List.append_assoc, g5]
      cases fn; simp_all

end RsslVerif.Lemmas.DefRT

import RsslVerif.Model.FixpointNames
/-!
# Lemmas about `Model.FixpointNames`: the outward walk of `find_identifier` takes the first scope of the chain in which
# the whole path resolves

* `FirstMatch` / `findFrom_of_firstMatch`: the loop returns the result of the first enclosing scope (innermost first)
  where `resolveAt` succeeds;
* `TableWF`: the shape of the scope table the front end builds (`make_scope`: a new scope gets the next index and an existing
  parent; only scope 0 has `usize::MAX`), `OnChain`: the enclosing scopes of a scope;
* `firstMatch_root`: when no scope of the chain below the root resolves the path, the root is the first match;
* `resolveAt_none_of_undeclared`: a scope that declares nothing under the first name of a path does not resolve it;
* the same for the discipline of seeded mutant C04-3 (`FirstMatchStop`), which additionally needs that the first
  qualifier alone does not resolve in the scopes that are passed.
-/
namespace RsslVerif.Lemmas.FixpointNames
open RsslVerif.Model.FixpointNames

/-- the table is one `make_scope` can have built -/
structure TableWF (T : Table) : Prop where
  root : ∃ sc, T[0]? = some sc ∧ sc.parent = none
  parent_lt : ∀ (i : Nat) (sc : Scope) (p : Nat), T[i]? = some sc → sc.parent = some p → p < i
  nonroot : ∀ (i : Nat) (sc : Scope), T[i]? = some sc → i ≠ 0 → ∃ p, sc.parent = some p

/-- `v` is `u` or one of the scopes enclosing `u` -/
inductive OnChain (T : Table) : Nat → Nat → Prop
  | refl (i : Nat) : OnChain T i i
  | step {i p v : Nat} {sc : Scope} : T[i]? = some sc → sc.parent = some p → OnChain T p v → OnChain T i v

theorem valid_of_lt {T : Table} {i : Nat} (h : i < T.length) : ∃ sc, T[i]? = some sc :=
  ⟨T[i], List.getElem?_eq_getElem h⟩

theorem lt_of_valid {T : Table} {i : Nat} {sc : Scope} (h : T[i]? = some sc) : i < T.length := by
  rcases Nat.lt_or_ge i T.length with hlt | hge
  · exact hlt
  · rw [List.getElem?_eq_none hge] at h; cases h

theorem onChain_valid {T : Table} (wf : TableWF T) {u v : Nat} (h : OnChain T u v) (hu : u < T.length) : v < T.length := by
  induction h with
  | refl i => exact hu
  | step hs hp _ ih =>
    exact ih (Nat.lt_trans (wf.parent_lt _ _ _ hs hp) (lt_of_valid hs))

/-- the first scope, `n` steps outward from `i`, in which the whole path resolves -/
inductive FirstMatch (T : Table) (q : List String) (l : String) (r : Res) : Nat → Nat → Prop
  | here {i : Nat} : resolveAt T i q l = .ok (some r) → FirstMatch T q l r i 0
  | up {i p n : Nat} {sc : Scope} : resolveAt T i q l = .ok none → T[i]? = some sc → sc.parent = some p →
      FirstMatch T q l r p n → FirstMatch T q l r i (n + 1)

theorem findFrom_of_firstMatch {T : Table} {q : List String} {l : String} {r : Res} {i n : Nat}
    (h : FirstMatch T q l r i n) : ∀ fuel, n < fuel → findFrom T q l fuel i = .ok (some r) := by
  induction h with
  | here hr =>
    intro fuel hf
    cases fuel with
    | zero => omega
    | succ f => simp [findFrom, hr]
  | up hr hs hp _ ih =>
    intro fuel hf
    cases fuel with
    | zero => omega
    | succ f =>
      simp only [findFrom, hr, hs, hp]
      exact ih f (by omega)

/-- nothing below the root resolves the path ⇒ the root is the first match, at most `u` steps away -/
theorem firstMatch_root {T : Table} (wf : TableWF T) {q : List String} {l : String} {r : Res}
    (hroot : resolveAt T 0 q l = .ok (some r)) :
    ∀ u, u < T.length → (∀ v, OnChain T u v → v ≠ 0 → resolveAt T v q l = .ok none) →
      ∃ n, n ≤ u ∧ FirstMatch T q l r u n := by
  intro u
  induction u using Nat.strongRecOn with
  | _ u ih =>
    intro hu hclear
    rcases Nat.eq_zero_or_pos u with h0 | hpos
    · subst h0; exact ⟨0, Nat.le_refl _, .here hroot⟩
    · obtain ⟨sc, hs⟩ := valid_of_lt hu
      obtain ⟨p, hp⟩ := wf.nonroot u sc hs (by omega)
      have hlt : p < u := wf.parent_lt u sc p hs hp
      obtain ⟨n, hn, hfm⟩ := ih p hlt (by omega) (fun v hv hv0 => hclear v (.step hs hp hv) hv0)
      exact ⟨n + 1, by omega, .up (hclear u (.refl u) (by omega)) hs hp hfm⟩

/-- `find_identifier` on a relative path whose whole path resolves, on the chain of the use, only from the root -/
theorem find_of_root_only {T : Table} (wf : TableWF T) {u : Nat} (hu : u < T.length) {q : List String} {l : String} {r : Res}
    (hroot : resolveAt T 0 q l = .ok (some r))
    (hclear : ∀ v, OnChain T u v → v ≠ 0 → resolveAt T v q l = .ok none) :
    find T u ⟨false, q, l⟩ = .ok (some r) := by
  obtain ⟨n, hn, hfm⟩ := firstMatch_root wf hroot u hu hclear
  simp only [find]
  exact findFrom_of_firstMatch hfm (T.length + 1) (by omega)

/-- the first name of a path: its first qualifier, or the leaf of an unqualified name -/
def headName (q : List String) (l : String) : String :=
  match q with
  | [] => l
  | h :: _ => h

/-- the scope declares nothing called `h`: no local, no symbol of any kind, no struct member (decidable form) -/
def undeclared (sc : Scope) (h : String) : Bool :=
  (assoc h sc.vars).isNone && (sc.symsOf h).isEmpty &&
    !(match sc.members with | some ms => ms.contains h | none => false)

/-- the scope declares nothing called `h`: no local, no symbol of any kind, no struct member -/
def Undeclared (sc : Scope) (h : String) : Prop :=
  assoc h sc.vars = none ∧ sc.symsOf h = [] ∧ ∀ ms, sc.members = some ms → ms.contains h = false

theorem undeclared_iff {sc : Scope} {h : String} : undeclared sc h = true ↔ Undeclared sc h := by
  unfold undeclared Undeclared
  cases hm : sc.members with
  | none => simp [Option.isNone_iff_eq_none, List.isEmpty_iff]
  | some ms => simp [Option.isNone_iff_eq_none, List.isEmpty_iff, and_assoc]

/-- the enclosing scopes of `i`, innermost first -/
def chain (T : Table) : Nat → Nat → List Nat
  | 0, _ => []
  | fuel + 1, i => i :: match T[i]?.bind (·.parent) with
    | some p => chain T fuel p
    | none => []

theorem findInScope_none_of_undeclared {sc : Scope} {l : String} (h : Undeclared sc l) : findInScope sc l = none := by
  obtain ⟨hv, hs, hm⟩ := h
  unfold findInScope
  rw [hv, hs]
  simp only [scanSyms, firstTy]
  cases hmem : sc.members with
  | none => rfl
  | some ms =>
    have h := hm ms hmem
    simp at h
    simp [h]

theorem walkInto_head_none {T : Table} {v : Nat} {sc : Scope} {h : String} {q : List String} (hs : T[v]? = some sc)
    (hu : sc.symsOf h = []) : walkInto T v (h :: q) = .ok none := by
  simp [walkInto, hs, hu, stepFold]

theorem resolveAt_none_of_undeclared {T : Table} {v : Nat} {sc : Scope} {q : List String} {l : String}
    (hs : T[v]? = some sc) (hu : Undeclared sc (headName q l)) : resolveAt T v q l = .ok none := by
  cases q with
  | nil =>
    simp only [headName] at hu
    simp [resolveAt, walkInto, hs, findInScope_none_of_undeclared hu]
  | cons h q' =>
    simp only [headName] at hu
    simp [resolveAt, walkInto_head_none hs hu.2.1]

/-! ## the discipline of seeded mutant C04-3 -/

/-- as `FirstMatch`, for the loop that stops where the first qualifier alone resolves: the scopes that are passed must
    not resolve it -/
inductive FirstMatchStop (T : Table) (q : List String) (l : String) (r : Res) : Nat → Nat → Prop
  | here {i : Nat} : resolveAt T i q l = .ok (some r) → FirstMatchStop T q l r i 0
  | up {i p n : Nat} {sc : Scope} {w : Option Nat} : resolveAt T i q l = .ok none →
      walkInto T i (q.take 1) = .ok w → ¬ (q ≠ [] ∧ w.isSome = true) → T[i]? = some sc → sc.parent = some p →
      FirstMatchStop T q l r p n → FirstMatchStop T q l r i (n + 1)

theorem findStopFrom_of_firstMatchStop {T : Table} {q : List String} {l : String} {r : Res} {i n : Nat}
    (h : FirstMatchStop T q l r i n) : ∀ fuel, n < fuel → findStopFrom T q l fuel i = .ok (some r) := by
  induction h with
  | here hr =>
    intro fuel hf
    cases fuel with
    | zero => omega
    | succ f => simp [findStopFrom, hr]
  | up hr hw hno hs hp _ ih =>
    intro fuel hf
    cases fuel with
    | zero => omega
    | succ f =>
      simp only [findStopFrom, hr, hw, hs, hp]
      rw [if_neg hno]
      exact ih f (by omega)

theorem firstMatchStop_root {T : Table} (wf : TableWF T) {q : List String} {l : String} {r : Res}
    (hroot : resolveAt T 0 q l = .ok (some r)) :
    ∀ u, u < T.length →
      (∀ v sc, OnChain T u v → v ≠ 0 → T[v]? = some sc → Undeclared sc (headName q l)) →
      ∃ n, n ≤ u ∧ FirstMatchStop T q l r u n := by
  intro u
  induction u using Nat.strongRecOn with
  | _ u ih =>
    intro hu hno
    rcases Nat.eq_zero_or_pos u with h0 | hpos
    · subst h0; exact ⟨0, Nat.le_refl _, .here hroot⟩
    · obtain ⟨sc, hs⟩ := valid_of_lt hu
      obtain ⟨p, hp⟩ := wf.nonroot u sc hs (by omega)
      have hlt : p < u := wf.parent_lt u sc p hs hp
      obtain ⟨n, hn, hfm⟩ := ih p hlt (by omega) (fun v sc' hv hv0 hsv => hno v sc' (.step hs hp hv) hv0 hsv)
      have hund := hno u sc (.refl u) (by omega) hs
      have hres := resolveAt_none_of_undeclared (q := q) (l := l) hs hund
      cases q with
      | nil =>
        refine ⟨n + 1, by omega, .up (w := some u) hres (by simp [walkInto]) (by simp) hs hp hfm⟩
      | cons h q' =>
        simp only [headName] at hund
        refine ⟨n + 1, by omega, .up (w := none) hres ?_ (by simp) hs hp hfm⟩
        simpa using walkInto_head_none (q := []) hs hund.2.1

theorem findStop_of_undeclared {T : Table} (wf : TableWF T) {u : Nat} (hu : u < T.length) {q : List String} {l : String} {r : Res}
    (hroot : resolveAt T 0 q l = .ok (some r))
    (hno : ∀ v sc, OnChain T u v → v ≠ 0 → T[v]? = some sc → Undeclared sc (headName q l)) :
    findStop T u ⟨false, q, l⟩ = .ok (some r) := by
  obtain ⟨n, hn, hfm⟩ := firstMatchStop_root wf hroot u hu hno
  simp only [findStop]
  exact findStopFrom_of_firstMatchStop hfm (T.length + 1) (by omega)

theorem clear_of_undeclared {T : Table} (wf : TableWF T) {u : Nat} (hu : u < T.length) {q : List String} {l : String}
    (hno : ∀ v sc, OnChain T u v → v ≠ 0 → T[v]? = some sc → Undeclared sc (headName q l)) :
    ∀ v, OnChain T u v → v ≠ 0 → resolveAt T v q l = .ok none := by
  intro v hv hv0
  obtain ⟨sc, hs⟩ := valid_of_lt (onChain_valid wf hv hu)
  exact resolveAt_none_of_undeclared hs (hno v sc hv hv0 hs)

theorem mem_chain_of_onChain {T : Table} (wf : TableWF T) {u v : Nat} (h : OnChain T u v) :
    ∀ fuel, u < fuel → v ∈ chain T fuel u := by
  induction h with
  | refl i =>
    intro fuel hf
    cases fuel with
    | zero => omega
    | succ f => simp [chain]
  | step hs hp _ ih =>
    intro fuel hf
    cases fuel with
    | zero => omega
    | succ f =>
      have := wf.parent_lt _ _ _ hs hp
      simp only [chain, hs, hp, Option.bind_some, List.mem_cons]
      exact Or.inr (ih f (by omega))

/-- decidable form of "no scope on the chain of `u` below the root declares `h`" -/
def noInnerHomonymB (T : Table) (u : Nat) (h : String) : Bool :=
  (chain T (u + 1) u).all fun v => v == 0 || match T[v]? with
    | some sc => undeclared sc h
    | none => true

theorem undeclared_of_noInnerHomonymB {T : Table} (wf : TableWF T) {u : Nat} {h : String}
    (hb : noInnerHomonymB T u h = true) :
    ∀ v sc, OnChain T u v → v ≠ 0 → T[v]? = some sc → Undeclared sc h := by
  intro v sc hv hv0 hs
  have hm := mem_chain_of_onChain wf hv (u + 1) (by omega)
  have := (List.all_eq_true.mp hb) v hm
  simp only [hs, Bool.or_eq_true, beq_iff_eq] at this
  rcases this with h0 | hu
  · exact absurd h0 hv0
  · exact undeclared_iff.mp hu

end RsslVerif.Lemmas.FixpointNames

import RsslVerif.Gen.ArithSites
/-!
# Model of the macro scan of `preprocess/src/preprocess.rs` with source locations (C08)

`apply_macros_internal` / `apply_single_macro` / `find_single_macro` / `split_macro_args` once more (C12 has a
model of the same functions without locations and without `defined`), this time with what the *location
arithmetic* of the `defined` operation needs:

* a token is its kind plus the raw `u32` values of `start_location` and `end_location` (`Tok.start`, `Tok.stop`);
* the `FoundMacro::Defined` arm is modelled step by step: the bare form `defined X` (only when a blank was
  skipped), the parenthesised form through `split_macro_args`, `start_location = tokens[pos]`,
  `end_location = tokens[tokens.len() - remaining.len() - 1]`, and the **unchecked `u32` subtraction**
  `end_location.get_raw() - start_location.get_raw()` is an explicit `Err.subOverflow` when the end lies before
  the start (the dev/test profile panics with "attempt to subtract with overflow");
* the `apply_defined` flag handed to the two recursive scans (arguments, substituted body) is a parameter
  (`FlagSrc`); the current source passes `false` to both (`Gen.ArithSites.bodyRescanFlag`, `argExpandFlag`);
* `##` needs `unlex` + the lexer: it is an abstract oracle `paste` (the theorems hold for every oracle that, like
  the lexer, never produces a `Token::Concat`);
* the Rust loops run until done; here every loop iteration and every recursive call consumes `fuel`
  (`Err.fuel` = still running).  The safety theorems hold for every amount of fuel, so fuel is not an assumption
  (termination itself is C12's `expand_terminates`).
* identifiers are numbered; `definedName` is the identifier `defined`.
-/
namespace RsslVerif.Model.DefinedLoc
open RsslVerif.Gen.ArithSites

inductive K where
  | id (name : Nat)
  | lparen
  | rparen
  | comma
  /-- `Whitespace`, `Comment`, `PhysicalEndline` -/
  | blank
  | endline
  /-- `Token::HashHash`: a `##` as lexed (an ordinary token for the scan) -/
  | hashhash
  /-- `Token::Concat`: a `##` inside a macro body -/
  | concat
  /-- `Token::MacroArg(i)` -/
  | arg (i : Nat)
  /-- `Token::LiteralInt(v)` -/
  | lit (v : Nat)
  | other
  deriving DecidableEq, Repr, Inhabited

/-- the identifier `defined` -/
def definedName : Nat := 0

/-- `Token::is_whitespace` -/
def K.isWhitespace : K → Bool
  | .blank | .endline => true
  | _ => false

/-- `tok.is_whitespace() && *tok != Token::Endline` -/
def K.isBlank : K → Bool
  | .blank => true
  | _ => false

structure Tok where
  k : K
  /-- `start_location.get_raw()` -/
  start : Nat
  /-- `end_location.get_raw()` -/
  stop : Nat
  deriving DecidableEq, Repr, Inhabited

inductive Err where
  | invalidDefine
  | macroRequiresArguments
  | macroArgumentsNeverEnd
  | macroExpectsDifferentNumberOfArguments
  | concatMissingLeftToken
  | concatMissingRightToken
  | concatFailed
  /-- an explicit panic site (`assert!`, indexing) -/
  | panic (site : String)
  /-- `end_location.get_raw() - start_location.get_raw()` with the end before the start -/
  | subOverflow
  /-- `find_single_macro` spins on a `Concat` token before `next_pos` -/
  | hang
  /-- the loops are still running -/
  | fuel
  deriving DecidableEq, Repr, Inhabited

structure Macro where
  name : Nat
  isFunction : Bool
  numParams : Nat
  body : List Tok
  deriving DecidableEq, Repr, Inhabited

structure Entry where
  m : Macro
  disabled : Bool
  deriving DecidableEq, Repr, Inhabited

def _root_.RsslVerif.Gen.ArithSites.FlagSrc.eval (f : FlagSrc) (caller : Bool) : Bool :=
  match f with
  | .constFalse => false
  | .constTrue => true
  | .caller => caller
  | .other => caller

/-- `trim_whitespace_start` -/
def trimStart (l : List Tok) : List Tok := l.dropWhile (·.k.isBlank)

/-- `trim_whitespace_and_endlines_start` (fix f08088c): also skips `Token::Endline`, so that the `(` of a
    function-like macro invocation may follow on a later line -/
def trimStartNL (l : List Tok) : List Tok := l.dropWhile (·.k.isWhitespace)

/-- `trim_whitespace_end` -/
def trimEnd (l : List Tok) : List Tok := (l.reverse.dropWhile (·.k.isBlank)).reverse

/-- `trim_whitespace` -/
def trim (l : List Tok) : List Tok := trimEnd (trimStart l)

/-! ## `Macro::parse` -/

/-- split at the first token of kind `k`: `iter().position(|t| t.0 == k)` -/
def splitAtK (k : K) : List Tok → Option (List Tok × List Tok)
  | [] => none
  | t :: r =>
    if t.k = k then some ([], r)
    else match splitAtK k r with
      | some (a, b) => some (t :: a, b)
      | none => none

def indexOfName (p : Nat) : List Nat → Nat → Option Nat
  | [], _ => none
  | q :: r, i => if p = q then some i else indexOfName p r (i + 1)

/-- the `while !last` loop over the comma separated parameter list -/
def parseParams : Nat → List Tok → List Nat → Except Err (List Nat)
  | 0, _, _ => .error (.panic "parseParams: out of fuel")
  | fuel + 1, ts, acc =>
    match splitAtK .comma ts with
    | some (p, rest) =>
      match trim p with
      | [⟨.id s, _, _⟩] => parseParams fuel rest (acc ++ [s])
      | _ => .error .invalidDefine
    | none =>
      match trim ts with
      | [⟨.id s, _, _⟩] => .ok (acc ++ [s])
      | [] => if acc.isEmpty then .ok acc else .error .invalidDefine
      | _ => .error .invalidDefine

/-- body token of a definition: parameters become `MacroArg`, `##` becomes `Concat` -/
def bodyTok (params : List Nat) (t : Tok) : Tok :=
  match t.k with
  | .id s =>
    match indexOfName s params 0 with
    | some i => { t with k := .arg i }
    | none => t
  | .hashhash => { t with k := .concat }
  | _ => t

/-- `Macro::parse`: `command` is everything after the directive name (or the whole text of an API define) -/
def parseDefine (command : List Tok) : Except Err Macro :=
  match trimStart command with
  | ⟨.id name, _, _⟩ :: sig =>
    let parts : Except Err (List Tok × Bool × List Tok) :=
      match sig with
      | ⟨.lparen, _, _⟩ :: rest =>
        match splitAtK .rparen rest with
        | some (ps, body) => .ok (ps, true, body)
        | none => .error .invalidDefine
      | _ => .ok ([], false, sig)
    match parts with
    | .error e => .error e
    | .ok (ps, isFn, body) =>
      match parseParams (ps.length + 1) ps [] with
      | .error e => .error e
      | .ok params =>
        .ok { name := name, isFunction := isFn, numParams := params.length,
              body := (trim body).map (bodyTok params) }
  | _ => .error .invalidDefine

/-- `macros.retain(|m| m.name != def.name); macros.push(def)` -/
def addMacro (macros : List Macro) (m : Macro) : List Macro :=
  macros.filter (fun x => x.name != m.name) ++ [m]

/-! ## `split_macro_args` -/

/-- the scanning loop: `cur` = tokens of the current argument, `depth` = `brace_scope` -/
def scanArgs : List Tok → List Tok → List (List Tok) → Nat → Except Err (List Tok × List (List Tok))
  | [], _, _, _ => .error .macroArgumentsNeverEnd
  | t :: rest, cur, args, depth =>
    match t.k with
    | .comma =>
      if depth = 0 then scanArgs rest [] (args ++ [trim cur]) 0
      else scanArgs rest (cur ++ [t]) args depth
    | .lparen => scanArgs rest (cur ++ [t]) args (depth + 1)
    | .rparen =>
      if depth = 0 then .ok (rest, args ++ [trim cur])
      else scanArgs rest (cur ++ [t]) args (depth - 1)
    | _ => scanArgs rest (cur ++ [t]) args depth

/-- `split_macro_args`: (tokens after the closing parenthesis, arguments); the opening parenthesis is looked for
    after blanks *and line ends* since f08088c -/
def splitArgs (remaining : List Tok) : Except Err (List Tok × List (List Tok)) :=
  match trimStartNL remaining with
  | ⟨.lparen, _, _⟩ :: rest => scanArgs rest [] [] 0
  | _ => .error .macroRequiresArguments

/-! ## `find_single_macro` -/

/-- `MacroSearchPosition`; `lastFn = none` is `usize::MAX` -/
structure SearchPos where
  next : Nat
  early : Nat
  lastFn : Option Nat
  deriving DecidableEq, Repr, Inhabited

def SearchPos.start : SearchPos := ⟨0, 0, none⟩

inductive Found where
  | user (mi pos : Nat)
  | defined (pos : Nat)
  | concat (l r : Nat)
  | none
  deriving DecidableEq, Repr, Inhabited

/-- index of the `(` that follows token `i` after blanks and line ends (`trim_whitespace_and_endlines_start`):
    `activate_pos = tokens.len() - trimmed.len()` -/
def parenAfter (toks : List Tok) (i : Nat) : Option Nat :=
  match trimStartNL (toks.drop (i + 1)) with
  | ⟨.lparen, _, _⟩ :: tail => some (toks.length - (tail.length + 1))
  | _ => none

/-- the `for macro_index in 0..macros.len()` loop for the identifier `name` at index `i` -/
def matchMacro (toks : List Tok) (i : Nat) (name : Nat) (sp : SearchPos) : Nat → List Entry → Option Nat
  | _, [] => none
  | mi, e :: es =>
    if e.disabled then matchMacro toks i name sp (mi + 1) es
    else if sp.lastFn = some mi ∧ i < sp.next then matchMacro toks i name sp (mi + 1) es
    else if name = e.m.name then
      if e.m.isFunction then
        match parenAfter toks i with
        | some activate =>
          if activate < sp.next then matchMacro toks i name sp (mi + 1) es else some mi
        | none => matchMacro toks i name sp (mi + 1) es
      else if i < sp.next then matchMacro toks i name sp (mi + 1) es
      else some mi
    else matchMacro toks i name sp (mi + 1) es

/-- index of the last non-whitespace token (`iter().rev().position(..)`) -/
def lastNonWs : List Tok → Nat → Option Nat → Option Nat
  | [], _, acc => acc
  | t :: r, i, acc => lastNonWs r (i + 1) (if t.k.isWhitespace then acc else some i)

/-- index of the first non-whitespace token -/
def firstNonWs : List Tok → Nat → Option Nat
  | [], _ => none
  | t :: r, i => if t.k.isWhitespace then firstNonWs r (i + 1) else some i

/-- the `while i < tokens.len()` loop; the list argument is `tokens[i..]` -/
def scanFrom (toks : List Tok) (sp : SearchPos) (env : List Entry) (applyDefined : Bool) :
    List Tok → Nat → Except Err Found
  | [], _ => .ok .none
  | t :: rest, i =>
    match t.k with
    | .id name =>
      if sp.next ≤ i ∧ applyDefined = true ∧ name = definedName then .ok (.defined i)
      else
        match matchMacro toks i name sp 0 env with
        | some mi => .ok (.user mi i)
        | none => scanFrom toks sp env applyDefined rest (i + 1)
    | .concat =>
      if i < sp.next then .error .hang
      else
        match lastNonWs (toks.take i) 0 none with
        | none => .error .concatMissingLeftToken
        | some l =>
          match firstNonWs rest (i + 1) with
          | none => .error .concatMissingRightToken
          | some r => .ok (.concat l r)
    | _ => scanFrom toks sp env applyDefined rest (i + 1)

def findSingle (toks : List Tok) (sp : SearchPos) (env : List Entry) (applyDefined : Bool) : Except Err Found :=
  if sp.early ≤ sp.next then scanFrom toks sp env applyDefined (toks.drop sp.early) sp.early
  else .error (.panic "assert early_function_pos <= next_pos")

/-! ## `apply_single_macro` / `apply_macros_internal` -/

/-- "Generate macro body into a local array" -/
def substitute : List Tok → List (List Tok) → Except Err (List Tok)
  | [], _ => .ok []
  | t :: rest, args =>
    match t.k with
    | .arg i =>
      match args[i]? with
      | none => .error (.panic "index out of bounds: args[i]")
      | some a =>
        match substitute rest args with
        | .ok r => .ok (a ++ r)
        | .error e => .error e
    | _ =>
      match substitute rest args with
      | .ok r => .ok (t :: r)
      | .error e => .error e

/-- `tokens.splice(s..e, mid)` -/
def splice (toks : List Tok) (s e : Nat) (mid : List Tok) : List Tok :=
  toks.take s ++ mid ++ toks.drop e

def mapE {α β : Type} (f : α → Except Err β) : List α → Except Err (List β)
  | [] => .ok []
  | a :: r =>
    match f a with
    | .error e => .error e
    | .ok b =>
      match mapE f r with
      | .error e => .error e
      | .ok bs => .ok (b :: bs)

def disable (env : List Entry) (mi : Nat) : List Entry :=
  env.modify mi (fun e => { e with disabled := true })

/-- argument reading and arity check of the `FoundMacro::User` arm -/
def readArgs (m : Macro) (remaining : List Tok) : Except Err (List Tok × List (List Tok)) :=
  if m.isFunction then
    match splitArgs remaining with
    | .error e => .error e
    | .ok (rest, args) =>
      if m.numParams = 0 then
        -- `args.len() == 1 && trim_whitespace_and_endlines_start(args[0]).is_empty()`: "the empty argument
        -- list may still hold a line break"
        match args with
        | [a] =>
          if (trimStartNL a).isEmpty then .ok (rest, args)
          else .error .macroExpectsDifferentNumberOfArguments
        | _ => .error .macroExpectsDifferentNumberOfArguments
      else if args.length ≠ m.numParams then .error .macroExpectsDifferentNumberOfArguments
      else .ok (rest, args)
  else .ok (remaining, [])

/-- "Read argument" of the `FoundMacro::Defined` arm: the tokens that remain after the operand -/
def definedRest (remaining : List Tok) : Except Err (List Tok) :=
  let trimmed := trimStart remaining
  match trimmed with
  | ⟨.id _, _, _⟩ :: rest =>
    if remaining.length ≠ trimmed.length then .ok rest
    else
      -- `defined` directly followed by an identifier: parsed like a macro call, which needs `(`
      match splitArgs remaining with
      | .error e => .error e
      | .ok (rest', args) =>
        match args with
        | [[⟨.id _, _, _⟩]] => .ok rest'
        | _ => .error .macroExpectsDifferentNumberOfArguments
  | _ =>
    match splitArgs remaining with
    | .error e => .error e
    | .ok (rest', args) =>
      match args with
      | [[⟨.id _, _, _⟩]] => .ok rest'
      | _ => .error .macroExpectsDifferentNumberOfArguments

/-- the operand's name (for `exists`): the identifier that `definedRest` accepted -/
def definedOperand (remaining : List Tok) : Option Nat :=
  match trimStart remaining with
  | ⟨.id n, _, _⟩ :: _ => if remaining.length ≠ (trimStart remaining).length then some n else
      match splitArgs remaining with
      | .ok (_, [[⟨.id n', _, _⟩]]) => some n'
      | _ => none
  | _ =>
    match splitArgs remaining with
    | .ok (_, [[⟨.id n', _, _⟩]]) => some n'
    | _ => none

/-- The location arithmetic of the `FoundMacro::Defined` arm: the generated `LiteralInt` token, or the overflow. -/
def definedToken (toks : List Tok) (env : List Entry) (p : Nat) (rem : List Tok) (operand : Option Nat) :
    Except Err Tok :=
  match toks[p]? with
  | none => .error (.panic "index out of bounds: tokens[pos]")
  | some d =>
    if rem.length + 1 ≤ toks.length then
      match toks[toks.length - rem.length - 1]? with
      | none => .error (.panic "index out of bounds: tokens[tokens.len() - remaining.len() - 1]")
      | some last =>
        -- `let location_size = end_location.get_raw() - start_location.get_raw();`
        if last.stop < d.start then .error .subOverflow
        else
          let size := last.stop - d.start
          let isDef := env.any (fun e => some e.m.name == operand)
          -- `PreprocessToken::new(generated_token, start_location, 0, location_size)`
          .ok ⟨.lit (if isDef then 1 else 0), d.start, d.start + size⟩
    else .error (.panic "attempt to subtract with overflow: tokens.len() - remaining.len() - 1")

/-- The `while pos.next_pos < tokens.len()` loop of `apply_macros_internal`, one `apply_single_macro` per
iteration.  `paste` is the `##` oracle, `bodyFlag` / `argFlag` say which `apply_defined` the two recursive scans
get.  `apply_macros_internal(toks, env, apply_defined)` is `applyLoop .. fuel env toks SearchPos.start apply_defined`. -/
def applyLoop (paste : Tok → Tok → Option Tok) (bodyFlag argFlag : FlagSrc) :
    Nat → List Entry → List Tok → SearchPos → Bool → Except Err (List Tok)
  | 0, _, _, _, _ => .error .fuel
  | fuel + 1, env, toks, sp, ad =>
    if sp.next < toks.length then
      match findSingle toks sp env ad with
      | .error e => .error e
      | .ok .none => .ok toks
      | .ok (.concat l r) =>
        match toks[l]?, toks[r]? with
        | some lt, some rt =>
          if l + 1 < r then
            match paste lt rt with
            | none => .error .concatFailed
            | some merged => applyLoop paste bodyFlag argFlag fuel env (splice toks l (r + 1) [merged]) ⟨l, l, none⟩ ad
          else .error (.panic "assert left_token_pos + 1 < right_token_pos")
        | _, _ => .error (.panic "index out of bounds: tokens[left/right]")
      | .ok (.defined p) =>
        match definedRest (toks.drop (p + 1)) with
        | .error e => .error e
        | .ok rem =>
          match definedToken toks env p rem (definedOperand (toks.drop (p + 1))) with
          | .error e => .error e
          | .ok generated =>
            applyLoop paste bodyFlag argFlag fuel env (splice toks p (toks.length - rem.length) [generated])
              ⟨p + 1, p + 1, none⟩ ad
      | .ok (.user mi p) =>
        match env[mi]? with
        | none => .error (.panic "index out of bounds: macro_defs[macro_index]")
        | some e =>
          match readArgs e.m (toks.drop (p + 1)) with
          | .error er => .error er
          | .ok (rest, args) =>
            let end_ := toks.length - rest.length
            match mapE (fun a => applyLoop paste bodyFlag argFlag fuel env a SearchPos.start (argFlag.eval ad)) args with
            | .error er => .error er
            | .ok args' =>
              match substitute e.m.body args' with
              | .error er => .error er
              | .ok output =>
                if e.disabled = false then
                  match applyLoop paste bodyFlag argFlag fuel (disable env mi) output SearchPos.start (bodyFlag.eval ad) with
                  | .error er => .error er
                  | .ok output' =>
                    if p < end_ then
                      applyLoop paste bodyFlag argFlag fuel env (splice toks p end_ output')
                        ⟨p + output'.length, p, if e.m.isFunction then some mi else none⟩ ad
                    else .error (.panic "assert end > pos")
                else .error (.panic "assert !macro_disabled[macro_index]")
    else .ok toks

/-- `apply_macros(tokens, macro_defs, apply_defined)`: all macros enabled -/
def applyMacros (paste : Tok → Tok → Option Tok) (bodyFlag argFlag : FlagSrc) (fuel : Nat)
    (defs : List Macro) (toks : List Tok) (applyDefined : Bool) : Except Err (List Tok) :=
  applyLoop paste bodyFlag argFlag fuel (defs.map (⟨·, false⟩)) toks SearchPos.start applyDefined

end RsslVerif.Model.DefinedLoc

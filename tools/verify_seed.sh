#!/bin/sh
# usage: verify_seed.sh <seed worktree> — re-runs the suite with the change, and the demo with / without it
# (the change is taken out with `git apply -R` of its own diff, not with `git stash`: the stash is shared by all worktrees
#  of a repository, so parallel seed agents would swap their changes)
set -u
W="$1"
cd "$W" || exit 2
export CARGO_NET_OFFLINE=true RUST_BACKTRACE=0
echo "== suite with change"
cargo test --workspace --no-fail-fast --offline 2>&1 | grep -E "test result|FAILED" | awk '{p+=$4; f+=$6} END {print "passed",p,"failed",f}'
DEMO="$W/demo"; [ -d "$DEMO" ] || DEMO="$W/seed_out/demo"
echo "== demo with change"
(cd "$DEMO" && cargo run --offline >/tmp/demo_with.$$ 2>&1; echo "exit $?"; tail -3 /tmp/demo_with.$$)
echo "== demo without change"
git diff -- . ':!seed_out' ':!demo' > /tmp/seed_change.$$.diff
git apply -R /tmp/seed_change.$$.diff
(cd "$DEMO" && cargo run --offline >/tmp/demo_without.$$ 2>&1; echo "exit $?"; tail -3 /tmp/demo_without.$$)
git apply /tmp/seed_change.$$.diff
rm -f /tmp/demo_with.$$ /tmp/demo_without.$$ /tmp/seed_change.$$.diff
git status --short | head -5

import RsslVerif.Model.Lexer
/-!
# Structural facts about the lexer model

Every sub-lexer returns a suffix of its input (`Good`), token-producing ones a *proper* suffix (`Strict`),
an `OtherTokenBytes` answer always points at the start of the input (`OtherAtStart`, which is what the
`debug_assert_eq!(input.len(), rest.len())` of `choose` demands), and no modelled panic site is reached
(`Good` excludes `.panic`).
-/
namespace RsslVerif.Model.Lexer
open RsslVerif.Gen.LexTables

/-- the result respects slice discipline: an `Ok` rest or an error position is a suffix of the input; the only
other error position is the `&[]` literal; no panic -/
def Good {α : Type} (inp : Bytes) : LexResult α → Prop
  | .ok (rest, _) => rest <:+ inp
  | .error (.lex (.rest r) _) => r <:+ inp
  | .error (.lex .static _) => True
  | .error (.panic _) => False

/-- a successful result consumed at least one byte -/
def Strict {α : Type} (inp : Bytes) : LexResult α → Prop
  | .ok (rest, _) => rest.length < inp.length
  | .error _ => True

/-- an `OtherTokenBytes` answer points at the whole input -/
def OtherAtStart {α : Type} (inp : Bytes) : LexResult α → Prop
  | .error (.lex pos .OtherTokenBytes) => pos = .rest inp
  | _ => True

theorem stripPrefix?_eq {p inp r : Bytes} (h : stripPrefix? p inp = some r) : inp = p ++ r := by
  induction p generalizing inp with
  | nil => simp [stripPrefix?] at h; simp [h]
  | cons a p ih =>
    cases inp with
    | nil => simp [stripPrefix?] at h
    | cons b t =>
      simp only [stripPrefix?] at h
      split at h
      · rename_i hab; rw [ih h, hab]; rfl
      · cases h

theorem suffix_of_append {pre r inp : Bytes} (h : inp = pre ++ r) : r <:+ inp := ⟨pre, h.symm⟩

theorem digitWith_ok {f : UInt8 → Option Nat} {inp r : Bytes} {n : Nat}
    (h : digitWith f inp = .ok (r, n)) : ∃ b, inp = b :: r ∧ f b = some n := by
  cases inp with
  | nil => simp [digitWith, endOfStream] at h
  | cons b t =>
    simp only [digitWith] at h
    split at h
    · rename_i n' hf; simp at h; exact ⟨b, by simp [h.1], by simp [hf, h.2]⟩
    · simp [wrongChars] at h

theorem digitWith_good (f : UInt8 → Option Nat) (inp : Bytes) : Good inp (digitWith f inp) := by
  cases inp with
  | nil => simp [digitWith, endOfStream, Good]
  | cons b t =>
    simp only [digitWith]
    split
    · simp [Good]
    · simp [wrongChars, Good]

theorem digitsLoop_good (f : UInt8 → Option Nat) (base : Nat) (start inp : Bytes) (v : Nat)
    (hs : inp <:+ start) : Good start (digitsLoop f base start inp v) := by
  induction inp generalizing v with
  | nil => simp [digitsLoop, Good, hs]
  | cons b t ih =>
    simp only [digitsLoop]
    split
    · simpa [Good] using hs
    · split
      · exact ih _ (List.IsSuffix.trans (List.suffix_cons b t) hs)
      · simp [Good]

theorem digitsWith_good (f : UInt8 → Option Nat) (base : Nat) (inp : Bytes) :
    Good inp (digitsWith f base inp) := by
  unfold digitsWith
  split
  · rename_i e he
    have := digitWith_good f inp
    rw [he] at this; exact this
  · rename_i r v he
    obtain ⟨b, hb, _⟩ := digitWith_ok he
    exact digitsLoop_good f base inp r v (by rw [hb]; exact List.suffix_cons b r)

theorem digitsLoop_len (f : UInt8 → Option Nat) (base : Nat) (start inp : Bytes) (v : Nat) :
    ∀ rest v', digitsLoop f base start inp v = .ok (rest, v') → rest.length ≤ inp.length := by
  induction inp generalizing v with
  | nil => intro rest v' h; simp [digitsLoop] at h; simp [h.1]
  | cons b t ih =>
    intro rest v' h
    simp only [digitsLoop] at h
    split at h
    · simp at h; simp [← h.1]
    · split at h
      · have := ih _ _ _ h; simp; omega
      · cases h

theorem digitsWith_strict (f : UInt8 → Option Nat) (base : Nat) (inp : Bytes) :
    Strict inp (digitsWith f base inp) := by
  unfold digitsWith
  split
  · simp [Strict]
  · rename_i r v he
    obtain ⟨b, hb, _⟩ := digitWith_ok he
    cases hl : digitsLoop f base inp r v with
    | error e => simp [Strict]
    | ok p =>
      obtain ⟨rest, v'⟩ := p
      have := digitsLoop_len f base inp r v rest v' hl
      simp [Strict, hb]; omega

theorem Good.mono {α : Type} {x inp : Bytes} {r : LexResult α} (hx : x <:+ inp) (h : Good x r) : Good inp r := by
  match r, h with
  | .ok (rest, _), h => exact List.IsSuffix.trans h hx
  | .error (.lex (.rest r) _), h => exact List.IsSuffix.trans h hx
  | .error (.lex .static _), _ => trivial

theorem opt_suffix {α : Type} {x inp : Bytes} {r : LexResult α} (hx : x <:+ inp) (h : Good x r) :
    (opt r x).1 <:+ inp := by
  match r, h with
  | .ok (rest, _), h => exact List.IsSuffix.trans h hx
  | .error _, _ => exact hx

theorem opt_len {α : Type} {x : Bytes} {r : LexResult α} (h : Good x r) : (opt r x).1.length ≤ x.length := by
  match r, h with
  | .ok (rest, _), h => exact h.length_le
  | .error _, _ => exact Nat.le_refl _

theorem matchPrefix_suffix {pat : List (List Nat)} {inp r : Bytes} (h : matchPrefix pat inp = some r) :
    r <:+ inp := by
  induction pat generalizing inp with
  | nil => simp [matchPrefix] at h; simp [h]
  | cons a p ih =>
    cases inp with
    | nil => simp [matchPrefix] at h
    | cons b t =>
      simp only [matchPrefix] at h
      split at h
      · exact List.IsSuffix.trans (ih h) (List.suffix_cons b t)
      · cases h

theorem intTypeFrom_good (rows : List (List (List Nat) × IntType)) (inp : Bytes) :
    Good inp (intTypeFrom rows inp) := by
  induction rows with
  | nil => simp [intTypeFrom, wrongChars, Good]
  | cons row rows ih =>
    obtain ⟨pat, k⟩ := row
    simp only [intTypeFrom]
    split
    · rename_i rest h; exact matchPrefix_suffix h
    · exact ih

theorem intType_good (inp : Bytes) : Good inp (intType inp) := intTypeFrom_good _ _

theorem Good.error_cast {α β : Type} {inp : Bytes} {e : LexErr}
    (h : Good inp (.error e : LexResult α)) : Good inp (.error e : LexResult β) := by
  match e, h with
  | .lex (.rest r) _, h => exact h
  | .lex .static _, _ => trivial

theorem digitWith_error {f : UInt8 → Option Nat} {inp : Bytes} {e : LexErr}
    (h : digitWith f inp = .error e) :
    e = .lex .static .EndOfStream ∨ e = .lex (.rest inp) .UnexpectedBytes := by
  cases inp with
  | nil => simp [digitWith, endOfStream] at h; exact .inl h.symm
  | cons b t =>
    simp only [digitWith] at h
    split at h
    · cases h
    · simp [wrongChars] at h; exact .inr h.symm

theorem digitsLoop_error {f : UInt8 → Option Nat} {base : Nat} {start inp : Bytes} {v : Nat} {e : LexErr}
    (h : digitsLoop f base start inp v = .error e) : e = .lex (.rest start) .IntegerLiteralTooLarge := by
  induction inp generalizing v with
  | nil => simp [digitsLoop] at h
  | cons b t ih =>
    simp only [digitsLoop] at h
    split at h
    · cases h
    · split at h
      · exact ih h
      · simp at h; exact h.symm

theorem digitsWith_error {f : UInt8 → Option Nat} {base : Nat} {inp : Bytes} {e : LexErr}
    (h : digitsWith f base inp = .error e) :
    e = .lex .static .EndOfStream ∨ e = .lex (.rest inp) .UnexpectedBytes ∨
      e = .lex (.rest inp) .IntegerLiteralTooLarge := by
  unfold digitsWith at h
  split at h
  · rename_i e' he; simp at h; subst h
    rcases digitWith_error he with h | h
    · exact .inl h
    · exact .inr (.inl h)
  · exact .inr (.inr (digitsLoop_error h))

theorem literalIntWith_good (f : UInt8 → Option Nat) (base : Nat) (inp : Bytes) :
    Good inp (literalIntWith f base inp) := by
  unfold literalIntWith
  have hg := digitsWith_good f base inp
  split
  · rename_i e he; rw [he] at hg; exact hg.error_cast
  · rename_i rest v he
    rw [he] at hg
    dsimp only
    split
    · exact opt_suffix hg (intType_good rest)
    · exact List.suffix_refl _

theorem literalIntWith_strict (f : UInt8 → Option Nat) (base : Nat) (inp : Bytes) :
    Strict inp (literalIntWith f base inp) := by
  unfold literalIntWith
  have hs := digitsWith_strict f base inp
  split
  · trivial
  · rename_i rest v he
    rw [he] at hs
    have := opt_len (intType_good rest)
    dsimp only
    split
    · simp only [Strict] at hs ⊢; omega
    · trivial

theorem literalIntWith_error {f : UInt8 → Option Nat} {base : Nat} {inp : Bytes} {e : LexErr}
    (h : literalIntWith f base inp = .error e) :
    e = .lex .static .EndOfStream ∨ e = .lex (.rest inp) .UnexpectedBytes ∨
      e = .lex (.rest inp) .IntegerLiteralTooLarge := by
  unfold literalIntWith at h
  split at h
  · rename_i e' he; simp at h; subst h; exact digitsWith_error he
  · dsimp only at h
    split at h
    · cases h
    · simp at h; exact .inr (.inr h.symm)

theorem literalInt_good (inp : Bytes) : Good inp (literalInt inp) := by
  unfold literalInt
  split
  · rename_i r h
    exact Good.mono (suffix_of_append (stripPrefix?_eq h)) (literalIntWith_good _ _ r)
  · split
    · rename_i r h
      split
      · exact Good.mono (suffix_of_append (stripPrefix?_eq h)) (literalIntWith_good _ _ r)
      · exact literalIntWith_good _ _ inp
    · exact literalIntWith_good _ _ inp

theorem Strict.mono {α : Type} {x inp : Bytes} {r : LexResult α} (hx : x.length ≤ inp.length)
    (h : Strict x r) : Strict inp r := by
  match r, h with
  | .ok (rest, _), h => exact Nat.lt_of_lt_of_le h hx
  | .error _, _ => trivial

theorem literalInt_strict (inp : Bytes) : Strict inp (literalInt inp) := by
  unfold literalInt
  split
  · rename_i r h
    exact Strict.mono (by rw [stripPrefix?_eq h]; simp; try omega) (literalIntWith_strict _ _ r)
  · split
    · rename_i r h
      split
      · exact Strict.mono (by rw [stripPrefix?_eq h]; simp; try omega) (literalIntWith_strict _ _ r)
      · exact literalIntWith_strict _ _ inp
    · exact literalIntWith_strict _ _ inp

/-- `literal_int` never answers `OtherTokenBytes` -/
theorem literalInt_not_other (inp : Bytes) (pos : ErrAt) :
    literalInt inp ≠ .error (.lex pos .OtherTokenBytes) := by
  intro h
  unfold literalInt at h
  split at h
  · rcases literalIntWith_error h with h' | h' | h' <;> simp at h'
  · split at h
    · split at h
      · rcases literalIntWith_error h with h' | h' | h' <;> simp at h'
      · rcases literalIntWith_error h with h' | h' | h' <;> simp at h'
    · rcases literalIntWith_error h with h' | h' | h' <;> simp at h'

/-! ### strings -/

theorem splitAtByte_eq {c : UInt8} {inp x y : Bytes} (h : splitAtByte c inp = some (x, y)) :
    inp = x ++ c :: y := by
  induction inp generalizing x with
  | nil => simp [splitAtByte] at h
  | cons b t ih =>
    simp only [splitAtByte] at h
    split at h
    · rename_i hb; simp at h; simp [← h.1, ← h.2, hb]
    · split at h
      · rename_i x' y' hs; simp at h; obtain ⟨h1, h2⟩ := h; subst h1 h2; rw [ih hs]; rfl
      · cases h

theorem delimited_good (opn cls : Nat) (mk : Bytes → Token) (r1 r2 r3 : Reason) (inp : Bytes) :
    Good inp (delimited opn cls mk r1 r2 r3 inp) := by
  unfold delimited
  split
  · simp [otherTokenChars, Good]
  · rename_i b rest
    split
    · split
      · rename_i body remaining hs
        split
        · split
          · simp [Good]
          · simp only [Good]
            have := splitAtByte_eq hs
            exact ⟨b :: (body ++ [UInt8.ofNat cls]), by rw [this]; simp⟩
        · simp [Good]
      · simp [Good]
    · simp [otherTokenChars, Good]

theorem delimited_strict (opn cls : Nat) (mk : Bytes → Token) (r1 r2 r3 : Reason) (inp : Bytes) :
    Strict inp (delimited opn cls mk r1 r2 r3 inp) := by
  unfold delimited
  split
  · trivial
  · rename_i b rest
    split
    · split
      · rename_i body remaining hs
        split
        · split
          · trivial
          · simp only [Strict]
            have := splitAtByte_eq hs
            rw [this]; simp; omega
        · trivial
      · trivial
    · trivial

theorem delimited_other (opn cls : Nat) (mk : Bytes → Token) (r1 r2 r3 : Reason) (inp : Bytes)
    (h1 : r1 ≠ .OtherTokenBytes) (h2 : r2 ≠ .OtherTokenBytes) (h3 : r3 ≠ .OtherTokenBytes) :
    OtherAtStart inp (delimited opn cls mk r1 r2 r3 inp) := by
  unfold delimited
  split
  · simp [otherTokenChars, OtherAtStart]
  · rename_i b rest
    split
    · split
      · split
        · split
          · unfold OtherAtStart; split <;> simp_all
          · trivial
        · unfold OtherAtStart; split <;> simp_all
      · unfold OtherAtStart; split <;> simp_all
    · simp [otherTokenChars, OtherAtStart]

/-! ### floats -/

theorem spanDigits_suffix (inp : Bytes) : (spanDigits inp).2 <:+ inp := by
  induction inp with
  | nil => simp [spanDigits]
  | cons b t ih =>
    simp only [spanDigits]
    split
    · exact List.IsSuffix.trans ih (List.suffix_cons b t)
    · exact List.suffix_refl _

theorem digitSequence_good (inp : Bytes) : Good inp (digitSequence inp) := by
  unfold digitSequence
  split
  · rename_i e he
    have := digitWith_good decDigit? inp
    rw [he] at this; exact this.error_cast
  · rename_i r d he
    obtain ⟨b, hb, _⟩ := digitWith_ok he
    simp only [Good]
    exact List.IsSuffix.trans (spanDigits_suffix r) (by rw [hb]; exact List.suffix_cons b r)

theorem digitSequence_strict (inp : Bytes) : Strict inp (digitSequence inp) := by
  unfold digitSequence
  split
  · trivial
  · rename_i r d he
    obtain ⟨b, hb, _⟩ := digitWith_ok he
    simp only [Strict]
    have := (spanDigits_suffix r).length_le
    rw [hb]; simp; omega

theorem fractionalConstant_good (inp : Bytes) : Good inp (fractionalConstant inp) := by
  unfold fractionalConstant
  dsimp only
  have hw : (opt (digitSequence inp) inp).1 <:+ inp := opt_suffix (List.suffix_refl _) (digitSequence_good inp)
  split
  · rename_i h; simp only [otherTokenChars, Good]; rw [h]; exact List.nil_suffix
  · rename_i b i2 h
    have hi2 : i2 <:+ inp := List.IsSuffix.trans (List.suffix_cons b i2) (h ▸ hw)
    split
    · split
      · split
        · rename_i e he
          have := digitSequence_good i2
          rw [he] at this; exact Good.mono hi2 this.error_cast
        · rename_i i3 fr he
          have := digitSequence_good i2
          rw [he] at this; exact Good.mono hi2 this
      · exact opt_suffix hi2 (digitSequence_good i2)
    · simp only [otherTokenChars, Good]; exact h ▸ hw

theorem fractionalConstant_strict (inp : Bytes) : Strict inp (fractionalConstant inp) := by
  unfold fractionalConstant
  dsimp only
  have hw : (opt (digitSequence inp) inp).1.length ≤ inp.length := opt_len (digitSequence_good inp)
  split
  · trivial
  · rename_i b i2 h
    rw [h] at hw; simp at hw
    split
    · split
      · split
        · trivial
        · rename_i i3 fr he
          have := digitSequence_strict i2
          rw [he] at this; simp only [Strict] at this ⊢; omega
      · have := opt_len (digitSequence_good i2)
        simp only [Strict]; omega
    · trivial

theorem floatTypeFrom_good (rows : List (List Nat × FloatType)) (inp : Bytes) :
    Good inp (floatTypeFrom rows inp) := by
  induction rows with
  | nil => cases inp <;> simp [floatTypeFrom, wrongChars, Good]
  | cons row rows ih =>
    obtain ⟨bs, k⟩ := row
    cases inp with
    | nil => simp [floatTypeFrom, wrongChars, Good]
    | cons b r =>
      simp only [floatTypeFrom]
      split
      · simp only [Good]; exact List.suffix_cons b r
      · exact ih

theorem sign_good (inp : Bytes) : Good inp (sign inp) := by
  cases inp with
  | nil => simp [sign, wrongChars, Good]
  | cons b r =>
    simp only [sign]
    split
    · exact List.suffix_cons b r
    · split
      · exact List.suffix_cons b r
      · simp [wrongChars, Good]

theorem floatExponent_good (inp : Bytes) : Good inp (floatExponent inp) := by
  cases inp with
  | nil => simp [floatExponent, wrongChars, Good]
  | cons b r =>
    simp only [floatExponent]
    split
    · have hs : (opt (sign r) r).1 <:+ b :: r := opt_suffix (List.suffix_cons b r) (sign_good r)
      split
      · rename_i e he
        have := digitSequence_good (opt (sign r) r).1
        rw [he] at this; exact Good.mono hs this.error_cast
      · rename_i i3 ds he
        have := digitSequence_good (opt (sign r) r).1
        rw [he] at this; exact Good.mono hs this
    · simp [wrongChars, Good]

theorem floatMantissa_good (inp : Bytes) : Good inp (floatMantissa inp) := by
  unfold floatMantissa
  dsimp only
  have hf : (opt (fractionalConstant inp) inp).1 <:+ inp :=
    opt_suffix (List.suffix_refl _) (fractionalConstant_good inp)
  split
  · exact hf
  · split
    · rename_i e he
      have := digitSequence_good (opt (fractionalConstant inp) inp).1
      rw [he] at this; exact Good.mono hf this.error_cast
    · rename_i i w he
      have := digitSequence_good (opt (fractionalConstant inp) inp).1
      rw [he] at this; exact Good.mono hf this

theorem floatMantissa_strict (inp : Bytes) : Strict inp (floatMantissa inp) := by
  unfold floatMantissa
  dsimp only
  split
  · rename_i f hf
    have hs := fractionalConstant_strict inp
    cases hfc : fractionalConstant inp with
    | error e => rw [hfc] at hf; simp [opt] at hf
    | ok p => rw [hfc] at hs; simpa [Strict, opt] using hs
  · rename_i hf
    cases hfc : fractionalConstant inp with
    | ok p => rw [hfc] at hf; simp [opt] at hf
    | error e =>
      simp only [opt]
      have hs := digitSequence_strict inp
      split
      · trivial
      · rename_i i w he; rw [he] at hs; exact hs

theorem floatInf_good (pre : Bytes) (v : Nat) (b : Bool) : Good pre (floatInf pre v b) := by
  unfold floatInf
  split
  · rename_i rest h
    split
    · exact suffix_of_append (stripPrefix?_eq h)
    · exact List.suffix_refl _
  · exact List.suffix_refl _

theorem digitSequence_error {inp : Bytes} {e : LexErr} (h : digitSequence inp = .error e) :
    e = .lex .static .EndOfStream ∨ e = .lex (.rest inp) .UnexpectedBytes := by
  unfold digitSequence at h
  split at h
  · rename_i e' he; simp at h; subst h; exact digitWith_error he
  · cases h

theorem floatMantissa_error {inp : Bytes} {e : LexErr} (h : floatMantissa inp = .error e) :
    ∃ pos, e = .lex pos .EndOfStream ∨ e = .lex pos .UnexpectedBytes := by
  unfold floatMantissa at h
  dsimp only at h
  split at h
  · cases h
  · split at h
    · rename_i e' he; simp at h; subst h
      rcases digitSequence_error he with h | h
      · exact ⟨_, .inl h⟩
      · exact ⟨_, .inr h⟩
    · cases h

theorem floatInf_error {pre : Bytes} {v : Nat} {b : Bool} {e : LexErr} (h : floatInf pre v b = .error e) :
    e = .lex (.rest pre) .FloatInvalidSuffix := by
  unfold floatInf at h
  split at h
  · split at h
    · cases h
    · simp at h; exact h.symm
  · cases h

theorem literalFloat_good (inp : Bytes) : Good inp (literalFloat inp) := by
  unfold literalFloat
  have hm := floatMantissa_good inp
  split
  · rename_i e he; rw [he] at hm; exact hm.error_cast
  · rename_i i2 hasFraction left right he
    rw [he] at hm
    have hex : (opt (floatExponent i2) i2).1 <:+ inp := opt_suffix hm (floatExponent_good i2)
    dsimp only
    split
    · simp [otherTokenChars, Good]
    · have hi := floatInf_good (opt (floatExponent i2) i2).1
        (float64FromParts left right ((opt (floatExponent i2) i2).2.getD 0)) (opt (floatExponent i2) i2).2.isSome
      split
      · rename_i e he4; rw [he4] at hi; exact Good.mono hex hi.error_cast
      · rename_i i4 v he4
        rw [he4] at hi
        have hi4 : i4 <:+ inp := List.IsSuffix.trans hi hex
        have hft : (opt (floatType i4) i4).1 <:+ inp := opt_suffix hi4 (floatTypeFrom_good _ i4)
        split
        · rename_i h5; simp only [Good]; exact hft
        · rename_i c r5 h5
          split
          · split
            · simp [Good]
            · exact hex
          · simp only [Good]; exact h5 ▸ hft

theorem floatExponent_len (inp : Bytes) : (opt (floatExponent inp) inp).1.length ≤ inp.length :=
  opt_len (floatExponent_good inp)

theorem literalFloat_strict (inp : Bytes) : Strict inp (literalFloat inp) := by
  unfold literalFloat
  have hm := floatMantissa_strict inp
  split
  · trivial
  · rename_i i2 hasFraction left right he
    rw [he] at hm
    simp only [Strict] at hm
    have hex := floatExponent_len i2
    dsimp only
    split
    · trivial
    · have hi := floatInf_good (opt (floatExponent i2) i2).1
        (float64FromParts left right ((opt (floatExponent i2) i2).2.getD 0)) (opt (floatExponent i2) i2).2.isSome
      split
      · trivial
      · rename_i i4 v he4
        rw [he4] at hi
        have hi4 := List.IsSuffix.length_le hi
        have hft := opt_len (floatTypeFrom_good floatTypeTable i4)
        split
        · rename_i h5; simp only [Strict]; unfold floatType; omega
        · rename_i c r5 h5
          split
          · split <;> trivial
          · simp only [Strict]
            have : (c :: r5).length ≤ i4.length := h5 ▸ hft
            omega

theorem literalFloat_other (inp : Bytes) : OtherAtStart inp (literalFloat inp) := by
  unfold literalFloat
  split
  · rename_i e he
    obtain ⟨pos, h | h⟩ := floatMantissa_error he <;> subst h <;> trivial
  · dsimp only
    split
    · simp [otherTokenChars, OtherAtStart]
    · split
      · rename_i e he4
        rw [floatInf_error he4]; trivial
      · split
        · trivial
        · split
          · split
            · simp [OtherAtStart]
            · trivial
          · trivial

/-! ### words and trivia -/

theorem spanIdent_suffix (inp : Bytes) : (spanIdent inp).2 <:+ inp := by
  induction inp with
  | nil => simp [spanIdent]
  | cons b t ih =>
    simp only [spanIdent]
    split
    · exact List.IsSuffix.trans ih (List.suffix_cons b t)
    · exact List.suffix_refl _

theorem anyWord_good (inp : Bytes) : Good inp (anyWord inp) := by
  cases inp with
  | nil => simp [anyWord, endOfStream, Good]
  | cons b r =>
    simp only [anyWord]
    split
    · exact List.IsSuffix.trans (spanIdent_suffix r) (List.suffix_cons b r)
    · simp [otherTokenChars, Good]

theorem anyWord_strict (inp : Bytes) : Strict inp (anyWord inp) := by
  cases inp with
  | nil => simp [anyWord, endOfStream, Strict]
  | cons b r =>
    simp only [anyWord]
    split
    · have := (spanIdent_suffix r).length_le
      simp only [Strict, List.length_cons]; omega
    · trivial

theorem whitespaceSimple_good (inp : Bytes) : Good inp (whitespaceSimple inp) := by
  cases inp with
  | nil => simp [whitespaceSimple, otherTokenChars, Good]
  | cons b r =>
    simp only [whitespaceSimple]
    split
    · exact List.suffix_cons b r
    · simp [otherTokenChars, Good]

theorem whitespaceEndline_good (inp : Bytes) : Good inp (whitespaceEndline inp) := by
  unfold whitespaceEndline
  split
  · rename_i r h; exact suffix_of_append (stripPrefix?_eq h)
  · split
    · rename_i r h; exact suffix_of_append (stripPrefix?_eq h)
    · split
      · rename_i r h; exact suffix_of_append (stripPrefix?_eq h)
      · split
        · rename_i r h; exact suffix_of_append (stripPrefix?_eq h)
        · simp [otherTokenChars, Good]

theorem whitespaceEndline_strict (inp : Bytes) : Strict inp (whitespaceEndline inp) := by
  unfold whitespaceEndline
  split
  · rename_i r h; simp only [Strict]; rw [stripPrefix?_eq h]; simp; omega
  · split
    · rename_i r h; simp only [Strict]; rw [stripPrefix?_eq h]; simp; omega
    · split
      · rename_i r h; simp only [Strict]; rw [stripPrefix?_eq h]; simp; omega
      · split
        · rename_i r h; simp only [Strict]; rw [stripPrefix?_eq h]; simp
        · trivial

theorem lineCommentEnd_suffix (inp : Bytes) : lineCommentEnd inp <:+ inp := by
  fun_induction lineCommentEnd inp <;> first
    | exact List.suffix_refl _
    | exact List.nil_suffix
    | (rename_i ih; exact List.IsSuffix.trans ih (List.suffix_cons _ _))
    | (rename_i ih; exact List.IsSuffix.trans ih ⟨[_, _], rfl⟩)
    | (rename_i ih; exact List.IsSuffix.trans ih ⟨[_, _, _], rfl⟩)

theorem lineComment_good (inp : Bytes) : Good inp (lineComment inp) := by
  unfold lineComment
  split
  · rename_i r h
    exact List.IsSuffix.trans (lineCommentEnd_suffix r) (suffix_of_append (stripPrefix?_eq h))
  · simp [otherTokenChars, Good]

theorem lineComment_strict (inp : Bytes) : Strict inp (lineComment inp) := by
  unfold lineComment
  split
  · rename_i r h
    have := (lineCommentEnd_suffix r).length_le
    simp only [Strict]; rw [stripPrefix?_eq h]; simp; omega
  · trivial

theorem blockSearch_suffix {inp r : Bytes} (h : blockSearch inp = some r) : r <:+ inp := by
  induction inp with
  | nil => simp [blockSearch] at h
  | cons a t ih =>
    unfold blockSearch at h
    split at h
    · cases h
    · rename_i b r'
      split at h
      · simp at h; subst h; exact ⟨[a, b], rfl⟩
      · exact List.IsSuffix.trans (ih h) (List.suffix_cons a _)

theorem blockComment_good (inp : Bytes) : Good inp (blockComment inp) := by
  unfold blockComment
  split
  · rename_i r h
    split
    · rename_i rest hb
      exact List.IsSuffix.trans (blockSearch_suffix hb) (suffix_of_append (stripPrefix?_eq h))
    · simp [endOfStream, Good]
  · simp [otherTokenChars, Good]

theorem blockComment_strict (inp : Bytes) : Strict inp (blockComment inp) := by
  unfold blockComment
  split
  · rename_i r h
    split
    · rename_i rest hb
      have := (blockSearch_suffix hb).length_le
      simp only [Strict]; rw [stripPrefix?_eq h]; simp; omega
    · trivial
  · trivial

/-! ### the dispatcher -/

theorem runSub_good (s : Sub) (look : Unit → LexResult Token) (inp : Bytes) : Good inp (runSub s look inp) := by
  cases s with
  | whitespaceSimple => exact whitespaceSimple_good inp
  | whitespaceEndline => exact whitespaceEndline_good inp
  | lineComment => exact lineComment_good inp
  | blockComment => exact blockComment_good inp
  | literalString => exact delimited_good _ _ _ _ _ _ inp
  | leftAngle =>
    cases inp with
    | nil => simp [runSub, otherTokenChars, Good]
    | cons b r => simp only [runSub]; split <;> simp [otherTokenChars, Good]
  | rightAngle =>
    cases inp with
    | nil => simp [runSub, otherTokenChars, Good]
    | cons b r => simp only [runSub]; split <;> simp [otherTokenChars, Good]
  | single c t =>
    cases inp with
    | nil => simp [runSub, otherTokenChars, Good]
    | cons b r => simp only [runSub]; split <;> simp [otherTokenChars, Good]
  | opOrEq c op e o =>
    cases inp with
    | nil => simp [runSub, otherTokenChars, Good]
    | cons b r =>
      simp only [runSub]
      split
      · split
        · simp [Good]
        · rename_i b2 r2
          split
          · simp only [Good]; exact ⟨[b, b2], rfl⟩
          · split
            · simp only [Good]; exact ⟨[b, b2], rfl⟩
            · simp [Good]
      · simp [otherTokenChars, Good]

theorem runSub_strict (s : Sub) (look : Unit → LexResult Token) (inp : Bytes) : Strict inp (runSub s look inp) := by
  cases s with
  | whitespaceSimple =>
    cases inp with
    | nil => simp [runSub, whitespaceSimple, otherTokenChars, Strict]
    | cons b r => simp only [runSub, whitespaceSimple]; split <;> simp [otherTokenChars, Strict]
  | whitespaceEndline => exact whitespaceEndline_strict inp
  | lineComment => exact lineComment_strict inp
  | blockComment => exact blockComment_strict inp
  | literalString => exact delimited_strict _ _ _ _ _ _ inp
  | leftAngle =>
    cases inp with
    | nil => simp [runSub, otherTokenChars, Strict]
    | cons b r => simp only [runSub]; split <;> simp [otherTokenChars, Strict]
  | rightAngle =>
    cases inp with
    | nil => simp [runSub, otherTokenChars, Strict]
    | cons b r => simp only [runSub]; split <;> simp [otherTokenChars, Strict]
  | single c t =>
    cases inp with
    | nil => simp [runSub, otherTokenChars, Strict]
    | cons b r => simp only [runSub]; split <;> simp [otherTokenChars, Strict]
  | opOrEq c op e o =>
    cases inp with
    | nil => simp [runSub, otherTokenChars, Strict]
    | cons b r =>
      simp only [runSub]
      split
      · split
        · simp [Strict]
        · split
          · simp [Strict]; omega
          · split
            · simp [Strict]; omega
            · simp [Strict]
      · simp [otherTokenChars, Strict]

theorem choose_good (subs : List Sub) (look : Unit → LexResult Token) (inp : Bytes)
    (hother : ∀ s ∈ subs, OtherAtStart inp (runSub s look inp)) : Good inp (choose subs look inp) := by
  induction subs with
  | nil => simp [choose, wrongChars, Good]
  | cons s more ih =>
    unfold choose
    have hg := runSub_good s look inp
    have ho := hother s (List.mem_cons_self)
    split
    · rename_i x hx; rw [hx] at hg; exact hg
    · rename_i pos hx
      rw [hx] at ho
      simp only [OtherAtStart] at ho
      subst ho
      simp only [ErrAt.len, if_true]
      exact ih (fun s hs => hother s (List.mem_cons_of_mem _ hs))
    · rename_i e _ hx; rw [hx] at hg; exact hg

theorem choose_strict (subs : List Sub) (look : Unit → LexResult Token) (inp : Bytes) :
    Strict inp (choose subs look inp) := by
  induction subs with
  | nil => simp [choose, wrongChars, Strict]
  | cons s more ih =>
    unfold choose
    have hg := runSub_strict s look inp
    split
    · rename_i x hx; rw [hx] at hg; exact hg
    · split
      · exact ih
      · trivial
    · trivial

theorem runSub_other (s : Sub) (look : Unit → LexResult Token) (inp : Bytes) :
    OtherAtStart inp (runSub s look inp) := by
  cases s with
  | whitespaceSimple =>
    cases inp with
    | nil => simp [runSub, whitespaceSimple, otherTokenChars, OtherAtStart]
    | cons b r => simp only [runSub, whitespaceSimple]; split <;> simp [otherTokenChars, OtherAtStart]
  | whitespaceEndline =>
    simp only [runSub, whitespaceEndline]
    repeat' split
    all_goals simp [otherTokenChars, OtherAtStart]
  | lineComment =>
    simp only [runSub, lineComment]
    split <;> simp [otherTokenChars, OtherAtStart]
  | blockComment =>
    simp only [runSub, blockComment]
    repeat' split
    all_goals simp [otherTokenChars, endOfStream, OtherAtStart]
  | literalString => exact delimited_other _ _ _ _ _ _ inp (by decide) (by decide) (by decide)
  | leftAngle =>
    cases inp with
    | nil => simp [runSub, otherTokenChars, OtherAtStart]
    | cons b r => simp only [runSub]; split <;> simp [otherTokenChars, OtherAtStart]
  | rightAngle =>
    cases inp with
    | nil => simp [runSub, otherTokenChars, OtherAtStart]
    | cons b r => simp only [runSub]; split <;> simp [otherTokenChars, OtherAtStart]
  | single c t =>
    cases inp with
    | nil => simp [runSub, otherTokenChars, OtherAtStart]
    | cons b r => simp only [runSub]; split <;> simp [otherTokenChars, OtherAtStart]
  | opOrEq c op e o =>
    cases inp with
    | nil => simp [runSub, otherTokenChars, OtherAtStart]
    | cons b r =>
      simp only [runSub]
      repeat' split
      all_goals simp [otherTokenChars, OtherAtStart]

theorem headerName_other (inp : Bytes) : OtherAtStart inp (headerName inp) :=
  delimited_other _ _ _ _ _ _ inp (by decide) (by decide) (by decide)

/-- `token_intermediate` on a non-empty input: slice discipline, and none of the
`debug_assert_eq!(input.len(), rest.len())` sites fires -/
theorem tokenStep_good (b : UInt8) (r : Bytes) (inc : Bool) (look : Unit → LexResult Token) :
    Good (b :: r) (tokenStep b r inc look) := by
  unfold tokenStep
  dsimp only
  split
  · have hg := literalFloat_good (b :: r)
    have ho := literalFloat_other (b :: r)
    split
    · rename_i x hx; rw [hx] at hg; exact hg
    · rename_i pos hx
      rw [hx] at ho; simp only [OtherAtStart] at ho; subst ho
      simp only [ErrAt.len, if_true]
      exact literalInt_good _
    · rename_i e _ hx; rw [hx] at hg; exact hg
  · split
    · exact anyWord_good _
    · split
      · have hg := delimited_good 60 62 Token.headerName .HeaderNameWrapsLine .HeaderNameWrapsFile
          .HeaderNameContainsInvalidCharacters (b :: r)
        have ho := headerName_other (b :: r)
        unfold headerName at ho ⊢
        split
        · rename_i x hx; rw [hx] at hg; exact hg
        · rename_i pos hx
          rw [hx] at ho; simp only [OtherAtStart] at ho; subst ho
          simp only [ErrAt.len, if_true]
          exact choose_good _ _ _ (fun s _ => runSub_other s look _)
        · rename_i e _ hx; rw [hx] at hg; exact hg
      · exact choose_good _ _ _ (fun s _ => runSub_other s look _)

theorem tokenStep_strict (b : UInt8) (r : Bytes) (inc : Bool) (look : Unit → LexResult Token) :
    Strict (b :: r) (tokenStep b r inc look) := by
  unfold tokenStep
  dsimp only
  split
  · have hg := literalFloat_strict (b :: r)
    split
    · rename_i x hx; rw [hx] at hg; exact hg
    · split
      · exact literalInt_strict _
      · trivial
    · trivial
  · split
    · exact anyWord_strict _
    · split
      · have hg := delimited_strict 60 62 Token.headerName .HeaderNameWrapsLine .HeaderNameWrapsFile
          .HeaderNameContainsInvalidCharacters (b :: r)
        unfold headerName
        split
        · rename_i x hx; rw [hx] at hg; exact hg
        · split
          · exact choose_strict _ _ _
          · trivial
        · trivial
      · exact choose_strict _ _ _

theorem tokenIntermediate_good (inp : Bytes) (inc : Bool) : Good inp (tokenIntermediate inp inc) := by
  cases inp with
  | nil => simp [tokenIntermediate, endOfStream, Good]
  | cons b r => simp only [tokenIntermediate]; exact tokenStep_good b r inc _

theorem tokenIntermediate_strict (inp : Bytes) (inc : Bool) : Strict inp (tokenIntermediate inp inc) := by
  cases inp with
  | nil => simp [tokenIntermediate, endOfStream, Strict]
  | cons b r => simp only [tokenIntermediate]; exact tokenStep_strict b r inc _

import RsslVerif.Model.Elab
import RsslVerif.Gen.HlslGenTables
/-!
# `Model.Fixpoint` — what the front end reads when it is given the exporter's output (type level)

C04 composes the exporter (C01: `Model.GenHlsl`), the printer / parser (C09) and elaboration (C03: `Model.Elab`).
This file is the bridge at the level of the C03 model, whose IR (`IrTyping.IExpr`) carries the *kind* of every
constant, every inserted `Cast`, the selected overload and every operator, but no literal payload:

* `rereadKind` — the kind a constant has after `generate_literal` (hlsl/src/ast_generate.rs) printed it and
  `parse_literal` (typer/src/typer/expressions.rs) read it back.  It is computed from the two re-extracted tables
  `Gen.HlslGenTables.literalArms` (constant kind ↦ suffix kind of the emitted literal) and `rereadTable` below
  (suffix kind ↦ constant kind; hand-written here, 9 rows, compared with `parse_literal` by `Gen.FixpointTables`).
* `litTyped` — the test of the `Cast` arm of `generate_expression`: `remove_modifier`, then
  `Scalar(IntLiteral) | Scalar(FloatLiteral)`; such casts are not emitted.
* `opSyn` — `generate_intrinsic_op` read through the generated `opForm` table (operator ↦ unary / binary syntax).
* `Unelab Γ' i s` — "`s` is a syntax tree the front end can obtain from the text exported for `i`".  It mirrors
  `generate_expression` node by node; it is a relation only because the sign of a constant is not part of `IExpr`:
  a negative constant is emitted as `-` applied to its magnitude (`literalArms`: `negMinus`; floats: `format_literal`
  prints the sign, the lexer has no negative literals), a non-negative one as the literal itself.
  Function names: the exporter's `NameMap` gives every function its own name (C15 `injective_per_scope`), so in the
  second generation every overload set is a singleton (`Renamed`).
* `unelab` — the executable instance of `Unelab` for non-negative constants (used by the driver).

Nothing here is a specification of what *should* happen: `Thm.C04.reelab_no_new_casts` proves that elaborating any
`s` with `Unelab Γ' i s` gives back `i`, and `Thm.C04.reelab_fails_out_argument` that it does not without its
hypothesis on `out` arguments.
-/
namespace RsslVerif.Model.Fixpoint
open RsslVerif.Gen.RankTable RsslVerif.Gen.TypingTables
open RsslVerif.Gen.HlslGenTables (literalArms opForm ConstKind LitKind IntrinsicOp LitArm)
open RsslVerif.Model.Conv RsslVerif.Model.Overload RsslVerif.Model.IrTyping RsslVerif.Model.Elab

/-! ## literals -/

/-- `ir::ScalarType` ↦ the `ir::Constant` variant of that type (names as in `Gen.HlslGenTables.ConstKind`) -/
def constKindOf : Scalar → ConstKind
  | .bool => .Bool | .intLiteral => .IntLiteral | .int32 => .Int32 | .uInt32 => .UInt32
  | .floatLiteral => .FloatLiteral | .float16 => .Float16 | .float32 => .Float32 | .float64 => .Float64

/-- `parse_literal`: suffix kind of an `ast::Literal` ↦ kind of the constant it becomes; `none` = rejected
    (`Int64NotSupported`, `StringNotSupported`).  Compared with the source by `Gen.FixpointTables.parseLiteralTable`
    (`Thm.C04.reread_table_agrees`). -/
def rereadTable : LitKind → Option Scalar
  | .Bool => some .bool
  | .IntUntyped => some .intLiteral
  | .IntUnsigned32 => some .uInt32
  | .IntUnsigned64 => none
  | .IntSigned64 => none
  | .FloatUntyped => some .floatLiteral
  | .Float16 => some .float16
  | .Float32 => some .float32
  | .Float64 => some .float64
  | .Str => none

/-- the suffix kind `generate_literal` emits for a constant of kind `k` (any value: all emitting arms of one kind
    agree; an arm that panics or — since fix 6017bad, `IntLiteral` beyond ±u64::MAX — returns
    `Err(GenerateError::IntLiteralOutOfRange)` emits nothing: there is no text to read again) -/
def emittedLitKind (k : ConstKind) : Option LitKind :=
  match literalArms.find? (fun a => a.1 == k && (match a.2.2 with | .panics => false | .errs _ => false | _ => true)) with
  | some (_, _, .plain l) => some l
  | some (_, _, .widen l) => some l
  | some (_, _, .negMinus l) => some l
  | some (_, _, .negMinusAbs l) => some l
  | _ => none

/-- kind of a constant of kind `k` after export and re-reading; `none` = not emitted / not accepted -/
def rereadKind? (k : Scalar) : Option Scalar := (emittedLitKind (constKindOf k)).bind rereadTable

/-- total version used in the syntax relation (all eight scalar kinds are emitted and accepted:
    `Lemmas.FixpointElab.rereadKind_table`) -/
def rereadKind (k : Scalar) : Scalar := (rereadKind? k).getD k

/-! ## casts and operators -/

/-- the `to_literal` test of the `Cast` arm of `generate_expression` (after `remove_modifier`) -/
def litTyped (t : Ty) : Bool :=
  match t.layer with
  | .scalar .intLiteral => true
  | .scalar .floatLiteral => true
  | _ => false

/-- syntax of an operator node -/
inductive OpSyn where
  | un (u : UnOp)
  | bin (b : BinOp)
  deriving DecidableEq, Repr

/-- `generate_intrinsic_op` through the generated table `opForm`; the three operator enumerations of the Gen tables
    (`ir::IntrinsicOp` in two tables, `ast::UnaryOp`, `ast::BinOp`) are matched by their Rust names -/
def opSyn (o : IOp) : Option OpSyn :=
  match IntrinsicOp.ofName? o.name with
  | none => none
  | some g =>
    match opForm g with
    | .unary u => (UnOp.ofName? u.name).map .un
    | .binary b => (BinOp.ofName? b.name).map .bin
    | .unexpected => none

/-! ## the exported tree as the front end reads it -/

mutual
/-- `Unelab Γ' i s`: `s` is what the parser hands to the type checker for the text exported for `i`, names
    resolved in the second-generation environment `Γ'` -/
inductive Unelab (Γ' : Env) : IExpr → SExpr → Prop where
  /-- a non-negative constant: `generate_literal` plain / widen arms, read back by `parse_literal` -/
  | lit (k : Scalar) : Unelab Γ' (.lit k) (.lit (rereadKind k))
  /-- a negative constant: `Minus(Literal(magnitude))` (integers: `negMinus` arms; floats: the printed sign is a
      token of its own) — only for kinds whose negation the constant evaluator folds, which are all signed kinds -/
  | litNeg (k : Scalar) : minusFolds (rereadKind k) = true → Unelab Γ' (.lit k) (.un .minus (.lit (rereadKind k)))
  | var (i : Nat) : Unelab Γ' (.var i) (.var i)
  | tern {c a b : IExpr} {c' a' b' : SExpr} :
      Unelab Γ' c c' → Unelab Γ' a a' → Unelab Γ' b b' → Unelab Γ' (.tern c a b) (.tern c' a' b')
  | seq {a b : IExpr} {a' b' : SExpr} : Unelab Γ' a a' → Unelab Γ' b b' → Unelab Γ' (.seq a b) (.bin .sequence a' b')
  /-- `generate_user_call`: the emitted name of the function, which `Γ'` resolves to the set of functions so named -/
  | call {f : Nat} {sg : FuncSig} {args : IArgs} {args' : SArgs} :
      Γ'.funcs[f]? = some sg → UnelabArgs Γ' args args' → Unelab Γ' (.call f args) (.call sg.name args')
  /-- a cast to a literal type is dropped -/
  | castDrop {t : Ty} {e : IExpr} {e' : SExpr} : litTyped t = true → Unelab Γ' e e' → Unelab Γ' (.cast t e) e'
  | cast {t : Ty} {e : IExpr} {e' : SExpr} : litTyped t = false → Unelab Γ' e e' → Unelab Γ' (.cast t e) (.cast t e')
  | un {o : IOp} {u : UnOp} {e : IExpr} {e' : SExpr} :
      opSyn o = some (.un u) → Unelab Γ' e e' → Unelab Γ' (.op o (.cons e .nil)) (.un u e')
  | bin {o : IOp} {b : BinOp} {x y : IExpr} {x' y' : SExpr} :
      opSyn o = some (.bin b) → Unelab Γ' x x' → Unelab Γ' y y' →
      Unelab Γ' (.op o (.cons x (.cons y .nil))) (.bin b x' y')
inductive UnelabArgs (Γ' : Env) : IArgs → SArgs → Prop where
  | nil : UnelabArgs Γ' .nil .nil
  | cons {e : IExpr} {r : IArgs} {e' : SExpr} {r' : SArgs} :
      Unelab Γ' e e' → UnelabArgs Γ' r r' → UnelabArgs Γ' (.cons e r) (.cons e' r')
end

mutual
/-- executable instance of `Unelab` (every constant non-negative); `none` = a node the exporter does not emit
    (an operator without syntax, a call of an unknown function id, an operator node of the wrong arity) -/
def unelab (Γ' : Env) : IExpr → Option SExpr
  | .lit k => some (.lit (rereadKind k))
  | .var i => some (.var i)
  | .tern c a b =>
    match unelab Γ' c, unelab Γ' a, unelab Γ' b with
    | some c', some a', some b' => some (.tern c' a' b')
    | _, _, _ => none
  | .seq a b =>
    match unelab Γ' a, unelab Γ' b with
    | some a', some b' => some (.bin .sequence a' b')
    | _, _ => none
  | .call f args =>
    match Γ'.funcs[f]?, unelabArgs Γ' args with
    | some sg, some args' => some (.call sg.name args')
    | _, _ => none
  | .cast t e =>
    match unelab Γ' e with
    | some e' => if litTyped t then some e' else some (.cast t e')
    | none => none
  | .op o args =>
    match opSyn o, args with
    | some (.un u), .cons e .nil => (unelab Γ' e).map (.un u)
    | some (.bin b), .cons x (.cons y .nil) =>
      match unelab Γ' x, unelab Γ' y with
      | some x', some y' => some (.bin b x' y')
      | _, _ => none
    | _, _ => none
def unelabArgs (Γ' : Env) : IArgs → Option SArgs
  | .nil => some .nil
  | .cons e r =>
    match unelab Γ' e, unelabArgs Γ' r with
    | some e', some r' => some (.cons e' r')
    | _, _ => none
end

/-! ## hypotheses of the re-elaboration theorem -/

mutual
/-- a source tree as the parser can produce it: no literal of a kind without a spelling (`Int32` constants only arise
    from re-tagging), no cast to a type without a name (`IntLiteral`, `FloatLiteral`) -/
def SrcOk : SExpr → Prop
  | .lit k => rereadKind k = k
  | .var _ => True
  | .un _ e => SrcOk e
  | .bin _ a b => SrcOk a ∧ SrcOk b
  | .tern c a b => SrcOk c ∧ SrcOk a ∧ SrcOk b
  | .call _ args => SrcArgsOk args
  | .cast t e => litTyped t = false ∧ SrcOk e
def SrcArgsOk : SArgs → Prop
  | .nil => True
  | .cons e r => SrcOk e ∧ SrcArgsOk r
end

/-- `Γ'` is `Γ` after export: same variables, same signatures, but every function has a name of its own -/
structure Renamed (Γ Γ' : Env) : Prop where
  vars : Γ'.vars = Γ.vars
  ret : Γ'.ret = Γ.ret
  sig : ∀ (f : Nat) (sg : FuncSig), Γ.funcs[f]? = some sg →
    ∃ sg' : FuncSig, Γ'.funcs[f]? = some sg' ∧ sg'.params = sg.params ∧ sg'.nonDefault = sg.nonDefault ∧ sg'.ret = sg.ret
  uniq : ∀ (f g : Nat) (sf sg : FuncSig), Γ'.funcs[f]? = some sf → Γ'.funcs[g]? = some sg → sf.name = sg.name → f = g

def isCast : IExpr → Bool
  | .cast _ _ => true
  | _ => false

/-- no argument in an `out` / `inout` position is a `Cast` node -/
def outArgsPlain : List Param → IArgs → Bool
  | p :: ps, .cons e r => (!(p.io.needsLvalue && isCast e)) && outArgsPlain ps r
  | _, _ => true

mutual
/-- **hypothesis on `out` arguments**: nowhere in the expression is a `Cast` passed for an `out` / `inout`
    parameter.  (The type checker does build such nodes — `T` ↔ `T1` and modifier-only conversions of an lvalue
    argument, known finding of C03 — and the exported `f((float1)x)` is then rejected: `reelab_fails_out_argument`.) -/
def OutArgsPlain (Γ : Env) : IExpr → Prop
  | .lit _ => True
  | .var _ => True
  | .tern c a b => OutArgsPlain Γ c ∧ OutArgsPlain Γ a ∧ OutArgsPlain Γ b
  | .seq a b => OutArgsPlain Γ a ∧ OutArgsPlain Γ b
  | .call f args =>
    (∀ sg, Γ.funcs[f]? = some sg → outArgsPlain sg.params args = true) ∧ OutArgsPlainArgs Γ args
  | .cast _ e => OutArgsPlain Γ e
  | .op _ args => OutArgsPlainArgs Γ args
def OutArgsPlainArgs (Γ : Env) : IArgs → Prop
  | .nil => True
  | .cons e r => OutArgsPlain Γ e ∧ OutArgsPlainArgs Γ r
end

/-! ## statements -/

/-- the exported statement as the front end reads it: the expression is exported, the declared type of a definition
    is printed as it is (`generate_variable_definition`) -/
inductive UnelabStmt (Γ' : Env) : IStmt → SStmt → Prop where
  | expr {e : IExpr} {s : SExpr} : Unelab Γ' e s → UnelabStmt Γ' (.expr e) (.expr s)
  | retNone : UnelabStmt Γ' (.ret none) (.ret none)
  | ret {e : IExpr} {s : SExpr} : Unelab Γ' e s → UnelabStmt Γ' (.ret (some e)) (.ret (some s))
  | init {t : Ty} {e : IExpr} {s : SExpr} : Unelab Γ' e s → UnelabStmt Γ' (.init t e) (.init t s)

def SrcStmtOk : SStmt → Prop
  | .expr e => SrcOk e
  | .ret none => True
  | .ret (some e) => SrcOk e
  | .init _ e => SrcOk e

def OutArgsPlainStmt (Γ : Env) : IStmt → Prop
  | .expr e => OutArgsPlain Γ e
  | .ret none => True
  | .ret (some e) => OutArgsPlain Γ e
  | .init _ e => OutArgsPlain Γ e

/-- the environment of the exported program used by the driver and the non-vacuity examples: function `i` is named `i` -/
def uniqueNames (Γ : Env) : Env := { Γ with funcs := Γ.funcs.mapIdx fun i s => { s with name := i } }

end RsslVerif.Model.Fixpoint

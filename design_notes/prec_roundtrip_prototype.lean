import Std
set_option maxRecDepth 2000
inductive Tok where
  | id (n : Nat) | op (o : Nat) | lp | rp
deriving DecidableEq, Repr

inductive E where
  | atom (n : Nat)
  | bin (o : Nat) (l r : E)
deriving DecidableEq, Repr

section
variable (lvl : Nat → Nat)

def fmt (k : Nat) : E → List Tok
  | .atom n => [.id n]
  | .bin o l r =>
    let body := fmt (lvl o) l ++ [.op o] ++ fmt (lvl o - 1) r
    if lvl o ≤ k then body else [.lp] ++ body ++ [.rp]

mutual
def parseLvl (K : Nat) : Nat → Nat → List Tok → Option (E × List Tok)
  | 0, _, _ => none
  | f+1, 0, ts =>
    match ts with
    | .id n :: rest => some (.atom n, rest)
    | .lp :: rest =>
      match parseLvl K f K rest with
      | some (e, .rp :: rest') => some (e, rest')
      | _ => none
    | _ => none
  | f+1, k+1, ts =>
    match parseLvl K f k ts with
    | some (l, rest) => parseLoop K f (k+1) l rest
    | none => none
def parseLoop (K : Nat) : Nat → Nat → E → List Tok → Option (E × List Tok)
  | 0, _, _, _ => none
  | f+1, k, l, ts =>
    match ts with
    | .op o :: rest =>
      if lvl o = k then
        match parseLvl K f (k-1) rest with
        | some (r, rest') => parseLoop K f k (.bin o l r) rest'
        | none => none
      else some (l, ts)
    | _ => some (l, ts)
end

theorem mono (K : Nat) : ∀ f,
    (∀ k ts x, parseLvl lvl K f k ts = some x → parseLvl lvl K (f+1) k ts = some x) ∧
    (∀ k l ts x, parseLoop lvl K f k l ts = some x → parseLoop lvl K (f+1) k l ts = some x) := by
  intro f
  induction f with
  | zero => constructor <;> intros <;> simp_all [parseLvl, parseLoop]
  | succ f ih =>
    obtain ⟨ih1, ih2⟩ := ih
    constructor
    · intro k ts x h
      cases k with
      | zero =>
        unfold parseLvl at h ⊢
        split at h
        · exact h
        · rename_i rest
          split at h
          · rename_i e rest' heq
            rw [ih1 _ _ _ heq]; exact h
          · cases h
        · cases h
      | succ k =>
        unfold parseLvl at h ⊢
        split at h
        · rename_i l rest heq
          rw [ih1 _ _ _ heq]; exact ih2 _ _ _ _ h
        · cases h
    · intro k l ts x h
      unfold parseLoop at h ⊢
      split at h
      · rename_i o rest
        split at h
        · rename_i hk
          split at h
          · rename_i r rest' heq
            simp only [hk, if_true]
            rw [ih1 _ _ _ heq]; exact ih2 _ _ _ _ h
          · cases h
        · rename_i hk; simp only [hk, if_false]; exact h
      · exact h

theorem monoLvl (K : Nat) {f g k ts x} (h : parseLvl lvl K f k ts = some x) (hg : f ≤ g) :
    parseLvl lvl K g k ts = some x := by
  induction hg with
  | refl => exact h
  | step _ ih => exact (mono lvl K _).1 _ _ _ ih

theorem monoLoop (K : Nat) {f g k l ts x} (h : parseLoop lvl K f k l ts = some x) (hg : f ≤ g) :
    parseLoop lvl K g k l ts = some x := by
  induction hg with
  | refl => exact h
  | step _ ih => exact (mono lvl K _).2 _ _ _ _ ih

def Parses (K k : Nat) (ts : List Tok) (out : E × List Tok) : Prop :=
  ∃ f, parseLvl lvl K f k ts = some out
def Loops (K k : Nat) (acc : E) (ts : List Tok) (out : E × List Tok) : Prop :=
  ∃ f, parseLoop lvl K f k acc ts = some out

/-- head of `ts` is not an operator of level `< k` -/
def NoLow (k : Nat) (ts : List Tok) : Prop := ∀ o rest, ts = .op o :: rest → k ≤ lvl o

theorem NoLow.mono {k j ts} (h : NoLow lvl k ts) (hj : j ≤ k) : NoLow lvl j ts :=
  fun o rest e => Nat.le_trans hj (h o rest e)

/-- a loop at a level that the next token does not belong to returns immediately -/
theorem loops_skip (K k : Nat) (acc : E) (ts : List Tok) (h : NoLow lvl (k+1) ts) :
    Loops lvl K k acc ts (acc, ts) := by
  refine ⟨1, ?_⟩
  unfold parseLoop
  split
  · rename_i o rest
    have := h o rest rfl
    have hne : lvl o ≠ k := by omega
    simp [hne]
  · rfl

theorem lift (K k : Nat) {ts l r out} (hp : Parses lvl K k ts (l, r))
    (hl : Loops lvl K (k+1) l r out) : Parses lvl K (k+1) ts out := by
  obtain ⟨f1, h1⟩ := hp
  obtain ⟨f2, h2⟩ := hl
  refine ⟨max f1 f2 + 1, ?_⟩
  unfold parseLvl
  rw [monoLvl lvl K h1 (Nat.le_max_left f1 f2)]
  exact monoLoop lvl K h2 (Nat.le_max_right f1 f2)

/-- raise a parse at level j to level j+d+1 when the rest cannot continue the levels in between -/
theorem raise (K : Nat) {j ts e rest} (hp : Parses lvl K j ts (e, rest)) :
    ∀ d out, NoLow lvl (j+d+1) rest → Loops lvl K (j+d+1) e rest out →
      Parses lvl K (j+d+1) ts out := by
  intro d
  induction d with
  | zero =>
    intro out _ hl
    exact lift lvl K j hp hl
  | succ d ih =>
    intro out hno hl
    have hmid : Parses lvl K (j+d+1) ts (e, rest) :=
      ih (e, rest) (hno.mono lvl (by omega)) (loops_skip lvl K _ e rest hno)
    exact lift lvl K (j+d+1) hmid hl

/-- all operators have a level in 1..K -/
def LvlOk (K : Nat) : E → Prop
  | .atom _ => True
  | .bin o l r => 1 ≤ lvl o ∧ lvl o ≤ K ∧ LvlOk K l ∧ LvlOk K r

theorem parses_atom (K k n rest out) (hno : NoLow lvl k rest)
    (hl : Loops lvl K k (.atom n) rest out) (h0 : k = 0 → out = (.atom n, rest)) :
    Parses lvl K k (.id n :: rest) out := by
  have hp0 : Parses lvl K 0 (.id n :: rest) (.atom n, rest) := ⟨1, by simp [parseLvl]⟩
  cases k with
  | zero => rw [h0 rfl]; exact hp0
  | succ k =>
    have := raise lvl K hp0 k out (by simpa using hno) (by simpa using hl)
    simpa using this


def RT (K : Nat) (e : E) : Prop :=
  ∀ k rest out, k ≤ K → NoLow lvl k rest → Loops lvl K k e rest out → (k = 0 → out = (e, rest)) →
    Parses lvl K k (fmt lvl k e ++ rest) out

theorem loops_nonop (K k acc ts) (h : ∀ o r, ts ≠ .op o :: r) : Loops lvl K k acc ts (acc, ts) := by
  refine ⟨1, ?_⟩
  unfold parseLoop
  split
  · rename_i o r; exact absurd rfl (h o r)
  · rfl

/-- body of a binary node, printed without outer parens, parsed at any level k ≥ its own -/
theorem bin_body (K : Nat) (o : Nat) (l r : E) (hl : RT lvl K l) (hr : RT lvl K r)
    (hp1 : 1 ≤ lvl o) (hpK : lvl o ≤ K) :
    ∀ k rest out, lvl o ≤ k → k ≤ K → NoLow lvl k rest → Loops lvl K k (.bin o l r) rest out →
      Parses lvl K k (fmt lvl (lvl o) l ++ [.op o] ++ fmt lvl (lvl o - 1) r ++ rest) out := by
  intro k rest out hpk hkK hno hloops
  -- parsing the right operand
  have hR : Parses lvl K (lvl o - 1) (fmt lvl (lvl o - 1) r ++ rest) (r, rest) := by
    apply hr (lvl o - 1) rest (r, rest) (by omega) (hno.mono lvl (by omega))
    · have : lvl o - 1 + 1 = lvl o := by omega
      have h := loops_skip lvl K (lvl o - 1) r rest (by rw [this]; exact hno.mono lvl hpk)
      exact h
    · intro _; rfl
  -- the loop at level p consumes `op o` and the right operand
  have hstep : ∀ X, Loops lvl K (lvl o) (.bin o l r) rest X →
      Loops lvl K (lvl o) l (.op o :: (fmt lvl (lvl o - 1) r ++ rest)) X := by
    intro X ⟨f2, h2⟩
    obtain ⟨f1, h1⟩ := hR
    refine ⟨max f1 f2 + 1, ?_⟩
    unfold parseLoop
    simp only [if_true]
    rw [monoLvl lvl K h1 (Nat.le_max_left f1 f2)]
    exact monoLoop lvl K h2 (Nat.le_max_right f1 f2)
  have hnoL : NoLow lvl (lvl o) (.op o :: (fmt lvl (lvl o - 1) r ++ rest)) := by
    intro o' r' e; cases e; exact Nat.le_refl _
  have hL : ∀ X, Loops lvl K (lvl o) (.bin o l r) rest X →
      Parses lvl K (lvl o) (fmt lvl (lvl o) l ++ (.op o :: (fmt lvl (lvl o - 1) r ++ rest))) X := by
    intro X hX
    exact hl (lvl o) _ X hpK hnoL (hstep X hX) (by omega)
  have hassoc : fmt lvl (lvl o) l ++ [.op o] ++ fmt lvl (lvl o - 1) r ++ rest
      = fmt lvl (lvl o) l ++ (.op o :: (fmt lvl (lvl o - 1) r ++ rest)) := by simp
  rw [hassoc]
  rcases Nat.lt_or_ge (lvl o) k with hlt | hge
  · -- p < k : finish level p with (e, rest), then raise
    have hskip : Loops lvl K (lvl o) (.bin o l r) rest (.bin o l r, rest) :=
      loops_skip lvl K (lvl o) _ rest (hno.mono lvl (by omega))
    have hP := hL _ hskip
    obtain ⟨d, hd⟩ : ∃ d, k = lvl o + d + 1 := ⟨k - lvl o - 1, by omega⟩
    subst hd
    exact raise lvl K hP d out hno hloops
  · have : k = lvl o := by omega
    subst this
    exact hL out hloops

theorem roundtrip (K : Nat) : ∀ e, LvlOk lvl K e → RT lvl K e := by
  intro e
  induction e with
  | atom n =>
    intro _ k rest out _ hno hl h0
    simpa [fmt] using parses_atom lvl K k n rest out hno hl h0
  | bin o l r ihl ihr =>
    intro ⟨hp1, hpK, hokl, hokr⟩ k rest out hkK hno hl h0
    have IHl := ihl hokl
    have IHr := ihr hokr
    by_cases hpk : lvl o ≤ k
    · have := bin_body lvl K o l r IHl IHr hp1 hpK k rest out hpk hkK hno hl
      simpa [fmt, hpk] using this
    · -- parenthesised
      have hinner : Parses lvl K K
          (fmt lvl (lvl o) l ++ [.op o] ++ fmt lvl (lvl o - 1) r ++ (.rp :: rest)) (.bin o l r, .rp :: rest) :=
        bin_body lvl K o l r IHl IHr hp1 hpK K (.rp :: rest) _ hpK (Nat.le_refl _)
          (by intro o' r' e; cases e)
          (loops_nonop lvl K K _ _ (by intro o' r' e; cases e))
      have hp0 : Parses lvl K 0 (fmt lvl k (.bin o l r) ++ rest) (.bin o l r, rest) := by
        obtain ⟨f, hf⟩ := hinner
        refine ⟨f + 1, ?_⟩
        simp only [fmt, hpk, if_false]
        simp only [List.cons_append, List.nil_append, List.append_assoc, List.singleton_append] at hf ⊢
        unfold parseLvl
        simp only [hf]
      cases k with
      | zero => rw [h0 rfl]; exact hp0
      | succ k =>
        have := raise lvl K hp0 k out (by simpa using hno) (by simpa using hl)
        simpa using this

/-- the statement a user reads: printing at top level and parsing gives the tree back -/
theorem roundtrip_top (K : Nat) (e : E) (hok : LvlOk lvl K e) :
    ∃ f, parseLvl lvl K f K (fmt lvl K e) = some (e, []) := by
  have := roundtrip lvl K e hok K [] (e, []) (Nat.le_refl _) (by intro o r h; cases h)
    (loops_nonop lvl K K e [] (by intro o r h; cases h)) (by intro _; rfl)
  simpa [Parses] using this
end
#print axioms roundtrip_top

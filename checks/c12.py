"""C12 — macro expansion and inclusion equal reference textual substitution."""
import re

T = "RsslVerif.Thm.C12."


def nontrivial(req, obs):
    # at least one macro is defined and the real code produced at least three tokens
    f = req.split("\t")
    defined = f[1] != "-" or any("|D " in x for x in f[2:])
    return defined and obs.startswith("ok ") and len(obs.split(" ")) >= 4


def finding_key(req, obs, detail):
    m = re.match(r"FAIL:panic ([^:]+):\d+: (.*)$", detail or "")
    if m:
        msg = m.group(2).split("\\")[0].split("\n")[0]
        return f"panic {m.group(1)}: " + re.sub(r"\d+", "N", msg).strip()
    m = re.match(r"FAIL:differs-from-C\[([^\]+]+)", detail or "")
    if m:
        # a disagreement that needs several known deviations at once is filed under the first one
        # (the harness only names a deviation when switching it on in the reference reproduces the real output)
        return f"differs-from-C[{m.group(1)}]"
    # (vlib's shrinker accepts any failing candidate when the key of an empty detail is the request itself)
    return req if detail else "no-oracle-detail"


def _balanced(req):
    """parentheses balanced in every #define line and over every run of text lines: a smaller program that is not is
    another kind of program (an argument list that begins in a replacement list and ends behind it)"""
    f = req.split("\t")
    groups = [[e] for e in f[1].split("|")] if f[1] != "-" else []
    for ff in f[2:]:
        run = []
        for part in ff.split("|")[1:]:
            if part.startswith("T"):
                run.append(part)
            else:
                groups.append(run)
                run = []
                if part.startswith("D"):
                    groups.append([part])
        groups.append(run)
    for g in groups:
        d = 0
        for part in g:
            for t in part.split(" "):
                if t == "(":
                    d += 1
                elif t == ")":
                    d -= 1
                    if d < 0:
                        return False
        if d != 0:
            return False
    return True


def shrink(req):
    for cand in _shrink(req):
        if _balanced(cand):
            yield cand


def _shrink(req):
    f = req.split("\t")
    # drop one API define
    if f[1] != "-":
        api = f[1].split("|")
        for i in range(len(api)):
            rest = api[:i] + api[i + 1:]
            yield "\t".join([f[0], "|".join(rest) if rest else "-"] + f[2:])
    # drop the last file
    if len(f) > 3:
        yield "\t".join(f[:-1])
    # drop one line of one file
    for k in range(2, len(f)):
        parts = f[k].split("|")
        for i in range(1, len(parts)):
            yield "\t".join(f[:k] + ["|".join(parts[:i] + parts[i + 1:])] + f[k + 1:])
    # drop one token of one line
    for k in range(2, len(f)):
        parts = f[k].split("|")
        for i in range(1, len(parts)):
            toks = parts[i].split(" ")
            if len(toks) <= 2 or toks[0] not in ("D", "T"):
                continue
            for j in range(1, len(toks)):
                cand = " ".join(toks[:j] + toks[j + 1:])
                yield "\t".join(f[:k] + ["|".join(parts[:i] + [cand] + parts[i + 1:])] + f[k + 1:])


def search(ctx):
    """small systematic macro programs: every pair of definitions from a template list x every site"""
    defs = [
        "D ~ A ~ 1", "D ~ A ~ A", "D ~ A ~ B", "D ~ A ~ B ( A )", "D ~ A ~ B ( 1 ) ( 2 )", "D ~ A ~ P ## Q",
        "D ~ B ~ A", "D ~ B ( X ) ~ X", "D ~ B ( X ) ~ A", "D ~ B ( X ) ~ X ## 1", "D ~ B ( X ) ~ B ( X )",
        "D ~ B ( X , Y ) ~ Y ~ X", "D ~ B ( ) ~ A", "D ~ B ( X ) ~ X ~ B",
    ]
    sites = ["T A", "T B", "T B ( A )", "T B ( 1 , 2 )", "T B ( ( 1 , 2 ) )", "T B ( )", "T A ( 1 )", "T B ( B ( A ) )",
             "T B ~ ( 1 ) ( 2 )", "T A ~ B ( A ) ~ A"]
    out = []
    for d1 in defs:
        for d2 in defs:
            if d1 == d2:
                continue
            for s in sites:
                out.append("C12.run\t-\tmain|%s|%s|%s" % (d1, d2, s))
                if d1.startswith("D ~ A ~ ") and "(" not in d1.split("~")[1]:
                    out.append("C12.run\tA %s\tmain|%s|%s" % (d1[len("D ~ A ~ "):], d2, s))
    return out[:4000]


# deviation classes that concern the files of a compilation, not macro expansion: none is left (pragma-once-by-include-name
# was repaired by d66a6d7, duplicate-api-define / paste-in-api-define by 9f7cdb8; the harness no longer offers them as
# explanations).  `invocation-spans-file-boundary` is deliberately NOT exempt: the program-level class excludes blocks that
# end in a function-like name at a file boundary, so a tame program must not show it.
FILE_LEVEL = set()


def custom(ctx):
    """standard run + cross-check of the class of the refinement theorem against the real code:
    the model's driver decides (`C12.tame`, Model/MacroTame.lean `tameRunP` on every block of text lines) whether a
    program lies in the class on which `expand_refines_spec_with_paste_decided` proves rssl = reference C algorithm.  On such a
    program the real preprocessor must not differ from the harness's independent reference preprocessor in any way
    that concerns macro expansion."""
    ctx.standard_run()
    if not ctx.spec.get("harness") or not ctx.harness_ok:
        return
    reqs = sorted(r for r in ctx.distinct if r.startswith(("C12.run\t", "C12.hof\t")))
    if not reqs:
        return
    answers = ctx.run_model(["C12.tame" + r[len("C12.run"):] for r in reqs])
    failing = {}
    for req, obs, orc in ctx.oracle_failures:
        failing.setdefault(req, (obs, orc))
    tame, bad = 0, []
    for req, a in zip(reqs, answers):
        if a != "tame":
            continue
        tame += 1
        if req in failing:
            obs, orc = failing[req]
            m = re.match(r"FAIL:differs-from-C\[([^\]]+)\]", orc)
            classes = set(m.group(1).split("+")) if m else {"panic"}
            if classes - FILE_LEVEL:
                bad.append((req, obs, orc))
    ctx.extra["tame_class"] = {
        "programs_classified": len(reqs), "tame": tame, "tame_but_real_differs_from_reference": len(bad),
        "meaning": "tame = every block of text lines of the program is accepted by tameRunP (class of "
                   "expand_refines_spec_with_paste_decided); on those the real output must equal the reference preprocessor's"}
    ctx.say(f"[{ctx.id}] class of expand_refines_spec_with_paste_decided: {tame} of {len(reqs)} programs are tame, "
            f"{len(bad)} of them differ from the reference")
    for req, obs, orc in bad[:3]:
        ctx.broken.append("expand_refines_spec_with_paste_decided claims rssl = C on a tame program, but the real preprocessor "
                          f"differs from the reference on it: {req!r} -> {obs!r} ({orc})")
    if bad:
        # a concrete failing input: the real code violates the property on an input where the proof says it cannot
        req, obs, orc = min(bad, key=lambda b: len(b[0]))
        path = ctx.write_replay("input", {"request": req, "observed": obs, "oracle": orc,
                                          "found_by": "tame program (class of expand_refines_spec_with_paste_decided) on which the "
                                                      "real preprocessor differs from the reference preprocessor"})
        ctx.violations.append((path, ""))


SPEC = {
    "id": "C12",
    "gens": ["MacroTables", "LexTables"],
    "lean_modules": ["RsslVerif.Thm.C12", "RsslVerif.Thm.C12Boundary"],
    "theorems": [T + n for n in [
        "source_shape", "source_shape_directive_forms", "expand_terminates", "expand_never_hangs", "object_like_is_substitution", "function_like_is_substitution",
        "define_undef_scoping", "macro_names_always_distinct", "api_defines_equal_file_defines",
        "expand_refines_spec_partial", "expand_refines_spec", "expand_refines_spec_decided", "tame_class_is_decided",
        "expand_refines_spec_with_paste", "expand_refines_spec_with_paste_decided",
        "tame_class_is_part_of_class_with_paste",
        "object_like_refines_spec",
        "trailing_function_name_is_invoked", "paste_is_single_token", "paste_matches_lexer",
        "paste_joins_source_spellings",
        "parse_yields_wellformed_macro", "directive_takes_effect_from_its_line",
        "api_defines_equal_file_defines_tokens", "include_of_empty_file",
        "include_is_paste", "pragma_once_once",
        "invocation_may_continue_on_next_line", "agrees_line_end_before_parenthesis",
        "api_define_with_line_break_is_rejected", "rejected_directive_rejects_the_file",
        "null_directive_is_boundary_and_empty_line",
        "differs_unused_argument_expanded", "differs_argument_repainted",
        "differs_painted_function_name_reinvoked", "differs_painted_function_name_reinvoked_acyclic",
        "differs_function_name_before_vanished_macro", "differs_empty_argument_next_to_paste",
        "differs_argument_list_ends_behind_replacement_list",
        "agrees_on_invocation_completed_after_expansion", "agrees_on_higher_order_invocation",
        "differs_outside_class_with_paste",
        "differs_invocation_spanning_file_boundary"]],
    "harness": "c12",
    "nontrivial": nontrivial,
    "finding_key": finding_key,
    "shrink": shrink,
    "search": search,
    "custom": custom,
    "level_text": "Proof; partial only at the places named below. Kernel-checked for every macro list, token list, API define "
                  "list and include graph: the model's expansion function (loop + recursive expansion of arguments and bodies of "
                  "preprocess.rs) is total, its measure guards never fire and the non-advancing `continue` of find_single_macro is "
                  "unreachable; REFINEMENT: whenever a token list has a tame expansion (Lemmas.MacroTame.Tame; decided by the "
                  "executable tameRun) the model's result and the reference C algorithm (Spec.CPreMacro.expand, Prosser's hide-set "
                  "algorithm, for some fuel) yield the same tokens (expand_refines_spec[_decided]; with ## in replacement lists: "
                  "expand_refines_spec_with_paste[_decided], class TameP decided by tameRunP -- about half of the generated "
                  "programs): object- and function-like macros, any number of parameters, nested invocations in arguments and "
                  "replacement lists, parenthesised commas, self- and mutually referential macros, ## between tokens of the "
                  "replacement list and/or parameters, HIGHER-ORDER USE (the bare name of a function-like macro passed as an "
                  "argument and invoked by the replacement list, APPLY(NEG, a), X-macro lists LIST(DECL), CALL(ADD, (p, q)): side "
                  "condition ArgOK = what the argument expanded to names no enabled macro OR nothing was expanded in the argument "
                  "(AllKept) -- its tokens then carry exactly the hide set of the invocation; witnesses "
                  "agrees_on_higher_order_invocation); for tables of object-like macros every token list is tame "
                  "(object_like_refines_spec: object-like macros in full). The side conditions of the class are each shown "
                  "necessary by a witness evaluated in Lean on model and reference (differs_*: unused "
                  "argument, argument repainted, painted name re-invoked, name before a vanished macro, empty argument next to "
                  "##, argument list that begins in a replacement list and ends behind it) and replayed on the real code. Since fix f08088c the search for the '(' of an invocation skips line ends "
                  "like C (invocation_may_continue_on_next_line: universally, parenAfter finds '(' iff the next token that is "
                  "not white space is '('; agrees_line_end_before_parenthesis: the former witnesses now lie in the class). ## : one paste step replaces l ws* ## ws* r by one token spelled l+r "
                  "(paste_is_single_token); which joined spellings are one token agrees with the lexer model of C10 "
                  "(identifiers and decimal numbers universally, the 49 operator pairs exhaustively, keyword tables). ## JOINS SOURCE "
                  "SPELLINGS: the model's integer token carries its source spelling (0x10, 020, 16u and 16 are different tokens, "
                  "as the real token carries its span), value and kind of a spelling are what the lexer model of C10 reads from it; "
                  "paste_joins_source_spellings: for ALL pairs of number spellings the paste succeeds with the token spelled a++b "
                  "iff the lexer model reads a++b as one integer literal, is ConcatFailed iff the lexer model does not read one "
                  "token, and identifier ## number is the identifier spelled a++b (0x1 ## 0 = 0x10 = 16, v ## 0x10 = v0x10, "
                  "slot_ ## 007 = slot_007); that both operands go through unlex and nothing is rendered per token kind is pinned "
                  "in the source (Gen concatArmSpelling / concatUsesSourceSpelling in source_shape). Scope of definitions: the list "
                  "never holds two entries of a name, lookup = latest #define not followed by #undef, a directive takes effect "
                  "from its line; API defines = #define lines before the first line (every entry file); #include = the file's "
                  "lines between two block boundaries (empty file: one line end; an invocation does not span the start or end of an "
                  "included file: known finding invocation-spans-file-boundary against the textual reading); a #pragma once file "
                  "contributes once under every include name that reaches it (pragma_once_once, once-set keyed by the real name "
                  "since fix d66a6d7); an API define with a line break is rejected (fix 3c81ed5; since wave 5 also exercised by the correspondence run). "
                  "DIRECTIVE FORMS (wave 5): a directive line that preprocess_command rejects whatever the state (#pragma with an "
                  "unknown or missing name, an unknown directive name, #include whose operand is not one string / header name) "
                  "makes the file fail wherever it stands, after the text in front of it was expanded -- an error of that text wins "
                  "-- and nothing behind it is looked at (rejected_directive_rejects_the_file, universal); the null directive (# "
                  "alone on a line) is worth a directive without effect plus an empty line, in every file at every place "
                  "(null_directive_is_boundary_and_empty_line, universal). The SPELLING of a program (tab / line continuation / "
                  "line comment / block comment over a line end as white space, CR LF, no final line end, '# define', "
                  "#include <f>) does not reach the model's theorems: every such spelling is the same token list (one white-space "
                  "token that is not a line end), which the correspondence run checks against the real lexer and preprocessor. "
                  "PARTIAL: "
                  "(a) of ##: operands or results that are enabled macro names, ## inside the argument list of a nested invocation, "
                  "empty arguments next to ## lie outside the class; (b) invocations completed by the text after the end of an "
                  "expansion are excluded from the class (universal statement for the model: trailing_function_name_is_invoked; "
                  "agreement with C on witnesses only). The "
                  "correspondence run checks on every generated program that lies in the class (driver op C12.tame) that the real "
                  "preprocessor equals the harness's independent reference preprocessor. The rescan of the substituted replacement "
                  "list is pinned as unconditional in the source (Gen userArmStatements / bodyAlwaysRescanned in source_shape). The "
                  "oracle recognises a known deviation class ONLY by exact mimicry: the reference run with the mimic switches of "
                  "the named classes reproduces the real output token for token (a rejection by a rejection); anything else is "
                  "'unexplained' = an unlisted finding, reported with a shrunk input.",
    "rule": "requests = (API define list, include graph of files given line by line as token lists); the harness renders the "
            "files, checks with the real lexer that every line lexes to exactly the request's tokens, runs the real "
            "rssl_preprocess::preprocess + prepare_tokens and compares kinds/values of the result with the model and with an "
            "independent reference C preprocessor (Prosser's hide-set algorithm) written in the harness; generated programs: "
            "1-6 macros with 0-3 parameters, bodies of up to 8 elements referring to parameters, other macros, themselves, with "
            "## pastes; 1-10 invocation sites with nested invocations, parenthesised commas, empty arguments, wrong arities, "
            "argument lists spanning lines, line ends between a macro name and '(', bodies ending in a function-like name (followed by nothing, a parameter or an "
            "object-like macro that may expand to nothing), sites continued by parenthesised groups (M()(2)(1)), comments and "
            "blanks at token boundaries; redefinitions and #undef between the sites; 1-5 files with and without #pragma once, "
            "repeated and back-edge includes; every leading object-like definition placed in the file, in the API list, and split; "
            "generated programs run in a worker process under a time/memory limit (expansion blow-up = known finding); "
            "every program is also classified by the model (C12.tame): inside the class of expand_refines_spec_with_paste_decided the "
            "real output must equal the reference; second family (request C12.hof, a fifth of the programs): 1-3 function-like "
            "'worker' macros whose names are passed as arguments to 1-2 'combinator' macros that invoke them (F(X..), F(1) F(2) .., "
            "F X with a parenthesised list, F(F(X)), a relay H2 -> H1), replacement lists of parameters, literals and punctuation "
            "with and without an identifier of their own, combinators in the file or in the API list -- judged strictly: any "
            "difference from the reference fails under a key of its own; third family (a fifth of the programs): ## operands of "
            "every token kind and SPELLING -- integer literals in hex / octal / with leading zeros / with suffixes u l ul U L, "
            "float literals (1. 1e3 1.0f 1.0h 1.0L, signed exponents), keywords, 27 operators, string literals, identifiers ending "
            "in digits or shaped like suffixes and exponents; operands out of arguments, out of the replacement list, both, "
            "empty, chains X ## Y ## Z, nested CAT(CAT(a,b),c), passed through unpasted; results that are identifiers, numbers "
            "of every kind, operators, and invalid pastes; the reference pastes spellings and its output is put into the "
            "observation form (kind and value) by the real lexer; a disagreement with the reference is attributed to known "
            "deviation classes only if the reference with exactly their mimic switches reproduces the real output, the first "
            "unexplained programs are shrunk in the harness (parentheses kept balanced); non-trivial = a macro is defined and at "
            "least three tokens come out; WAVE 5 dimensions: a third of the programs of every family are re-spelled with the "
            "same tokens (white space as tab, line continuation backslash-newline, block comment that holds a line end, a line "
            "comment at the end of a line, white space added at token boundaries other than in front of '(', indented text "
            "lines, files in CR LF, files without a final line end, '# define' with a blank after the hash, #include <f>, "
            "white space inside the parameter list of an API name); parameters named like a macro of the program (its own "
            "included); parenthesised groups of any shape in arguments (empty, one to three items, nested to depth 3, a comma "
            "behind an inner ')', invocations inside); 'defined' as an ordinary identifier; #pragma once that is not the first "
            "line of its file and in the entry file, with includes of such files; the null directive; rejected directive "
            "lines (#pragma foo, #pragma, #foo, #1 foo, #include, #include foo, #include \"f1\" x) at any place of any file; "
            "API values that hold a line end and API names that are no macro head; compile stream: redefinition of each of "
            "the three built-in defines, values that name a later define",
    "trusted_base": [
        "Lean 4.33 kernel; axioms propext / Classical.choice / Quot.sound only (audited by #print axioms)",
        "tools/gens/c12.py (MacroTables: any_word keyword arms, preprocess_command directive arms and the retain/push shape of "
        "define/undef, the pragma names, Token::is_whitespace, the apply_macros_internal call that expands arguments, every "
        "MacroSearchPosition literal and the conditions of find_single_macro that consult it, the three trimming loops and "
        "which of them split_macro_args / find_single_macro / the arity test use, the statement sequence of the User arm "
        "from substitution to splice (no guard around the rescan), the Macro::parse + retain + push "
        "path of initial defines, compile()'s built-in defines; wave 5: the patterns and guards of the line state machine of "
        "preprocess_included_file, the operand arms of #include, the arms of preprocess_command that reject a directive) and tools/gens/c10.py (LexTables, for paste_matches_lexer) — "
        "re-run on /repo's working tree every time",
        "hand-written Model/Macro.lean and Model/Include.lean mirror preprocess.rs; tied to the code by the correspondence run only",
        "Spec/CPreMacro.lean: our reading of C11 6.10.3 (Prosser's algorithm) and 6.10.3.5 (scope of definitions); "
        "Lemmas.MacroTame.Tame / Lemmas.MacroTameP.TameP / Model.MacroTame.tameRun, tameRunP: the definition of the class of "
        "the refinement theorems",
        "Model/Lexer.lean (C10's lexer model) for paste_matches_lexer, and since the spelling round as a PART of the macro model: "
        "pasteTokens decides number ## number by Model.Lexer.readToEnd on the joined spelling, the driver prints an integer "
        "token as the kind and value the lexer model reads from its spelling (tied to lexer.rs by C10's correspondence run and "
        "here by every generated paste of number spellings)",
        "harness reference preprocessor (Rust) = the oracle of the correspondence run, incl. its mimic switches (one per known "
        "deviation class: they only decide whether a failure is filed under a known finding, never whether it is a failure); "
        "the lexer is used as given (C10): the reference works on spellings, and (a) whether a joined spelling that is neither "
        "identifier-shaped nor a canonical decimal is one token, (b) the observation form (kind, value) of a spelling in the "
        "reference's output are asked of the real lexer (harness canon_single)",
        "the spelling dimension (wave 5) lives in the harness: request tokens ~c ~t //c /*n*/ and the file flags !r !e !h are "
        "turned into text by Program::render_file; that each line lexes to the intended token kinds (PhysicalEndline / "
        "Whitespace / Comment) is checked with the real lexer (lex_faithful), CR LF and the missing final line end are "
        "applied to the whole file after that check; the model's driver maps all of them to one white-space token and drops "
        "the flags (Driver/C12.lean parseTok / parseFile)",
        "the resource class expansion-explodes-without-persistent-paint (C12.limit requests of the corpus) is recognised by size "
        "(> 1000 x the reference's token count, or time/memory limit), not by reproducing the output",
    ],
    "assumptions": [
        "model tokens are identifiers, integer literals in any spelling (decimal, hex, octal, leading zeros, suffixes), ( ) , ## "
        "and the operators + - * ; = { }; white space is one blank or a line end; programs with float literals, keywords, string "
        "literals or other operators, and pastes number ## identifier (1 ## u, 1 ## e3) or pastes that produce anything but an "
        "identifier, an integer literal or one of ++ -- += -= *= == are answered 'unsupported' by the model (counted; the "
        "oracle judges them all); `<` `>` (lexed by what follows) and `#` are not generated",
        "conditional directives and defined() are C11's; the include handler is deterministic and reports one content per "
        "real file name (FileLoader serves the content stored when a real name was first seen; a request that gives two "
        "contents to one real name is answered 'unsupported' by the model)",
        "include recursion is cut by fuel in the model (the code has no bound: C08)",
        "not reached by any stream (one line each in notes/C12.md): an API define whose text does not lex (preprocess.rs:1496), "
        "a missing entry file (1537), duplicate parameter names and a parameter list with '...' (outside C / outside the subset), "
        "white space between '#' and the line end of a null directive ('# ' + line end: the blank goes to active_tokens; only "
        "'#' + line end is rendered), form feed / vertical tab / a lone CR (lexer, C10)",
        "a compilation that the real code rejects counts as reproduced by a reference run that rejects it, whatever the error "
        "kinds (a program with two errors may meet them in another order); the generators keep parentheses balanced in "
        "replacement lists (the unbalanced case is the known finding argument-list-ends-behind-replacement-list, corpus only)",
    ],
}

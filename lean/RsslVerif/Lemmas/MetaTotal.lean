import RsslVerif.Lemmas.Meta
/-!
# The HLSL metadata builder cannot fail on the allocator's output

`generate_inline_constant_buffers` indexes `bind_groups[buffer.set]` and carries three asserts
(`offset + 8 <= buffer.size_in_bytes`, `buffer.size_in_bytes == found_size`, `inline_constants == None`).
Here: running the allocator and registering the metadata entries side by side keeps, per bind group,
"8 × (number of inline entries) = bytes the allocator has handed out" and "every inline offset + 8 ≤ those bytes";
the inline buffers the allocator reports have pairwise different groups, the size the allocator handed out, and a
positive size — so the group exists, and none of the asserts can fire.
-/
namespace RsslVerif.Lemmas.MetaTotal
open RsslVerif.Gen.SlotTables RsslVerif.Gen.MetaTables RsslVerif.Model.Slots RsslVerif.Model.Meta RsslVerif.Spec.Meta
open RsslVerif.Lemmas.Meta RsslVerif.Lemmas.Slots

/-- `found_size` of `generate_inline_constant_buffers` over a list of entries -/
def found (es : List Entry) : Nat :=
  (es.filter fun e => match e.loc with | .inline _ => true | .index _ => false).length * 8

theorem inlineFound_eq (g : Group) : inlineFound g = found g.bindings := rfl

theorem found_append (xs ys : List Entry) : found (xs ++ ys) = found xs + found ys := by
  simp [found, List.filter_append, Nat.add_mul]

theorem found_nil : found [] = 0 := rfl

/-- per bind group: the inline entries account for exactly `sz g` bytes and lie inside them -/
def InlInv (gs : List Group) (sz : Nat → Nat) : Prop :=
  ∀ g, found (bindingsAt gs g) = sz g ∧ ∀ e ∈ bindingsAt gs g, ∀ o, e.loc = .inline o → o + 8 ≤ sz g

theorem sliceCost_not_metal (k : Option ObjKind) : sliceCost false k = 1 := by
  simp [sliceCost]

/-- what one `process_definition` does to the inline byte counter -/
theorem step_inline {p : Params} (hp : ParamsOk p) {dflt : Nat} {st st1 : State} {d : Decl} {ob : Option Binding}
    (h : step p dflt st d = .ok (st1, ob)) :
    (∃ g, ob = some ⟨g, .inline (st.inline.get g), none⟩ ∧
        st1.inline.get = fun s => if s = g then st.inline.get g + 8 else st.inline.get s) ∨
    ((∀ b, ob = some b → ∃ i, b.loc = .index i) ∧ st1.inline.get = st.inline.get) := by
  cases d with
  | other =>
    simp only [step, Except.ok.injEq, Prod.mk.injEq] at h
    obtain ⟨rfl, rfl⟩ := h
    exact Or.inr ⟨(by intro b hb; cases hb), rfl⟩
  | cbuffer s =>
    simp only [step, Counter.bump, Except.ok.injEq, Prod.mk.injEq] at h
    obtain ⟨rfl, rfl⟩ := h
    exact Or.inr ⟨(by intro b hb; cases hb; exact ⟨_, rfl⟩), rfl⟩
  | global s ss k len =>
    simp only [step] at h
    split at h
    · simp only [Except.ok.injEq, Prod.mk.injEq] at h
      obtain ⟨rfl, rfl⟩ := h
      exact Or.inr ⟨(by intro b hb; cases hb), rfl⟩
    · split at h
      · simp only [Except.ok.injEq, Prod.mk.injEq] at h
        obtain ⟨rfl, rfl⟩ := h
        exact Or.inr ⟨(by intro b hb; cases hb), rfl⟩
      · rename_i k'
        -- `registerType k'`: a non-resource object kind is left alone
        split at h
        · simp only [Except.ok.injEq, Prod.mk.injEq] at h
          obtain ⟨rfl, rfl⟩ := h
          exact Or.inr ⟨(by intro b hb; cases hb), rfl⟩
        · split at h
          · rename_i hc
            simp only [Bool.and_eq_true] at hc
            obtain ⟨⟨hsba, _⟩, hlen⟩ := hc
            have hm : p.metalSlotLayout = false := hp hsba
            have hl : len = none := by cases len <;> simp_all
            simp only [Counter.bump, Except.ok.injEq, Prod.mk.injEq] at h
            obtain ⟨rfl, rfl⟩ := h
            refine Or.inl ⟨s.getD dflt, rfl, ?_⟩
            funext x
            simp [slotCount, hl, hm, sliceCost_not_metal]
          · simp only [Counter.bump, Except.ok.injEq, Prod.mk.injEq] at h
            obtain ⟨rfl, rfl⟩ := h
            exact Or.inr ⟨(by intro b hb; cases hb; exact ⟨_, rfl⟩), rfl⟩

theorem step_other_none {p : Params} {dflt : Nat} {st st1 : State} {ob : Option Binding}
    (h : step p dflt st .other = .ok (st1, ob)) : ob = none := by
  simp only [step, Except.ok.injEq, Prod.mk.injEq] at h
  exact h.2.symm

/-- registering one more entry in group `g` -/
theorem inlInv_addAt_inline {gs : List Group} {sz : Nat → Nat} (hi : InlInv gs sz) (g : Nat) (e : Entry)
    (he : e.loc = .inline (sz g)) :
    InlInv (addAt g e gs) (fun s => if s = g then sz g + 8 else sz s) := by
  intro m
  rw [bindingsAt_addAt]
  obtain ⟨h1, h2⟩ := hi m
  by_cases hm : m = g
  · subst hm
    simp only [if_true]
    refine ⟨?_, ?_⟩
    · rw [found_append, h1]; simp [found, he]
    · intro e' he' o ho
      rcases List.mem_append.1 he' with hx | hx
      · have := h2 e' hx o ho; omega
      · simp only [List.mem_singleton] at hx
        subst hx
        rw [he] at ho
        cases ho
        omega
  · simp only [hm, if_false, List.append_nil]
    exact ⟨h1, h2⟩

theorem inlInv_addAt_index {gs : List Group} {sz : Nat → Nat} (hi : InlInv gs sz) (g : Nat) (e : Entry) {i : Nat}
    (he : e.loc = .index i) : InlInv (addAt g e gs) sz := by
  intro m
  rw [bindingsAt_addAt]
  obtain ⟨h1, h2⟩ := hi m
  by_cases hm : m = g
  · subst hm
    simp only [if_true]
    refine ⟨?_, ?_⟩
    · rw [found_append, h1]; simp [found, he]
    · intro e' he' o ho
      rcases List.mem_append.1 he' with hx | hx
      · exact h2 e' hx o ho
      · simp only [List.mem_singleton] at hx
        subst hx
        rw [he] at ho
        cases ho
  · simp only [hm, if_false, List.append_nil]
    exact ⟨h1, h2⟩

/-- allocator and metadata registration side by side -/
theorem run_events_inv {p : Params} (hp : ParamsOk p) {dflt : Nat} :
    ∀ (ds : List MDecl) (st st' : State) (bs : List (Option Binding)) (i : Nat) (evs : List (Nat × Entry))
      (gs0 : List Group),
      run p dflt st (ds.map MDecl.toSlot) = .ok (st', bs) →
      events (fun _ => hlslEvent) i ds bs = .ok evs →
      InlInv gs0 st.inline.get → InlInv (registerAll evs gs0) st'.inline.get := by
  intro ds
  induction ds with
  | nil =>
    intro st st' bs i evs gs0 hrun hev hinv
    simp only [List.map_nil, run, Except.ok.injEq, Prod.mk.injEq] at hrun
    obtain ⟨rfl, rfl⟩ := hrun
    simp only [events, Except.ok.injEq] at hev
    subst hev
    simpa [registerAll] using hinv
  | cons d ds ih =>
    intro st st' bs i evs gs0 hrun hev hinv
    simp only [List.map_cons] at hrun
    unfold run at hrun
    split at hrun
    · cases hrun
    · rename_i st1 ob hstep
      split at hrun
      · cases hrun
      · rename_i st2 bs' hrest
        simp only [Except.ok.injEq, Prod.mk.injEq] at hrun
        obtain ⟨rfl, rfl⟩ := hrun
        unfold events at hev
        split at hev
        · cases hev
        · rename_i o ho
          split at hev
          · cases hev
          · rename_i r hr
            simp only [Except.ok.injEq] at hev
            obtain ⟨hnone, hsome⟩ := hlslEvent_ok d ob o ho
            cases ob with
            | none =>
              have : o = none := hnone rfl
              subst this
              simp only at hev
              subst hev
              rcases step_inline hp hstep with ⟨g, hg, _⟩ | ⟨_, hsz⟩
              · cases hg
              · exact ih st1 st2 bs' (i + 1) r gs0 hrest hr (by rw [hsz]; exact hinv)
            | some b =>
              have hd : d ≠ .other := by
                intro hd
                subst hd
                have := step_other_none hstep
                cases this
              obtain ⟨e, rfl, _, hloc⟩ := hsome b rfl hd
              simp only at hev
              subst hev
              simp only [registerAll]
              rcases step_inline hp hstep with ⟨g, hg, hsz⟩ | ⟨hidx, hsz⟩
              · simp only [Option.some.injEq] at hg
                subst hg
                apply ih st1 st2 bs' (i + 1) r _ hrest hr
                rw [hsz]
                exact inlInv_addAt_inline hinv _ e (by simpa using hloc)
              · obtain ⟨k, hk⟩ := hidx b rfl
                apply ih st1 st2 bs' (i + 1) r _ hrest hr
                rw [hsz]
                exact inlInv_addAt_index hinv _ e (by rw [hloc, hk])

theorem inlInv_nil : InlInv [] State.init.inline.get := by
  intro g
  simp [bindingsAt_nil, found_nil, State.init, Counter.empty]

/-- `events` succeeds when every single call does -/
theorem events_total :
    ∀ (ds : List MDecl), (∀ d ∈ ds, ∀ ob, ∃ o, hlslEvent d ob = .ok o) →
      ∀ (bs : List (Option Binding)) (i : Nat), ∃ evs, events (fun _ => hlslEvent) i ds bs = .ok evs := by
  intro ds
  induction ds with
  | nil => intro _ bs i; exact ⟨[], by simp [events]⟩
  | cons d ds ih =>
    intro h bs i
    cases bs with
    | nil => exact ⟨[], by simp [events]⟩
    | cons b bs =>
      obtain ⟨o, ho⟩ := h d (List.mem_cons_self ..) b
      obtain ⟨r, hr⟩ := ih (fun x hx => h x (List.mem_cons_of_mem _ hx)) bs (i + 1)
      cases o with
      | none => exact ⟨r, by simp [events, ho, hr]⟩
      | some x => exact ⟨x :: r, by simp [events, ho, hr]⟩

/-- the inline constant loop over buffers with pairwise different groups -/
theorem setInlines_total : ∀ (bufs : List InlineBuf) (gs : List Group) (sz : Nat → Nat),
    InlInv gs sz → bufs.Pairwise (fun a b => a.set < b.set) →
    (∀ b ∈ bufs, b.sizeInBytes = sz b.set ∧ 0 < b.sizeInBytes) →
    (∀ b ∈ bufs, ∀ grp, gs[b.set]? = some grp → grp.inlineConstants = none) →
    ∃ gs', setInlines gs bufs = .ok gs' := by
  intro bufs
  induction bufs with
  | nil => intro gs _ _ _ _ _; exact ⟨gs, rfl⟩
  | cons b bs ih =>
    intro gs sz hinv hpw hsize hnone
    rw [List.pairwise_cons] at hpw
    obtain ⟨hsz, hpos⟩ := hsize b (List.mem_cons_self ..)
    obtain ⟨hf, hoff⟩ := hinv b.set
    -- the group exists: it holds at least one inline entry
    cases hget : gs[b.set]? with
    | none =>
      exfalso
      have : bindingsAt gs b.set = [] := by simp [bindingsAt, hget]
      rw [this, found_nil] at hf
      omega
    | some grp =>
      have hb : bindingsAt gs b.set = grp.bindings := by simp [bindingsAt, hget]
      have hic : grp.inlineConstants = none := hnone b (List.mem_cons_self ..) grp hget
      have hstep : setInline gs b = .ok (gs.set b.set { grp with inlineConstants := some (b.apiLocation, b.sizeInBytes) }) := by
        simp only [setInline, hget]
        split
        · rename_i hc
          exfalso
          rw [List.any_eq_true] at hc
          obtain ⟨e, he, hce⟩ := hc
          cases hl : e.loc with
          | index i => simp [hl] at hce
          | inline o =>
            have := hoff e (by rw [hb]; exact he) o hl
            simp [hl] at hce
            omega
        · split
          · rename_i hc
            exfalso
            apply hc
            rw [inlineFound_eq, ← hb, hf, hsz]
          · split
            · rename_i hc
              simp [hic] at hc
            · rfl
      have hinv' : InlInv (gs.set b.set { grp with inlineConstants := some (b.apiLocation, b.sizeInBytes) }) sz := by
        intro g
        rw [bindingsAt_setInline hstep g]
        exact hinv g
      obtain ⟨gs', hgs'⟩ := ih _ sz hinv' hpw.2
        (fun x hx => hsize x (List.mem_cons_of_mem _ hx))
        (by
          intro x hx grp' hg'
          have hne : b.set ≠ x.set := Nat.ne_of_lt (hpw.1 x hx)
          rw [List.getElem?_set_ne hne] at hg'
          exact hnone x (List.mem_cons_of_mem _ hx) grp' hg')
      exact ⟨gs', by simp [setInlines, hstep, hgs']⟩

/-- no group of a freshly registered metadata vector has an inline constant block yet -/
theorem addAt_noIC (n : Nat) (e : Entry) : ∀ (gs : List Group), (∀ g ∈ gs, g.inlineConstants = none) →
    ∀ g ∈ addAt n e gs, g.inlineConstants = none := by
  induction n with
  | zero =>
    intro gs h g hg
    cases gs with
    | nil => simp [addAt] at hg; subst hg; rfl
    | cons x xs =>
      simp only [addAt, List.mem_cons] at hg
      rcases hg with rfl | hg
      · exact h x (List.mem_cons_self ..)
      · exact h g (List.mem_cons_of_mem _ hg)
  | succ n ih =>
    intro gs h g hg
    cases gs with
    | nil =>
      simp only [addAt, List.mem_cons] at hg
      rcases hg with rfl | hg
      · rfl
      · exact ih [] (by intro x hx; cases hx) g hg
    | cons x xs =>
      simp only [addAt, List.mem_cons] at hg
      rcases hg with rfl | hg
      · exact h _ (List.mem_cons_self ..)
      · exact ih xs (fun y hy => h y (List.mem_cons_of_mem _ hy)) g hg

theorem registerAll_noIC : ∀ (evs : List (Nat × Entry)) (gs : List Group), (∀ g ∈ gs, g.inlineConstants = none) →
    ∀ g ∈ registerAll evs gs, g.inlineConstants = none := by
  intro evs
  induction evs with
  | nil => intro gs h; simpa [registerAll] using h
  | cons x r ih =>
    intro gs h
    obtain ⟨n, e⟩ := x
    simp only [registerAll]
    exact ih _ (addAt_noIC n e gs h)

/-! ## Metal: metadata, or the clean refusal of a bind group without argument buffer -/

theorem length_addAt (n : Nat) (e : Entry) : ∀ (gs : List Group), (addAt n e gs).length = max gs.length (n + 1) := by
  induction n with
  | zero => intro gs; cases gs <;> simp [addAt] <;> omega
  | succ n ih =>
    intro gs
    cases gs with
    | nil => have := ih []; simp [addAt, this]
    | cons g gs => have := ih gs; simp [addAt, this] <;> omega

theorem length_registerAll_le {L : Nat} : ∀ (evs : List (Nat × Entry)) (gs : List Group),
    (∀ x ∈ evs, x.1 < L) → gs.length ≤ L → (registerAll evs gs).length ≤ L := by
  intro evs
  induction evs with
  | nil => intro gs _ h; simpa [registerAll] using h
  | cons x r ih =>
    intro gs hx hl
    obtain ⟨n, e⟩ := x
    simp only [registerAll]
    apply ih _ (fun y hy => hx y (List.mem_cons_of_mem _ hy))
    rw [length_addAt]
    have := hx (n, e) (List.mem_cons_self ..)
    simp only at this
    omega

/-- one call of msl `analyse_bindings`: an entry in a group that has an argument buffer, nothing, or the refusal -/
theorem mslEvent_cases (u : Bool) (d : MDecl) (ob : Option Binding)
    (hdesc : ∀ n s ss k arr bl st, d = .global n s ss (some k) arr bl st → (mslDescType k).isSome)
    (hcb : (mslDescType .ConstantBuffer).isSome) :
    (∃ o, mslEvent u d ob = .ok o ∧ ∀ g e, o = some (g, e) → g < argumentBufferNames.length) ∨
    mslEvent u d ob = .error "UnsupportedBindGroupIndex" := by
  cases d with
  | other => exact Or.inl ⟨none, rfl, by intro g e h; cases h⟩
  | cbuffer n s =>
    cases ob with
    | none => exact Or.inl ⟨none, rfl, by intro g e h; cases h⟩
    | some b =>
      cases hk : mslDescType .ConstantBuffer with
      | none => simp [hk] at hcb
      | some dt =>
        by_cases hg : b.set ≥ argumentBufferNames.length
        · exact Or.inr (by simp [mslEvent, hk, hg])
        · refine Or.inl ⟨some (b.set, { name := n, loc := b.loc, descType := dt, count := some 1, bindless := false,
                                            used := u, staticSampler := false }),
            by simp only [mslEvent, hk, if_neg hg], ?_⟩
          intro g e h
          simp only [Option.some.injEq, Prod.mk.injEq] at h
          omega
  | global n s ss k arr bl st =>
    have hdo : ∃ dt, descOf mslDescType mslNonObjectDescType k = .ok dt := by
      cases k with
      | none => exact ⟨_, rfl⟩
      | some k =>
        have := hdesc n s ss k arr bl st rfl
        cases hk : mslDescType k with
        | none => simp [hk] at this
        | some dt => exact ⟨dt, by simp [descOf, hk]⟩
    obtain ⟨dt, hdt⟩ := hdo
    cases ob with
    | none => exact Or.inl ⟨none, by simp [mslEvent, hdt], by intro g e h; cases h⟩
    | some b =>
      by_cases hg : b.set ≥ argumentBufferNames.length
      · exact Or.inr (by simp [mslEvent, hdt, hg])
      · refine Or.inl ⟨some (b.set, { name := n, loc := b.loc, descType := dt, count := countOf arr, bindless := bl,
                                          used := u, staticSampler := false }),
          by simp only [mslEvent, hdt, if_neg hg], ?_⟩
        intro g e h
        simp only [Option.some.injEq, Prod.mk.injEq] at h
        omega

theorem events_msl_cases (usedAt : Nat → Bool) (hcb : (mslDescType .ConstantBuffer).isSome) :
    ∀ (ds : List MDecl), (∀ n s ss k arr bl st, MDecl.global n s ss (some k) arr bl st ∈ ds → (mslDescType k).isSome) →
      ∀ (bs : List (Option Binding)) (i : Nat),
        (∃ evs, events (fun i => mslEvent (usedAt i)) i ds bs = .ok evs ∧ ∀ x ∈ evs, x.1 < argumentBufferNames.length) ∨
        events (fun i => mslEvent (usedAt i)) i ds bs = .error "UnsupportedBindGroupIndex" := by
  intro ds
  induction ds with
  | nil => intro _ bs i; exact Or.inl ⟨[], by simp [events], by intro x hx; cases hx⟩
  | cons d ds ih =>
    intro h bs i
    cases bs with
    | nil => exact Or.inl ⟨[], by simp [events], by intro x hx; cases hx⟩
    | cons b bs =>
      have hd := mslEvent_cases (usedAt i) d b
        (by intro n s ss k arr bl st e; subst e; exact h n s ss k arr bl st (List.mem_cons_self ..)) hcb
      rcases hd with ⟨o, ho, hlt⟩ | herr
      · rcases ih (fun n s ss k arr bl st hm => h n s ss k arr bl st (List.mem_cons_of_mem _ hm)) bs (i + 1) with
          ⟨r, hr, hrl⟩ | herr
        · cases o with
          | none => exact Or.inl ⟨r, by simp [events, ho, hr], hrl⟩
          | some x =>
            refine Or.inl ⟨x :: r, by simp [events, ho, hr], ?_⟩
            intro y hy
            rcases List.mem_cons.1 hy with rfl | hy
            · exact hlt y.1 y.2 rfl
            · exact hrl y hy
        · exact Or.inr (by simp [events, ho, herr])
      · exact Or.inr (by simp [events, herr])

/-! ## without any assumption on the declared kinds: the only failures are the clean refusals -/

theorem descOf_cases (tbl : ObjKind → Option DescT) (nonObj : DescT) (k : Option ObjKind) :
    (∃ dt, descOf tbl nonObj k = .ok dt) ∨ descOf tbl nonObj k = .error "UnsupportedObjectType" := by
  cases k with
  | none => exact Or.inl ⟨_, rfl⟩
  | some k =>
    cases hk : tbl k with
    | none => exact Or.inr (by simp [descOf, hk])
    | some dt => exact Or.inl ⟨dt, by simp [descOf, hk]⟩

/-- one call of hlsl `analyse_bindings` returns, or refuses the kind -/
theorem hlslEvent_cases (d : MDecl) (ob : Option Binding) :
    (∃ o, hlslEvent d ob = .ok o) ∨ hlslEvent d ob = .error "UnsupportedObjectType" := by
  cases d with
  | other => exact Or.inl ⟨none, rfl⟩
  | cbuffer n s => cases ob <;> exact Or.inl ⟨_, rfl⟩
  | global n s ss k arr bl st =>
    rcases descOf_cases hlslDescType hlslNonObjectDescType k with ⟨dt, hdt⟩ | herr
    · cases ob with
      | none => exact Or.inl ⟨none, by simp [hlslEvent, hdt]⟩
      | some b =>
        exact Or.inl ⟨some (b.set, { name := n, loc := b.loc, descType := dt, count := countOf arr, bindless := bl,
                                      used := true, staticSampler := ss }), by simp [hlslEvent, hdt]⟩
    · exact Or.inr (by simp [hlslEvent, herr])

theorem events_hlsl_cases : ∀ (ds : List MDecl) (bs : List (Option Binding)) (i : Nat),
    (∃ evs, events (fun _ => hlslEvent) i ds bs = .ok evs) ∨
    events (fun _ => hlslEvent) i ds bs = .error "UnsupportedObjectType" := by
  intro ds
  induction ds with
  | nil => intro bs i; exact Or.inl ⟨[], by simp [events]⟩
  | cons d ds ih =>
    intro bs i
    cases bs with
    | nil => exact Or.inl ⟨[], by simp [events]⟩
    | cons b bs =>
      rcases hlslEvent_cases d b with ⟨o, ho⟩ | herr
      · rcases ih bs (i + 1) with ⟨r, hr⟩ | herr
        · cases o with
          | none => exact Or.inl ⟨r, by simp [events, ho, hr]⟩
          | some x => exact Or.inl ⟨x :: r, by simp [events, ho, hr]⟩
        · exact Or.inr (by simp [events, ho, herr])
      · exact Or.inr (by simp [events, herr])

/-- one call of msl `analyse_bindings`, any kind: an entry in a group that has an argument buffer, nothing, or one
    of the two refusals -/
theorem mslEvent_cases_any (u : Bool) (d : MDecl) (ob : Option Binding) :
    (∃ o, mslEvent u d ob = .ok o ∧ ∀ g e, o = some (g, e) → g < argumentBufferNames.length) ∨
    mslEvent u d ob = .error "UnsupportedBindGroupIndex" ∨ mslEvent u d ob = .error "UnsupportedObjectType" := by
  cases d with
  | other => exact Or.inl ⟨none, rfl, by intro g e h; cases h⟩
  | cbuffer n s =>
    cases ob with
    | none => exact Or.inl ⟨none, rfl, by intro g e h; cases h⟩
    | some b =>
      cases hk : mslDescType .ConstantBuffer with
      | none => exact Or.inr (Or.inr (by simp [mslEvent, hk]))
      | some dt =>
        by_cases hg : b.set ≥ argumentBufferNames.length
        · exact Or.inr (Or.inl (by simp [mslEvent, hk, hg]))
        · refine Or.inl ⟨some (b.set, { name := n, loc := b.loc, descType := dt, count := some 1, bindless := false,
                                            used := u, staticSampler := false }),
            by simp only [mslEvent, hk, if_neg hg], ?_⟩
          intro g e h
          simp only [Option.some.injEq, Prod.mk.injEq] at h
          omega
  | global n s ss k arr bl st =>
    rcases descOf_cases mslDescType mslNonObjectDescType k with ⟨dt, hdt⟩ | herr
    · cases ob with
      | none => exact Or.inl ⟨none, by simp [mslEvent, hdt], by intro g e h; cases h⟩
      | some b =>
        by_cases hg : b.set ≥ argumentBufferNames.length
        · exact Or.inr (Or.inl (by simp [mslEvent, hdt, hg]))
        · refine Or.inl ⟨some (b.set, { name := n, loc := b.loc, descType := dt, count := countOf arr, bindless := bl,
                                            used := u, staticSampler := false }),
            by simp only [mslEvent, hdt, if_neg hg], ?_⟩
          intro g e h
          simp only [Option.some.injEq, Prod.mk.injEq] at h
          omega
    · exact Or.inr (Or.inr (by simp [mslEvent, herr]))

theorem events_msl_cases_any (usedAt : Nat → Bool) :
    ∀ (ds : List MDecl) (bs : List (Option Binding)) (i : Nat),
      (∃ evs, events (fun i => mslEvent (usedAt i)) i ds bs = .ok evs ∧ ∀ x ∈ evs, x.1 < argumentBufferNames.length) ∨
      events (fun i => mslEvent (usedAt i)) i ds bs = .error "UnsupportedBindGroupIndex" ∨
      events (fun i => mslEvent (usedAt i)) i ds bs = .error "UnsupportedObjectType" := by
  intro ds
  induction ds with
  | nil => intro bs i; exact Or.inl ⟨[], by simp [events], by intro x hx; cases hx⟩
  | cons d ds ih =>
    intro bs i
    cases bs with
    | nil => exact Or.inl ⟨[], by simp [events], by intro x hx; cases hx⟩
    | cons b bs =>
      rcases mslEvent_cases_any (usedAt i) d b with ⟨o, ho, hlt⟩ | herr | herr
      · rcases ih bs (i + 1) with ⟨r, hr, hrl⟩ | herr | herr
        · cases o with
          | none => exact Or.inl ⟨r, by simp [events, ho, hr], hrl⟩
          | some x =>
            refine Or.inl ⟨x :: r, by simp [events, ho, hr], ?_⟩
            intro y hy
            rcases List.mem_cons.1 hy with rfl | hy
            · exact hlt y.1 y.2 rfl
            · exact hrl y hy
        · exact Or.inr (Or.inl (by simp [events, ho, herr]))
        · exact Or.inr (Or.inr (by simp [events, ho, herr]))
      · exact Or.inr (Or.inl (by simp [events, herr]))
      · exact Or.inr (Or.inr (by simp [events, herr]))

/-! ## Metal: the arguments of the entry functions (`UnboundGlobal`) -/

theorem run_length {p : Params} {dflt : Nat} : ∀ {ds : List Decl} {st st' : State} {bs : List (Option Binding)},
    run p dflt st ds = .ok (st', bs) → bs.length = ds.length := by
  intro ds
  induction ds with
  | nil => intro st st' bs h; simp [run] at h; obtain ⟨_, rfl⟩ := h; rfl
  | cons d ds ih =>
    intro st st' bs h
    unfold run at h
    split at h
    · cases h
    · split at h
      · cases h
      · rename_i hrun
        cases h
        simp [ih hrun]

theorem assign_length {p : Params} {dflt : Nat} {ds : List Decl} {res : Result} (h : assign p dflt ds = .ok res) :
    res.bindings.length = ds.length := by
  unfold assign at h
  split at h
  · cases h
  · rename_i hrun
    cases h
    exact run_length hrun

/-- no stage argument without a place in an argument buffer: every required extern global has an api slot -/
theorem mslUnbound_false (usedAt : Nat → Bool) : ∀ (ds : List MDecl) (bs : List (Option Binding)) (i0 : Nat),
    bs.length = ds.length → mslUnbound usedAt i0 ds bs = false →
    ∀ j d, ds[j]? = some d → usedAt (i0 + j) = true → isStageArgument d = true → ∃ b, bs[j]? = some (some b) := by
  intro ds
  induction ds with
  | nil => intro bs i0 _ _ j d hd; simp at hd
  | cons x xs ih =>
    intro bs i0 hl h j d hd hu ha
    cases bs with
    | nil => simp at hl
    | cons b bs =>
      simp only [mslUnbound, Bool.or_eq_false_iff] at h
      cases j with
      | zero =>
        simp only [List.getElem?_cons_zero, Option.some.injEq] at hd
        subst hd
        simp only [Nat.add_zero] at hu
        cases b with
        | none => simp [hu, ha] at h
        | some b => exact ⟨b, rfl⟩
      | succ j =>
        simp only [List.getElem?_cons_succ] at hd ⊢
        exact ih bs (i0 + 1) (by simpa using hl) h.2 j d hd (by rw [← hu]; congr 1; omega) ha

/-- and conversely: `UnboundGlobal` names a required stage argument without api slot -/
theorem mslUnbound_true (usedAt : Nat → Bool) : ∀ (ds : List MDecl) (bs : List (Option Binding)) (i0 : Nat),
    mslUnbound usedAt i0 ds bs = true →
    ∃ j d, ds[j]? = some d ∧ usedAt (i0 + j) = true ∧ isStageArgument d = true ∧ bs[j]? = some none := by
  intro ds
  induction ds with
  | nil => intro bs i0 h; simp [mslUnbound] at h
  | cons x xs ih =>
    intro bs i0 h
    cases bs with
    | nil => simp [mslUnbound] at h
    | cons b bs =>
      simp only [mslUnbound, Bool.or_eq_true, Bool.and_eq_true] at h
      rcases h with ⟨⟨hu, ha⟩, hb⟩ | h
      · refine ⟨0, x, rfl, by simpa using hu, ha, ?_⟩
        cases b <;> simp_all
      · obtain ⟨j, d, hd, hu, ha, hb⟩ := ih bs (i0 + 1) h
        exact ⟨j + 1, d, by simpa using hd, by rw [← hu]; congr 1; omega, ha, by simpa using hb⟩

end RsslVerif.Lemmas.MetaTotal

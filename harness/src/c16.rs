//! C16: overload resolution is order-independent and prefers exact matches.
//!
//! request : C16.resolve \t cand;cand;...  \t arg,arg,...
//!             cand  = <id>:<non_default>:<param>,<param>,...      (declaration order = order in the request)
//!             param = <in|out|inout>/<mods>/<layer>
//!             arg   = <L|R>/<mods>/<layer>
//!             mods  = `-` or letters c(onst) v(olatile) r(ow_major) k(column_major) u(norm) n(snorm)
//!             layer = s.<Scalar> | v.<Scalar>.<n> | m.<Scalar>.<x>.<y> | e.<id> | o.<id>
//!           run as a generated RSSL program: every candidate returns its own struct `R<id>`, the call is
//!           `assert_type<R..>(f(args))`; the verdict is read off acceptance / the diagnostic.
//! observe : sel <id> | amb <id,id,..> (ascending) | none | panic
//! oracle  : (independent of the Lean model) the verdict is the same under every permutation of the declaration order;
//!           a unique exactly-matching viable candidate is selected (several: all reported ambiguous);
//!           the selected candidate is not dominated by another viable one, ranks taken from the real
//!           `ImplicitConversion::find(..).get_rank()`.
//!
//! request : C16.conv \t <src arg> \t <dst arg> <dst arg> ...
//! observe : per destination  err | <NumericRank|panic>/<VectorRank|panic>><target type | panic>   (space separated)
//!           straight from `rssl_typer::verif::ImplicitConversion::{find, get_rank, get_target_type}`.
use crate::util::*;
use rssl::ir;
use rssl::ir::ScalarType;
use rssl::typer::verif::ImplicitConversion;
use std::collections::HashMap;

// ------------------------------------------------------------------------------------------- types

#[derive(Clone, Copy, PartialEq, Eq, Hash, PartialOrd, Ord, Debug)]
pub enum Layer {
    Scalar(u8),
    Vector(u8, u32),
    Matrix(u8, u32, u32),
    Enum(u32),
    Other(u32),
}

const SCALARS: &[(ScalarType, &str, &str)] = &[
    (ScalarType::Bool, "Bool", "bool"),
    (ScalarType::IntLiteral, "IntLiteral", ""),
    (ScalarType::Int32, "Int32", "int"),
    (ScalarType::UInt32, "UInt32", "uint"),
    (ScalarType::FloatLiteral, "FloatLiteral", ""),
    (ScalarType::Float16, "Float16", "half"),
    (ScalarType::Float32, "Float32", "float"),
    (ScalarType::Float64, "Float64", "double"),
];
const S_BOOL: u8 = 0;
const S_INTLIT: u8 = 1;
const S_FLOATLIT: u8 = 4;
/// the property's grid: bool,int,uint,half,float,double
const GRID_SCALARS: &[u8] = &[0, 2, 3, 5, 6, 7];

#[derive(Clone, Copy, PartialEq, Eq, Hash, PartialOrd, Ord, Debug, Default)]
pub struct Mods(u8); // bit 0 c, 1 v, 2 r, 3 k, 4 u, 5 n
const MOD_LETTERS: &[u8] = b"cvrkun";

#[derive(Clone, Copy, PartialEq, Eq, Hash, PartialOrd, Ord, Debug)]
pub struct Ty {
    mods: Mods,
    layer: Layer,
}

#[derive(Clone, Copy, PartialEq, Eq, Hash, PartialOrd, Ord, Debug)]
pub struct ETy {
    lvalue: bool,
    ty: Ty,
}

#[derive(Clone, Copy, PartialEq, Eq, Hash, PartialOrd, Ord, Debug)]
pub enum Io {
    In,
    Out,
    InOut,
}

#[derive(Clone, Copy, PartialEq, Eq, Hash, PartialOrd, Ord, Debug)]
pub struct Param {
    io: Io,
    ty: Ty,
}

#[derive(Clone, PartialEq, Eq, Hash, PartialOrd, Ord, Debug)]
pub struct Cand {
    id: u32,
    non_default: usize,
    params: Vec<Param>,
}

fn show_mods(m: Mods) -> String {
    if m.0 == 0 {
        return "-".into();
    }
    let mut s = String::new();
    for (i, c) in MOD_LETTERS.iter().enumerate() {
        if m.0 & (1 << i) != 0 {
            s.push(*c as char);
        }
    }
    s
}

fn parse_mods(s: &str) -> Option<Mods> {
    if s == "-" {
        return Some(Mods(0));
    }
    let mut m = 0u8;
    for c in s.bytes() {
        let i = MOD_LETTERS.iter().position(|x| *x == c)?;
        m |= 1 << i;
    }
    Some(Mods(m))
}

fn show_layer(l: Layer) -> String {
    match l {
        Layer::Scalar(s) => format!("s.{}", SCALARS[s as usize].1),
        Layer::Vector(s, n) => format!("v.{}.{}", SCALARS[s as usize].1, n),
        Layer::Matrix(s, x, y) => format!("m.{}.{}.{}", SCALARS[s as usize].1, x, y),
        Layer::Enum(i) => format!("e.{}", i),
        Layer::Other(i) => format!("o.{}", i),
    }
}

fn parse_scalar(s: &str) -> Option<u8> {
    SCALARS.iter().position(|x| x.1 == s).map(|i| i as u8)
}

fn parse_layer(s: &str) -> Option<Layer> {
    let p: Vec<&str> = s.split('.').collect();
    match p.as_slice() {
        ["s", s] => Some(Layer::Scalar(parse_scalar(s)?)),
        ["v", s, n] => Some(Layer::Vector(parse_scalar(s)?, n.parse().ok()?)),
        ["m", s, x, y] => Some(Layer::Matrix(parse_scalar(s)?, x.parse().ok()?, y.parse().ok()?)),
        ["e", i] => Some(Layer::Enum(i.parse().ok()?)),
        ["o", i] => Some(Layer::Other(i.parse().ok()?)),
        _ => None,
    }
}

fn show_ty(t: Ty) -> String {
    format!("{}/{}", show_mods(t.mods), show_layer(t.layer))
}

fn show_ety(e: ETy) -> String {
    format!("{}/{}", if e.lvalue { "L" } else { "R" }, show_ty(e.ty))
}

fn parse_ety(s: &str) -> Option<ETy> {
    let p: Vec<&str> = s.split('/').collect();
    if p.len() != 3 {
        return None;
    }
    let lvalue = match p[0] {
        "L" => true,
        "R" => false,
        _ => return None,
    };
    Some(ETy { lvalue, ty: Ty { mods: parse_mods(p[1])?, layer: parse_layer(p[2])? } })
}

fn show_param(p: Param) -> String {
    let io = match p.io {
        Io::In => "in",
        Io::Out => "out",
        Io::InOut => "inout",
    };
    format!("{}/{}", io, show_ty(p.ty))
}

fn parse_param(s: &str) -> Option<Param> {
    let p: Vec<&str> = s.split('/').collect();
    if p.len() != 3 {
        return None;
    }
    let io = match p[0] {
        "in" => Io::In,
        "out" => Io::Out,
        "inout" => Io::InOut,
        _ => return None,
    };
    Some(Param { io, ty: Ty { mods: parse_mods(p[1])?, layer: parse_layer(p[2])? } })
}

fn show_cand(c: &Cand) -> String {
    let ps: Vec<String> = c.params.iter().map(|p| show_param(*p)).collect();
    format!("{}:{}:{}", c.id, c.non_default, ps.join(","))
}

fn parse_cand(s: &str) -> Option<Cand> {
    let p: Vec<&str> = s.splitn(3, ':').collect();
    if p.len() != 3 {
        return None;
    }
    let params: Option<Vec<Param>> = if p[2].is_empty() {
        Some(Vec::new())
    } else {
        p[2].split(',').map(parse_param).collect()
    };
    Some(Cand { id: p[0].parse().ok()?, non_default: p[1].parse().ok()?, params: params? })
}

fn show_cands(cs: &[Cand]) -> String {
    cs.iter().map(show_cand).collect::<Vec<_>>().join(";")
}

fn show_args(a: &[ETy]) -> String {
    a.iter().map(|e| show_ety(*e)).collect::<Vec<_>>().join(",")
}

// ------------------------------------------------------------------------------------------- real types

struct Real {
    module: ir::Module,
}

impl Real {
    fn new() -> Self {
        Real { module: ir::Module::create() }
    }

    fn ty(&mut self, t: Ty) -> ir::TypeId {
        let reg = &self.module.type_registry;
        let sid = |s: u8| reg.register_type(ir::TypeLayer::Scalar(SCALARS[s as usize].0));
        let base = match t.layer {
            Layer::Scalar(s) => sid(s),
            Layer::Vector(s, n) => {
                let i = sid(s);
                reg.register_type(ir::TypeLayer::Vector(i, n))
            }
            Layer::Matrix(s, x, y) => {
                let i = sid(s);
                reg.register_type(ir::TypeLayer::Matrix(i, x, y))
            }
            Layer::Enum(i) => reg.register_type(ir::TypeLayer::Enum(ir::EnumId(i))),
            Layer::Other(i) => reg.register_type(ir::TypeLayer::Struct(ir::StructId(i))),
        };
        if t.mods.0 == 0 {
            base
        } else {
            let m = ir::TypeModifier {
                is_const: t.mods.0 & 1 != 0,
                volatile: t.mods.0 & 2 != 0,
                row_major: t.mods.0 & 4 != 0,
                column_major: t.mods.0 & 8 != 0,
                unorm: t.mods.0 & 16 != 0,
                snorm: t.mods.0 & 32 != 0,
            };
            reg.register_type(ir::TypeLayer::Modifier(m, base))
        }
    }

    fn ety(&mut self, e: ETy) -> ir::ExpressionType {
        let id = self.ty(e.ty);
        if e.lvalue { id.to_lvalue() } else { id.to_rvalue() }
    }

    /// back from a real type id to the protocol's description
    fn describe(&self, id: ir::TypeId) -> Option<Ty> {
        let reg = &self.module.type_registry;
        let (base, m) = reg.extract_modifier(id);
        let mut bits = 0u8;
        for (i, b) in [m.is_const, m.volatile, m.row_major, m.column_major, m.unorm, m.snorm].iter().enumerate() {
            if *b {
                bits |= 1 << i;
            }
        }
        let sc = |s: ScalarType| SCALARS.iter().position(|x| x.0 == s).map(|i| i as u8);
        let inner = |i: ir::TypeId| match reg.get_type_layer(i) {
            ir::TypeLayer::Scalar(s) => sc(s),
            _ => None,
        };
        let layer = match reg.get_type_layer(base) {
            ir::TypeLayer::Scalar(s) => Layer::Scalar(sc(s)?),
            ir::TypeLayer::Vector(i, n) => Layer::Vector(inner(i)?, n),
            ir::TypeLayer::Matrix(i, x, y) => Layer::Matrix(inner(i)?, x, y),
            ir::TypeLayer::Enum(e) => Layer::Enum(e.0),
            ir::TypeLayer::Struct(s) => Layer::Other(s.0),
            _ => return None,
        };
        Some(Ty { mods: Mods(bits), layer })
    }

    /// `find` + `get_rank`: Ok(None) = no conversion, Ok(Some((num, vec))) = Debug names, Err = panic
    fn rank(&mut self, src: ETy, dst: ETy) -> Result<Option<(String, String)>, String> {
        let s = self.ety(src);
        let d = self.ety(dst);
        let module = &mut self.module;
        guard(move || match ImplicitConversion::find(s, d, module) {
            Err(()) => None,
            Ok(c) => {
                let r = c.get_rank();
                Some((format!("{:?}", r.get_numeric_rank()), format!("{:?}", r.get_vector_rank())))
            }
        })
    }

    fn conv_cell(&mut self, src: ETy, dst: ETy) -> String {
        let s = self.ety(src);
        let d = self.ety(dst);
        let found = {
            let module = &mut self.module;
            guard(move || ImplicitConversion::find(s, d, module))
        };
        let conv = match found {
            Err(_) => return "panic".into(),
            Ok(Err(())) => return "err".into(),
            Ok(Ok(c)) => c,
        };
        let rank = {
            let c = conv.clone();
            match guard(move || {
                let r = c.get_rank();
                format!("{:?}/{:?}", r.get_numeric_rank(), r.get_vector_rank())
            }) {
                Ok(s) => s,
                Err(_) => "panic/panic".into(),
            }
        };
        let target = {
            let module = &mut self.module;
            let c = conv.clone();
            guard(move || c.get_target_type(module))
        };
        let target = match target {
            Err(_) => "panic".to_string(),
            Ok(ir::ExpressionType(id, vt)) => match self.describe(id) {
                Some(t) => show_ety(ETy { lvalue: vt == ir::ValueType::Lvalue, ty: t }),
                None => "?".into(),
            },
        };
        format!("{}>{}", rank, target)
    }
}

// ------------------------------------------------------------------------------------------- programs

fn spell(t: Ty) -> Option<String> {
    let sc = |s: u8| {
        let n = SCALARS[s as usize].2;
        if n.is_empty() { None } else { Some(n) }
    };
    let base = match t.layer {
        Layer::Scalar(s) => sc(s)?.to_string(),
        Layer::Vector(s, n) if (1..=4).contains(&n) => format!("{}{}", sc(s)?, n),
        Layer::Matrix(s, x, y) if (1..=4).contains(&x) && (1..=4).contains(&y) => format!("{}{}x{}", sc(s)?, x, y),
        Layer::Enum(i) => format!("E{}", i),
        Layer::Other(i) => format!("S{}", i),
        _ => return None,
    };
    match t.mods.0 {
        0 => Some(base),
        1 => Some(format!("const {}", base)),
        _ => None,
    }
}

fn is_numeric(l: Layer) -> bool {
    matches!(l, Layer::Scalar(_) | Layer::Vector(..) | Layer::Matrix(..))
}

/// RSSL program for one declaration order; None = not expressible (SKIP)
fn program(cands: &[Cand], args: &[ETy], with_defs: bool) -> Option<String> {
    let mut s = String::new();
    let mut others: Vec<u32> = Vec::new();
    let mut enums: Vec<u32> = Vec::new();
    let mut note = |l: Layer| match l {
        Layer::Other(i) if !others.contains(&i) => others.push(i),
        Layer::Enum(i) if !enums.contains(&i) => enums.push(i),
        _ => {}
    };
    for c in cands {
        for p in &c.params {
            note(p.ty.layer);
        }
    }
    for a in args {
        note(a.ty.layer);
    }
    others.sort();
    enums.sort();
    for i in &others {
        s.push_str(&format!("struct S{} {{ int q; }};\n", i));
    }
    for i in &enums {
        s.push_str(&format!("enum E{} {{ E{}_A }};\n", i, i));
    }
    let mut ids: Vec<u32> = cands.iter().map(|c| c.id).collect();
    ids.sort();
    for w in ids.windows(2) {
        if w[0] == w[1] {
            return None;
        }
    }
    for id in &ids {
        s.push_str(&format!("struct R{} {{ int q; }};\n", id));
    }
    // argument expressions
    let mut locals = String::new();
    let mut exprs = Vec::new();
    for (i, a) in args.iter().enumerate() {
        match (a.lvalue, a.ty.mods.0, a.ty.layer) {
            (false, 0, Layer::Scalar(S_INTLIT)) => exprs.push("0".to_string()),
            (false, 0, Layer::Scalar(S_FLOATLIT)) => exprs.push("0.0".to_string()),
            (false, 0, _) => {
                let t = spell(a.ty)?;
                s.push_str(&format!("{} rv{}();\n", t, i));
                exprs.push(format!("rv{}()", i));
            }
            (true, 0, _) => {
                let t = spell(a.ty)?;
                locals.push_str(&format!("    {} a{};\n", t, i));
                exprs.push(format!("a{}", i));
            }
            (true, 1, l) if is_numeric(l) => {
                let t = spell(Ty { mods: Mods(0), layer: l })?;
                locals.push_str(&format!("    const {} a{} = ({})0;\n", t, i, t));
                exprs.push(format!("a{}", i));
            }
            _ => return None,
        }
    }
    let mut defs: Vec<String> = Vec::new();
    for c in cands {
        if c.non_default > c.params.len() {
            return None;
        }
        let mut ps = Vec::new();
        for (i, p) in c.params.iter().enumerate() {
            if p.ty.mods.0 != 0 {
                return None;
            }
            let t = spell(p.ty)?;
            let io = match p.io {
                Io::In => "",
                Io::Out => "out ",
                Io::InOut => "inout ",
            };
            let mut d = format!("{}{} p{}", io, t, i);
            if i >= c.non_default {
                if p.io != Io::In || !is_numeric(p.ty.layer) {
                    return None;
                }
                d.push_str(&format!(" = ({})0", t));
            }
            ps.push(d);
        }
        s.push_str(&format!("R{} f({});\n", c.id, ps.join(", ")));
        defs.push(format!("R{} f({}) {{ R{} r; return r; }}\n", c.id, ps.join(", "), c.id));
    }
    if with_defs {
        // every candidate is declared above and *defined* here in the reverse order: a definition must attach to
        // its declaration (scopes.rs check_existing_functions_in_scope) and neither duplicate nor reorder the set
        for d in defs.iter().rev() {
            s.push_str(d);
        }
    }
    s.push_str("void main() {\n");
    s.push_str(&locals);
    s.push_str(&format!("    assert_type<R{}>(f({}));\n}}\n", ids[0], exprs.join(", ")));
    Some(s)
}

#[derive(Clone, PartialEq, Eq, Debug)]
enum Verdict {
    Sel(u32),
    Amb(Vec<u32>),
    Unmatched,
    Panic(String),
    Other(String),
}

fn show_verdict(v: &Verdict) -> String {
    match v {
        Verdict::Sel(i) => format!("sel {}", i),
        Verdict::Amb(ids) => format!("amb {}", ids.iter().map(|i| i.to_string()).collect::<Vec<_>>().join(",")),
        Verdict::Unmatched => "none".into(),
        Verdict::Panic(_) => "panic".into(),
        Verdict::Other(e) => format!("error:{}", e),
    }
}

fn num_after(text: &str, pat: &str) -> Vec<u32> {
    let mut out = Vec::new();
    let mut rest = text;
    while let Some(i) = rest.find(pat) {
        rest = &rest[i + pat.len()..];
        let digits: String = rest.chars().take_while(|c| c.is_ascii_digit()).collect();
        if let Ok(n) = digits.parse() {
            out.push(n);
        }
    }
    out
}

fn run_program(src: &str, first_id: u32) -> Verdict {
    match guard(|| front_end_src(src)) {
        Err(p) => Verdict::Panic(p),
        Ok(Ok(_)) => Verdict::Sel(first_id),
        Ok(Err(e)) => {
            let text = e.text().to_string();
            let first = text.lines().next().unwrap_or("").to_string();
            if e.stage() != "type" {
                return Verdict::Other(format!("{}:{}", e.stage(), first));
            }
            if first.contains("error: expected type 'R") {
                match num_after(&first, "but received type 'R").first() {
                    Some(n) => Verdict::Sel(*n),
                    None => Verdict::Other(first),
                }
            } else if first.contains("error: ambiguous call to f(") {
                let mut ids = num_after(&text, "note: candidate function: R");
                ids.sort();
                Verdict::Amb(ids)
            } else if first.contains("error: no matching function for call to f(") {
                Verdict::Unmatched
            } else {
                Verdict::Other(first)
            }
        }
    }
}

// ------------------------------------------------------------------------------------------- oracle

fn num_order(name: &str) -> Option<u32> {
    // the property's reading of "better": the priority list at the top of casting.rs
    ["Exact", "Promotion", "PromotionTwice", "IntToBool", "Conversion", "EnumToNumeric"]
        .iter()
        .position(|x| *x == name)
        .map(|i| i as u32)
}

fn vec_order(name: &str) -> Option<u32> {
    ["Exact", "Expand", "Contract"].iter().position(|x| *x == name).map(|i| i as u32)
}

struct Judged {
    /// per viable candidate: id and per-argument (numeric, vector) order
    viable: Vec<(u32, Vec<(u32, u32)>)>,
    exact: Vec<u32>,
    panic: Option<String>,
}

fn grid_layer(l: Layer, literal_ok: bool) -> bool {
    match l {
        Layer::Scalar(s) => GRID_SCALARS.contains(&s) || (literal_ok && (s == S_INTLIT || s == S_FLOATLIT)),
        Layer::Vector(s, n) => GRID_SCALARS.contains(&s) && (2..=4).contains(&n),
        _ => false,
    }
}

fn param_ety(p: Param) -> ETy {
    ETy { lvalue: p.io != Io::In, ty: p.ty }
}

fn judge_set(real: &mut Real, cands: &[Cand], args: &[ETy]) -> Judged {
    let mut j = Judged { viable: Vec::new(), exact: Vec::new(), panic: None };
    // "prefers exact matches" is judged on the property's quantifier only: parameter types on the grid
    // {bool,int,uint,half,float,double} x {scalar,2,3,4}, arguments on the grid or untyped literals.
    // (Outside it, e.g. with 1-vectors, `int` -> `int1` is ranked as exact as `int` -> `int`; see notes/C16.md.)
    let on_grid = cands.iter().all(|c| c.params.iter().all(|p| grid_layer(p.ty.layer, false)))
        && args.iter().all(|a| grid_layer(a.ty.layer, true));
    for c in cands {
        if !(args.len() <= c.params.len() && args.len() >= c.non_default) {
            continue;
        }
        let mut ranks = Vec::new();
        let mut ok = true;
        for (p, a) in c.params.iter().zip(args) {
            match real.rank(*a, param_ety(*p)) {
                Err(pn) => {
                    j.panic = Some(pn);
                    ok = false;
                    break;
                }
                Ok(None) => {
                    ok = false;
                    break;
                }
                Ok(Some((n, v))) => match (num_order(&n), vec_order(&v)) {
                    (Some(n), Some(v)) => ranks.push((n, v)),
                    _ => {
                        j.panic = Some(format!("unknown rank {}/{}", n, v));
                        ok = false;
                        break;
                    }
                },
            }
        }
        if !ok {
            continue;
        }
        // exact: every passed argument's type equals the type of its parameter (the value category and
        // const-ness of the argument expression are not part of its type; trailing defaulted parameters that
        // receive no argument take no part in the comparison, as in C++)
        if on_grid && c.params.iter().zip(args).all(|(p, a)| p.ty.layer == a.ty.layer) {
            j.exact.push(c.id);
        }
        j.viable.push((c.id, ranks));
    }
    j
}

/// the property's own checks on one verdict; Ok or the failure detail
fn oracle(j: &Judged, v: &Verdict) -> Result<(), String> {
    if let Verdict::Panic(p) = v {
        return Err(format!("panic {}", p));
    }
    if let Some(p) = &j.panic {
        return Err(format!("panic {}", p));
    }
    if let Verdict::Other(e) = v {
        return Err(format!("unexpected diagnostic: {}", e));
    }
    match v {
        Verdict::Sel(id) => {
            let Some((_, mine)) = j.viable.iter().find(|(i, _)| i == id) else {
                return Err(format!("selected candidate {} is not viable (an argument has no implicit conversion)", id));
            };
            if !j.exact.is_empty() && !j.exact.contains(id) {
                return Err(format!("candidate {:?} matches exactly but {} was selected", j.exact, id));
            }
            for (d, theirs) in &j.viable {
                if d == id {
                    continue;
                }
                let no_worse = theirs.iter().zip(mine).all(|(t, m)| t <= m);
                let better = theirs.iter().zip(mine).any(|(t, m)| t < m);
                if no_worse && better {
                    return Err(format!("selected candidate {} is dominated by viable candidate {}", id, d));
                }
            }
        }
        Verdict::Amb(ids) => {
            if j.exact.len() == 1 {
                return Err(format!("candidate {} matches exactly but the call is ambiguous {:?}", j.exact[0], ids));
            }
            for e in &j.exact {
                if !ids.contains(e) {
                    return Err(format!("exact candidates {:?} but ambiguity reported between {:?}", j.exact, ids));
                }
            }
            for i in ids {
                if !j.viable.iter().any(|(v, _)| v == i) {
                    return Err(format!("ambiguity names candidate {} which is not viable", i));
                }
            }
        }
        Verdict::Unmatched => {
            if !j.exact.is_empty() {
                return Err(format!("candidate {:?} matches exactly but the call is unmatched", j.exact));
            }
        }
        _ => {}
    }
    Ok(())
}

// ------------------------------------------------------------------------------------------- running

fn permutations(n: usize) -> Vec<Vec<usize>> {
    fn rec(cur: &mut Vec<usize>, used: &mut Vec<bool>, n: usize, out: &mut Vec<Vec<usize>>) {
        if cur.len() == n {
            out.push(cur.clone());
            return;
        }
        for i in 0..n {
            if !used[i] {
                used[i] = true;
                cur.push(i);
                rec(cur, used, n, out);
                cur.pop();
                used[i] = false;
            }
        }
    }
    let mut out = Vec::new();
    rec(&mut Vec::new(), &mut vec![false; n], n, &mut out);
    out
}

struct Group {
    /// verdict per declaration order (key = the ids in order)
    verdicts: Vec<(Vec<u32>, Verdict)>,
    judged: Judged,
    expressible: bool,
}

struct Runner {
    real: Real,
    cache: HashMap<String, Group>,
    hist: Hist,
    compiles: u64,
}

impl Runner {
    fn new() -> Self {
        Runner { real: Real::new(), cache: HashMap::new(), hist: Hist::default(), compiles: 0 }
    }

    /// run every permutation of the candidate set (capped for sets larger than 5)
    fn group(&mut self, sorted: &[Cand], args: &[ETy], with_defs: bool) -> &Group {
        let key = format!("{}\t{}\t{}", show_cands(sorted), show_args(args), with_defs);
        if !self.cache.contains_key(&key) {
            let judged = judge_set(&mut self.real, sorted, args);
            let mut verdicts = Vec::new();
            let mut expressible = true;
            let perms = if sorted.len() <= 5 { permutations(sorted.len()) } else { vec![(0..sorted.len()).collect(), (0..sorted.len()).rev().collect()] };
            for p in perms {
                let order: Vec<Cand> = p.iter().map(|i| sorted[*i].clone()).collect();
                let Some(src) = program(&order, args, with_defs) else {
                    expressible = false;
                    break;
                };
                self.compiles += 1;
                let first = sorted.iter().map(|c| c.id).min().unwrap_or(0);
                let v = run_program(&src, first);
                verdicts.push((order.iter().map(|c| c.id).collect(), v));
            }
            if self.cache.len() > 4096 {
                self.cache.clear();
            }
            self.cache.insert(key.clone(), Group { verdicts, judged, expressible });
        }
        &self.cache[&key]
    }

    /// one request (one declaration order); the oracle looks at the whole permutation group
    fn resolve_case(&mut self, cands: &[Cand], args: &[ETy], with_defs: bool, out: &mut Out) {
        let req = format!(
            "C16.resolve\t{}\t{}{}",
            show_cands(cands),
            show_args(args),
            if with_defs { "\tD" } else { "" }
        );
        let mut sorted = cands.to_vec();
        sorted.sort();
        let ids: Vec<u32> = cands.iter().map(|c| c.id).collect();
        let g = self.group(&sorted, args, with_defs);
        if !g.expressible || cands.is_empty() {
            out.case(&req, "-", "SKIP:not expressible as an RSSL program");
            return;
        }
        let Some((_, mine)) = g.verdicts.iter().find(|(o, _)| *o == ids) else {
            out.case(&req, "-", "SKIP:declaration order not part of the permutation group");
            return;
        };
        let mut verdict = oracle(&g.judged, mine);
        if verdict.is_ok() {
            // order independence: every other declaration order gives the same verdict
            // (a panic under any order is reported on every line of the group)
            for (o, v) in &g.verdicts {
                if let Verdict::Panic(p) = v {
                    verdict = Err(format!("panic {}", p));
                    break;
                }
                if show_verdict(v) != show_verdict(mine) {
                    verdict = Err(format!(
                        "order-dependent: declaration order {:?} gives `{}` but order {:?} gives `{}`",
                        ids,
                        show_verdict(mine),
                        o,
                        show_verdict(v)
                    ));
                    break;
                }
            }
        }
        let obs = show_verdict(mine);
        let kind = match mine {
            Verdict::Sel(_) => "verdict:selected",
            Verdict::Amb(_) => "verdict:ambiguous",
            Verdict::Unmatched => "verdict:unmatched",
            Verdict::Panic(_) => "verdict:panic",
            Verdict::Other(_) => "verdict:other-error",
        };
        let nviable = g.judged.viable.len();
        let nexact = g.judged.exact.len();
        let o = match verdict {
            Ok(()) => "ok".to_string(),
            Err(e) => format!("FAIL:{}", e),
        };
        out.case(&req, &obs, &o);
        self.hist.add(kind);
        self.hist.add(&format!("viable:{}", nviable));
        self.hist.add(&format!("exact:{}", nexact));
        self.hist.add(&format!("cands:{}", cands.len()));
        self.hist.add(&format!("args:{}", args.len()));
        for a in args {
            self.hist.add(match (a.lvalue, a.ty.mods.0, a.ty.layer) {
                (_, _, Layer::Scalar(S_INTLIT)) => "arg:int-literal",
                (_, _, Layer::Scalar(S_FLOATLIT)) => "arg:float-literal",
                (true, 0, _) => "arg:lvalue",
                (true, _, _) => "arg:const-lvalue",
                (false, _, _) => "arg:rvalue",
            });
        }
        for c in cands {
            for p in &c.params {
                self.hist.add(match p.io {
                    Io::In => "param:in",
                    Io::Out => "param:out",
                    Io::InOut => "param:inout",
                });
            }
            if c.non_default < c.params.len() {
                self.hist.add("cand:has-default");
            }
        }
    }

    fn all_orders(&mut self, sorted: &[Cand], args: &[ETy], with_defs: bool, out: &mut Out) {
        for p in permutations(sorted.len()) {
            let order: Vec<Cand> = p.iter().map(|i| sorted[*i].clone()).collect();
            self.resolve_case(&order, args, with_defs, out);
        }
    }

    fn conv_row(&mut self, src: ETy, dsts: &[ETy], out: &mut Out) {
        let req = format!(
            "C16.conv\t{}\t{}",
            show_ety(src),
            dsts.iter().map(|d| show_ety(*d)).collect::<Vec<_>>().join(" ")
        );
        let cells: Vec<String> = dsts.iter().map(|d| self.real.conv_cell(src, *d)).collect();
        // property-level sanity on the table: converting a type to itself (same value category) is the identity
        let mut verdict = "ok".to_string();
        for (d, c) in dsts.iter().zip(&cells) {
            if *d == src && !c.starts_with("Exact/Exact>") {
                verdict = format!("FAIL:identity conversion of {} is `{}`", show_ety(src), c);
            }
            self.hist.add(if c == "err" {
                "conv:err"
            } else if c.contains("panic") {
                "conv:panic"
            } else {
                "conv:ok"
            });
        }
        out.case(&req, &cells.join(" "), &verdict);
    }
}

// ------------------------------------------------------------------------------------------- generators

fn grid_ty(rng: &mut Rng) -> Ty {
    let s = *rng.pick(GRID_SCALARS);
    let layer = match rng.below(4) {
        0 => Layer::Scalar(s),
        n => Layer::Vector(s, n as u32 + 1),
    };
    Ty { mods: Mods(0), layer }
}

fn scalar_of(l: Layer) -> u8 {
    match l {
        Layer::Scalar(s) | Layer::Vector(s, _) | Layer::Matrix(s, _, _) => s,
        _ => S_BOOL,
    }
}

fn with_scalar(l: Layer, s: u8) -> Layer {
    match l {
        Layer::Scalar(_) => Layer::Scalar(s),
        Layer::Vector(_, n) => Layer::Vector(s, n),
        Layer::Matrix(_, x, y) => Layer::Matrix(s, x, y),
        o => o,
    }
}

/// a parameter type related to the centre type: same, other scalar kind, other dimension, or unrelated
fn related_ty(rng: &mut Rng, centre: Ty) -> Ty {
    match rng.below(8) {
        0 | 1 => centre,
        2..=4 => Ty { mods: Mods(0), layer: with_scalar(centre.layer, *rng.pick(GRID_SCALARS)) },
        5 | 6 => {
            let s = scalar_of(centre.layer);
            let layer = match rng.below(4) {
                0 => Layer::Scalar(s),
                n => Layer::Vector(s, n as u32 + 1),
            };
            Ty { mods: Mods(0), layer }
        }
        _ => grid_ty(rng),
    }
}

fn random_io(rng: &mut Rng) -> Io {
    match rng.below(20) {
        0..=14 => Io::In,
        15..=18 => Io::Out,
        _ => Io::InOut,
    }
}

/// types outside the property's grid: 1-vectors, matrices, structs, enums (order independence and domination are
/// still judged there; "exact match" is not, see `judge_set`)
fn off_grid_ty(rng: &mut Rng) -> Ty {
    let s = *rng.pick(GRID_SCALARS);
    let layer = match rng.below(12) {
        0..=3 => Layer::Vector(s, 1),
        4 => Layer::Matrix(s, 2, 2),
        5 => Layer::Matrix(s, 3, 2),
        6..=8 => Layer::Other(rng.below(2) as u32),
        _ => Layer::Enum(rng.below(2) as u32),
    };
    Ty { mods: Mods(0), layer }
}

fn random_set(rng: &mut Rng, hist: &mut Hist) -> (Vec<Cand>, Vec<Ty>) {
    let k = match rng.below(20) {
        0..=5 => 2,
        6..=12 => 3,
        13..=17 => 4,
        _ => 5,
    };
    let arity = rng.range(1, 3) as usize;
    let off_grid = rng.chance(1, 8);
    if off_grid {
        hist.add("set:off-grid");
    }
    let centre: Vec<Ty> = (0..arity)
        .map(|_| if off_grid && rng.chance(1, 2) { off_grid_ty(rng) } else { grid_ty(rng) })
        .collect();
    let mut cands: Vec<Cand> = Vec::new();
    let mut tries = 0;
    while cands.len() < k && tries < 200 {
        tries += 1;
        let mut params: Vec<Param> = centre
            .iter()
            .map(|c| Param {
                io: random_io(rng),
                ty: if off_grid && rng.chance(1, 3) { off_grid_ty(rng) } else { related_ty(rng, *c) },
            })
            .collect();
        let mut non_default = arity;
        if arity < 3 && rng.chance(1, 8) {
            // one more, defaulted, parameter
            params.push(Param { io: Io::In, ty: grid_ty(rng) });
        } else if arity > 1 && rng.chance(1, 12) && params[arity - 1].io == Io::In {
            non_default = arity - 1;
        }
        // an overload set may not contain two candidates with the same parameter list
        if cands.iter().any(|c| c.params == params) {
            continue;
        }
        cands.push(Cand { id: cands.len() as u32, non_default, params });
    }
    hist.add(&format!("set:k{}", cands.len()));
    hist.add(&format!("set:arity{}", arity));
    (cands, centre)
}

fn random_arg(rng: &mut Rng, centre: Ty) -> ETy {
    match rng.below(16) {
        0 | 1 => ETy { lvalue: false, ty: Ty { mods: Mods(0), layer: Layer::Scalar(S_INTLIT) } },
        2 => ETy { lvalue: false, ty: Ty { mods: Mods(0), layer: Layer::Scalar(S_FLOATLIT) } },
        3 => {
            let l = related_ty(rng, centre).layer;
            // a const local needs an initialiser, which the generator only writes for numeric types
            ETy { lvalue: true, ty: Ty { mods: Mods(if is_numeric(l) { 1 } else { 0 }), layer: l } }
        }
        n => ETy { lvalue: n % 2 == 0, ty: related_ty(rng, centre) },
    }
}

fn grid_types() -> Vec<Ty> {
    let mut v = Vec::new();
    for s in GRID_SCALARS {
        v.push(Ty { mods: Mods(0), layer: Layer::Scalar(*s) });
        for n in 2..=4 {
            v.push(Ty { mods: Mods(0), layer: Layer::Vector(*s, n) });
        }
    }
    v
}

/// the universe of the exhaustive find/get_rank table
fn conv_universe(thorough: bool) -> Vec<ETy> {
    let mut layers = Vec::new();
    for s in 0..SCALARS.len() as u8 {
        layers.push(Layer::Scalar(s));
        for n in 1..=4 {
            layers.push(Layer::Vector(s, n));
        }
        layers.push(Layer::Matrix(s, 2, 2));
        layers.push(Layer::Matrix(s, 3, 2));
        if thorough {
            layers.push(Layer::Matrix(s, 1, 1));
            layers.push(Layer::Matrix(s, 4, 4));
        }
    }
    layers.push(Layer::Enum(0));
    layers.push(Layer::Enum(1));
    layers.push(Layer::Other(0));
    layers.push(Layer::Other(1));
    let mods: &[u8] = if thorough { &[0, 1, 2, 3, 4, 5] } else { &[0, 1, 2] };
    let mut v = Vec::new();
    for l in layers {
        for m in mods {
            for lv in [true, false] {
                v.push(ETy { lvalue: lv, ty: Ty { mods: Mods(*m), layer: l } });
            }
        }
    }
    v
}

pub fn run(args: &Args, out: &mut Out) {
    if args.extra.first().map(|s| s.as_str()) == Some("--probe") {
        // debugging aid: type check `----`-separated programs from a file and print the front end's answer
        let src = std::fs::read_to_string(&args.extra[1]).unwrap_or_default();
        for chunk in src.split("\n----\n") {
            match guard(|| front_end_src(chunk)) {
                Ok(Ok(_)) => println!("OK"),
                Ok(Err(e)) => println!("ERR {}: {}", e.stage(), e.text()),
                Err(p) => println!("PANIC {}", p),
            }
        }
        return;
    }
    let mut r = Runner::new();
    if let Some(lines) = args.request_lines() {
        for line in lines {
            let f: Vec<&str> = line.split('\t').collect();
            match f.as_slice() {
                ["C16.resolve", cs, az] | ["C16.resolve", cs, az, _] => {
                    let with_defs = f.len() == 4 && f[3] == "D";
                    let cands: Option<Vec<Cand>> = if cs.is_empty() { Some(vec![]) } else { cs.split(';').map(parse_cand).collect() };
                    let az: Option<Vec<ETy>> = if az.is_empty() { Some(vec![]) } else { az.split(',').map(parse_ety).collect() };
                    match (cands, az) {
                        (Some(c), Some(a)) => r.resolve_case(&c, &a, with_defs, out),
                        _ => out.case(&line, "-", "SKIP:bad request"),
                    }
                }
                ["C16.conv", src, dsts] => {
                    let s = parse_ety(src);
                    let d: Option<Vec<ETy>> = dsts.split(' ').map(parse_ety).collect();
                    match (s, d) {
                        (Some(s), Some(d)) => r.conv_row(s, &d, out),
                        _ => out.case(&line, "-", "SKIP:bad request"),
                    }
                }
                _ => {}
            }
        }
        out.stat(&format!("{{\"mode\":\"replay\",\"compiles\":{},\"hist\":{}}}", r.compiles, r.hist.json()));
        return;
    }
    let mut rng = Rng::new(args.seed);
    let mut hist = Hist::default();

    // (1) exhaustive find/get_rank/get_target_type table over the type universe
    let uni = conv_universe(args.thorough());
    for s in &uni {
        r.conv_row(*s, &uni, out);
    }

    // (2) pairs of one-parameter candidates over the property's grid x {in,out}: both orders, every grid argument type
    //     as lvalue and rvalue plus the two untyped literals (quick: a seeded slice of the pairs)
    let grid = grid_types();
    let mut params = Vec::new();
    for t in &grid {
        params.push(Param { io: Io::In, ty: *t });
        params.push(Param { io: Io::Out, ty: *t });
    }
    let mut arg_list: Vec<ETy> = Vec::new();
    for t in &grid {
        arg_list.push(ETy { lvalue: true, ty: *t });
        arg_list.push(ETy { lvalue: false, ty: *t });
    }
    arg_list.push(ETy { lvalue: false, ty: Ty { mods: Mods(0), layer: Layer::Scalar(S_INTLIT) } });
    arg_list.push(ETy { lvalue: false, ty: Ty { mods: Mods(0), layer: Layer::Scalar(S_FLOATLIT) } });
    let mut pairs = 0u64;
    for i in 0..params.len() {
        for j in i + 1..params.len() {
            if !args.thorough() && rng.below(16) != 0 {
                continue;
            }
            pairs += 1;
            let set = vec![
                Cand { id: 0, non_default: 1, params: vec![params[i]] },
                Cand { id: 1, non_default: 1, params: vec![params[j]] },
            ];
            for a in &arg_list {
                r.all_orders(&set, &[*a], false, out);
            }
        }
    }

    // (3) random candidate sets of 2-5 overloads with 1-3 parameters: every permutation x several argument tuples
    let n = args.n.unwrap_or(if args.thorough() { 5000 } else { 600 });
    let tuples = if args.thorough() { 6 } else { 4 };
    for _ in 0..n {
        let (cands, centre) = random_set(&mut rng, &mut hist);
        let with_defs = rng.chance(1, 4);
        if with_defs {
            hist.add("set:declared-then-defined");
        }
        for t in 0..tuples {
            let a: Vec<ETy> = if t == 0 {
                centre.iter().map(|c| ETy { lvalue: true, ty: *c }).collect()
            } else {
                centre.iter().map(|c| random_arg(&mut rng, *c)).collect()
            };
            // sometimes pass one argument more / fewer (default parameters, arity mismatch)
            let a = if t > 1 && rng.chance(1, 10) && a.len() > 1 {
                a[..a.len() - 1].to_vec()
            } else if t > 1 && rng.chance(1, 10) && a.len() < 3 {
                let mut b = a.clone();
                let g = grid_ty(&mut rng);
                b.push(random_arg(&mut rng, g));
                b
            } else {
                a
            };
            r.all_orders(&cands, &a, with_defs, out);
        }
    }
    for (k, v) in &hist.0 {
        for _ in 0..*v {
            r.hist.add(k);
        }
    }
    out.stat(&format!(
        "{{\"conv_universe\":{},\"conv_pairs\":{},\"single_param_pairs\":{},\"random_sets\":{},\"tuples_per_set\":{},\"compiles\":{},\"hist\":{}}}",
        uni.len(),
        uni.len() * uni.len(),
        pairs,
        n,
        tuples,
        r.compiles,
        r.hist.json()
    ));
}

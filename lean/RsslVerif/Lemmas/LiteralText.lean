import RsslVerif.Thm.C10
/-! The text of integer literals: decimal digits of the value followed by the type suffix read back, through the
lexer model of property C10 (`literal_int`), as the literal token of the same value and type. -/
set_option linter.unusedSimpArgs false
set_option linter.unusedVariables false
namespace RsslVerif.Lemmas.LiteralText
open RsslVerif.Model.Lexer RsslVerif.Gen.LexTables RsslVerif.Spec
open RsslVerif.Thm.C10

/-- decimal digits of `n`, least significant first (`fuel > n`) -/
def decLS : Nat → Nat → List Nat
  | 0, _ => []
  | f + 1, n => if n < 10 then [n] else n % 10 :: decLS f (n / 10)

/-- decimal digits of `n`, most significant first, no leading zeros: what Rust's `Display` prints for an integer -/
def decMS (n : Nat) : List Nat := (decLS (n + 1) n).reverse

def valLS : List Nat → Nat
  | [] => 0
  | d :: r => d + 10 * valLS r

theorem valLS_decLS : ∀ f n, n < f → valLS (decLS f n) = n := by
  intro f
  induction f with
  | zero => intro n h; omega
  | succ f ih =>
    intro n h
    unfold decLS
    split
    · simp [valLS]
    · simp only [valLS]
      rw [ih (n / 10) (by omega)]
      omega

theorem decLS_lt : ∀ f n, ∀ d ∈ decLS f n, d < 10 := by
  intro f
  induction f with
  | zero => intro n d h; simp [decLS] at h
  | succ f ih =>
    intro n d h
    unfold decLS at h
    split at h
    · simp at h; omega
    · simp only [List.mem_cons] at h
      rcases h with rfl | h
      · omega
      · exact ih _ d h

theorem decLS_ne_nil : ∀ f n, 0 < f → decLS f n ≠ [] := by
  intro f n hf
  cases f with
  | zero => omega
  | succ f => unfold decLS; split <;> simp

/-- positional value, most significant digit first, is the least-significant-first value of the reversed list -/
theorem ofDigits_reverse (l : List Nat) : Dec2Bin.ofDigits 10 l.reverse = valLS l := by
  induction l with
  | nil => rfl
  | cons d r ih =>
    simp only [List.reverse_cons, Dec2Bin.ofDigits, List.foldl_append, List.foldl_cons, List.foldl_nil, valLS]
    have : List.foldl (fun a d => a * 10 + d) 0 r.reverse = valLS r := ih
    rw [this]; omega

/-- **the digits are the value** -/
theorem ofDigits_decMS (n : Nat) : Dec2Bin.ofDigits 10 (decMS n) = n := by
  unfold decMS
  rw [ofDigits_reverse, valLS_decLS _ _ (by omega)]

theorem decMS_lt (n : Nat) : ∀ d ∈ decMS n, d < 10 := by
  intro d h
  exact decLS_lt _ _ d (by simpa [decMS] using h)

theorem decMS_ne_nil (n : Nat) : decMS n ≠ [] := by
  unfold decMS
  simp [decLS_ne_nil (n + 1) n (by omega)]

theorem decDigit_digitByte (d : Nat) (h : d < 10) : decDigit? (digitByte d) = some d := by
  have h' : d = 0 ∨ d = 1 ∨ d = 2 ∨ d = 3 ∨ d = 4 ∨ d = 5 ∨ d = 6 ∨ d = 7 ∨ d = 8 ∨ d = 9 := by omega
  rcases h' with rfl | rfl | rfl | rfl | rfl | rfl | rfl | rfl | rfl | rfl <;> decide

/-- the byte after the literal is no decimal digit -/
def NotDigitHead : Bytes → Prop
  | [] => True
  | b :: _ => decDigit? b = none

theorem digitRun_digits (ds : List Nat) (hds : ∀ d ∈ ds, d < 10) (tail : Bytes) (ht : NotDigitHead tail) :
    digitRun decDigit? (ds.map digitByte ++ tail) = ds ∧ afterRun decDigit? (ds.map digitByte ++ tail) = tail := by
  induction ds with
  | nil =>
    cases tail with
    | nil => exact ⟨rfl, rfl⟩
    | cons b r => simp only [NotDigitHead] at ht; simp [digitRun, afterRun, ht]
  | cons d r ih =>
    have hd := decDigit_digitByte d (hds d List.mem_cons_self)
    have ih' := ih (fun x hx => hds x (List.mem_cons_of_mem _ hx))
    simp [digitRun, afterRun, hd, ih'.1, ih'.2]

/-! ## Suffix and dispatch -/

/-- bytes of the suffix `format_literal` prints for each integer literal kind: none, `u`, `ul`, `l` -/
def sfxBytes : Option IntType → Bytes
  | none => []
  | some .Unsigned32 => [117]
  | some .Unsigned64 => [117, 108]
  | some .Signed64 => [108]

/-- what follows the literal: no digit, none of `u U l L` (they would extend the suffix), no `x` (`0x…`) -/
def IntFollow : Bytes → Prop
  | [] => True
  | b :: _ => decDigit? b = none ∧ b.toNat ≠ 117 ∧ b.toNat ≠ 85 ∧ b.toNat ≠ 108 ∧ b.toNat ≠ 76 ∧ b.toNat ≠ 120

theorem intType_sfx (k : Option IntType) (tail : Bytes) (h : IntFollow tail) :
    opt (intType (sfxBytes k ++ tail)) (sfxBytes k ++ tail) = (tail, k) := by
  cases tail with
  | nil =>
    cases k with
    | none => rfl
    | some k => cases k <;> rfl
  | cons b r =>
    obtain ⟨_, h1, h2, h3, h4, _⟩ := h
    cases k with
    | none =>
      simp [sfxBytes, intType, intTypeFrom, intTypeTable, matchPrefix, opt, wrongChars, h1, h2, h3, h4]
    | some k =>
      cases k <;>
        simp [sfxBytes, intType, intTypeFrom, intTypeTable, matchPrefix, opt, wrongChars, h1, h2, h3, h4]

theorem decLS_last : ∀ f n, n < f → 0 < n → ∃ l d, decLS f n = l ++ [d] ∧ 0 < d := by
  intro f
  induction f with
  | zero => intro n h; omega
  | succ f ih =>
    intro n h hp
    unfold decLS
    split
    · exact ⟨[], n, rfl, hp⟩
    · obtain ⟨l, d, hl, hd⟩ := ih (n / 10) (by omega) (by omega)
      exact ⟨n % 10 :: l, d, by simp [hl], hd⟩

theorem decMS_head (v : Nat) (hv : 0 < v) : ∃ d ds, decMS v = d :: ds ∧ 0 < d ∧ d < 10 := by
  obtain ⟨l, d, hl, hd⟩ := decLS_last (v + 1) v (by omega) hv
  refine ⟨d, l.reverse, by simp [decMS, hl], hd, ?_⟩
  exact decMS_lt v d (by simp [decMS, hl])

theorem digitByte_pos (d : Nat) (h0 : 0 < d) (h : d < 10) : digitByte d ≠ 48 := by
  have h' : d = 1 ∨ d = 2 ∨ d = 3 ∨ d = 4 ∨ d = 5 ∨ d = 6 ∨ d = 7 ∨ d = 8 ∨ d = 9 := by omega
  rcases h' with rfl | rfl | rfl | rfl | rfl | rfl | rfl | rfl | rfl <;> decide

theorem notDigitHead_sfx (k : Option IntType) (tail : Bytes) (h : IntFollow tail) : NotDigitHead (sfxBytes k ++ tail) := by
  cases k with
  | none =>
    cases tail with
    | nil => trivial
    | cons b r => exact h.1
  | some k => cases k <;> (simp only [sfxBytes, List.cons_append, NotDigitHead]; decide)

/-- **The printed text of an integer literal lexes back to the literal.**  The decimal digits of `v` (most significant
first, no leading zeros), the suffix of its kind, then anything that does not continue the literal: `literal_int` (the
model of `preprocess/src/lexer.rs` of property C10) accepts exactly that text and yields the token `mkIntToken? v k`
— `LiteralInt(v)`, `LiteralIntUnsigned32(v)`, `LiteralIntUnsigned64(v)` or `LiteralIntSigned64(v)`. -/
theorem int_text_reads (v : Nat) (k : Option IntType) (tok : Token) (hv : v < 2 ^ 64) (hfit : mkIntToken? v k = some tok)
    (tail : Bytes) (hf : IntFollow tail) :
    literalInt ((decMS v).map digitByte ++ (sfxBytes k ++ tail)) = .ok (tail, tok) := by
  have hnd := notDigitHead_sfx k tail hf
  have hrun := digitRun_digits (decMS v) (decMS_lt v) (sfxBytes k ++ tail) hnd
  -- the decimal path
  have hdec : ∀ d ds, decMS v = d :: ds →
      literalIntWith decDigit? 10 ((decMS v).map digitByte ++ (sfxBytes k ++ tail)) = .ok (tail, tok) := by
    intro d ds hds
    have hd : decDigit? (digitByte d) = some d := decDigit_digitByte d (decMS_lt v d (by rw [hds]; exact List.mem_cons_self))
    have hform : (decMS v).map digitByte ++ (sfxBytes k ++ tail) = digitByte d :: (ds.map digitByte ++ (sfxBytes k ++ tail)) := by
      rw [hds]; rfl
    rw [hform, literalIntWith_closed IsRadix.dec (digitByte d) _ d hd, ← hform, hrun.1, hrun.2, ofDigits_decMS]
    simp only [hv, if_true, intType_sfx k tail hf, hfit]
  unfold literalInt
  by_cases h0 : v = 0
  · subst h0
    have hds : decMS 0 = [0] := by decide
    have hd := hdec 0 [] hds
    rw [hds] at hd ⊢
    simp only [List.map_cons, List.map_nil, List.cons_append, List.nil_append] at hd ⊢
    have hb : digitByte 0 = 48 := by decide
    rw [hb] at hd ⊢
    -- `0x`? no: the next byte is not `x`
    have hx : stripPrefix? [48, 120] (48 :: (sfxBytes k ++ tail)) = none := by
      cases k with
      | none =>
        cases tail with
        | nil => rfl
        | cons b r =>
          obtain ⟨_, _, _, _, _, h6⟩ := hf
          simp only [sfxBytes, List.nil_append, stripPrefix?, if_true]
          have : (120 : UInt8) ≠ b := by
            intro hb; apply h6; rw [← hb]; decide
          simp [this]
      | some k => cases k <;> rfl
    rw [hx]
    simp only [stripPrefix?, if_true]
    -- no octal digit follows
    have ho : ∀ x, digitWith octDigit? (sfxBytes k ++ tail) ≠ .ok x := by
      intro x hxx
      cases k with
      | none =>
        cases tail with
        | nil => simp [sfxBytes, digitWith, endOfStream] at hxx
        | cons b r =>
          have hb' : decDigit? b = none := hf.1
          have : octDigit? b = none := by
            unfold octDigit?; unfold decDigit? at hb'
            split at hb'
            · cases hb'
            · rename_i hn
              split
              · rename_i ho; exact absurd ⟨ho.1, by omega⟩ hn
              · rfl
          simp [sfxBytes, digitWith, this, wrongChars] at hxx
      | some k => cases k <;> simp [sfxBytes, digitWith, octDigit?, wrongChars] at hxx
    split
    · rename_i x hxx; exact absurd hxx (ho x)
    · exact hd
  · obtain ⟨d, ds, hds, hdp, hdl⟩ := decMS_head v (by omega)
    have hd := hdec d ds hds
    rw [hds] at hd ⊢
    simp only [List.map_cons, List.cons_append] at hd ⊢
    have hne : digitByte d ≠ 48 := digitByte_pos d hdp hdl
    have h1 : stripPrefix? [48, 120] (digitByte d :: (ds.map digitByte ++ (sfxBytes k ++ tail))) = none := by
      simp [stripPrefix?, Ne.symm hne]
    have h2 : stripPrefix? [48] (digitByte d :: (ds.map digitByte ++ (sfxBytes k ++ tail))) = none := by
      simp [stripPrefix?, Ne.symm hne]
    rw [h1, h2]
    exact hd

/-! ## The text Lean's `toString` (standing for Rust's `Display`) produces -/

theorem toDigitsCore_decLS : ∀ f n acc, Nat.toDigitsCore 10 f n acc =
    ((decLS f n).reverse.map Nat.digitChar) ++ acc := by
  intro f
  induction f with
  | zero => intro n acc; simp [Nat.toDigitsCore, decLS]
  | succ f ih =>
    intro n acc
    unfold Nat.toDigitsCore decLS
    simp only []
    by_cases h : n < 10
    · have : n / 10 = 0 := by omega
      simp [h, this, Nat.mod_eq_of_lt h]
    · have : n / 10 ≠ 0 := by omega
      simp [h, this, ih]

/-- `toString n` is the characters of `decMS n` -/
theorem repr_decMS (n : Nat) : toString n = String.ofList ((decMS n).map Nat.digitChar) := by
  show Nat.repr n = _
  unfold Nat.repr Nat.toDigits decMS
  rw [toDigitsCore_decLS]
  simp

theorem digitChar_byte (d : Nat) (h : d < 10) : UInt8.ofNat (Nat.digitChar d).toNat = digitByte d := by
  have h' : d = 0 ∨ d = 1 ∨ d = 2 ∨ d = 3 ∨ d = 4 ∨ d = 5 ∨ d = 6 ∨ d = 7 ∨ d = 8 ∨ d = 9 := by omega
  rcases h' with rfl | rfl | rfl | rfl | rfl | rfl | rfl | rfl | rfl | rfl <;> decide

/-- the bytes of the digit characters -/
theorem digitChars_bytes (n : Nat) :
    ((decMS n).map Nat.digitChar).map (fun c => UInt8.ofNat c.toNat) = (decMS n).map digitByte := by
  rw [List.map_map]
  apply List.map_congr_left
  intro d hd
  exact digitChar_byte d (decMS_lt n d hd)

end RsslVerif.Lemmas.LiteralText

import RsslVerif.Model.CondExpr
/-!
# Model of `ConditionChain` and of the gating in `preprocess_command` / `flush_normal`
# (preprocess/src/preprocess.rs)

A file is a list of logical lines (`Dir`).  The state is the `ConditionChain` stack (head = innermost
level = last element of the Rust `Vec`), the macro table and the text lines that reached the output.
The three-state transition table, the state pushed by `#if/#ifdef/#ifndef`, the per-command gating and
the three chain errors are the definitions re-extracted from the source (`Gen.CondTables`).

`step` is parametrised by the condition evaluator `cv` (`#if`/`#elif` value in a macro table, an error =
the line is rejected); the executable model uses `CondExpr.condValue`.
-/
namespace RsslVerif.Model.CondChain
open RsslVerif.Gen.CondTables RsslVerif.Model.CondExpr

/-- errors the modelled lines can raise (`PreprocessError` variants) -/
inductive Err where
  | chain (e : ChainErr)
  | cond (e : CondErr)
  | UnknownPragma
  | UnknownCommand
  | FailedToFindFile
  deriving DecidableEq, Repr, Inhabited

inductive PragmaKind where | once | warning | unknown
  deriving DecidableEq, Repr, Inhabited

/-- one logical line -/
inductive Dir where
  /-- `#if <tokens>` -/
  | ifc (c : List CTok)
  /-- `#ifdef NAME` (`neg = false`) / `#ifndef NAME` (`neg = true`) -/
  | ifdef (neg : Bool) (name : String)
  /-- `#elif <tokens>` -/
  | elif (c : List CTok)
  | els
  | endif
  /-- a line of ordinary text (its non-whitespace tokens) -/
  | text (toks : List CTok)
  /-- `#define NAME <body>` (object-like) -/
  | define (name : String) (body : List CTok)
  | undef (name : String)
  /-- `#pragma once | warning … | <anything else>` -/
  | pragma (k : PragmaKind)
  /-- `#include "file"` of a file that holds ordinary text only (`some lines`) or cannot be loaded (`none`) -/
  | incl (file : Option (List (List CTok)))
  /-- `#<unknown command name>` -/
  | unknown
  deriving DecidableEq, Repr, Inhabited

structure St where
  chain : List CS
  macros : Macros
  out : List (List CTok)
  deriving DecidableEq, Repr, Inhabited

/-- `ConditionChain::is_active` -/
def active (ch : List CS) : Bool := ch.all (· == activeState)

/-- command name of a directive line, as matched in `preprocess_command` -/
def Dir.command : Dir → Option String
  | .ifc _ => some "if"
  | .ifdef false _ => some "ifdef"
  | .ifdef true _ => some "ifndef"
  | .elif _ => some "elif"
  | .els => some "else"
  | .endif => some "endif"
  | .text _ => none
  | .define _ _ => some "define"
  | .undef _ => some "undef"
  | .pragma _ => some "pragma"
  | .incl _ => some "include"
  | .unknown => some "frobnicate"

/-- text that is flushed while active goes through `apply_macros(.., apply_defined = false, ..)` -/
def expandText (m : Macros) (toks : List CTok) : List CTok :=
  match subst m false toks with
  | .ok r => r
  | .error _ => toks

/-- what the command does when it is *not* skipped (or is not gated at all) -/
def exec (cv : Macros → List CTok → Except CondErr Bool) (s : St) : Dir → Except Err St
  | .ifc c =>
    match cv s.macros c with
    | .ok b => .ok { s with chain := pushState b :: s.chain }
    | .error e => .error (.cond e)
  | .ifdef neg n =>
    let ex := s.macros.isDefined n
    .ok { s with chain := pushState (if neg then !ex else ex) :: s.chain }
  | .elif c =>
    match cv s.macros c with
    | .error e => .error (.cond e)
    | .ok b =>
      match s.chain with
      | [] => .error (.chain switchEmptyErr)
      | top :: r => .ok { s with chain := top.switch b :: r }
  | .els =>
    match s.chain with
    | [] => .error (.chain switchEmptyErr)
    | top :: r => .ok { s with chain := top.switch elseSwitchArg :: r }
  | .endif =>
    match s.chain with
    | [] => .error (.chain popEmptyErr)
    | _ :: r => .ok { s with chain := r }
  | .text toks => .ok { s with out := s.out ++ [expandText s.macros toks] }
  | .define n body => .ok { s with macros := s.macros.define n body }
  | .undef n => .ok { s with macros := s.macros.undef n }
  | .pragma .unknown => .error .UnknownPragma
  | .pragma _ => .ok s
  | .incl none => .error .FailedToFindFile
  | .incl (some lines) => .ok { s with out := s.out ++ lines.map (expandText s.macros) }
  | .unknown => .error .UnknownCommand

/-- one line: `flush_normal` for text (kept iff active), `preprocess_command` for directives
    (`skip = !is_active()`, then the per-command gating of the source) -/
def step (cv : Macros → List CTok → Except CondErr Bool) (s : St) (d : Dir) : Except Err St :=
  match d.command with
  | none => if active s.chain then exec cv s d else .ok s
  | some cmd =>
    if active s.chain then exec cv s d
    else match gate cmd with
      | .skipNoEffect => .ok s
      | .skipPushes c => .ok { s with chain := c :: s.chain }
      | .notGated => exec cv s d

def run (cv : Macros → List CTok → Except CondErr Bool) (s : St) : List Dir → Except Err St
  | [] => .ok s
  | d :: ds =>
    match step cv s d with
    | .ok s' => run cv s' ds
    | .error e => .error e

/-- `preprocess_initial_file`: run the lines, then require an empty stack -/
def runFile (cv : Macros → List CTok → Except CondErr Bool) (m : Macros) (ds : List Dir) : Except Err St :=
  match run cv ⟨[], m, []⟩ ds with
  | .ok s => if s.chain.isEmpty then .ok s else .error (.chain unfinishedErr)
  | .error e => .error e

/-- the executable instance -/
def runReal (m : Macros) (ds : List Dir) : Except Err St := runFile condValue m ds

end RsslVerif.Model.CondChain
